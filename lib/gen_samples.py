"""gen_samples.py - seeded generator of sample sets (the C01 input space) and their FASTA presentations.

A sample set is a list of (sample_name, [(contig_header, sequence_string)]).  Sequences are upper-case strings
over the IUPAC alphabet (ACGTN RYSWKMBDHVU); every random choice comes from the rng handed in.
write_case() lays a set out as a case directory: one FASTA per sample (multi-file mode) or one PanSN FASTA
(single-file mode), plus order.txt (file order) and truth.json (what extraction must return).
"""
import gzip, json, os, random

IUPAC = "ACGTNRYSWKMBDHVU"
CODE = {c: i for i, c in enumerate(IUPAC)}
COMP = {"A": "T", "C": "G", "G": "C", "T": "A"}
NAME_POOL = ["HG002", "HG010", "CHM13", "S9", "S10", "mPanTro3", "a", "Z", "b1", "AAA", "yeast_7", "K12"]


def revcomp(s):
    return "".join(COMP.get(c, c) for c in reversed(s))


def rand_seq(rng, n, alphabet="ACGT"):
    return "".join(rng.choice(alphabet) for _ in range(n))


def mutate(rng, s, div, iupac_rate=0.0, nrun_rate=0.0):
    out = []
    i = 0
    n = len(s)
    while i < n:
        x = rng.random()
        if x < div * 0.6:
            out.append(rng.choice("ACGT"))            # SNP
        elif x < div * 0.8:
            pass                                       # deletion
        elif x < div:
            out.append(s[i]); out.append(rand_seq(rng, rng.randint(1, 6)))  # insertion
        elif x < div + iupac_rate:
            out.append(rng.choice(IUPAC[4:]))
        elif x < div + iupac_rate + nrun_rate:
            out.append("N" * rng.choice([1, 2, 3, 4, 5, 6, 9, 40]))
        else:
            out.append(s[i])
        i += 1
    return "".join(out)


def gen_set(rng, nsamples=None, ncontigs=None, clen=None, div=None, shape=None):
    """shape: None | 'many_short' (>= 800 contigs shorter than k: raw groups with > 50 entries)
                   | 'big_group' (many samples sharing LZ groups: > 50 / > 100 deltas per group)"""
    nsamples = nsamples or rng.choice([1, 2, 2, 3, 3, 4, 6])
    ncontigs = ncontigs or rng.choice([1, 1, 2, 3, 5])
    clen = clen or rng.choice([300, 800, 1500, 3000])
    div = rng.choice([0.0, 0.001, 0.01, 0.03, 0.1]) if div is None else div
    base = []
    for c in range(ncontigs):
        L = max(1, int(clen * rng.uniform(0.5, 1.5)))
        s = rand_seq(rng, L)
        if rng.random() < 0.3:                          # internal repeat
            p = rng.randrange(L); q = rng.randrange(L)
            seg = s[p:p + rng.randint(20, 200)]
            s = s[:q] + seg + s[q:]
        if rng.random() < 0.3:                          # N-runs in the COMMON ancestor: reference and samples share
            for _ in range(rng.randint(1, 3)):          # them, with variants close by (a seeded LZ change that let a
                q = rng.randrange(len(s))               # match extend backwards through a shared N-run needed this)
                s = s[:q] + "N" * rng.choice([4, 5, 8, 12, 40]) + s[q:]
        base.append(s)
    samples = []
    for si in range(nsamples):
        contigs = []
        order = list(range(ncontigs))
        if si > 0 and rng.random() < 0.2:
            rng.shuffle(order)
        for c in order:
            if si > 0 and rng.random() < 0.1:
                continue                                # contig absent
            s = base[c]
            if si > 0:
                kind = rng.random()
                if kind < 0.1:
                    pass                                # identical
                else:
                    s = mutate(rng, s, div, iupac_rate=rng.choice([0, 0, 0.002, 0.01]),
                               nrun_rate=rng.choice([0, 0, 0.001]))
                if rng.random() < 0.15:
                    s = revcomp(s)                      # whole-contig reverse complement
            elif rng.random() < 0.3:
                s = mutate(rng, s, 0.0, iupac_rate=rng.choice([0, 0.002]), nrun_rate=rng.choice([0, 0.001]))
            if not s:
                s = "A"
            contigs.append((f"chr{c}" + (" desc field %d" % c if rng.random() < 0.3 else ""), s))
        if si > 0 and rng.random() < 0.15:
            contigs.append((f"extra{si}", rand_seq(rng, rng.choice([1, 5, 17, 40, 400]))))
        if si > 0 and rng.random() < 0.1 and contigs:
            contigs.append((f"dup{si}", contigs[0][1]))  # duplicated contig under another name
        if rng.random() < 0.2:
            contigs.append((f"short{si}", rand_seq(rng, rng.randint(1, 8), "ACGTN")))
        if not contigs:
            contigs.append(("only", rand_seq(rng, 50)))
        samples.append((f"S{si:03d}", contigs))
    if rng.random() < 0.35 and len(samples) <= len(NAME_POOL):
        # sample names whose order in the input is NOT their sorted order (the pipeline sorts by sample name in
        # places; file/priority order and name order then differ); the first sample stays the reference
        names = rng.sample(NAME_POOL, len(samples))
        samples = [(nm, cs) for nm, (_, cs) in zip(names, samples)]
    if shape == "many_short":
        extra = [(f"t{j}", rand_seq(rng, rng.randint(1, 7), "ACGTNRY")) for j in range(rng.choice([820, 1700]))]
        samples[-1] = (samples[-1][0], samples[-1][1] + extra)
    return samples


def gen_big_group(rng, nsamples, clen=600, div=0.01):
    """nsamples samples of one contig each, all close to one base: one LZ group gets nsamples-1 deltas"""
    base = rand_seq(rng, clen)
    return [(f"S{si:03d}", [("chr0", base if si == 0 else mutate(rng, base, div))]) for si in range(nsamples)]


def render_fasta(contigs, width=60, eol="\n", case="upper", sample_prefix=None):
    out = []
    for name, seq in contigs:
        hdr = name if sample_prefix is None else f"{sample_prefix}#{name}"
        out.append(">" + hdr + eol)
        s = seq if case == "upper" else (seq.lower() if case == "lower" else
                                         "".join(c.lower() if i % 3 else c for i, c in enumerate(seq)))
        for i in range(0, len(s), width):
            out.append(s[i:i + width] + eol)
    return "".join(out)


def write_case(dirpath, samples, mode="multi", width=60, eol="\n", case="upper", gz=False):
    """mode 'multi': one file per sample named <sample>.fa ; 'single': one PanSN file all.fa whose headers are
    <sample>#<hap>#<contig>.  truth.json: [[sample, [[contig_name, seq], ...]], ...] as extraction must return."""
    os.makedirs(dirpath, exist_ok=True)
    order = []
    truth = []
    if mode == "multi":
        for name, contigs in samples:
            fn = name + ".fa" + (".gz" if gz else "")
            data = render_fasta(contigs, width, eol, case).encode()
            with (gzip.open if gz else open)(os.path.join(dirpath, fn), "wb") as f:
                f.write(data)
            order.append(fn)
            truth.append([name, [[c, s] for c, s in contigs]])
    else:
        fn = "all.fa" + (".gz" if gz else "")
        parts = []
        for name, contigs in samples:
            parts.append(render_fasta(contigs, width, eol, case, sample_prefix=f"{name}#1"))
            # single-file mode: the sample is <name>#<hap>, the contig keeps its whole header line
            truth.append([f"{name}#1", [[f"{name}#1#{c}", s] for c, s in contigs]])
        with (gzip.open if gz else open)(os.path.join(dirpath, fn), "wb") as f:
            f.write("".join(parts).encode())
        order.append(fn)
    with open(os.path.join(dirpath, "order.txt"), "w") as f:
        f.write("\n".join(order) + "\n")
    with open(os.path.join(dirpath, "truth.json"), "w") as f:
        json.dump(truth, f)
    return truth


def rand_params(rng, small=True):
    k = rng.choice([9, 11, 15, 21, 31, 32]) if small else rng.randint(9, 32)
    s = rng.choice([50, 100, 200, 500, 1000, 60000])
    m = rng.choice([15, 18, 20, 25, 32])
    # -l / pack_size: only the sync-round length of single-file mode may depend on it; the format constant written to
    # `params` and used to close packs is 50 whatever the option says (a reader takes the cardinality from params)
    pack = rng.choice([50, 50, 50, 1, 2, 5, 20, 49, 51, 100, 1000])
    threads = rng.choice([1, 2, 3, 4, 8, 16])
    qcap = rng.choice([1 << 31, 1 << 31, 1 << 20, 4096, 600])
    ff = rng.choice([0, 0, 0, 0.1])
    return f"{k},{s},{m},{pack},{threads},{qcap},{ff}"
