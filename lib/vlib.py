"""vlib.py - the common part of every check (see DESIGN.md 3.6).

A property module (checks/cXX.py) supplies:
  PROP            "C20"
  AREAS           translator areas whose Consts_<area>.v the proofs depend on
  THEOREMS        names of the pinned property theorems in coq/props/CXX.v (Print Assumptions under each)
  gen_cases(rng, tier) -> list[str]                 correspondence cases (one per line)
  nontrivial(case, impl_line) -> bool               for the evidence counts
  oracle(case, impl_line) -> None | str             the property's own verdict on the *implementation's*
                                                    answer, computed independently of the Coq model
                                                    (None = holds / not decidable from this case,
                                                     str  = what fails)
  search(ctx, budget) -> list[(case, impl_line, why)]   larger targeted search on the implementation only
  (optional) extra_checks(ctx) -> list of (kind, detail, case)   e.g. CLI level runs
"""
import time
import hashlib, json, os, random, re, subprocess, sys, time, shutil, concurrent.futures as cf

VERIF = os.path.dirname(os.path.dirname(os.path.abspath(__file__)))
REPO = os.environ.get("VERIF_REPO", "/repo")
COQ = os.path.join(VERIF, "coq")
CACHE = os.path.join(VERIF, ".cache")
NPROC = int(os.environ.get("VERIF_JOBS", "16"))
GUARD = "ragc_verif"

ALLOWED_AXIOMS = {
    # axioms declared by Coq's standard library; each is named in the trusted base when it appears
    "functional_extensionality_dep", "FunctionalExtensionality.functional_extensionality_dep",
    "proof_irrelevance", "ProofIrrelevance.proof_irrelevance",
    "classic", "Classical_Prop.classic",
    "JMeq_eq", "JMeq.JMeq_eq",
    "Eqdep.Eq_rect_eq.eq_rect_eq", "eq_rect_eq",
    # Coq's axiomatisation of the real numbers (Reals / ClassicalDedekindReals), pulled in by Flocq in C12F only
    "ClassicalDedekindReals.sig_not_dec", "sig_not_dec",
    "ClassicalDedekindReals.sig_forall_dec", "sig_forall_dec",
}
FORBIDDEN = re.compile(
    r"\b(Admitted|admit|Axiom|Axioms|Parameter|Parameters|Conjecture|Admit Obligations|"
    r"Unset Guard Checking|Unset Positivity Checking|Unset Universe Checking|bypass_check|"
    r"type-in-type|impredicative-set)\b")


def sh(cmd, timeout=None, cwd=None, env=None, inp=None, merge_stderr=True):
    e = dict(os.environ)
    e.update({"CARGO_NET_OFFLINE": "true"})
    # glibc malloc tuning for every child (the real ragc spends 10-30 s per create page-faulting fresh zstd
    # level-19 contexts in this VM; with these thresholds 0.2-1.3 s, byte-identical output)
    e.setdefault("GLIBC_TUNABLES",
                 "glibc.malloc.mmap_threshold=4294967296:glibc.malloc.trim_threshold=4294967296")
    if env:
        e.update(env)
    try:
        p = subprocess.run(cmd, shell=isinstance(cmd, str), cwd=cwd, env=e, input=inp,
                           stdout=subprocess.PIPE,
                           stderr=subprocess.STDOUT if merge_stderr else subprocess.DEVNULL,
                           timeout=timeout, text=True, errors="replace")
        return p.returncode, p.stdout
    except subprocess.TimeoutExpired as ex:
        out = ex.stdout or ""
        if isinstance(out, bytes):
            out = out.decode(errors="replace")
        return 124, out + "\n[timeout]"


# ------------------------------------------------------------------------------------------ Coq side
def regen_consts():
    rc, out = sh([sys.executable, os.path.join(VERIF, "translator/gen_consts.py"), "--repo", REPO], timeout=120)
    if rc != 0:
        raise SystemExit("translator failed:\n" + out)
    return json.load(open(os.path.join(COQ, "gen/translator_report.json")))


def strip_coq_comments(s):
    out, depth, i = [], 0, 0
    while i < len(s):
        if s.startswith("(*", i):
            depth += 1; i += 2
        elif s.startswith("*)", i) and depth:
            depth -= 1; i += 2
        else:
            if depth == 0:
                out.append(s[i])
            i += 1
    return "".join(out)


def dep_closure(prop):
    """the .v files props/<prop>.v transitively depends on (within coq/), from the Require lines"""
    index = {}
    for d in ["gen", "model", "proofs", "props", "spec"]:
        dd = os.path.join(COQ, d)
        if os.path.isdir(dd):
            for f in os.listdir(dd):
                if f.endswith(".v"):
                    index[f[:-2]] = os.path.join(dd, f)
    seen, todo = set(), [os.path.join(COQ, "props", f"{prop}.v")]
    while todo:
        p = todo.pop()
        if p in seen or not os.path.exists(p):
            continue
        seen.add(p)
        txt = strip_coq_comments(open(p, errors="replace").read())
        for m in re.finditer(r"(?:From\s+Ragc\s+)?Require\s+(?:Import|Export)?\s*([^.]*(?:\.[A-Za-z_][^.]*)*)\.", txt):
            for w in re.split(r"\s+", m.group(1)):
                w = w.split(".")[-1]
                if w in index:
                    todo.append(index[w])
    return sorted(seen)


def scan_forbidden(prop=None):
    bad = []
    if prop:
        files_to_scan = dep_closure(prop)
        ext = os.path.join(COQ, "extract", f"Extract{prop}.v")
        if os.path.exists(ext):
            files_to_scan.append(ext)
    else:
        files_to_scan = [os.path.join(r, f) for r, _, fs in os.walk(COQ) for f in fs if f.endswith(".v") and "/_b" not in r]
    for p in files_to_scan:
        for f in [os.path.basename(p)]:
            if f.endswith(".v"):
                txt = strip_coq_comments(open(p, errors="replace").read())
                txt = re.sub(r'"[^"]*"', '""', txt)
                for m in FORBIDDEN.finditer(txt):
                    bad.append(f"{os.path.relpath(p, VERIF)}: {m.group(0)}")
                # Variable/Hypothesis outside a section
                depth = 0
                for line in txt.split("\n"):
                    s = line.strip()
                    if re.match(r"Section\s+\w+\s*\.", s):
                        depth += 1
                    elif re.match(r"End\s+\w+\s*\.", s) and depth:
                        depth -= 1
                    elif depth == 0 and re.match(r"(Variable|Variables|Hypothesis|Hypotheses|Context)\b", s):
                        bad.append(f"{os.path.relpath(p, VERIF)}: section-less {s[:40]}")
    for f in ["_CoqProject"]:
        txt = open(os.path.join(COQ, f)).read()
        if re.search(r"type-in-type|impredicative-set|-vos|-vok|bypass", txt):
            bad.append(f"{f}: weakening flag")
    return bad


def ensure_makefile():
    """_CoqProject lists every .v under gen model proofs props spec; regenerate when the set changes."""
    hdr = ["-Q gen Ragc", "-Q model Ragc", "-Q proofs Ragc", "-Q props Ragc", "-Q spec Ragc",
           "-arg -w -arg -notation-overridden,-deprecated-hint-without-locality,-deprecated-instance-without-locality,-deprecated-syntactic-definition"]
    files = []
    for d in ["gen", "model", "proofs", "props", "spec"]:
        dd = os.path.join(COQ, d)
        if os.path.isdir(dd):
            files += sorted(f"{d}/{f}" for f in os.listdir(dd) if f.endswith(".v") and not f.startswith("."))
    txt = "\n".join(hdr + files) + "\n"
    pp = os.path.join(COQ, "_CoqProject")
    if not os.path.exists(pp) or open(pp).read() != txt or not os.path.exists(os.path.join(COQ, "Makefile")):
        open(pp, "w").write(txt)
        rc, out = sh("coq_makefile -f _CoqProject -o Makefile", cwd=COQ, timeout=60)
        if rc != 0:
            raise SystemExit("coq_makefile failed:\n" + out)


def coq_make(targets, clean=False, timeout=3000):
    ensure_makefile()
    if clean:
        sh("make clean", cwd=COQ, timeout=300)
    # coqc under an address-space limit: a mistyped numeral (a big literal read as nat) once took 60 GB
    rc, out = sh("ulimit -v 25000000; exec make -j%d -k %s" % (NPROC, " ".join(targets)), cwd=COQ, timeout=timeout)
    return rc == 0, out


def coq_error_summary(out):
    m = re.findall(r'File "([^"]+)", line (\d+)[^\n]*\n((?:(?!COQC|make).*\n){0,12})', out)
    return [{"file": f, "line": int(l), "msg": " ".join(t.split())[:400]} for f, l, t in m][:6]


def props_assumptions(prop):
    """re-run coqc on props/CXX.v (always, even when cached) and collect every Print Assumptions block."""
    vfile = os.path.join(COQ, "props", f"{prop}.v")
    args = ["coqc", "-Q", "gen", "Ragc", "-Q", "model", "Ragc", "-Q", "proofs", "Ragc", "-Q", "props", "Ragc",
            "-Q", "spec", "Ragc", "-w", "-notation-overridden,-deprecated-hint-without-locality,-deprecated-instance-without-locality,-deprecated-syntactic-definition", f"props/{prop}.v"]
    rc, out = sh("ulimit -v 25000000; exec " + " ".join("'%s'" % a for a in args), cwd=COQ, timeout=900)
    src = strip_coq_comments(open(vfile).read())
    names = re.findall(r"Print Assumptions\s+([A-Za-z0-9_'.]+)\s*\.", src)
    blocks = []
    # output: either "Closed under the global context" or "Axioms:\n name : type ..."
    parts = re.split(r"(?m)^(Closed under the global context|Axioms:|Section Variables:)", out)
    cur = None
    i = 1
    while i < len(parts):
        tag, body = parts[i], parts[i + 1] if i + 1 < len(parts) else ""
        if tag == "Closed under the global context":
            blocks.append([])
        elif tag == "Axioms:":
            axs = re.findall(r"(?m)^([A-Za-z_][A-Za-z0-9_'.]*)\s*:", body)
            blocks.append(axs)
        elif tag == "Section Variables:":
            blocks.append(["<section variable left open>"])
        i += 2
    res = {}
    for n, b in zip(names, blocks):
        res[n] = b
    ok = rc == 0 and len(names) == len(blocks)
    return ok, res, out


# ------------------------------------------------------------------------------------------ builds
def tree_hash(paths):
    h = hashlib.sha256()
    for p in paths:
        if os.path.isdir(p):
            for root, _, files in sorted(os.walk(p)):
                if "/_b" in root:
                    continue
                for f in sorted(files):
                    if f.endswith((".v", ".ml", ".rs", ".toml", ".py")):
                        h.update(f.encode()); h.update(open(os.path.join(root, f), "rb").read())
        elif os.path.exists(p):
            h.update(open(p, "rb").read())
    return h.hexdigest()


def build_driver(p):
    """extract the model and build ocaml/<p>/driver (cached on the content of gen+model+extract+driver)."""
    p = p.lower()
    d = os.path.join(VERIF, "ocaml", p)
    key = tree_hash([os.path.join(COQ, "gen"), os.path.join(COQ, "model"), os.path.join(COQ, "spec"),
                     os.path.join(COQ, "extract", f"Extract{p.upper()}.v"), d,
                     os.path.join(VERIF, "ocaml/common")])
    stamp = os.path.join(d, "_b", "stamp")
    if os.path.exists(stamp) and open(stamp).read() == key and os.path.exists(os.path.join(d, "driver")):
        return True, "cached"
    # model .vo files must exist
    rc, out = sh([os.path.join(VERIF, "bin/build_driver"), p], timeout=1200)
    if rc == 0:
        open(stamp, "w").write(key)
    return rc == 0, out


def target_dir(profile):
    return os.path.join(CACHE, "target-" + ("rel" if profile == "release" else "dev"))


def build_harness(profile="dev", prop=None):
    """cargo build of harness/ (one binary per property: src/bin/cXX.rs) against /repo's working tree"""
    env = {"CARGO_TARGET_DIR": target_dir(profile), "RUSTFLAGS": f"--cfg {GUARD}"}
    ct = os.path.join(VERIF, "harness/Cargo.toml")
    txt = open(ct).read()
    want = re.sub(r'path = "[^"]*/(ragc-core|ragc-common)"', lambda m: f'path = "{REPO}/{m.group(1)}"', txt)
    if want != txt:
        open(ct, "w").write(want)
    lock = os.path.join(VERIF, "harness/Cargo.lock")
    if not os.path.exists(lock):
        shutil.copy(os.path.join(REPO, "Cargo.lock"), lock)
    cmd = ["cargo", "build", "--offline"] + (["--release"] if profile == "release" else [])
    if prop:
        cmd += ["--bin", prop.lower()]
    rc, out = sh(cmd, cwd=os.path.join(VERIF, "harness"), env=env, timeout=1800)
    return rc == 0, out


def harness_bin(name, profile="dev"):
    return os.path.join(target_dir(profile), "release" if profile == "release" else "debug", name)


def build_cli(profile="release"):
    """the real `ragc` binary from /repo's working tree (hooks off: it is the shipped program)"""
    td = os.path.join(CACHE, "target-cli-" + ("rel" if profile == "release" else "dev"))
    cmd = ["cargo", "build", "--offline", "-p", "ragc-cli"] + (["--release"] if profile == "release" else [])
    rc, out = sh(cmd, cwd=REPO, env={"CARGO_TARGET_DIR": td}, timeout=1800)
    return rc == 0, out, os.path.join(td, "release" if profile == "release" else "debug", "ragc")


# ------------------------------------------------------------------------------------------ running cases
def _run_watch(cmd, casefile, timeout, stall):
    """run `cmd casefile` with stdout in a file; kill it when the whole run exceeds `timeout` or when no new output has
    appeared for `stall` seconds (every harness and driver flushes one line per case, so a silent process is stuck
    on ONE case: a hang must cost minutes, not the whole budget).  Returns (rc, stdout text); rc 124 = killed."""
    e = dict(os.environ)
    e.update({"CARGO_NET_OFFLINE": "true"})
    e.setdefault("GLIBC_TUNABLES",
                 "glibc.malloc.mmap_threshold=4294967296:glibc.malloc.trim_threshold=4294967296")
    outp = casefile + ".out"
    with open(outp, "wb") as fo:
        pr = subprocess.Popen(cmd + [casefile], stdout=fo, stderr=subprocess.DEVNULL, env=e, start_new_session=True)
        t0 = last = time.time()
        size = 0
        rc = None
        while True:
            try:
                rc = pr.wait(timeout=0.5)
                break
            except subprocess.TimeoutExpired:
                pass
            now = time.time()
            sz = os.path.getsize(outp)
            if sz != size:
                size, last = sz, now
            if now - t0 > timeout or now - last > stall:
                try:
                    os.killpg(pr.pid, 9)
                except OSError:
                    pr.kill()
                pr.wait()
                rc = 124
                break
    out = open(outp, errors="replace").read()
    os.unlink(outp)
    return rc, out


def _run_shard(args):
    cmd, lines, timeout = args
    import tempfile
    stall = int(os.environ.get("VERIF_STALL", max(300, timeout // 3)))
    res = []
    rest = list(lines)
    while rest:
        with tempfile.NamedTemporaryFile("w", suffix=".cases", delete=False, dir=os.path.join(CACHE, "tmp")) as f:
            f.write("\n".join(rest) + "\n")
            name = f.name
        try:
            rc, out = _run_watch(cmd, name, timeout, stall)
        finally:
            os.unlink(name)
        got = out.split("\n")
        complete = got[:-1]                       # the piece after the last newline is "" or a torn line
        if rc == 0 and len(complete) == len(rest):
            res += complete
            break
        if rc == 0 or len(complete) >= len(rest):
            # exit 0 with a wrong number of lines: alignment is unknown, rerun line by line
            for l in rest:
                with open(name, "w") as f:
                    f.write(l + "\n")
                rc1, o1 = _run_watch(cmd, name, max(30, timeout // 4), stall)
                o1 = o1.strip("\n").split("\n")
                res.append(o1[0] if (rc1 == 0 and len(o1) == 1) else f"CRASH rc={rc1} {' '.join(o1)[-200:]}")
                os.unlink(name)
            break
        # a crash (abort, stack overflow, exit) or a hang (killed: rc 124) on case number len(complete): keep the
        # answers before it, record the culprit, go on with the cases after it
        k = len(complete)
        if rc == 3 and k > 0:
            # harness convention (c06): the case's own line (HANG ...) was printed, then exit(3) because the stuck
            # threads cannot be joined: that line IS the answer of case k-1; go on after it
            res += complete
            rest = rest[k:]
            continue
        res += complete
        res.append(f"CRASH rc={rc} {'no output for %d s or run over %d s (hang): killed' % (stall, timeout) if rc == 124 else ''} {got[-1][-200:]}".strip())
        rest = rest[k + 1:]
    return res


def run_cases(cmd, cases, timeout=900, shards=None):
    """run `cmd <file>` over the cases, sharded over NPROC processes; returns one result line per case"""
    os.makedirs(os.path.join(CACHE, "tmp"), exist_ok=True)
    if not cases:
        return []
    n = shards or min(NPROC, max(1, len(cases) // 4))
    chunks = [cases[i::n] for i in range(n)]
    with cf.ThreadPoolExecutor(max_workers=n) as ex:
        outs = list(ex.map(_run_shard, [(cmd, c, timeout) for c in chunks]))
    res = [None] * len(cases)
    for i, o in enumerate(outs):
        for j, line in enumerate(o):
            res[i + j * n] = line
    return res


def run_impl(prop, cases, profile="dev", timeout=900):
    return run_cases([harness_bin(prop.lower(), profile)], cases, timeout)


def run_model(prop, cases, timeout=900):
    return run_cases([os.path.join(VERIF, "ocaml", prop.lower(), "driver")], cases, timeout)


# ------------------------------------------------------------------------------------------ findings / output
def load_known():
    p = os.path.join(VERIF, "known_findings.json")
    return json.load(open(p)) if os.path.exists(p) else {"findings": []}


def write_replay(prop, payload):
    os.makedirs(os.path.join(VERIF, "replays"), exist_ok=True)
    h = hashlib.sha256(json.dumps(payload, sort_keys=True).encode()).hexdigest()[:12]
    path = os.path.join(VERIF, "replays", f"{prop}-{h}.json")
    with open(path, "w") as f:
        json.dump(payload, f, indent=1)
    return os.path.relpath(path, VERIF)


def write_evidence(prop, tier, seed, coverage, assumptions, wall, violations):
    os.makedirs(os.path.join(VERIF, "evidence"), exist_ok=True)
    ev = {"property_id": prop, "tier": tier, "seed": seed, "level": "proof", "coverage": coverage,
          "assumptions": assumptions, "wall_s": round(wall, 2), "violations": violations}
    with open(os.path.join(VERIF, "evidence", f"{prop}.json"), "w") as f:
        json.dump(ev, f, indent=1)
    return ev
