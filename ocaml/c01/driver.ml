(* C01 driver (contig level, coq/model/Pipeline.v).  Cases (built by checks/c01.py: model_cases from the real
   run's answer and the case directory's truth.json):
     dt <k> <spl> P <sample> <contig> <input> <descs> P ...
        spl   = comma separated hex u64 ("-" = empty): the splitter set the real compressor was given
        P ... = one pushed contig, in push order; names and input codes in hex; descs = "." or the REAL
                descriptor list of that contig g:id:rc:len,g:id:rc:len,... (read back from the real archive)
        The decision per raw segment is inferred from the real descriptors (lengths and flags), the model's
        create is run with those decisions, the real addresses and the registrations in reverse order, the
        model's extract_all is run over a store that returns the model's own stored bytes, and everything is
        printed in the harness format:
          OK k=<k> spl=<spl> S <sample> C <contig> D g:id:rc:len:<stored> .. X <contig> ..  | <statistics>
     dp P <sample> <contig> ...   only the push-time registration: REGISTERED | CREATE-ERR duplicate *)
open Model
open Util

let dec_of_n (x : n) : string = string_of_int (int_of_string ("0x" ^ hex_of_n x))
let n_of_dec (s : string) : n = n_of_hex (Printf.sprintf "%x" (int_of_string s))
let b2s b = if b then "1" else "0"
let len l = List.length l

(* CollectionV3::extract_contig_name: first whitespace separated word (only used for an empty sample name) *)
let ecn (c : n list) : n list =
  let is_ws b = let v = int_of_n b in v = 32 || (v >= 9 && v <= 13) in
  let rec drop = function x :: r when is_ws x -> drop r | l -> l in
  let rec take = function x :: r when not (is_ws x) -> x :: take r | _ -> [] in
  match take (drop c) with [] -> c | w -> w

type rdesc = { g : n; id : n; rc : bool; l : int }
type pushed = { s : n list; c : n list; inp : n list; descs : rdesc array }

let parse_descs (t : string) : rdesc array =
  if t = "." then [||] else
    Array.of_list (List.map (fun x ->
        match String.split_on_char ':' x with
        | [g; i; r; l] -> { g = n_of_dec g; id = n_of_dec i; rc = (r = "1"); l = int_of_string l }
        | _ -> failwith "bad descriptor") (String.split_on_char ',' t))

let rec parse_pushes = function
  | [] -> []
  | "P" :: s :: c :: i :: d :: rest ->
    { s = bytes_of_hex s; c = bytes_of_hex c; inp = bytes_of_hex i; descs = parse_descs d } :: parse_pushes rest
  | _ -> failwith "bad push list"

exception Infer_fail of string

(* the decision per raw segment, read off the real descriptors of the contig *)
let infer (k : int) (segs : segment list) (d : rdesc array) : decision array =
  let nd = Array.length d in
  let p = ref 0 in
  let hc = int_of_nat (half_ceil (nat_of_int k)) in
  let res = List.mapi (fun j sg ->
      let lj = len (sdata sg) in
      if !p >= nd then raise (Infer_fail (Printf.sprintf "segment %d: no descriptor left" j));
      let both = both_kmers sg in
      if d.(!p).l = lj then begin
        let flag = d.(!p).rc in
        incr p;
        if both && should_reverse sg false <> flag then AssignL (false, flag) else Plain flag
      end else if !p + 1 < nd && d.(!p).l + d.(!p + 1).l = lj + k then begin
        let a = d.(!p).l and b = d.(!p + 1).l in
        let f0 = d.(!p).rc and f1 = d.(!p + 1).rc in
        p := !p + 2;
        let sr = should_reverse sg false in
        (* forward prefix has part n: not reversed it is the code's left half, reversed its right half *)
        let s2 = if sr then b - k else a - k in
        if s2 < 0 then raise (Infer_fail (Printf.sprintf "segment %d: half shorter than k" j));
        let lf, rf = if sr then f1, f0 else f0, f1 in
        Split (false, nat_of_int (s2 + hc), lf, rf)
      end else
        raise (Infer_fail (Printf.sprintf "segment %d of length %d: descriptor lengths do not fit" j lj))) segs in
  if !p <> nd then raise (Infer_fail "descriptors left over");
  Array.of_list res

let () = run_lines (function
  | "dp" :: rest ->
    let ps = parse_pushes rest in
    (match register_all ecn [] (List.map (fun p -> ((p.s, p.c), p.inp)) ps) with
     | Ok _ -> "REGISTERED" | Err -> "CREATE-ERR duplicate" | Panic -> "PANIC")
  | "dt" :: ks :: spl :: rest ->
    let ki = int_of_string ks in
    let k = n_of_int ki in
    let tbl = Hashtbl.create 64 in
    if spl <> "-" then List.iter (fun h -> Hashtbl.replace tbl (hex_of_n (n_of_hex h)) ()) (String.split_on_char ',' spl);
    let splitters v = Hashtbl.mem tbl (hex_of_n v) in
    let ps = Array.of_list (parse_pushes rest) in
    (try
       let segs = Array.map (fun p -> split_at_splitters_with_size p.inp splitters k N0) ps in
       let decs = Array.mapi (fun i p ->
           try infer ki segs.(i) p.descs
           with Infer_fail m -> raise (Infer_fail (Printf.sprintf "contig %d: %s" i m))) ps in
       (* decisions_ok, evaluated on the inferred decisions *)
       Array.iteri (fun i sl ->
           List.iteri (fun j sg ->
               if not (decision_okb (nat_of_int ki) sg decs.(i).(j)) then
                 raise (Infer_fail (Printf.sprintf "DECISIONS-NOT-OK contig %d segment %d" i j))) sl) segs;
       let dec i j =
         let i = int_of_nat i and j = int_of_nat j in
         if i < Array.length decs && j < Array.length decs.(i) then decs.(i).(j) else Plain false in
       let addr i part =
         let i = int_of_nat i and part = int_of_nat part in
         if i < Array.length ps && part < Array.length ps.(i).descs
         then (ps.(i).descs.(part).g, ps.(i).descs.(part).id) else (N0, N0) in
       let pushes = Array.to_list (Array.map (fun p -> ((p.s, p.c), p.inp)) ps) in
       match create ecn k splitters N0 dec addr List.rev pushes with
       | Err -> "CREATE-ERR duplicate"
       | Panic -> "PANIC"
       | Ok (coll, stored) ->
         let get d = match List.find_opt (fun (d', _) -> desc_eqb d d') stored with
           | Some (_, b) -> Ok b | None -> Err in
         (match extract_all get k coll with
          | Err -> "EXTRACT-ERR" | Panic -> "PANIC"
          | Ok samples ->
            let buf = Buffer.create 65536 in
            Buffer.add_string buf (Printf.sprintf "OK k=%d spl=%s" ki spl);
            List.iter2 (fun (sn, contigs) (sn', xs) ->
                if sn <> sn' then failwith "sample order";
                Buffer.add_string buf (" S " ^ hex_of_bytes sn);
                List.iter2 (fun (cn, ds) (cn', x) ->
                    if cn <> cn' then failwith "contig order";
                    Buffer.add_string buf (" C " ^ hex_of_bytes cn);
                    List.iter (fun d ->
                        let b = match get d with Ok b -> hex_of_bytes b | _ -> "?" in
                        Buffer.add_string buf (Printf.sprintf " D %s:%s:%s:%s:%s" (dec_of_n d.d_group)
                                                 (dec_of_n d.d_id) (b2s d.d_rc) (dec_of_n d.d_len) b)) ds;
                    Buffer.add_string buf (" X " ^ hex_of_bytes x)) contigs xs) coll samples;
            (* statistics for the evidence *)
            let nseg = ref 0 and plain = ref 0 and split = ref 0 and rsplit = ref 0 and reor = ref 0
            and iupac = ref 0 and assign = ref 0 and rcplain = ref 0 in
            Array.iteri (fun i sl -> List.iteri (fun j sg ->
                incr nseg;
                match decs.(i).(j) with
                | Plain f -> incr plain; if f then incr rcplain
                | AssignL _ | AssignR _ -> incr assign
                | Split (_, _, lf, rf) ->
                  incr split;
                  let sr = should_reverse sg false in
                  if sr then incr rsplit;
                  if lf <> sr || rf <> sr then begin
                    incr reor;
                    (* a half that went through reverse_complement_sequence and holds a code >= 4 *)
                    (match seg_pieces (nat_of_int ki) sg decs.(i).(j) O with
                     | Ok pcs ->
                       if List.exists (fun pc -> pc.p_rc <> sr && List.exists (fun b -> int_of_n b >= 4) pc.p_data) pcs
                       then incr iupac
                     | _ -> ())
                  end) sl) segs;
            Buffer.add_string buf (Printf.sprintf " | segs=%d plain=%d rcplain=%d split=%d rsplit=%d reoriented=%d iupac_reoriented=%d assign=%d"
                                     !nseg !plain !rcplain !split !rsplit !reor !iupac !assign);
            Buffer.contents buf)
     with Infer_fail m -> "INFER-FAIL " ^ m)
  | ["NOTRACE"] -> "NOTRACE"
  | _ -> "DRIVER-ERROR bad case")
