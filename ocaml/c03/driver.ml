(* C03 driver (catalogue codec).  Case language (one case per line; see checks/c03.py for the generator):
   cv <nhex> <resthex>            CollectionVarInt encode n, then decode (enc ++ rest)
   cvd <hex>                      CollectionVarInt decode of arbitrary bytes
   zz <xhex> <phex> / zzd <v> <p> zigzag_encode then zigzag_decode / zigzag_decode alone
   zi <[-]hex> / zid <hex>        i64 zigzag (signed values as [-]hex)
   utf8 <hex>                     String::from_utf8 ok?, from_utf8_lossy
   split <hex> / esplit <p> <c>   split_string / encode_split (when the field counts agree)
   names <table>                  register, serialize_contig_names, deserialize into a fresh collection
   dnames <n> <i_sample> <hex>    deserialize_contig_names of arbitrary bytes into n empty samples
   snames <h,h,..> / dsnames <hex>  sample names
   details <ss> <k> <table>       add_segment_placed, serialize_contig_details, deserialize into a fresh collection
   ddetails <ss> <k> <structure> <i_sample> <h0> <h1> <h2> <h3> <h4>
   coll <ss> <k> <bs> <ops..>     register/add ops, store in batches of bs into an archive, load all
   tables: names  = samples joined by '/', sample = '_' | hexnames joined by ',' ; '~' = no samples
           segs   = samples joined by '/', sample = '_' | contigs joined by '|', contig = '.' | segs joined by ',',
                    seg = g:i:r:l (decimal) *)
open Model
open Util

let dec_of_n (x : n) : string =
  (* decimal of an N (values here are < 2^64; OCaml int is 63-bit, so go through hex for the big ones) *)
  let h = hex_of_n x in
  if String.length h <= 15 then string_of_int (int_of_string ("0x" ^ h))
  else failwith "dec_of_n: value too large"
let n_of_dec (s : string) : n =
  (* decimal < 2^63 *)
  n_of_hex (Printf.sprintf "%x" (int_of_string s))
let split_on c s = if s = "" then [] else String.split_on_char c s
let hexl l = hex_of_bytes l
let out f = function Ok v -> f v | Err -> "ERR" | Panic -> "PANIC"

(* ---- tables *)
let names_of_token (t : string) : n list list list =
  if t = "~" then [] else
    List.map (fun s -> if s = "_" then [] else List.map bytes_of_hex (split_on ',' s)) (split_on '/' t)
let token_of_names (t : n list list list) : string =
  if t = [] then "~" else
    String.concat "/" (List.map (fun s -> if s = [] then "_" else String.concat "," (List.map hexl s)) t)
let seg_of_string s =
  match String.split_on_char ':' s with
  | [g; i; r; l] -> { sg = n_of_dec g; si = n_of_dec i; src = (r = "1"); sl = n_of_dec l }
  | _ -> failwith "bad seg"
let string_of_seg (s : seg) =
  Printf.sprintf "%s:%s:%s:%s" (dec_of_n s.sg) (dec_of_n s.si) (if s.src then "1" else "0") (dec_of_n s.sl)
let contig_of_string c = if c = "." then [] else List.map seg_of_string (split_on ',' c)
let string_of_contig c = if c = [] then "." else String.concat "," (List.map string_of_seg c)
let segs_of_token (t : string) : seg list list list =
  if t = "~" then [] else
    List.map (fun s -> if s = "_" then [] else List.map contig_of_string (split_on '|' s)) (split_on '/' t)
let token_of_segs (t : seg list list list) : string =
  if t = [] then "~" else
    String.concat "/" (List.map (fun s -> if s = [] then "_" else String.concat "|" (List.map string_of_contig s)) t)

let ascii (s : string) : n list = List.init (String.length s) (fun i -> n_of_int (Char.code s.[i]))
let sname_i i = ascii (Printf.sprintf "s%d" i)
let cname_j j = ascii (Printf.sprintf "c%d" j)

exception Stop of string
let ok = function Ok v -> v | Err -> raise (Stop "ERR") | Panic -> raise (Stop "PANIC")

(* a collection with n samples s0..s(n-1) and no contigs, made by deserialize_sample_names *)
let fresh ss k (names : n list list) : coll =
  ok (deserialize_sample_names (coll_new ss k) (ser_sample_names names))
let fresh_n ss k n = fresh ss k (List.init n sname_i)

let dump_names (c : coll) : string =
  token_of_names (List.map (fun nm ->
      match ok (get_contig_list c nm) with Some l -> l | None -> raise (Stop "LOOKUP")) (get_samples_list c))
let dump_segs (c : coll) : string =
  token_of_segs (List.map (fun nm ->
      match ok (get_sample_desc c nm) with Some l -> List.map snd l | None -> raise (Stop "LOOKUP")) (get_samples_list c))
let dump_full (c : coll) : string =
  let l = get_samples_list c in
  if l = [] then "~" else
    String.concat "/" (List.map (fun nm ->
        hexl nm ^ "=" ^
        (match ok (get_sample_desc c nm) with
         | None -> "?"
         | Some [] -> "_"
         | Some cs -> String.concat "|" (List.map (fun (cn, sg) -> hexl cn ^ "@" ^ string_of_contig sg) cs))) l)

(* signed values travel as [-]hex *)
let z_of_shex (s : string) : z =
  let neg = String.length s > 0 && s.[0] = '-' in
  let m = n_of_hex (if neg then String.sub s 1 (String.length s - 1) else s) in
  match m with N0 -> Z0 | Npos p -> if neg then Zneg p else Zpos p
let shex_of_z (x : z) : string =
  match x with Z0 -> "0" | Zpos p -> hex_of_n (Npos p) | Zneg p -> "-" ^ hex_of_n (Npos p)

let zc _ x = x
let zd x = Some x
let n0 = n_of_int 0

let cvout = out (fun (v, r) -> Printf.sprintf "OK %s %d" (hex_of_n v) (List.length r))
let streams_str ((((s0, s1), s2), s3), s4) = String.concat " " (List.map hexl [s0; s1; s2; s3; s4])

let run = function
  | ["cv"; nh; rest] ->
    let e = cv_encode (n_of_hex nh) in
    hexl e ^ " " ^ cvout (cv_decode (e @ bytes_of_hex rest))
  | ["cvd"; h] -> cvout (cv_decode (bytes_of_hex h))
  | ["zz"; x; p] ->
    let p = n_of_hex p in
    (match zigzag_encode (n_of_hex x) p with
     | Ok v -> hex_of_n v ^ " " ^ out hex_of_n (zigzag_decode v p)
     | _ -> "PANIC")
  | ["zzd"; v; p] -> out hex_of_n (zigzag_decode (n_of_hex v) (n_of_hex p))
  | ["zi"; x] ->
    (match zigzag_encode_i64 (z_of_shex x) with
     | Ok v -> hex_of_n v ^ " " ^ out shex_of_z (zigzag_decode_i64 v)
     | _ -> "PANIC")
  | ["zid"; v] -> out shex_of_z (zigzag_decode_i64 (n_of_hex v))
  | ["utf8"; h] ->
    let b = bytes_of_hex h in
    (if utf8_valid b then "1 " else "0 ") ^ hexl (utf8_lossy b)
  | ["split"; h] -> String.concat "," (List.map hexl (split_sp (bytes_of_hex h)))
  | ["esplit"; p; c] ->
    let p = split_sp (bytes_of_hex p) and c = split_sp (bytes_of_hex c) in
    if List.length p <> List.length c then "NE" else hexl (encode_split p c)
  | ["names"; t] ->
    let t = names_of_token t in
    let n = List.length t in
    (try
       let c = ref (fresh n0 n0 (List.init n sname_i)) in
       List.iteri (fun i s -> List.iter (fun nm -> c := fst (ok (register_sample_contig !c (sname_i i) nm))) s) t;
       let ser = ok (serialize_contig_names !c n0 (n_of_int n)) in
       hexl ser ^ " " ^
       (try
          let c2 = fresh_n n0 n0 n in
          let c2 = ok (deserialize_contig_names c2 ser n0) in
          "OK " ^ dec_of_n c2.no_samples_in_last_batch ^ " " ^ dump_names c2
        with Stop m -> m)
     with Stop m -> m)
  | ["dnames"; n; isamp; h] ->
    (try
       let c = fresh_n n0 n0 (int_of_string n) in
       let c = ok (deserialize_contig_names c (bytes_of_hex h) (n_of_dec isamp)) in
       "OK " ^ dec_of_n c.no_samples_in_last_batch ^ " " ^ dump_names c
     with Stop m -> m)
  | ["snames"; t] ->
    let names = if t = "~" then [] else List.map bytes_of_hex (split_on ',' t) in
    (try
       let c = ref (coll_new n0 n0) in
       List.iter (fun nm -> c := fst (ok (register_sample_contig !c nm (ascii "c")))) names;
       let ser = serialize_sample_names !c in
       hexl ser ^ " " ^
       (try
          let c2 = ok (deserialize_sample_names (coll_new n0 n0) ser) in
          "OK " ^ String.concat "," (List.map hexl (get_samples_list c2))
        with Stop m -> m)
     with Stop m -> m)
  | ["dsnames"; h] ->
    (try
       let c = ok (deserialize_sample_names (coll_new n0 n0) (bytes_of_hex h)) in
       let l = get_samples_list c in
       (* each listed name is looked up again through sample_ids: which index answers? *)
       let c = ref c in
       let look = List.mapi (fun i nm ->
           let (c', fresh) = ok (register_sample_contig !c nm (ascii (Printf.sprintf "k%d" i))) in
           c := c'; if fresh then "T" else "F") l in
       "OK " ^ (if l = [] then "~" else String.concat "," (List.map hexl l)) ^ " " ^ String.concat "" look ^ " " ^ dump_names !c
     with Stop m -> m)
  | ["details"; ss; k; t] ->
    let ss = n_of_dec ss and k = n_of_dec k in
    let t = segs_of_token t in
    let n = List.length t in
    (try
       let mk () =
         let c = ref (fresh_n ss k n) in
         List.iteri (fun i s -> List.iteri (fun j _ -> c := fst (ok (register_sample_contig !c (sname_i i) (cname_j j)))) s) t;
         c in
       let c = mk () in
       List.iteri (fun i s -> List.iteri (fun j ct -> List.iteri (fun p sg ->
           c := ok (add_segment_placed !c (sname_i i) (cname_j j) (n_of_int p) sg)) ct) s) t;
       let ser = ok (serialize_contig_details !c n0 (n_of_int n)) in
       streams_str ser ^ " " ^
       (try
          let c2 = mk () in
          let c2 = ok (deserialize_contig_details !c2 ser n0) in
          "OK " ^ dump_segs c2
        with Stop m -> m)
     with Stop m -> m)
  | ["ddetails"; ss; k; structure; isamp; h0; h1; h2; h3; h4] ->
    let ss = n_of_dec ss and k = n_of_dec k in
    let counts = if structure = "~" then [] else List.map int_of_string (split_on ',' structure) in
    (try
       let c = ref (fresh_n ss k (List.length counts)) in
       List.iteri (fun i cnt -> for j = 0 to cnt - 1 do
                      c := fst (ok (register_sample_contig !c (sname_i i) (cname_j j))) done) counts;
       let v = ((((bytes_of_hex h0, bytes_of_hex h1), bytes_of_hex h2), bytes_of_hex h3), bytes_of_hex h4) in
       let c2 = ok (deserialize_contig_details !c v (n_of_dec isamp)) in
       "OK " ^ dump_segs c2
     with Stop m -> m)
  | "coll" :: ss :: k :: bs :: ops ->
    let ss = n_of_dec ss and k = n_of_dec k and bs = n_of_dec bs in
    let c = ref (coll_new ss k) in
    let res = List.map (fun op ->
        match String.split_on_char ':' op with
        | ["r"; s; ct] ->
          (match register_sample_contig !c (bytes_of_hex s) (bytes_of_hex ct) with
           | Ok (c', b) -> c := c'; if b then "T" else "F"
           | Err -> "E" | Panic -> "P")
        | ["s"; s; ct; pl; g; i; r; l] ->
          (match add_segment_placed !c (bytes_of_hex s) (bytes_of_hex ct) (n_of_dec pl)
                   { sg = n_of_dec g; si = n_of_dec i; src = (r = "1"); sl = n_of_dec l } with
           | Ok c' -> c := c'; "k"
           | Err -> "E" | Panic -> "P")
        | _ -> failwith "bad op") ops in
    let before = (try dump_full !c with Stop m -> m) in
    let after =
      (match store_all zc bs !c arch_empty with
       | Err -> "STORE-ERR" | Panic -> "STORE-PANIC"
       | Ok (cw, a) ->
         (* the writer's contigs are cleared batch by batch *)
         let cleared = List.for_all (fun s -> s.scontigs = []) cw.samples in
         (if cleared then "C " else "N ") ^ string_of_int (List.length a.a_contigs) ^ " " ^
         (match load_all zd ss k a with
          | Err -> "LOAD-ERR" | Panic -> "LOAD-PANIC"
          | Ok cr -> (try "OK " ^ dec_of_n cr.samples_loaded ^ " " ^ dump_full cr with Stop m -> m))) in
    (if res = [] then "-" else String.concat "" res) ^ " " ^ before ^ " " ^ after
  | _ -> "DRIVER-ERROR bad case"

let () = run_lines run
