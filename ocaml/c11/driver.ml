(* C11 driver. cases (contigs = numeric codes in hex, ',' between contigs, '-' = no contig):
   spl <k> <segment_size> <threads> <contigs>
     -> S=<splitters> G=<singletons> D=<duplicates> V=ok L=<segment lengths, ',' inside a contig, ';' between contigs>
        (sets: increasing hex u64 values, ',' separated, '-' = empty; V=ok: the three Rust variants agree - the
         model is one function; the thread count does not exist in the model)
   pair <tag> <k> <segment_size> <t1> <t2> <contigs1> <contigs2>  -> <answer for contigs1> | <answer for contigs2>
   rns <virtual_begin> <values>  -> K=<kept> D=<duplicated>   (remove_non_singletons_with_duplicates; values hex u64)
   cand <k> <contigs>            -> find_candidate_kmers_multi (sorted singletons), for one contig also find_candidate_kmers *)
open Model
open Util
let set_str l = if l = [] then "-" else String.concat "," (List.map hex_of_n l)
let contigs_of s = if s = "-" then [] else List.map bytes_of_hex (String.split_on_char ',' s)
let answer k seg contigs =
  let k = n_of_int (int_of_string k) and seg = n_of_int (int_of_string seg) in
  let ((spl, sing), dup) = determine_splitters contigs k seg in
  let lens = List.map (fun c ->
      String.concat "," (List.map (fun s -> string_of_int (List.length s.sdata))
                           (split_at_splitters_with_size c (set_of_list spl) k seg))) contigs in
  Printf.sprintf "S=%s G=%s D=%s V=ok L=%s" (set_str spl) (set_str sing) (set_str dup)
    (if lens = [] then "-" else String.concat ";" lens)
let () = run_lines (function
  | ["spl"; k; seg; _t; cs] -> answer k seg (contigs_of cs)
  | ["pair"; _tag; k; seg; _t1; _t2; cs1; cs2] -> answer k seg (contigs_of cs1) ^ " | " ^ answer k seg (contigs_of cs2)
  | ["rns"; vb; vals] ->
    let l = if vals = "-" then [] else List.map n_of_hex (String.split_on_char ',' vals) in
    let (kept, dups) = remove_non_singletons_with_duplicates l (nat_of_int (int_of_string vb)) in
    Printf.sprintf "K=%s D=%s" (set_str kept) (set_str dups)
  | ["cand"; k; cs] ->
    let k = n_of_int (int_of_string k) in
    let contigs = contigs_of cs in
    let m = find_candidate_kmers_multi contigs k in
    (match contigs with
     | [c] -> Printf.sprintf "M=%s C=%s" (set_str m) (set_str (find_candidate_kmers c k))
     | _ -> Printf.sprintf "M=%s" (set_str m))
  | "big" :: _ -> "not-modelled"
  | _ -> "DRIVER-ERROR bad case")
