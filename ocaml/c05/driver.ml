(* C05 driver: replays the hook log of one real run of the compression pipeline through the extracted model
   (Protocol.step).  Input line (built by checks/c05.py model_cases = case ++ "||" ++ status ++ "|" ++ log with the
   queue records' thread ids replaced by p (producer) / worker index):
     run <seed> <threads> <cap hex> <mode> <pack> <script> || DONE|JOINED|HANG ... | ev;ev;...
   Output:
     OK final rounds=<r> contigs=<c> steps=<n> spur=<k>    every record was an enabled transition of Protocol.step
                                                           (or a check that held) and the last model state is final
     HANG stuck=<0|1> enabled=<tids>                       replay of a hung run: does the model say nothing is enabled?
     HANG-UNEXPLAINED current-rule:[..] old-rule:[..]      a hung run that is not a trace of the model of the current
                                                           code; second verdict = replay under the pre-fix push rule
                                                           (old_rule = true; "HANG stuck=1" = the C05-F1 deadlock)
     FAIL <index> <record> <why>
   What the driver itself decides (everything else is Model.step):
     - where the unlogged silent steps go (poll-loop exit, leaving a barrier, phases without a record, claim-loop exit):
       as late as possible, just before the thread's next record;
     - CLAIM records of one round may be replayed earlier than logged (the claim is an atomic fetch_sub, the record
       is written afterwards by the claiming thread);
     - whom notify_one woke (not logged): the blocked worker whose next KE record comes first; a KE of a worker the
       model still has blocked (and the queue open) is replayed as a spurious wake-up and counted. *)
open Model
open Util

exception Fail of string

let rec split_at (sep : string) (l : string list) : string list * string list =
  match l with
  | [] -> ([], [])
  | x :: r -> if x = sep then ([], r) else let (a, b) = split_at sep r in (x :: a, b)

let parse_calls (s : string) : call list =
  if s = "-" then [] else
    List.map (fun o ->
        match o with
        | "d" -> CDrain
        | "s" -> CSync
        | _ ->
          if String.length o < 2 || o.[0] <> 'c' then failwith "bad script";
          (match String.split_on_char ':' (String.sub o 1 (String.length o - 1)) with
           | [a; b] -> CPush (n_of_int (int_of_string a), n_of_int (int_of_string b))
           | _ -> failwith "bad script")) (String.split_on_char ',' s)

let pc_str (p : wpc) : string =
  match p with
  | WPull -> "Pull" | WWaitE -> "WaitE" | WWokenE -> "WokenE"
  | WSeg q -> "Seg" ^ string_of_int (int_of_n q)
  | WBar k -> "Bar" ^ string_of_int (int_of_nat k)
  | WBarW (k, g) -> Printf.sprintf "BarW%d@%d" (int_of_nat k) (int_of_nat g)
  | WPhase k -> "Phase" ^ string_of_int (int_of_nat k)
  | WExited -> "Exited"

let tid_str = function TProd -> "p" | TWork w -> string_of_int (int_of_nat w)

let replay_line (toks : string list) : string =
  let (case, rest) = split_at "||" toks in
  match case with
  | ["run"; _seed; thr; capx; mode; pack; script] ->
    let status, log =
      match rest with
      | st :: r -> (st, (match split_at "|" r with (_, [l]) -> l | (_, []) -> "-" | _ -> failwith "bad trace"))
      | [] -> failwith "no trace" in
    if status <> "DONE" && status <> "JOINED" && status <> "HANG" then "NOTRACE " ^ status else
    let replay_with (oldr : bool) : string = begin
      let n = int_of_string thr in
      let pa = { nthr = nat_of_int n; cap = n_of_hex capx; old_rule = oldr } in
      let concat = (mode = "s" || mode = "S") in
      let cmds = compile_calls concat (n_of_int (int_of_string pack)) (parse_calls script) in
      let st = ref (init pa cmds) in
      let evs = if log = "-" then [||] else
          Array.of_list (List.map (fun e -> Array.of_list (String.split_on_char ',' e)) (String.split_on_char ';' log)) in
      let nev = Array.length evs in
      let consumed = Array.make nev false in
      let steps = ref 0 and spur = ref 0 in
      let do_step (l : label) (why : string) =
        match step pa !st l with
        | Some s' -> incr steps; st := s'
        | None -> raise (Fail why) in
      let worker w =
        if w < 0 || w >= n then raise (Fail "unknown worker");
        List.nth (ws !st) w in
      let pc_of w = (worker w).pc in
      let wl w = LWork (nat_of_int w, N0, O) in
      let who f = if f = "p" then -1 else (try int_of_string f with _ -> raise (Fail "bad thread field")) in
      let wid f = let w = who f in if w < 0 then raise (Fail "producer cannot log this record") else w in
      let prod f = if who f >= 0 then raise (Fail "a worker cannot log this record") in
      let num f = try int_of_string f with _ -> raise (Fail "bad number") in
      (* seq of the k-th contig push *)
      let contig_seq : (int, int) Hashtbl.t = Hashtbl.create 64 in
      let ncontig = ref 0 in
      (* replay one CLAIM record (possibly ahead of its position) *)
      let rec advance w (target : wpc -> bool) fuel i =
        let p = pc_of w in
        if target p then ()
        else if fuel = 0 then raise (Fail ("worker is at " ^ pc_str p))
        else begin
          (match p with
           | WBarW (_, _) -> do_step (wl w) "left a barrier before every worker had arrived"
           | WPhase k ->
             let k = int_of_nat k in
             if k = 0 && w = 0 then raise (Fail "worker 0 went on without a ROUND record")
             else if k = 1 then begin
               if int_of_nat (claimable !st) > 0 then pull_claims i;
               do_step (wl w) "claim loop exit"
             end else do_step (wl w) "phase step"
           | _ -> raise (Fail ("worker is at " ^ pc_str p)));
          advance w target (fuel - 1) i
        end
      and do_claim j =
        let e = evs.(j) in
        let w = wid e.(1) in
        consumed.(j) <- true;
        advance w (fun p -> p = WPhase (nat_of_int 1)) 4 j;
        if int_of_nat (claimable !st) = 0 then raise (Fail "claimed a buffer although none was left");
        if num e.(3) < 0 then raise (Fail "bad claim index");
        do_step (wl w) "claim"
      and pull_claims i =
        (* the claims that really happened before this point but whose records come later: same round only *)
        let j = ref (i + 1) in
        while int_of_nat (claimable !st) > 0 && !j < nev && evs.(!j).(0) <> "ROUND" do
          if (not consumed.(!j)) && evs.(!j).(0) = "W" && Array.length evs.(!j) = 4 && evs.(!j).(2) = "CLAIM" then do_claim !j;
          incr j
        done;
        if int_of_nat (claimable !st) > 0 then raise (Fail "left the claim loop while buffers remained") in
      let pull_ready w i = advance w (fun p -> p = WPull || p = WWokenE) 6 i in
      let ensure_polls () =
        let go = ref true in
        while !go do
          match pst !st, todo !st with
          | PRun, OPoll :: _ ->
            if items !st <> [] then raise (Fail "drain / sync_and_flush returned while the queue was not empty");
            do_step (LProd None) "poll exit"
          | _ -> go := false
        done in
      let head_push () = match todo !st with
        | OPush t :: _ -> t
        | _ -> raise (Fail "the producer's next operation is not a push") in
      let waiters () =
        let r = ref [] in
        List.iteri (fun i w -> if w.pc = WWaitE then r := i :: !r) (ws !st); List.rev !r in
      let choose_ntf i =
        match waiters () with
        | [] -> None
        | (w0 :: _) as l ->
          let res = ref None in
          let j = ref (i + 1) in
          while !res = None && !j < nev do
            let e = evs.(!j) in
            if e.(0) = "KE" && Array.length e = 2 then begin
              match int_of_string_opt e.(1) with
              | Some w when List.mem w l -> res := Some w
              | _ -> ()
            end;
            incr j
          done;
          Some (nat_of_int (match !res with Some w -> w | None -> w0)) in
      let round_sizes : int list ref = ref [] in
      let handle i (e : string array) =
        let len = Array.length e in
        let kind = e.(0) in
        match kind with
        | "P" ->
          if len >= 2 && e.(1) = "JOINED" then begin
            do_step (LProd None) "join returned although a worker had not exited";
            if pst !st <> PDone then raise (Fail "model producer is not done")
          end else if len = 3 && e.(1) = "CTG" then begin
            ensure_polls ();
            let t = head_push () in
            if t.ttok then raise (Fail "model expects a token push");
            if int_of_n t.tsize <> num e.(2) then raise (Fail "contig size differs from the script")
          end else if len = 3 && e.(1) = "TOK" then begin
            ensure_polls ();
            let t = head_push () in
            if not t.ttok then raise (Fail "model expects a contig push");
            let flush = (t.tprio = flush_prio) in
            if (e.(2) = "flush") <> flush then raise (Fail "token kind differs from the script")
          end else raise (Fail "unknown producer record")
        | "WF" ->
          prod e.(1);
          do_step (LProd (choose_ntf i)) "producer step";
          if pst !st <> PWaitF then raise (Fail "push waits although the model admits it")
        | "KF" ->
          prod e.(1);
          (match pst !st with
           | PWokenF -> ()
           | PWaitF -> incr spur; do_step LSpurF "spurious wake-up"
           | _ -> raise (Fail "producer woke although it was not waiting"))
        | "A" ->
          prod e.(1);
          let t = head_push () in
          if int_of_n (nseq !st) <> num e.(2) then raise (Fail "admission number differs");
          if int_of_n t.tsize <> num e.(3) then raise (Fail "size differs from the script");
          let before = List.length (todo !st) in
          do_step (LProd (choose_ntf i)) "producer step";
          if List.length (todo !st) <> before - 1 then raise (Fail "push admitted although the model makes it wait");
          if not t.ttok then begin Hashtbl.replace contig_seq !ncontig (num e.(2)); incr ncontig end
        | "R" -> raise (Fail "push refused")
        | "C" ->
          prod e.(1);
          ensure_polls ();
          if todo !st <> [] then raise (Fail "close before the script ended");
          do_step (LProd None) "close";
          if not (closed !st) then raise (Fail "model did not close")
        | "WE" ->
          let w = wid e.(1) in
          pull_ready w i;
          do_step (wl w) "pull";
          if pc_of w <> WWaitE then raise (Fail "pull waits although the model's queue is not empty or is closed")
        | "KE" ->
          let w = wid e.(1) in
          (match pc_of w with
           | WWokenE -> ()
           | WWaitE ->
             if closed !st then do_step (wl w) "wake after close"
             else begin incr spur; do_step (LSpurE (nat_of_int w)) "spurious wake-up" end
           | p -> raise (Fail ("woke from not_empty.wait but the model has it at " ^ pc_str p)))
        | "N" ->
          let w = wid e.(1) in
          pull_ready w i;
          do_step (wl w) "pull";
          if pc_of w <> WExited then raise (Fail "pull returned None although the model's queue is open or not empty")
        | "T" ->
          let w = wid e.(1) in
          pull_ready w i;
          let sq = num e.(2) in
          let it = (try List.find (fun it -> int_of_n it.iseq = sq) (items !st)
                    with Not_found -> raise (Fail "item is not in the model's queue")) in
          if int_of_n it.itask.tsize <> num e.(3) then raise (Fail "size of the item differs");
          do_step (LWork (nat_of_int w, n_of_int sq, O)) "pull took an item that is not maximal";
          (match pc_of w with
           | WBar k when int_of_nat k = 0 && it.itask.ttok -> ()
           | WSeg q when int_of_n q = sq && not it.itask.ttok -> ()
           | p -> raise (Fail ("after the take the model has the worker at " ^ pc_str p)))
        | "ROUND" ->
          advance 0 (fun p -> p = WPhase O) 4 i;
          (* buffers prepared in this round = CLAIM records until the next ROUND *)
          let nb = ref 0 and j = ref (i + 1) in
          while !j < nev && evs.(!j).(0) <> "ROUND" do
            if evs.(!j).(0) = "W" && Array.length evs.(!j) = 4 && evs.(!j).(2) = "CLAIM" then incr nb;
            incr j
          done;
          let names = if len < 2 || e.(1) = "" then [] else String.split_on_char '+' e.(1) in
          let seqs = List.map (fun nm ->
              match String.split_on_char '/' nm with
              | [_; c] when String.length c >= 2 && c.[0] = 'c' ->
                (try Hashtbl.find contig_seq (int_of_string (String.sub c 1 (String.length c - 1)))
                 with _ -> raise (Fail "ROUND names a contig that was not pushed"))
              | _ -> raise (Fail "bad ROUND record")) names in
          let model = List.sort compare (List.map int_of_n (rawbuf !st)) in
          if List.sort compare seqs <> model then raise (Fail "round composition differs from the model's raw buffers");
          round_sizes := List.length seqs :: !round_sizes;
          do_step (LWork (O, N0, nat_of_int !nb)) "phase 0 of worker 0"
        | "W" ->
          if len < 3 then raise (Fail "bad worker record");
          let w = wid e.(1) in
          (match e.(2) with
           | "TOK" -> if pc_of w <> WBar O then raise (Fail ("TOK but the model has the worker at " ^ pc_str (pc_of w)))
           | "CTG" ->
             (match pc_of w, String.split_on_char '/' e.(3) with
              | WSeg q, [_; c] when String.length c >= 2 ->
                let k = int_of_string (String.sub c 1 (String.length c - 1)) in
                if (try Hashtbl.find contig_seq k with Not_found -> -1) <> int_of_n q then
                  raise (Fail "worker reports another contig than the item it took")
              | p, _ -> raise (Fail ("CTG but the model has the worker at " ^ pc_str p)))
           | "SEGMENTED" ->
             (match pc_of w with WSeg _ -> do_step (wl w) "segment" | p -> raise (Fail ("SEGMENTED at " ^ pc_str p)))
           | "B1" | "B2" | "B3" | "B4" ->
             let k = Char.code e.(2).[1] - Char.code '1' in
             advance w (fun p -> p = WBar (nat_of_int k)) 6 i;
             do_step (wl w) "barrier arrival"
           | "CLAIM" ->
             if not consumed.(i) then do_claim i
           | "ROUND-DONE" ->
             advance w (fun p -> p = WPull) 4 i
           | "EXIT" -> if pc_of w <> WExited then raise (Fail ("EXIT but the model has the worker at " ^ pc_str (pc_of w)))
           | _ -> raise (Fail "unknown worker record"))
        | _ -> raise (Fail "unknown record") in
      let idx = ref 0 in
      try
        Array.iteri (fun i e -> idx := i; handle i e) evs;
        idx := nev;
        if status = "HANG" then begin
          let en = List.filter (fun t -> enabledb pa !st t) (tids !st) in
          Printf.sprintf "HANG stuck=%s enabled=%s" (if stuckb pa !st then "1" else "0")
            (if en = [] then "-" else String.concat "," (List.map tid_str en))
        end else begin
          if not (finalb !st) then raise (Fail "the run ended but the model state is not final");
          if items !st <> [] || not (closed !st) then raise (Fail "final state with a non-empty or open queue");
          let r = int_of_nat (ground !st) in
          List.iter (fun w -> if int_of_nat w.wrounds <> r then raise (Fail "a worker missed a round")) (ws !st);
          if r <> int_of_nat (nblocks cmds) then raise (Fail "number of rounds differs from the number of token blocks");
          if List.length (segd !st) <> List.length (contig_sizes cmds) then raise (Fail "not every contig was segmented");
          Printf.sprintf "OK final rounds=%d contigs=%d steps=%d spur=%d" r (List.length (segd !st)) !steps !spur
        end
      with Fail why ->
        Printf.sprintf "FAIL %d %s %s" !idx
          (if !idx < nev then String.concat "," (Array.to_list evs.(!idx)) else "end") (String.concat "_" (split_ws why))
    end in
    let r = replay_with false in
    if status = "HANG" && String.length r >= 4 && String.sub r 0 4 = "FAIL" then
      (* a hung run that the model of the current code cannot follow: is it a run of the OLD push rule (C05-F1)? *)
      Printf.sprintf "HANG-UNEXPLAINED current-rule:[%s] old-rule:[%s]" r (replay_with true)
    else r
  | _ -> "DRIVER-ERROR bad case"

let () = run_lines replay_line
