(* C08 driver.  Input line (built by checks/c08.py: model_cases):  <case> || <harness line>
   The harness line  A <structure> | <op>~.. <op>~.. / ...  carries the abstract archive read from the real one
   (sample table, catalogue batches, reference parts with zstd results, decoded non-reference segments, stream
   directory) and the resolved ops.  For every `/`-separated sequence the extracted model runs the ops from
   [fresh ar] with [step]; for every op it also evaluates the stateless [answer].  Output, per op:
       <op>~<cls>:<hash>~<cls>:<hash>      (history-carrying handle, fresh handle)
   cls O/E/P, hash = FNV-1a/64 of the same canonical rendering the harness hashes. *)
open Model
open Util

let split c s = if s = "" then [] else String.split_on_char c s
let find_sub (s : string) (sub : string) : int option =
  let n = String.length s and m = String.length sub in
  let rec go i = if i + m > n then None else if String.sub s i m = sub then Some i else go (i + 1) in
  go 0

let fnv (s : string) : string =
  let h = ref 0xcbf29ce484222325L in
  String.iter (fun c -> h := Int64.mul (Int64.logxor !h (Int64.of_int (Char.code c))) 0x100000001b3L) s;
  Printf.sprintf "%016Lx" !h

let parse_desc (s : string) : desc =
  match String.split_on_char '.' s with
  | [g; i; r; l] -> { d_group = n_of_int (int_of_string g); d_in = n_of_int (int_of_string i); d_rc = (r = "1");
                      d_len = n_of_int (int_of_string l) }
  | _ -> failwith ("bad desc " ^ s)
let desc_s (d : desc) : string =
  Printf.sprintf "%d.%d.%d.%d" (int_of_n d.d_group) (int_of_n d.d_in) (if d.d_rc then 1 else 0) (int_of_n d.d_len)

let parse_outcome (s : string) : n list outcome =
  if s = "E" then Err else if s = "P" then Panic
  else if String.length s > 0 && s.[0] = 'O' then Ok (bytes_of_hex (String.sub s 1 (String.length s - 1)))
  else failwith ("bad outcome " ^ s)

let parse_contig (s : string) : contig =
  match String.split_on_char ':' s with
  | [nm; ds] -> (bytes_of_hex nm, List.map parse_desc (split '_' ds))
  | _ -> failwith ("bad contig " ^ s)
let parse_sample (s : string) : contig list = if s = "-" then [] else List.map parse_contig (split '+' s)
let parse_batch (s : string) : batch = List.map parse_sample (split ',' s)

let rec split_last = function
  | [] -> failwith "split_last"
  | [x] -> ([], x)
  | x :: r -> let (b, m) = split_last r in (x :: b, m)

let build (fields : (string * string) list) : (n list -> n -> n list outcome) * archive =
  let get k = try List.assoc k fields with Not_found -> failwith ("missing field " ^ k) in
  let names = List.map bytes_of_hex (split ',' (get "names")) in
  let batches = List.map (fun b -> Some (parse_batch b)) (String.split_on_char ';' (get "batches")) in
  let batches = if get "batches" = "" then [] else batches in
  let refs = List.map (fun r -> match String.split_on_char '.' r with
      | [g; m; d; z] -> (int_of_string g, (n_of_int (int_of_string m), bytes_of_hex d, z))
      | _ -> failwith ("bad ref " ^ r)) (split ',' (get "refs")) in
  let dztab = List.filter_map (fun (_, (_, d, z)) ->
      if z = "N" then None else let (body, mk) = split_last d in Some ((body, mk), parse_outcome z)) refs in
  let dz (body : n list) (mk : n) : n list outcome =
    if body = [] then Ok []                      (* decompress_segment_with_marker: empty input *)
    else try List.assoc (body, mk) dztab with Not_found -> Err in
  let reftab = Hashtbl.create 64 in
  List.iter (fun (g, (m, d, _)) -> Hashtbl.replace reftab g (m, d)) refs;
  let canon = Hashtbl.create 64 in
  List.iter (fun (g, (m, d, _)) -> Hashtbl.replace canon g (ref_via_segment dz (get_part (m, d)))) refs;
  let segtab = Hashtbl.create 256 in
  List.iter (fun s -> match String.split_on_char '.' s with
      | [g; i; r] -> Hashtbl.replace segtab (int_of_string g, int_of_string i) (parse_outcome r)
      | _ -> failwith ("bad seg " ^ s)) (split ',' (get "segs"));
  let seg g i = try Hashtbl.find segtab (int_of_n g, int_of_n i) with Not_found -> Err in
  let streams = List.map (fun s -> match String.split_on_char '.' s with
      | [nm; a; b; c] -> (((bytes_of_hex nm, n_of_int (int_of_string a)), n_of_int (int_of_string b)), n_of_int (int_of_string c))
      | _ -> failwith ("bad stream " ^ s)) (split ',' (get "streams")) in
  let ar = {
    ar_k = n_of_int (int_of_string (get "k"));
    ar_names = names;
    ar_batches = batches;
    ar_ref = (fun g -> try Some (Hashtbl.find reftab (int_of_n g)) with Not_found -> None);
    (* the decoded deltas were taken from a handle whose reference came from get_segment's decoder; against any
       other reference the real decode is not known to the driver: a sentinel makes the model answer differ *)
    ar_lz = (fun g i rf ->
        match (try Hashtbl.find canon (int_of_n g) with Not_found -> Err) with
        | Ok c when c = rf -> seg g i
        | _ -> Ok [n_of_int 99; n_of_int 99; n_of_int 99]);
    ar_raw = seg;
    ar_streams = streams } in
  (dz, ar)

let parse_op (s : string) : query =
  match String.split_on_char ':' s with
  | ["ls"] -> QListSamples
  | ["cs"] -> QCompStats
  | ["as"] -> QAllSegments
  | ["gst"] -> QGroupStats
  | ["lp"; p] -> QPrefix (bytes_of_hex p)
  | ["lc"; x] -> QListContigs (bytes_of_hex x)
  | ["gs"; x] -> QSample (bytes_of_hex x)
  | ["gc"; x; c] -> QContig (bytes_of_hex x, bytes_of_hex c)
  | ["gl"; x; c] -> QContigLength (bytes_of_hex x, bytes_of_hex c)
  | ["sd"; x; c] -> QSegDesc (bytes_of_hex x, bytes_of_hex c)
  | ["gr"; x; c; a; b] -> QContigRange (bytes_of_hex x, bytes_of_hex c, n_of_hex a, n_of_hex b)
  | ["sg"; d] -> QSegData (parse_desc d)
  | ["rs"; g] -> QRefSeg (n_of_int (int_of_string g))
  | _ -> failwith ("bad op " ^ s)

let names_r l = String.concat "," (List.map hex_of_bytes l)
let render (v : value) : string =
  match v with
  | VNames l -> "N" ^ names_r l
  | VNum x -> "U" ^ string_of_int (int_of_n x)
  | VSeq l -> "Q" ^ hex_of_bytes l
  | VDescs l -> "D" ^ String.concat "," (List.map desc_s l)
  | VSample l -> "M" ^ String.concat "," (List.map (fun (nm, q) -> hex_of_bytes nm ^ ":" ^ hex_of_bytes q) l)
  | VStats l -> "T" ^ String.concat "," (List.map (fun (g, ((t, r), d)) ->
      Printf.sprintf "%d.%d.%d.%d" (int_of_n g) (int_of_n t) (int_of_n r) (int_of_n d)) l)
  | VAll l -> "L" ^ String.concat "," (List.map (fun ((s, c), ds) ->
      hex_of_bytes s ^ ":" ^ hex_of_bytes c ^ ":" ^ String.concat "+" (List.map desc_s ds)) l)
  | VStreams l -> "Z" ^ String.concat "," (List.map (fun (((nm, a), b), c) ->
      Printf.sprintf "%s.%d.%d.%d" (hex_of_bytes nm) (int_of_n a) (int_of_n b) (int_of_n c)) l)

let show (o : value outcome) : string =
  match o with
  | Ok v -> let r = render v in
    if Sys.getenv_opt "VERIF_C08_RENDER" <> None then prerr_endline (" model -> " ^ r);
    "O:" ^ fnv r
  | Err -> "E:-"
  | Panic -> "P:-"

let run_line (line : string) : string =
  match find_sub line " || " with
  | None -> "DRIVER-ERROR no trace"
  | Some p ->
    let impl = String.sub line (p + 4) (String.length line - p - 4) in
    if String.length impl < 2 || String.sub impl 0 2 <> "A " then "NOTRACE"
    else match find_sub impl " | " with
      | None -> "DRIVER-ERROR no results"
      | Some q ->
        let structure = String.sub impl 2 (q - 2) in
        let results = String.sub impl (q + 3) (String.length impl - q - 3) in
        let fields = List.map (fun f -> match String.index_opt f '=' with
            | Some i -> (String.sub f 0 i, String.sub f (i + 1) (String.length f - i - 1))
            | None -> failwith ("bad field " ^ f)) (split_ws structure) in
        let (dz, ar) = build fields in
        let memo = Hashtbl.create 64 in
        let seqs = ref [] and cur = ref [] and st = ref (fresh ar) in
        List.iter (fun tok ->
            if tok = "/" then begin seqs := List.rev !cur :: !seqs; cur := []; st := fresh ar end
            else begin
              let ops = List.hd (String.split_on_char '~' tok) in
              let qy = parse_op ops in
              let (st', o) = step dz ar !st qy in
              st := st';
              let fr = match Hashtbl.find_opt memo ops with
                | Some x -> x
                | None -> let x = show (answer dz ar qy) in Hashtbl.replace memo ops x; x in
              cur := (ops ^ "~" ^ show o ^ "~" ^ fr) :: !cur
            end) (split_ws results);
        seqs := List.rev !cur :: !seqs;
        String.concat " / " (List.map (String.concat " ") (List.rev !seqs))

let () =
  let ic = if Array.length Sys.argv > 1 then open_in Sys.argv.(1) else stdin in
  (try
     while true do
       let line = input_line ic in
       if String.length line > 0 && line.[0] <> '#' then
         print_endline (try run_line line with
             | Failure m -> "DRIVER-ERROR " ^ m
             | Not_found -> "DRIVER-ERROR not_found"
             | Stack_overflow -> "DRIVER-ERROR stack_overflow")
     done
   with End_of_file -> ())
