(* C20 driver. cases:
   feed <k> <hexsyms>           -> after inserting all symbols: dir rc cur full canon dirflag
   rck <k> <hexkmer>            -> reverse_complement_kmer, canonical_kmer
   enum <k> <hexsyms>           -> enumerate_kmers list *)
open Model
open Util
let b2s b = if b then "1" else "0"
let () = run_lines (function
  | ["feed"; k; syms] ->
    let x = List.fold_left insert_canonical (kmer_new (n_of_int (int_of_string k))) (bytes_of_hex syms) in
    Printf.sprintf "%s %s %d %s %s %s" (hex_of_n (kdir x)) (hex_of_n (krc x)) (int_of_n (kcur x))
      (b2s (is_full x)) (hex_of_n (data_canonical x)) (b2s (is_dir_oriented x))
  | ["rck"; k; v] ->
    let k = n_of_int (int_of_string k) and v = n_of_hex v in
    Printf.sprintf "%s %s" (hex_of_n (reverse_complement_kmer v k)) (hex_of_n (canonical_kmer v k))
  | ["enum"; k; syms] ->
    let r = enumerate_kmers (bytes_of_hex syms) (n_of_int (int_of_string k)) in
    if r = [] then "-" else String.concat "," (List.map hex_of_n r)
  | _ -> "DRIVER-ERROR bad case")
