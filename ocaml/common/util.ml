(* util.ml - shared by every per-property driver; compiled after that property's model.ml.
   Conversions between OCaml ints / decimal strings / hex and the extracted Coq numerals.
   N and Z stay Coq's inductives (no Extract Inductive beyond ExtrOcamlBasic). *)
open Model

let rec pos_of_int (i : int) : positive =
  if i = 1 then XH
  else if i land 1 = 0 then XO (pos_of_int (i lsr 1))
  else XI (pos_of_int (i lsr 1))
let n_of_int (i : int) : n = if i = 0 then N0 else Npos (pos_of_int i)
let rec int_of_pos (p : positive) : int =
  match p with XH -> 1 | XO q -> 2 * int_of_pos q | XI q -> 2 * int_of_pos q + 1
let int_of_n (x : n) : int = match x with N0 -> 0 | Npos p -> int_of_pos p
let rec nat_of_int (i : int) : nat = if i <= 0 then O else S (nat_of_int (i - 1))
let rec int_of_nat (x : nat) : int = match x with O -> 0 | S y -> 1 + int_of_nat y
let z_of_int (i : int) : z = if i = 0 then Z0 else if i > 0 then Zpos (pos_of_int i) else Zneg (pos_of_int (-i))
let int_of_z (x : z) : int = match x with Z0 -> 0 | Zpos p -> int_of_pos p | Zneg p -> - (int_of_pos p)

(* full 64-bit (and larger) values travel as hex strings *)
let pos_of_bits (bits : bool list) : positive option =
  (* bits: least significant first *)
  let rec go = function
    | [] -> None
    | b :: rest ->
      (match go rest with
       | None -> if b then Some XH else None
       | Some p -> Some (if b then XI p else XO p)) in
  go bits
let n_of_hex (s : string) : n =
  let bits = ref [] in
  String.iter (fun c ->
      let v = match c with
        | '0'..'9' -> Char.code c - 48 | 'a'..'f' -> Char.code c - 87 | 'A'..'F' -> Char.code c - 55
        | _ -> failwith ("bad hex: " ^ s) in
      (* most significant nibble first: prepend so that list ends least-significant-first after rev *)
      bits := (v land 1 = 1) :: (v land 2 = 2) :: (v land 4 = 4) :: (v land 8 = 8) :: !bits) s;
  (* !bits currently: last nibble's bits first (lsb first within nibble)  => already least significant first *)
  match pos_of_bits !bits with None -> N0 | Some p -> Npos p
let hex_of_n (x : n) : string =
  match x with
  | N0 -> "0"
  | Npos p ->
    let rec bits p acc = match p with XH -> true :: acc | XO q -> bits q (false :: acc) | XI q -> bits q (true :: acc) in
    let msb_first = bits p [] in
    (* bits p acc builds msb first? p's constructors go lsb->msb, we cons lsb first then deeper = msb on top *)
    let l = msb_first in
    let len = List.length l in
    let pad = (4 - len mod 4) mod 4 in
    let l = (List.init pad (fun _ -> false)) @ l in
    let buf = Buffer.create 16 in
    let rec go = function
      | a :: b :: c :: d :: rest ->
        let v = (if a then 8 else 0) + (if b then 4 else 0) + (if c then 2 else 0) + (if d then 1 else 0) in
        Buffer.add_char buf "0123456789abcdef".[v]; go rest
      | [] -> ()
      | _ -> assert false in
    go l; Buffer.contents buf

(* byte strings travel as hex ("-" = empty) *)
let bytes_of_hex (s : string) : n list =
  if s = "-" then [] else
    List.init (String.length s / 2) (fun i -> n_of_int (int_of_string ("0x" ^ String.sub s (2 * i) 2)))
let hex_of_bytes (l : n list) : string =
  if l = [] then "-" else String.concat "" (List.map (fun b -> Printf.sprintf "%02x" (int_of_n b)) l)

let split_ws (s : string) : string list =
  List.filter (fun t -> t <> "") (String.split_on_char ' ' (String.trim s))

(* main loop: one case per line in, one result per line out *)
let run_lines (f : string list -> string) =
  let ic = if Array.length Sys.argv > 1 then open_in Sys.argv.(1) else stdin in
  (try
     while true do
       let line = input_line ic in
       if String.length line > 0 && line.[0] <> '#' then
         print_endline (try f (split_ws line) with
             | Failure m -> "DRIVER-ERROR " ^ m
             | Not_found -> "DRIVER-ERROR not_found"
             | Stack_overflow -> "DRIVER-ERROR stack_overflow")
     done
   with End_of_file -> ())
