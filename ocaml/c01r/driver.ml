(* C01R driver (model side of the registry correspondence).
   case (built by checks/c01r.py: model_cases from the implementation's line, the inputs and the inferred oracle answers):
     reg <k> <splitters hex,..|-> <fallback 0|1> <nosplit 0|1> R <contig> <contig> .. R <contig> ..
       one `R` per sync round (ROUND event), then its contigs in any order (the model sorts them as the code does):
       contig = <sample hex>:<contig hex>:<bases hex>:<answer>,<answer>,..   one answer per raw segment
       answer = d | <one>~<fb>~<mid>~<sd>     one, fb = <kf hex>.<kb hex>.<0|1>   mid = <hex>|n   sd = a|l|r|n
                d = (MISSING,MISSING,false) twice, no middle, no decision
   The extracted Segment model (C10) cuts each contig into raw segments (front / back k-mer, is_dir flags), the extracted
   Registry.run_rounds is run from reg_init with the identity as s_seg_part order.
   -> OK gc=<group_counter> rgc=<raw_group_counter> G=<g:d,g:r,..> D=<s:c:part:g:rc;..>
      D: what each buffer received, labelled with the BUFFER's group id, sorted by (sample hex, contig hex, part)
      G: the segment streams in registration order *)
open Model
open Util
let b2s b = if b then "1" else "0"
let triple s =
  match String.split_on_char '.' s with
  | [a; b; c] -> ((n_of_hex a, n_of_hex b), c = "1")
  | _ -> failwith ("bad triple " ^ s)
let dflt = ((mISS, mISS), false)
let answer s =
  if s = "d" then { o_one = dflt; o_fb = dflt; o_mid = None; o_split = SD_None }
  else match String.split_on_char '~' s with
    | [one; fb; mid; sd] ->
      { o_one = triple one; o_fb = triple fb;
        o_mid = (if mid = "n" then None else Some (n_of_hex mid));
        o_split = (match sd with "a" -> SD_At | "l" -> SD_Left | "r" -> SD_Right | "n" -> SD_None | _ -> failwith "bad sd") }
    | _ -> failwith ("bad answer " ^ s)
let contig k set tok =
  match String.split_on_char ':' tok with
  | [s; c; bases; ans] ->
    let segs = split_at_splitters_with_size (bytes_of_hex bases) set k N0 in
    let raws = List.map (fun sg -> { rs_front = sg.sfront; rs_back = sg.sback; rs_fdir = sg.sfdir; rs_bdir = sg.sbdir }) segs in
    let answers = List.map answer (String.split_on_char ',' ans) in
    if List.length answers <> List.length raws then
      failwith (Printf.sprintf "contig %s:%s has %d raw segments, %d answers" s c (List.length raws) (List.length answers));
    { c_sample = bytes_of_hex s; c_name = bytes_of_hex c; c_segs = List.combine raws answers }
  | _ -> failwith "bad contig token"
let rec rounds k set toks cur acc =
  match toks with
  | [] -> List.rev (match cur with None -> acc | Some c -> List.rev c :: acc)
  | "R" :: tl -> rounds k set tl (Some []) (match cur with None -> acc | Some c -> List.rev c :: acc)
  | t :: tl -> (match cur with None -> failwith "contig before R" | Some c -> rounds k set tl (Some (contig k set t :: c)) acc)
let () = run_lines (function
  | "reg" :: k :: spl :: fb :: ns :: toks ->
    let k = n_of_int (int_of_string k) in
    let set = set_of_list (if spl = "-" then [] else List.map n_of_hex (String.split_on_char ',' spl)) in
    let cf = { cf_fallback = (fb = "1"); cf_no_split = (ns = "1") } in
    let rs = rounds k set toks None [] in
    let ((r, outs), _) = run_rounds cf (fun x -> x) reg_init rs in
    let all = List.concat outs in
    let ds = List.map (fun (g, p) -> (hex_of_bytes p.p_sample, hex_of_bytes p.p_name, int_of_n p.p_part, int_of_n g, p.p_rc)) all in
    let ds = List.sort compare ds in
    let d = String.concat ";" (List.map (fun (s, c, pt, g, rc) -> Printf.sprintf "%s:%s:%d:%d:%s" s c pt g (b2s rc)) ds) in
    let g = String.concat "," (List.map (fun (g, rf) -> Printf.sprintf "%d:%s" (int_of_n g) (if rf then "r" else "d")) r.r_streams) in
    Printf.sprintf "OK gc=%d rgc=%d G=%s D=%s" (int_of_n r.r_gc) (int_of_n r.r_rgc) (if g = "" then "-" else g) (if d = "" then "-" else d)
  | _ -> "DRIVER-ERROR bad case")
