(* C13 driver: see harness/src/bin/c13.rs for the case language *)
open Model
open Util

let fnv (l : n list) : string =
  let h = ref 0xcbf29ce484222325L in
  List.iter (fun b -> h := Int64.mul (Int64.logxor !h (Int64.of_int (int_of_n b))) 0x100000001b3L) l;
  Printf.sprintf "%Lx" !h

(* the 256 byte values as Coq numerals, built once *)
let btab = Array.init 256 n_of_int
let hexv c = match c with '0'..'9' -> Char.code c - 48 | 'a'..'f' -> Char.code c - 87 | 'A'..'F' -> Char.code c - 55 | _ -> failwith "bad hex"
let bytes_of_hex (s : string) : n list =
  if s = "-" then [] else List.init (String.length s / 2) (fun i -> btab.(16 * hexv s.[2 * i] + hexv s.[2 * i + 1]))

let data_of (s : string) : n list =
  if String.length s > 0 && s.[0] = '@' then begin
    match String.split_on_char '.' (String.sub s 1 (String.length s - 1)) with
    | [l; seed] ->
      let n = int_of_string ("0x" ^ l) and x = ref (int_of_string ("0x" ^ seed)) in
      List.init n (fun _ -> x := (!x * 1103515245 + 12345) land 0x7fffffff; btab.((!x lsr 16) land 0xff))
    | _ -> failwith "bad data"
  end else bytes_of_hex s

let join l = if l = [] then "-" else String.concat "," l
let max_off = n_of_hex "7fffffffffffffff"   (* /dev/shm is tmpfs *)

let wop_of (tok : string) : wop =
  match String.split_on_char ':' tok with
  | ["r"; name] -> WRegister (bytes_of_hex name)
  | ["a"; sid; d; m] -> WAdd (n_of_hex sid, data_of d, n_of_hex m)
  | ["b"; sid; d; m] -> WAddBuf (n_of_hex sid, data_of d, n_of_hex m)
  | ["f"] -> WFlush
  | ["s"; sid; raw] -> WSetRaw (n_of_hex sid, n_of_hex raw)
  | _ -> failwith "bad wop"

let wres_s = function WId i -> hex_of_n i | WOk -> "ok" | WErr -> "err" | WNone -> "-"

let part_res (r : (n list * n) option outcome) : string =
  match r with
  | Err -> "err" | Panic -> "panic" | Ok None -> "end"
  | Ok (Some (d, m)) -> Printf.sprintf "%x.%s.%s" (List.length d) (fnv d) (hex_of_n m)

let rec split_bar acc = function
  | [] -> (List.rev acc, [])
  | "|" :: r -> (List.rev acc, r)
  | x :: r -> split_bar (x :: acc) r

let () = run_lines (function
  | ["vi"; v; rest] ->
    let e = write_varint (n_of_hex v) in
    (match read_varint (e @ bytes_of_hex rest) with
     | Ok ((x, n), _) -> Printf.sprintf "%s %s %d" (hex_of_bytes e) (hex_of_n x) (int_of_n n)
     | _ -> hex_of_bytes e ^ " err")
  | ["rv"; b] ->
    (match read_varint (bytes_of_hex b) with
     | Ok ((x, n), _) -> Printf.sprintf "%s %d" (hex_of_n x) (int_of_n n)
     | _ -> "err")
  | ["fx"; v; rest] ->
    let e = write_fixed_u64 (n_of_hex v) in
    (match read_fixed_u64 (e @ bytes_of_hex rest) with
     | Ok (x, _) -> Printf.sprintf "%s %s" (hex_of_bytes e) (hex_of_n x)
     | _ -> hex_of_bytes e ^ " err")
  | "hist" :: ops ->
    let (wops, rops) = split_bar [] ops in
    let (w, res) = wrun w_init (List.map wop_of wops) in
    let file = close w in
    let out = Printf.sprintf "W=%s F=%x.%s" (join (List.map wres_s res)) (List.length file) (fnv file) in
    (match snd (deserialize max_off file) with
     | Err -> out ^ " O=err"
     | Panic -> out ^ " O=panic"
     | Ok rd ->
       let dir = List.map (fun ((nm, raw), np) ->
           Printf.sprintf "%s/%s/%s" (hex_of_bytes nm) (hex_of_n raw) (hex_of_n np)) (directory rd) in
       let rd = ref rd in
       let rres = List.map (fun tok ->
           match String.split_on_char ':' tok with
           | ["g"; sid] -> let (r', (_, x)) = rstep max_off !rd (RGet (n_of_hex sid)) in rd := r'; part_res x
           | ["i"; sid; pid] -> let (_, (_, x)) = rstep max_off !rd (RById (n_of_hex sid, n_of_hex pid)) in part_res x
           | ["n"; name] -> (match get_stream_id !rd (bytes_of_hex name) with Some i -> hex_of_n i | None -> "none")
           | _ -> failwith "bad rop") rops in
       Printf.sprintf "%s O=ok D=%s R=%s" out (join dir) (join rres))
  | _ -> "DRIVER-ERROR bad case")
