(* C14 driver: see harness/src/bin/c14.rs for the case language.  Prints the class of the model's
   deserialize (E / O / P) per file and ` a=<largest entry of the allocation log>`. *)
open Model
open Util

(* the 256 byte values as Coq numerals, built once *)
let btab = Array.init 256 n_of_int
let hexv c = match c with '0'..'9' -> Char.code c - 48 | 'a'..'f' -> Char.code c - 87 | 'A'..'F' -> Char.code c - 55 | _ -> failwith "bad hex"
let bytes_of_hex (s : string) : n list =
  if s = "-" then [] else List.init (String.length s / 2) (fun i -> btab.(16 * hexv s.[2 * i] + hexv s.[2 * i + 1]))

let max_off_of = function
  | "ext4" -> n_of_hex "ffffffff000"        (* 2^44 - 4096: ext4, 4 KiB blocks, extent mapped *)
  | "shm" -> n_of_hex "7fffffffffffffff"    (* tmpfs: MAX_LFS_FILESIZE *)
  | _ -> failwith "bad fs"

let maxa = ref 0
let classify mo (bs : n list) : string =
  let (al, r) = deserialize mo bs in
  List.iter (fun a -> let a = int_of_n a in if a > !maxa then maxa := a) al;
  match r with Ok _ -> "O" | Err -> "E" | Panic -> "P"

let rec take n l = if n <= 0 then [] else match l with [] -> [] | x :: r -> x :: take (n - 1) r

let () = run_lines (function
  | ["open"; fs; b] ->
    maxa := 0;
    let c = classify (max_off_of fs) (bytes_of_hex b) in
    Printf.sprintf "%s a=%d" c !maxa
  | ["prefixes"; fs; from; upto; b] ->
    maxa := 0;
    let bs = bytes_of_hex b and mo = max_off_of fs in
    let len = List.length bs in
    let buf = Buffer.create 256 in
    for n = int_of_string from to min (int_of_string upto - 1) len do
      Buffer.add_string buf (classify mo (take n bs))
    done;
    Printf.sprintf "%s a=%d" (Buffer.contents buf) !maxa
  | _ -> "DRIVER-ERROR bad case")
