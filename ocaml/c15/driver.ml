(* C15 driver: see harness/src/bin/c15.rs for the case language.
   The extracted list functions are not tail recursive and the thorough tier runs archives above 4 MiB, so the
   driver re-executes itself once under `ulimit -s unlimited`. *)
open Model
open Util

let () =
  if Sys.getenv_opt "C15_STACK" = None then begin
    let self = Sys.executable_name in
    let args = Array.to_list Sys.argv |> List.tl |> List.map Filename.quote |> String.concat " " in
    Unix.putenv "C15_STACK" "1";
    (try Unix.execv "/bin/sh" [| "sh"; "-c"; "ulimit -s unlimited 2>/dev/null; exec " ^ Filename.quote self ^ " " ^ args |]
     with _ -> ())
  end

let fnv (l : n list) : string =
  let h = ref 0xcbf29ce484222325L in
  List.iter (fun b -> h := Int64.mul (Int64.logxor !h (Int64.of_int (int_of_n b))) 0x100000001b3L) l;
  Printf.sprintf "%Lx" !h

let btab = Array.init 256 n_of_int
let hexv c = match c with '0'..'9' -> Char.code c - 48 | 'a'..'f' -> Char.code c - 87 | 'A'..'F' -> Char.code c - 55 | _ -> failwith "bad hex"
let bytes_of_hex (s : string) : n list =
  if s = "-" then [] else List.init (String.length s / 2) (fun i -> btab.(16 * hexv s.[2 * i] + hexv s.[2 * i + 1]))

let data_of (s : string) : n list =
  if String.length s > 0 && s.[0] = '@' then begin
    match String.split_on_char '.' (String.sub s 1 (String.length s - 1)) with
    | [l; seed] ->
      let n = int_of_string ("0x" ^ l) and x = ref (int_of_string ("0x" ^ seed)) in
      List.init n (fun _ -> x := (!x * 1103515245 + 12345) land 0x7fffffff; btab.((!x lsr 16) land 0xff))
    | _ -> failwith "bad data"
  end else bytes_of_hex s

let rec len_int l acc = match l with [] -> acc | _ :: r -> len_int r (acc + 1)
let join l = if l = [] then "-" else String.concat "," l
let inf = n_of_hex "4000000000000000"

let pol_of (tok : string) : n -> n -> n -> n =
  match String.split_on_char ':' tok with
  | ["inf"] -> limit_policy true inf
  | ["L1"; n] -> limit_policy true (n_of_hex n)
  | ["L0"; n] -> limit_policy false (n_of_hex n)
  | ["O"; i; k] -> oneshot_policy (n_of_hex i) (n_of_hex k)
  | _ -> failwith "bad policy"

let wop_of (tok : string) : wop =
  match String.split_on_char ':' tok with
  | ["r"; name] -> WRegister (bytes_of_hex name)
  | ["a"; sid; d; m] -> WAdd (n_of_hex sid, data_of d, n_of_hex m)
  | ["b"; sid; d; m] -> WAddBuf (n_of_hex sid, data_of d, n_of_hex m)
  | ["f"] -> WFlush
  | ["s"; sid; raw] -> WSetRaw (n_of_hex sid, n_of_hex raw)
  | _ -> failwith "bad wop"

let aop_of (tok : string) : aop =
  match String.split_on_char ':' tok with
  | ["l"; "inf"] -> ALimit (true, inf)
  | ["l"; p; n] -> ALimit ((p = "1"), n_of_hex n)
  | _ -> AOp (wop_of tok)

let wres_s = function WId i -> hex_of_n i | WOk -> "ok" | WErr -> "err" | WNone -> "-"
let io_s = function Ok _ -> "ok" | _ -> "err"
let file_s f = Printf.sprintf "%x.%s" (len_int f 0) (fnv f)

let rec split_bar acc = function
  | [] -> (List.rev acc, [])
  | "|" :: r -> (List.rev acc, r)
  | x :: r -> split_bar (x :: acc) r

let rec is_prefix a b = match a, b with
  | [], _ -> true
  | x :: a', y :: b' -> x = y && is_prefix a' b'
  | _ -> false

let sites_of (tok : string) : sites =
  if tok = "code" then code_sites else site_off (nat_of_int (int_of_string tok)) code_sites

let () = run_lines (function
  | "hist" :: cap :: pol :: ops ->
    let ((rs, rc), f) = hist_run code_sites (pol_of pol) (n_of_hex cap) (List.map aop_of ops) in
    Printf.sprintf "W=%s C=%s F=%s" (join (List.map wres_s rs)) (io_s rc) (file_s f)
  | "bw" :: cap :: pol :: ops ->
    let b = ref (bw_new (n_of_hex cap) (sink_new (pol_of pol))) in
    let rs = List.map (fun tok ->
        match String.split_on_char ':' tok with
        | ["w"; d] -> let (b', r) = bw_write_all !b (data_of d) in b := b'; io_s r
        | ["f"] -> let (b', r) = bw_flush !b in b := b'; io_s r
        | "l" :: _ ->
          let p = (match aop_of tok with ALimit (p, n) -> limit_policy p n | _ -> failwith "bad op") in
          b := { !b with b_sink = sink_set_policy !b.b_sink p }; "-"
        | _ -> failwith "bad bw op") ops in
    let (b', _) = bw_flush_buf !b in          (* Drop for BufWriter *)
    Printf.sprintf "R=%s F=%s" (join rs) (file_s (sink_bytes b'.b_sink))
  (* cli <cap> <partial 0|1> <site: code | 0..11> <wops> | <limits>:  one model run of `ragc create`'s output path per limit *)
  | "cli" :: cap :: partial :: site :: rest ->
    let (ops, limits) = split_bar [] rest in
    let ops = List.map wop_of ops in
    let full = complete_file ops in
    let s = sites_of site in
    let rs = List.map (fun l ->
        let pol = if l = "inf" then limit_policy true inf else limit_policy (partial = "1") (n_of_hex l) in
        let ((e, fin), f) = cli_run s pol (n_of_hex cap) ops in
        Printf.sprintf "%s:%s:%x:%s" (match e with ExitZero -> "0" | ExitNonZero -> "1") (io_s fin) (len_int f 0)
          (if len_int f 0 = len_int full 0 then (if is_prefix f full then "full" else "differs")
           else if is_prefix f full then "prefix" else "differs")) limits in
    Printf.sprintf "S=%s R=%s" (file_s full) (join rs)
  (* same with an arbitrary policy token instead of limits (one-shot faults): witness search, model only *)
  | "clip" :: cap :: site :: pol :: ops ->
    let ops = List.map wop_of ops in
    let full = complete_file ops in
    let ((e, fin), f) = cli_run (sites_of site) (pol_of pol) (n_of_hex cap) ops in
    Printf.sprintf "%s:%s:%x:%s" (match e with ExitZero -> "0" | ExitNonZero -> "1") (io_s fin) (len_int f 0)
      (if f = full then "full" else "differs")
  | ["consts"] ->
    Printf.sprintf "cap=%s pipeline=%b" (hex_of_n ar_bufwriter_cap) pipeline_buffers_everything
  | _ -> "DRIVER-ERROR bad case")
