(* C16 / C19 driver (the two properties share the Fasta model and the case language). cases:
   parse <hex>                               -> OK id:codes,... | ERR          (read_contig_converted loop)
   wr <hexid> <hexletters>                   -> hex of GenomeWriter::save_contig_directly's output
   fname <hexname>                           -> gz|plain <hexsample>           (MultiFileIterator::open_file)
   rd <hexname> <hexfile> <hexplain>         -> as parse, of the bytes GenomeIO::open delivers
   pr <w> <lf|crlf> <u|l|m> name:seq,...     -> as parse, of render w eol mask records
   stream name=file[=plain] ...              -> OK sample:ctg:codes,... | ERR  (MultiFileIterator per file, non-empty)
   cli <params> name=file[=plain] ...        -> FAIL | OK sample=ctg:letters,...;...   (real CLI)
   shas <params> <n> (n files) (n files) ... -> FAIL | OK <view of the first group> same|diff
   pairv|pairn <params> <n1> files...        -> <view of the first n1 files> | <view of the rest>
   a file given as name=file=plain is a gzip file whose decompressed content is plain (gunzip oracle) *)
open Model
open Util
let h = hex_of_bytes
let show_recs = function
  | Ok rs -> if rs = [] then "OK -" else
      "OK " ^ String.concat "," (List.map (fun (id, c) -> h id ^ ":" ^ h c) rs)
  | Err -> "ERR"
  | Panic -> "MODEL-FUEL"
let show_stream = function
  | Ok rs -> if rs = [] then "OK -" else
      "OK " ^ String.concat "," (List.map (fun ((s, n), c) -> h s ^ ":" ^ h n ^ ":" ^ h c) rs)
  | Err -> "ERR"
  | Panic -> "MODEL-FUEL"
let show_view = function
  | Ok v -> if v = [] then "OK -" else
      "OK " ^ String.concat ";" (List.map (fun (s, cs) ->
          h s ^ "=" ^ String.concat "," (List.map (fun (n, l) -> h n ^ ":" ^ h l) cs)) v)
  | Err -> "FAIL"
  | Panic -> "MODEL-FUEL"
(* name=file[=plain] -> (name, content as the reader sees it) *)
let file_of tok =
  match String.split_on_char '=' tok with
  | [n; f] -> (bytes_of_hex n, bytes_of_hex f)
  | [n; f; p] ->
    let n = bytes_of_hex n in
    if is_gz_name n then (n, bytes_of_hex p) else (n, bytes_of_hex f)
  | _ -> failwith "bad file token"
let rec take n l = if n = 0 then [] else match l with [] -> [] | x :: r -> x :: take (n - 1) r
let rec drop n l = if n = 0 then l else match l with [] -> [] | _ :: r -> drop (n - 1) r
let rec chunks n l = if l = [] then [] else take n l :: chunks n (drop n l)
let recs_of s =
  if s = "-" then [] else
    List.map (fun t -> match String.split_on_char ':' t with
        | [n; q] -> (bytes_of_hex n, bytes_of_hex q) | _ -> failwith "bad record") (String.split_on_char ',' s)
let () = run_lines (function
  | ["parse"; x] -> show_recs (parse (bytes_of_hex x))
  | ["wr"; id; l] -> h (write_contig (bytes_of_hex id) (bytes_of_hex l))
  | ["fname"; n] ->
    let n = bytes_of_hex n in
    (if is_gz_name n then "gz " else "plain ") ^ h (sample_name_of_file n)
  | ["rd"; n; f; p] ->
    let n = bytes_of_hex n in
    show_recs (parse (bytes_of_hex (if is_gz_name n then p else f)))
  | ["pr"; w; eol; m; rs] ->
    let eol = (match eol with "lf" -> [n_of_int 10] | "crlf" -> [n_of_int 13; n_of_int 10] | _ -> failwith "eol") in
    let mask = (match m with "u" -> mask_upper | "l" -> mask_lower | "m" -> mask_mixed | _ -> failwith "mask") in
    show_recs (parse (render (nat_of_int (int_of_string w)) eol mask (recs_of rs)))
  | "stream" :: files -> show_stream (stream_multi (List.map file_of files))
  | "cli" :: _ :: files -> show_view (create_view (List.map file_of files))
  | "shas" :: _ :: n :: files ->
    let gs = chunks (int_of_string n) (List.map file_of files) in
    let vs = List.map create_view gs in
    (match vs with
     | [] -> failwith "no group"
     | v :: rest ->
       (match v with
        | Ok _ -> show_view v ^ (if List.for_all (fun x -> x = v) rest then " same" else " MODEL-VIEWS-DIFFER")
        | _ -> show_view v))
  | ("pairv" | "pairn") :: _ :: n :: files ->
    let fs = List.map file_of files in
    let n = int_of_string n in
    show_view (create_view (take n fs)) ^ " | " ^ show_view (create_view (drop n fs))
  | _ -> "DRIVER-ERROR bad case")
