(* C17 driver: the extracted model of the ragc CLI dispatch (coq/model/Cli.v) on the case language of
   harness/src/bin/c17.rs.

   <arc>     A:<hex of the archive file> | missing           (the model only needs: is there a file)
   <content> what Decompressor::open + get_sample give for that file:
             -                      open fails
             .                      no samples
             s;s;...                s = <namehex>=<c>,<c>,... | <namehex>=! (listed, contig metadata unloadable)
                                    c = <cnamehex>/<lettershex | - (empty) | ! (unreadable)>
   <dest>    stdout | file | filepre (the -o file exists with other content) | baddir (-o cannot be created)
   getset  <arc> <content> <dest> <nop | p:<hex>> <namehex>...
   listset <arc> <content> <dest>
   listctg <arc> <content> <dest> <namehex>...
   info    <arc>
   create  <M|S|N>:<content> <flag>...     flags: batch adaptive concatenated cpp t=<n> q=<hex> v=<n> dev to=<secs>
   results:
     getset/listset/listctg/info:  rc=<0|nz> out=<hex> file=<absent|hex> tmp=<absent|hex>
     create:  rc=<0|nz> err=<kind|-> cap=<hex|-> arc=<present|absent> listed=<all|-> data=<ok|-> *)
open Model
open Util

let hexs s = if s = "-" then [] else bytes_of_hex s
let p_arc = bytes_of_hex "61" and p_out = bytes_of_hex "6f" and p_tmp = bytes_of_hex "74"
let junk = bytes_of_hex "4a554e4b0a4a554e4b4a554e4b4a554e4b4a554e4b4a554e4b4a554e4b4a554e4b"
let magic = [n_of_int 1]

let parse_contig c =
  match String.index_opt c '/' with
  | None -> failwith "bad contig"
  | Some i ->
    let nm = String.sub c 0 i and d = String.sub c (i + 1) (String.length c - i - 1) in
    (hexs nm, if d = "!" then None else Some (hexs d))
let parse_sample s =
  match String.index_opt s '=' with
  | None -> failwith "bad sample"
  | Some i ->
    let nm = String.sub s 0 i and cs = String.sub s (i + 1) (String.length s - i - 1) in
    (hexs nm, if cs = "!" then None else Some (if cs = "" then [] else List.map parse_contig (String.split_on_char ',' cs)))
let parse_content c : (n list * (n list * n list option) list option) list option =
  if c = "-" then None else if c = "." then Some []
  else Some (List.map parse_sample (String.split_on_char ';' c))

let initial arc content dest =
  let ar = parse_content content in
  let decode b = if b = magic then ar else None in
  let fl = (if arc = "missing" then [] else [ (p_arc, magic) ]) @ (if dest = "filepre" then [ (p_out, junk) ] else []) in
  let fs = { files = fl; nocreate = (if dest = "baddir" then [ p_out ] else []) } in
  (decode, { p_fs = fs; p_stdout = [] }, (if dest = "stdout" then None else Some p_out))

let show (ec, st) =
  let f p = match fs_read st.p_fs p with None -> "absent" | Some b -> hex_of_bytes b in
  Printf.sprintf "rc=%s out=%s file=%s tmp=%s" (match ec with Zero -> "0" | NonZero -> "nz")
    (hex_of_bytes st.p_stdout) (f p_out) (f p_tmp)

let err_name = function
  | EBadCapacity -> "capacity" | ECapacityPanic -> "capacity-panic" | ECppAgc -> "cppagc"
  | EAdaptiveConcat -> "adaptive_concat" | EInvalidPath -> "invalid_path" | ENoInputs -> "noinputs" | EBatch -> "batch"

let starts p s = String.length s >= String.length p && String.sub s 0 (String.length p) = p
let after p s = String.sub s (String.length p) (String.length s - String.length p)

let () = run_lines (function
  | "getset" :: arc :: content :: dest :: pfx :: names ->
    let decode, st, o = initial arc content dest in
    let prefix = if pfx = "nop" then None else Some (hexs (after "p:" pfx)) in
    show (run_main decode p_tmp (CmdGetset (p_arc, List.map hexs names, prefix, o)) st)
  | [ "listset"; arc; content; dest ] ->
    let decode, st, o = initial arc content dest in
    show (run_main decode p_tmp (CmdListset (p_arc, o)) st)
  | "listctg" :: arc :: content :: dest :: names ->
    let decode, st, o = initial arc content dest in
    show (run_main decode p_tmp (CmdListctg (p_arc, List.map hexs names, o)) st)
  | [ "info"; arc ] ->
    let decode, st, _ = initial arc "-" "stdout" in
    show (run_main decode p_tmp (CmdInfo p_arc) st)
  | "create" :: set :: flags ->
    let ninputs =
      match set.[0] with
      | 'N' -> 0
      | 'S' -> 1
      | _ -> (match parse_content (after "M:" set) with Some l -> List.length l | None -> 0) in
    let has f = List.mem f flags in
    let opt p = List.fold_left (fun acc f -> if starts p f then Some (after p f) else acc) None flags in
    let f = { f_adaptive = has "adaptive"; f_concatenated = has "concatenated"; f_batch = has "batch";
              f_cpp_agc = has "cpp";
              f_verbosity = n_of_int (match opt "v=" with Some v -> int_of_string v | None -> 1);
              f_threads = (match opt "t=" with Some t -> Some (n_of_int (int_of_string t)) | None -> None);
              f_qcap = (match opt "q=" with Some q -> hexs q | None -> bytes_of_hex "3247");   (* "2G" *)
              f_ninputs = n_of_int ninputs; f_output_utf8 = true; f_checked = has "dev"; f_ncpus = n_of_int 16 } in
    let cap = match banner_capacity f with Some v -> hex_of_n v | None -> "-" in
    (* no fault is injected here (C15 does that): a dispatch that proceeds is paired with a pipeline that finalizes *)
    let _, st, _ = initial "missing" "-" "stdout" in
    let ec, st' = run_main (fun _ -> None) p_tmp (CmdCreate (f, p_out, PipeFinalized magic)) st in
    let present = fs_read st'.p_fs p_out <> None in
    (match create_dispatch f, ec with
     | DErr e, NonZero when not present ->
       Printf.sprintf "rc=nz err=%s cap=%s arc=absent listed=- data=-" (err_name e) cap
     | DProceed (_, _, _), Zero when present -> Printf.sprintf "rc=0 err=- cap=%s arc=present listed=all data=ok" cap
     | _ -> "DRIVER-ERROR model inconsistent")
  | _ -> "DRIVER-ERROR bad case")
