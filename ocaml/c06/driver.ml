(* C06 driver: replays the hook log of one real MemoryBoundedQueue scenario through the extracted model.
   input line (built by checks/c06.py model_cases = case ++ "||" ++ harness line):
     run <seed> <cap hex> <closemode> <script 1> ... <script T> || F <len> <size hex> <closed> | <log> | <results 1> ... <results T>
   output: OK <len> <current_size hex> <closed>   (final model state; every record was an enabled transition of
           Queue.step with the outcome the thread observed, everybody finished, nobody left inside a wait)
           FAIL <index> <record> <why>
   The driver itself only (a) walks every thread's script to attach the priority to push records and to compare
   the observed outcome, (b) calls Model.replay_step. *)
open Model
open Util

type op = Push of string * n | TryPush of string * n | Pull | TryPull | Close | Sleep

(* i64 priorities travel in decimal; OCaml's native int has 63 bits, so go through Int64 and hex *)
let z_of_dec (s : string) : z =
  let v = Int64.of_string s in
  if v = 0L then Z0
  else if Int64.compare v 0L > 0 then (match n_of_hex (Printf.sprintf "%Lx" v) with Npos p -> Zpos p | N0 -> Z0)
  else (match n_of_hex (Printf.sprintf "%Lx" (Int64.neg v)) with Npos p -> Zneg p | N0 -> Z0)

let parse_op (s : string) : op =
  let r = String.sub s 1 (String.length s - 1) in
  let ps () = match String.split_on_char ':' r with
    | [p; z] -> (p, n_of_hex z)
    | _ -> failwith "bad push op" in
  match s.[0] with
  | 'P' -> let (p, z) = ps () in Push (p, z)
  | 'Q' -> let (p, z) = ps () in TryPush (p, z)
  | 'G' -> Pull | 'H' -> TryPull | 'C' -> Close | 'Z' -> Sleep
  | _ -> failwith "bad op"

let rec split_at (sep : string) (l : string list) : string list * string list =
  match l with
  | [] -> ([], [])
  | x :: r -> if x = sep then ([], r) else let (a, b) = split_at sep r in (x :: a, b)

exception Fail of string

let b2s b = if b then "1" else "0"

let replay_line (toks : string list) : string =
  let (case, rest) = split_at "||" toks in
  match case, rest with
  | "run" :: _seed :: cap :: mode :: scripts, "F" :: _ :: _ :: _ :: "|" :: log :: "|" :: results ->
    let cap = n_of_hex cap in
    let scripts = Array.of_list (List.map (fun s -> Array.of_list (List.map parse_op (String.split_on_char ',' s))) scripts) in
    let nthr = Array.length scripts in
    let results = Array.of_list (List.map (fun s -> Array.of_list (String.split_on_char ',' s)) results) in
    if Array.length results <> nthr then "FAIL - - number of result columns" else begin
      (* thread 0 = the harness main thread: one close unless mode n *)
      let script t = if t = 0 then (if mode = "n" then [||] else [| Close |]) else scripts.(t - 1) in
      let result t i = if t = 0 then "-" else
          (if i < Array.length results.(t - 1) then results.(t - 1).(i) else raise (Fail "missing result")) in
      let pc = Array.make (nthr + 1) 0 in
      let rec skip t = let sc = script t in
        if pc.(t) < Array.length sc && sc.(pc.(t)) = Sleep then (pc.(t) <- pc.(t) + 1; skip t) in
      let cur_op t =
        if t < 0 || t > nthr then raise (Fail "unknown thread");
        skip t;
        let sc = script t in
        if pc.(t) >= Array.length sc then raise (Fail "thread has no operation left") else sc.(pc.(t)) in
      let table : (int, string) Hashtbl.t = Hashtbl.create 64 in     (* seq -> "prio:id" of the pushed item *)
      let st = ref (init, None) in
      let evs = if log = "-" then [] else String.split_on_char ';' log in
      let idx = ref 0 in
      (try
         List.iter (fun ev ->
             let f = Array.of_list (String.split_on_char ',' ev) in
             let kind = f.(0) in
             let t = int_of_string ("0x" ^ f.(1)) in
             let tn = n_of_int t in
             let op = cur_op t in
             let fin expect =                       (* terminal record: compare with what the thread observed *)
               let got = result t pc.(t) in
               if got <> expect then raise (Fail (Printf.sprintf "thread observed %s, log says %s" got expect));
               pc.(t) <- pc.(t) + 1 in
             let pushargs () = match op with
               | Push (p, z) | TryPush (p, z) -> (z_of_dec p, z)
               | _ -> raise (Fail "record does not belong to the thread's current operation") in
             let chk_size z i = if n_of_hex f.(i) <> z then raise (Fail "size differs from the script") in
             let is_push = (match op with Push _ -> true | _ -> false)
             and is_try = (match op with TryPush _ -> true | _ -> false) in
             let need b = if not b then raise (Fail "record does not belong to the thread's current operation") in
             let item_str () = let id = 1000 * t + pc.(t) in
               (match op with Push (p, _) | TryPush (p, _) -> Printf.sprintf "%s:%d" p id | _ -> "?") in
             let lev, after =
               match kind with
               | "WF" -> need is_push; let (p, z) = pushargs () in chk_size z 2; LWF (tn, p, z), (fun () -> ())
               | "KF" -> need is_push; LKF tn, (fun () -> ())
               | "R" -> need is_push; let (p, z) = pushargs () in chk_size z 2; LR (tn, p, z), (fun () -> fin "c")
               | "A" -> need is_push; let (p, z) = pushargs () in chk_size z 3;
                 let sq = int_of_string ("0x" ^ f.(2)) in
                 let it = item_str () in
                 LA (tn, p, n_of_int sq, z), (fun () -> Hashtbl.replace table sq it; fin "o")
               | "TR" -> need is_try; let (p, z) = pushargs () in chk_size z 2; LTR (tn, p, z), (fun () -> fin "c")
               | "TB" -> need is_try; let (p, z) = pushargs () in chk_size z 2; LTB (tn, p, z), (fun () -> fin "b")
               | "TA" -> need is_try; let (p, z) = pushargs () in chk_size z 3;
                 let sq = int_of_string ("0x" ^ f.(2)) in
                 let it = item_str () in
                 LTA (tn, p, n_of_int sq, z), (fun () -> Hashtbl.replace table sq it; fin "o")
               | "WE" -> need (op = Pull); LWE tn, (fun () -> ())
               | "KE" -> need (op = Pull); LKE tn, (fun () -> ())
               | "N" -> need (op = Pull); LN tn, (fun () -> fin "n")
               | "T" | "TT" ->
                 need (op = (if kind = "T" then Pull else TryPull));
                 let sq = int_of_string ("0x" ^ f.(2)) in
                 let z = n_of_hex f.(3) in
                 (* the item the model holds under this seq must be the one the thread received *)
                 let want = (try Hashtbl.find table sq with Not_found -> raise (Fail "seq never admitted")) in
                 (match prio_of_seq (fst !st) (n_of_int sq) with
                  | Some p -> if p <> z_of_dec (List.hd (String.split_on_char ':' want)) then
                      raise (Fail "model priority of seq differs from the pushed item")
                  | None -> raise (Fail "seq not queued in the model"));
                 (if kind = "T" then LT (tn, n_of_int sq, z) else LTT (tn, n_of_int sq, z)), (fun () -> fin want)
               | "TN" -> need (op = TryPull); LTN tn, (fun () -> fin "n")
               | "C" -> need (op = Close); LC tn, (fun () -> fin "-")
               | _ -> raise (Fail "unknown record") in
             (match replay_step cap !st lev with
              | Some st' -> st := st'
              | None -> raise (Fail "not an enabled transition of the model"));
             after ();
             incr idx) evs;
         (* everybody finished every operation *)
         for t = 0 to nthr do
           skip t;
           if pc.(t) <> Array.length (script t) then
             raise (Fail (Printf.sprintf "thread %d: operations without a terminal record" t))
         done;
         if not (quiescent !st) then raise (Fail "a thread is still inside a wait at the end of the log");
         let s = fst !st in
         Printf.sprintf "OK %d %s %s" (List.length (items s)) (hex_of_n (cur s)) (b2s (closed s))
       with Fail m ->
         let ev = (try List.nth evs !idx with _ -> "end") in
         Printf.sprintf "FAIL %d %s %s" !idx ev m)
    end
  | _ -> "NOTRACE"

let () = run_lines (fun toks -> try replay_line toks with Invalid_argument m -> "DRIVER-ERROR " ^ m)
