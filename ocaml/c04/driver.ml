(* C04 driver: trace validation.  The case line is built by checks/c04.py (model_cases) from the harness line:
     replay <mode> <pack> <first> <in> || <sched> <R> <O> <T> || <sched> HANG || ...
   For every run the producer script is built by the extracted model (multifile_script / singlefile_script with
   the current pack-boundary rule), the logged trace is replayed through the extracted [step]: every logged push
   must be the script's next push and be admitted by the capacity rule, every logged pull must take a maximal
   task by an idle worker, every logged classification must find all workers at the barrier, every None must
   find the queue empty and closed; the run must end complete.  Printed per run: the round compositions the
   MODEL computed (must equal the logged ROUND events and the script's intended rounds) and the canonical write
   order the model's BTreeMap gives to the parts of the real file (must equal the real file order). *)
open Model
open Util

exception Fail of string
let fail fmt = Printf.ksprintf (fun s -> raise (Fail s)) fmt

let split_on s sep = Str.split_delim (Str.regexp_string sep) s

let parse_inputs (s : string) =
  if s = "-" then [] else
    List.mapi (fun i f ->
        match String.split_on_char '.' f with
        | [a; b; c] -> ((((n_of_int (int_of_string a)), (n_of_int (int_of_string b))), n_of_int i), n_of_int (int_of_string c))
        | _ -> fail "bad input field %s" f) (String.split_on_char ';' s)

let sample_of inp = fst (fst (fst inp))

(* the reference sample of single-file mode: the leading inputs with the first sample's name *)
let split_ref inputs =
  match inputs with
  | [] -> ([], [])
  | i0 :: _ ->
    let s0 = sample_of i0 in
    let rec go acc = function
      | x :: r when sample_of x = s0 -> go (x :: acc) r
      | r -> (List.rev acc, r) in
    go [] inputs

let rec take k l = if k = 0 then [] else match l with [] -> [] | x :: r -> x :: take (k - 1) r
let rec drop k l = if k = 0 then l else match l with [] -> [] | _ :: r -> drop (k - 1) r

let round_str (rd : task list list) : string =
  let ids = List.sort compare (List.map (fun t -> int_of_n (t_data t)) (List.concat rd)) in
  if ids = [] then "-" else String.concat "." (List.map string_of_int ids)

let same_sys a b =
  List.length (s_q a) = List.length (s_q b) && List.length (s_prod a) = List.length (s_prod b)
  && s_closed a = s_closed b && List.length (s_rounds a) = List.length (s_rounds b) && s_wk a = s_wk b

(* canonical order of the parts: insert them in an order that differs from the file order (part index first,
   then stream id descending) into the model's BTreeMap and read it back *)
let model_order (o : string) : string =
  if o = "BAD-FOOTER" then o else begin
    let runs = List.map (fun f ->
        match String.split_on_char ':' f with
        | [sid; cnt] ->
          (match String.split_on_char '@' sid with
           | [s] -> (int_of_string s, 0, int_of_string cnt)
           | [s; first] -> (int_of_string s, int_of_string first, int_of_string cnt)
           | _ -> fail "bad order field %s" f)
        | _ -> fail "bad order field %s" f) (if o = "" then [] else String.split_on_char ',' o) in
    let parts = List.concat_map (fun (s, f, c) -> List.init c (fun i -> (s, f + i))) runs in
    let scrambled = List.sort (fun (s1, p1) (s2, p2) -> if p1 <> p2 then compare p1 p2 else compare s2 s1) parts in
    let m = bt_push_all (List.map (fun (s, p) -> (n_of_int s, n_of_int p)) scrambled) [] in
    let flat = List.map (fun (s, p) -> (int_of_n s, int_of_n p)) (bt_flatten m) in
    (* same run-length form as the harness *)
    let runs = List.fold_left (fun acc (s, p) ->
        match acc with
        | (s', f, c) :: r when s' = s && f + c = p -> (s', f, c + 1) :: r
        | _ -> (s, p, 1) :: acc) [] flat in
    String.concat "," (List.rev_map (fun (s, f, c) ->
        if f = 0 then Printf.sprintf "%d:%d" s c else Printf.sprintf "%d@%d:%d" s f c) runs)
  end

let replay mode pack first inputs (sched : string) (r_logged : string) (trace : string) : string =
  let (threads, cap) = match String.split_on_char ':' sched with
    | [t; _; c] -> (int_of_string t, c)
    | _ -> fail "bad schedule %s" sched in
  let n = nat_of_int threads in
  let capn = n_of_hex (Printf.sprintf "%x" (int_of_string cap)) in
  let script =
    if mode = "single" then let (rf, rs) = split_ref inputs in singlefile_script current_rule n (n_of_int pack) rf rs
    else multifile_script current_rule n (take first inputs) (drop first inputs) in
  let st = ref (init n script) in
  let qseq : int list ref = ref [] in         (* push sequence numbers, parallel to s_q *)
  let logged = if r_logged = "-" then [||] else Array.of_list (String.split_on_char '/' r_logged) in
  let pass_waits () =
    let continue = ref true in
    while !continue do
      match s_prod !st, s_q !st with
      | PWaitEmpty :: _, [] -> st := step capn EProd !st
      | _ -> continue := false
    done in
  let nev = ref 0 in
  List.iter (fun e ->
      incr nev;
      let body = String.sub e 1 (String.length e - 1) in
      match e.[0] with
      | 'a' ->
        pass_waits ();
        (* a<seq>c<idx> | a<seq>p | a<seq>f *)
        let (seq, kind) =
          let i = ref 0 in
          while !i < String.length body && body.[!i] >= '0' && body.[!i] <= '9' do incr i done;
          (int_of_string (String.sub body 0 !i), String.sub body !i (String.length body - !i)) in
        (match s_prod !st with
         | PPush t :: _ ->
           if kind.[0] = 'c' then begin
             if t_tok t then fail "event %d %s: the script pushes a token here" !nev e;
             let idx = int_of_string (String.sub kind 1 (String.length kind - 1)) in
             if int_of_n (t_data t) <> idx then fail "event %d %s: the script pushes contig %d here" !nev e (int_of_n (t_data t))
           end else if not (t_tok t) then fail "event %d %s: the script pushes contig %d here" !nev e (int_of_n (t_data t));
           let before = !st in
           st := step capn EProd before;
           if same_sys before !st then fail "event %d %s: push not admitted by the model (queue bytes %d)" !nev e (int_of_n (qbytes (s_q before)));
           qseq := !qseq @ [seq]
         | PWaitEmpty :: _ -> fail "event %d %s: the script waits for an empty queue, %d queued" !nev e (List.length (s_q !st))
         | PClose :: _ -> fail "event %d %s: the script closes here" !nev e
         | [] -> fail "event %d %s: script exhausted" !nev e)
      | 't' ->
        (match String.split_on_char '.' body with
         | [w; sq] ->
           let w = int_of_string w and sq = int_of_string sq in
           let rec idx i = function [] -> fail "event %d %s: task not queued in the model" !nev e | x :: r -> if x = sq then i else idx (i + 1) r in
           let i = idx 0 !qseq in
           let before = !st in
           st := step capn (EPull (nat_of_int w, nat_of_int i)) before;
           if same_sys before !st then begin
             let x = List.nth (s_q before) i in
             if not (is_maxb (s_q before) x) then fail "event %d %s: pulled task is not maximal in the model's queue" !nev e
             else fail "event %d %s: worker %d is not idle in the model" !nev e w
           end;
           qseq := List.filteri (fun j _ -> j <> i) !qseq
         | _ -> fail "bad event %s" e)
      | 's' | 'k' -> ()
      | 'r' ->
        let before = !st in
        st := step capn EFire before;
        if same_sys before !st then fail "event %d: classification while not every worker is at the barrier" !nev;
        let k = List.length (s_rounds before) in
        let got = round_str (List.nth (s_rounds !st) k) in
        if k >= Array.length logged then fail "round %d not logged" k;
        if got <> logged.(k) then fail "round %d: model %s, logged %s" k got logged.(k);
        let want = round_str [expected_round script (nat_of_int k)] in
        if got <> want then fail "round %d: %s, the script intends %s" k got want
      | 'c' ->
        pass_waits ();
        (match s_prod !st with
         | PClose :: _ -> st := step capn EProd !st
         | _ -> fail "event %d: close, but the script is not at its close" !nev)
      | 'n' ->
        let w = int_of_string body in
        let before = !st in
        st := step capn (ENone (nat_of_int w)) before;
        if same_sys before !st then fail "event %d %s: None although the model's queue is not (empty and closed) or the worker is not idle" !nev e
      | _ -> fail "bad event %s" e)
    (if trace = "" then [] else String.split_on_char ',' trace);
  if not (completeb !st) then fail "run ends incomplete in the model (%d queued, %d actions left)" (List.length (s_q !st)) (List.length (s_prod !st));
  let rounds = List.map round_str (s_rounds !st) in
  if rounds = [] then "-" else String.concat "/" rounds

let field pre s =
  let l = String.length pre in
  if String.length s >= l && String.sub s 0 l = pre then String.sub s l (String.length s - l) else fail "field %s expected, got %s" pre (String.sub s 0 (min 20 (String.length s)))

let () = run_lines (fun toks ->
    let line = String.concat " " toks in
    match split_on line " || " with
    | head :: runs ->
      (match split_ws head with
       | ["replay"; mode; pack; first; ins] ->
         let inputs = parse_inputs (field "in=" ins) in
         let pack = int_of_string pack and first = int_of_string (field "first=" first) in
         let outs = List.map (fun r ->
             match split_ws r with
             | [sched; "HANG"] -> sched ^ " HANG"
             | sched :: "ERR" :: _ -> sched ^ " ERR"
             | [sched; rr; oo; tt] ->
               (try
                  let rounds = replay mode pack first inputs sched (field "R=" rr) (field "T=" tt) in
                  Printf.sprintf "%s R=%s O=%s" sched rounds (model_order (field "O=" oo))
                with Fail m -> Printf.sprintf "%s REPLAY-FAIL %s" sched m)
             | _ -> "DRIVER-ERROR bad run") runs in
         "OK " ^ mode ^ " | " ^ String.concat " | " outs
       | _ -> "DRIVER-ERROR bad head")
    | [] -> "DRIVER-ERROR empty")
