(* C07 driver.  The case lines are built by checks/c07.py (model_cases) from what the implementation printed:
     m <k> | <raws> <rcs> <segs> <queries> | <raws> <rcs> <segs> <queries> ...
   one record per contig: raw_length list (decimal, comma separated, "-" = none), is_rev_comp flags (0/1 string),
   the bytes get_segment returned per descriptor (hex, comma separated), queries = comma separated
   <start hex>:<end hex>.
   -> M <k> | <L> <full> <wf> <answers> | ...
      L = get_contig_length (decimal | E | P), full = reconstruct_contig as <len>.<hash> | E | P, wf = wfb (0/1),
      answers = comma separated <start hex>:<end hex>:<len>.<hash> | ..:E | ..:P   (hash as in harness c07.rs) *)
open Model
open Util

let hash2 (l : int list) : string =
  let h1 = ref 0x811c9dc5 and h2 = ref 7 in
  List.iter (fun b ->
      h1 := (!h1 * 16777619 + b + 1) land 0xffffffff;
      h2 := (!h2 * 31 + b + 1) land 0xffffffff) l;
  Printf.sprintf "%08x%08x" !h1 !h2

let show_bytes (l : n list) : string =
  let il = List.map int_of_n l in
  Printf.sprintf "%d.%s" (List.length il) (hash2 il)

let show_out (f : 'a -> string) (o : 'a outcome) : string =
  match o with Ok v -> f v | Err -> "E" | Panic -> "P"

let split_c s = if s = "-" then [] else String.split_on_char ',' s

let record (k : n) (toks : string list) : string =
  match toks with
  | [raws; rcs; segs; qs] ->
    let raws = List.map (fun x -> n_of_int (int_of_string x)) (split_c raws) in
    let rcs = if rcs = "-" then [] else List.init (String.length rcs) (fun i -> rcs.[i] = '1') in
    let datas = List.map bytes_of_hex (split_c segs) in
    if List.length raws <> List.length rcs || List.length raws <> List.length datas then failwith "record arity";
    let sl = List.map2 (fun (r, c) d -> { rs_raw = r; rs_rc = c; rs_data = d }) (List.combine raws rcs) datas in
    let l = show_out (fun v -> string_of_int (int_of_n v)) (get_contig_length k sl) in
    let full = show_out show_bytes (reconstruct_contig k sl) in
    let wf = if wfb k sl then "1" else "0" in
    let buf = Buffer.create 4096 in
    List.iter (fun q ->
        match String.split_on_char ':' q with
        | [s; e] ->
          if Buffer.length buf > 0 then Buffer.add_char buf ',';
          Buffer.add_string buf s; Buffer.add_char buf ':'; Buffer.add_string buf e; Buffer.add_char buf ':';
          Buffer.add_string buf (show_out show_bytes (get_contig_range k sl (n_of_hex s) (n_of_hex e)))
        | _ -> failwith "bad query") (split_c qs);
    Printf.sprintf "%s %s %s %s" l full wf (if Buffer.length buf = 0 then "-" else Buffer.contents buf)
  | _ -> failwith "bad record"

(* split the token list at "|" *)
let rec split_bar (acc : string list) (l : string list) : string list list =
  match l with
  | [] -> [List.rev acc]
  | "|" :: r -> List.rev acc :: split_bar [] r
  | x :: r -> split_bar (x :: acc) r

let () = run_lines (function
  | "m" :: k :: rest ->
    let kn = n_of_int (int_of_string k) in
    let recs = match split_bar [] rest with [] :: r -> r | r -> r in
    String.concat " | " (("M " ^ k) :: List.map (record kn) recs)
  | ["skip"] -> "SKIP"
  | _ -> "DRIVER-ERROR bad case")
