(* C10 driver. cases:
   split <w|o> <k> <hexcontig> <splitters> <min_segment_size>
     w = split_at_splitters_with_size, o = split_at_splitters (min_segment_size ignored)
     splitters = comma separated hex u64 values, "-" = empty set
   -> one token per segment: <hexdata>:<front>:<back>:<fdir>:<bdir>   (k-mers in hex) *)
open Model
open Util
let b2s b = if b then "1" else "0"
let () = run_lines (function
  | ["split"; v; k; contig; spl; msz] ->
    let k = n_of_int (int_of_string k) in
    let set = if spl = "-" then [] else List.map n_of_hex (String.split_on_char ',' spl) in
    let c = bytes_of_hex contig in
    let segs = match v with
      | "w" -> split_at_splitters_with_size c (set_of_list set) k (n_of_int (int_of_string msz))
      | "o" -> split_at_splitters c (set_of_list set) k
      | _ -> failwith "bad variant" in
    String.concat " " (List.map (fun s ->
        Printf.sprintf "%s:%s:%s:%s:%s" (hex_of_bytes s.sdata) (hex_of_n s.sfront) (hex_of_n s.sback)
          (b2s s.sfdir) (b2s s.sbdir)) segs)
  | _ -> "DRIVER-ERROR bad case")
