(* C14O driver: the extracted OpenStage.open2 on the cases of harness/src/bin/c14o.rs, with the tail that
   checks/c14o.py:model_cases appends from the implementation's line:
     pre|prec <fs> <from> <to> <hexfile> CK <0|1> ZT { <frame hex>=<decoded hex> }*
     file <fs> <hexfile> CK <0|1> ZT { .. }*
   CK 1 = the implementation traps on integer overflow (profile Dev), 0 = Release.
   zd = lookup in the table ZT (what the zstd crate returned for that frame); a frame that is not in the table is
   a decoding error (None).  Prints one token per file (letters as in the harness):
     A B C D F G H I J K L M N U V  error codes 1 2 3 4 5 6 7 8 10 11 12 13 14 15 16,  P panic,
     O:<k>:<min_match_len>:<name hex>,..  a handle
   and ` a=<largest AFile> z=<largest AZstd> n=<largest AName> t=<largest ATable>` (removed by canon). *)
open Model
open Util

let btab = Array.init 256 n_of_int
let hexv c = match c with '0'..'9' -> Char.code c - 48 | 'a'..'f' -> Char.code c - 87 | 'A'..'F' -> Char.code c - 55 | _ -> failwith "bad hex"
let nbytes_of_hex (s : string) : n list =
  if s = "-" then [] else List.init (String.length s / 2) (fun i -> btab.(16 * hexv s.[2 * i] + hexv s.[2 * i + 1]))
let key_of_bytes (l : n list) : string =
  let b = Buffer.create 256 in
  List.iter (fun x -> Buffer.add_char b (Char.chr ((int_of_n x) land 255))) l;
  Buffer.contents b
let raw_of_hex (s : string) : string =
  if s = "-" then "" else String.init (String.length s / 2) (fun i -> Char.chr (16 * hexv s.[2 * i] + hexv s.[2 * i + 1]))

let max_off_of = function
  | "ext4" -> n_of_hex "ffffffff000"        (* 2^44 - 4096: ext4, 4 KiB blocks, extent mapped *)
  | "shm" -> n_of_hex "7fffffffffffffff"    (* tmpfs: MAX_LFS_FILESIZE *)
  | _ -> failwith "bad fs"

let letter code = match int_of_n code with
  | 1 -> "A" | 2 -> "B" | 3 -> "C" | 4 -> "D" | 5 -> "F" | 6 -> "G" | 7 -> "H" | 8 -> "I"
  | 10 -> "J" | 11 -> "K" | 12 -> "L" | 13 -> "M" | 14 -> "N" | 15 -> "U" | 16 -> "V" | c -> Printf.sprintf "?%d" c

let ma = ref 0 and mz = ref 0 and mn = ref 0 and mt = ref 0
let note (al : alloc list) =
  List.iter (fun a ->
      let upd r v = let v = int_of_n v in if v > !r then r := v in
      match a with AFile v -> upd ma v | AZstd v -> upd mz v | AName v -> upd mn v | ATable v -> upd mt v) al

let token pf mo zd (bs : n list) : string =
  let (al, r) = open2 pf mo zd bs in
  note al;
  match r with
  | O2err c -> letter c
  | O2panic -> "P"
  | O2ok h ->
    Printf.sprintf "O:%d:%d:%s" (int_of_n h.h_kmer_length) (int_of_n h.h_min_match_len)
      (String.concat "," (List.map hex_of_bytes (h_samples h)))

let rec split_tail = function
  | "CK" :: ck :: "ZT" :: frames -> ([], ck, frames)
  | x :: r -> let (a, ck, f) = split_tail r in (x :: a, ck, f)
  | [] -> failwith "no CK/ZT tail"

let rec take n l = if n <= 0 then [] else match l with [] -> [] | x :: r -> x :: take (n - 1) r

let () = run_lines (fun toks ->
  let (head, ck, frames) = split_tail toks in
  let tbl : (string, n list) Hashtbl.t = Hashtbl.create 16 in
  List.iter (fun t ->
      match String.index_opt t '=' with
      | Some i ->
        Hashtbl.replace tbl (raw_of_hex (String.sub t 0 i)) (nbytes_of_hex (String.sub t (i + 1) (String.length t - i - 1)))
      | None -> failwith "bad ZT token") frames;
  let zd (f : n list) : n list option = Hashtbl.find_opt tbl (key_of_bytes f) in
  let pf = if ck = "1" then Dev else Release in
  ma := 0; mz := 0; mn := 0; mt := 0;
  let out =
    match head with
    | ["file"; fs; b] -> token pf (max_off_of fs) zd (nbytes_of_hex b)
    | [("pre" | "prec"); fs; from; upto; b] ->
      let bs = nbytes_of_hex b and mo = max_off_of fs in
      let len = List.length bs in
      let acc = ref [] in
      for n = int_of_string from to min (int_of_string upto - 1) len do
        acc := token pf mo zd (take n bs) :: !acc
      done;
      String.concat " " (List.rev !acc)
    | _ -> failwith "bad case" in
  Printf.sprintf "%s a=%d z=%d n=%d t=%d" out !ma !mz !mn !mt)
