(* C12 driver (same case language as harness/src/bin/c12.rs):
   pk <hex>                      -> packed  unpacked|PANIC
   un <hextuples>                -> tuples_to_bytes outcome
   ref <lt> <lp> <hex>           -> m=<marker> pay=<pre-zstd payload> rt=<1|0:..> lv=<level used = lt/lp> ne=<frame non-empty>
   dlt <c|p|d> <level> <hex>     -> pay=.. rt=.. rs=.. lv=.. ne=..
   mk <marker> <level> <hexpay>  -> decompress_segment_with_marker (frame of pay) marker
   mkraw <marker> <hexframe>     -> decompress_segment_with_marker / decompress_segment on raw bytes
   hist <lt> <lp> <ld> <x> <h>   -> the model is a pure function: history cannot matter
   exh <alphahex> <len> <prefix> -> n=.. ok=.. h=..  over every string of that length/alphabet with that prefix
   wref <x> <frame> / wpack <level> <x> <frame> / lpart <meta> <data> <payload>  (model only) -> store_ref_part,
                                    store_pack_part, load_part with the zstd oracle pinned to the observed frame / payload
   zstd stand-in (the model takes zc / zd as arguments): frame = magic ++ [level] ++ payload.  It satisfies the
   hypotheses of the theorems (zd (zc l x) = Some x, frames non-empty) and lets the driver read off the level. *)
open Model
open Util

let magic = List.map n_of_int [0x28; 0xb5; 0x2f; 0xfd]
let zc (level : n) (x : n list) : n list = magic @ (level :: x)
let zd (c : n list) : n list option =
  match c with
  | a :: b :: c' :: d :: _ :: rest when [a; b; c'; d] = magic -> Some rest
  | _ -> None
let level_of (c : n list) : int = match c with _ :: _ :: _ :: _ :: lv :: _ -> int_of_n lv | _ -> -1
let payload c = match zd c with Some p -> hex_of_bytes p | None -> "UNZSTD-ERR"

let out = function Ok v -> hex_of_bytes v | Err -> "ERR" | Panic -> "PANIC"
let rt got want = if got = hex_of_bytes want then "1" else "0:" ^ got
let b2s b = if b then "1" else "0"
let nint s = n_of_int (int_of_string s)

let () = run_lines (function
  | ["pk"; x] ->
    let x = bytes_of_hex x in
    (match bytes_to_tuples_opt x with
     | None -> "MODEL-FUEL"
     | Some p -> Printf.sprintf "%s %s" (hex_of_bytes p) (out (tuples_to_bytes p)))
  | ["un"; t] -> out (tuples_to_bytes (bytes_of_hex t))
  | ["ref"; lt; lp; x] ->
    let x = bytes_of_hex x in
    (match compress_reference_segment zc x with
     | Ok (frame, marker) ->
       let want = if int_of_n marker <> 0 then int_of_string lt else int_of_string lp in
       Printf.sprintf "m=%d pay=%s rt=%s lv=%s ne=%s" (int_of_n marker) (payload frame)
         (rt (out (decompress_segment_with_marker zd frame marker)) x) (b2s (level_of frame = want)) (b2s (frame <> []))
     | Err -> "ERR" | Panic -> "PANIC")
  | ["dlt"; mode; level; x] ->
    let x = bytes_of_hex x in
    let frame = (match mode with
        | "c" -> compress_segment_configured zc x (nint level)
        | "p" -> compress_segment_plain zc x (nint level)
        | _ -> compress_segment zc x) in
    Printf.sprintf "pay=%s rt=%s rs=%s lv=%s ne=%s" (payload frame)
      (rt (out (decompress_segment_with_marker zd frame N0)) x) (rt (out (decompress_segment zd frame)) x)
      (b2s (level_of frame = int_of_string level)) (b2s (frame <> []))
  | ["mk"; marker; level; pay] ->
    out (decompress_segment_with_marker zd (zc (nint level) (bytes_of_hex pay)) (nint marker))
  | ["mkraw"; marker; frame] ->
    let f = bytes_of_hex frame in
    Printf.sprintf "%s %s" (out (decompress_segment_with_marker zd f (nint marker))) (out (decompress_segment zd f))
  | ["hist"; lt; lp; ld; x; _] ->
    let x = bytes_of_hex x in
    (match compress_reference_segment zc x with
     | Ok (f1, m1) ->
       let d1 = compress_segment zc x in
       let d3 = compress_segment_configured zc x (nint ld) in
       let r1 = rt (out (decompress_segment_with_marker zd f1 m1)) x in
       let r3 = rt (out (decompress_segment_with_marker zd d1 N0)) x in
       let r5 = rt (out (decompress_segment zd d3)) x in
       ignore lt; ignore lp;
       Printf.sprintf "m=%d m2=%d rt=%s,%s,%s,%s,%s same=1,1,%s,%s" (int_of_n m1) (int_of_n m1) r1 r1 r3 r3 r5
         (b2s (d1 = d3)) (b2s (level_of d1 = int_of_string ld))
     | Err -> "ERR" | Panic -> "PANIC")
  | ["exh"; alpha; len; prefix] ->
    let alpha = bytes_of_hex alpha and len = int_of_string len and prefix = bytes_of_hex prefix in
    let free = len - List.length prefix in
    let m = (1 lsl 50) - 1 in
    let n = ref 0 and ok = ref 0 and h = ref 0 in
    let visit s =
      (match bytes_to_tuples_opt s with
       | None -> ()
       | Some p ->
         let hs = List.fold_left (fun a b -> (a * 31 + int_of_n b + 1) land m) 7 p in
         h := (!h + hs) land m;
         (match tuples_to_bytes p with Ok u when u = s -> incr ok | _ -> ()));
      incr n in
    (* suffixes are built back to front; the digest does not depend on the order of visits *)
    let rec go k suffix = if k = 0 then visit (prefix @ suffix) else List.iter (fun a -> go (k - 1) (a :: suffix)) alpha in
    go free [];
    Printf.sprintf "n=%d ok=%d h=%x" !n !ok !h
  (* model-only cases derived from a really written archive (checks/c12.py extra_checks): the zstd oracle is the
     frame / payload observed in the real part *)
  | ["wref"; x; frame] ->
    let frame = bytes_of_hex frame in
    (match store_ref_part (fun _ _ -> frame) (bytes_of_hex x) with
     | Ok (d, meta) -> Printf.sprintf "%s %d" (hex_of_bytes d) (int_of_n meta)
     | Err -> "ERR" | Panic -> "PANIC")
  | ["wpack"; level; x; frame] ->
    let frame = bytes_of_hex frame in
    let (d, meta) = store_pack_part (fun _ _ -> frame) (nint level) (bytes_of_hex x) in
    Printf.sprintf "%s %d" (hex_of_bytes d) (int_of_n meta)
  | ["lpart"; meta; data; pay] ->
    let pay = bytes_of_hex pay in
    out (load_part (fun _ -> Some pay) (bytes_of_hex data, nint meta))
  | ["arch"; _; _] -> "IMPL-ONLY"
  | _ -> "DRIVER-ERROR bad case")
