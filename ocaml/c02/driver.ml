(* C02 driver (group store / segment addressing).
   case:  gs mml=<m> k=<k> x=<n> { G <gid> <nref|-> <ndelta|-> { R part }* { P part }* { D desc }* [A order] }*
     part = <meta>:<marker|->:<stored len>:<clen>:<cmarker>:<hex unpacked>     (what harness/src/bin/c02.rs printed)
     desc = <sample hex>:<contig hex>:<seg index>:<id>:<rc>:<len>:<hex stored bytes>
     A <i,i,..|i,..>   arrival order of the group's descriptors (indices into its D list), `|` = round boundary;
                       added by checks/c02.py (model_cases) from the observed ids.
     T <i,..|i,..>     (multi-file mode only) the real rounds: descriptors of the reference sample, then all others,
                       each in catalogue order; these go through GroupStore.gstep, i.e. WITH the model's sort, and
                       must give the same parts and ids (else SORTED-ROUNDS-DIFFER): ties the sort key and the
                       choice of the reference to the code.
   The driver prints the same line shape as the harness, every value recomputed by the extracted model:
   (a) reader: SegReader.get_segment on the real parts (a compressed part is handed over as unpacked bytes ++
       [marker] with dwm = identity: zstd/tuple unpacking was done by the real decompress_segment_with_marker;
       LZ decoding is the C09 model LZ.lz_decode after lz_new/lz_prepare) gives the <hex stored bytes> of each D;
   (b) writer: GroupStore.gprocess (the step after the sort) is fed the group's segments in the arrival order,
       round by round, then finalize_group; lz_enc is a table (target bytes -> the real encoding found in the
       decoded packs at the segment's id; id 0 -> empty), compress_ref / compress_pack return a unique dummy
       of the REAL compressed length (clen - 1, as re-computed by the harness with the real compressor), so
       the "did compression help" decision is the model's.  R / P tokens, ids and lengths of the output are the
       model's; a single-round run must give the same result (else ROUNDS-DIFFER). *)
open Model
open Util

let fail s = failwith s
let split c s = String.split_on_char c s
let ios s = try int_of_string s with _ -> fail ("bad int " ^ s)

type rpart = { meta : int; marker : string; slen : int; clen : int; cmarker : int; unp : n list; unp_hex : string }
type rdesc = { ds : string; dc : string; didx : int; did : int; drc : bool; dlen : int; dhex : string }
type grp = { gid : int; nref : string; ndelta : string; mutable rparts : rpart list; mutable pparts : rpart list;
             mutable descs : rdesc list; mutable order : int list list;
             mutable trounds : int list list }

let parse_part t =
  match split ':' t with
  | [meta; marker; slen; clen; cm; h] ->
    { meta = ios meta; marker; slen = ios slen; clen = ios clen; cmarker = ios cm; unp = bytes_of_hex h; unp_hex = h }
  | _ -> fail "bad part"
let parse_desc t =
  match split ':' t with
  | [s; c; i; id; rc; len; h] -> { ds = s; dc = c; didx = ios i; did = ios id; drc = (rc = "1"); dlen = ios len; dhex = h }
  | _ -> fail "bad desc"

let rec parse_groups toks acc cur =
  let push () = match cur with None -> acc | Some g ->
    g.rparts <- List.rev g.rparts; g.pparts <- List.rev g.pparts; g.descs <- List.rev g.descs; g :: acc in
  match toks with
  | [] -> List.rev (push ())
  | "G" :: gid :: nr :: nd :: rest ->
    parse_groups rest (push ()) (Some { gid = ios gid; nref = nr; ndelta = nd; rparts = []; pparts = []; descs = []; order = []; trounds = [] })
  | "R" :: p :: rest -> (match cur with Some g -> g.rparts <- parse_part p :: g.rparts | None -> fail "R outside G"); parse_groups rest acc cur
  | "P" :: p :: rest -> (match cur with Some g -> g.pparts <- parse_part p :: g.pparts | None -> fail "P outside G"); parse_groups rest acc cur
  | "D" :: d :: rest -> (match cur with Some g -> g.descs <- parse_desc d :: g.descs | None -> fail "D outside G"); parse_groups rest acc cur
  | "A" :: o :: rest ->
    (match cur with
     | Some g -> g.order <- List.map (fun r -> if r = "" then [] else List.map ios (split ',' r)) (split '|' o)
     | None -> fail "A outside G");
    parse_groups rest acc cur
  | "T" :: o :: rest ->
    (match cur with
     | Some g -> g.trounds <- List.map (fun r -> if r = "" then [] else List.map ios (split ',' r)) (split '|' o)
     | None -> fail "T outside G");
    parse_groups rest acc cur
  | t :: _ -> fail ("bad token " ^ t)

(* a real part as the model's reader sees it *)
let model_part (p : rpart) : n * n list =
  if p.meta = 0 then (n_of_int 0, p.unp) else (n_of_int p.meta, p.unp @ [n_of_int (ios p.marker)])
let dwm_id (c : n list) (_ : n) : n list outcome = Ok c

let hex_out = function Ok l -> hex_of_bytes l | Err -> "ERR" | Panic -> "PANIC"

let run_group (mml : int) (g : grp) : string =
  let gid = n_of_int g.gid in
  let descs = Array.of_list g.descs in
  (* ---------- (a) the reader on the real parts *)
  let view : n -> group_view = fun _ ->
    { gv_ref = (if g.nref = "-" then None else Some (List.map model_part g.rparts));
      gv_delta = (if g.ndelta = "-" then None else Some (List.map model_part g.pparts)) } in
  let cache : (n list * lzst) option ref = ref None in
  let lz_dec (r : n list) (enc : n list) : n list outcome =
    let st = match !cache with
      | Some (r0, st) when r0 == r || r0 = r -> Ok st
      | _ ->
        (match lz_new (n_of_int mml) with
         | Ok st0 -> (match lz_prepare (fun x -> x) st0 r with
             | Ok st -> cache := Some (r, st); Ok st
             | Err -> Err | Panic -> Panic)
         | Err -> Err | Panic -> Panic) in
    match st with Ok st -> lz_decode st enc | Err -> Err | Panic -> Panic in
  let read (d : rdesc) : string =
    hex_out (get_segment dwm_id lz_dec view
               { d_group = gid; d_id = n_of_int d.did; d_rc = d.drc; d_len = n_of_int d.dlen }) in
  let read_hex = Array.map read descs in
  (* ---------- (b) the writer re-simulated *)
  let is_lz = g.gid >= 16 in
  (* the real entry of every id: split the real unpacked packs at the separator *)
  let entries : (int, n list) Hashtbl.t = Hashtbl.create 64 in
  List.iteri (fun j (p : rpart) ->
      let cur = ref [] and pos = ref 0 in
      List.iter (fun b ->
          if int_of_n b = 255 then begin
            let slot = 50 * j + !pos in
            Hashtbl.replace entries (if is_lz then slot + 1 else slot) (List.rev !cur);
            cur := []; incr pos end
          else cur := b :: !cur) p.unp) g.pparts;
  let seg_of (d : rdesc) : seg_in =
    { s_sample = bytes_of_hex d.ds; s_contig = bytes_of_hex d.dc; s_part = n_of_int d.didx;
      s_data = bytes_of_hex d.dhex; s_rc = d.drc } in
  let enc_tbl : (n list, n list) Hashtbl.t = Hashtbl.create 64 in
  Array.iter (fun d ->
      if is_lz then
        Hashtbl.replace enc_tbl (bytes_of_hex d.dhex)
          (if d.did = 0 then [] else (try Hashtbl.find entries d.did with Not_found -> fail "descriptor id without entry")))
    descs;
  let lz_enc (_ : n list) (t : n list) : n list =
    try Hashtbl.find enc_tbl t with Not_found -> fail "lz_enc: no real encoding known for this target" in
  (* compressors: unique dummies of the real compressed length *)
  let serial = ref 0 in
  let dummies : (n list, n list) Hashtbl.t = Hashtbl.create 16 in       (* dummy -> raw *)
  let clen_of : (string, int * int) Hashtbl.t = Hashtbl.create 16 in     (* raw hex -> clen, cmarker *)
  List.iter (fun (p : rpart) -> Hashtbl.replace clen_of ("R" ^ p.unp_hex) (p.clen, p.cmarker)) g.rparts;
  List.iter (fun (p : rpart) -> Hashtbl.replace clen_of ("P" ^ p.unp_hex) (p.clen, p.cmarker)) g.pparts;
  let dummy kind (raw : n list) : n list * int =
    (* a part the real archive does not contain (the model wrote different bytes): treat it as incompressible,
       the difference shows up in the printed line *)
    let (clen, cm) = try Hashtbl.find clen_of (kind ^ hex_of_bytes raw) with Not_found -> (List.length raw + 1, 0) in
    incr serial;
    let n = max 0 (clen - 1) in
    let d = List.init n (fun i -> n_of_int (if i < 4 then (!serial lsr (8 * i)) land 255 else 0)) in
    Hashtbl.replace dummies d raw; (d, cm) in
  let compress_ref raw = let (d, cm) = dummy "R" raw in (d, n_of_int cm) in
  let compress_pack raw = fst (dummy "P" raw) in
  let simulate ?(sorted = false) (rounds : int list list) : gstate =
    let gs = List.fold_left (fun gs round ->
        match (if sorted then gstep else gprocess) lz_enc compress_ref compress_pack gid gs (List.map (fun i -> seg_of descs.(i)) round) with
        | Ok gs' -> gs' | Err -> fail "model step: Err" | Panic -> fail "model step: Panic") gstate_new rounds in
    finalize_group compress_pack gid gs in
  let show_part kind ((meta, data) : n * n list) : string =
    let meta = int_of_n meta in
    let raw = if meta = 0 then data else (try Hashtbl.find dummies (removelast data) with Not_found -> fail "dummy lost") in
    let marker = if meta = 0 then "-" else string_of_int (int_of_n (last data N0)) in
    let (clen, cm) = try Hashtbl.find clen_of (kind ^ hex_of_bytes raw) with Not_found -> (0, 0) in
    Printf.sprintf "%s %d:%s:%d:%d:%d:%s" kind meta marker (List.length data) clen cm (hex_of_bytes raw) in
  let index_of : (string * string * int, int) Hashtbl.t = Hashtbl.create 64 in
  Array.iteri (fun i d -> Hashtbl.replace index_of (d.ds, d.dc, d.didx) i) descs;
  let render (gs : gstate) : string list =
    let ids = Array.make (Array.length descs) (-1) and lens = Array.make (Array.length descs) (-1) in
    List.iter (fun (s, id) ->
        let i = try Hashtbl.find index_of (hex_of_bytes s.s_sample, hex_of_bytes s.s_contig, int_of_n s.s_part)
          with Not_found -> fail "registration for an unknown segment" in
        if ids.(i) <> -1 then fail "segment registered twice";
        ids.(i) <- int_of_n id; lens.(i) <- int_of_n (desc_of gid s id).d_len) gs.g_regs;
    [Printf.sprintf "G %d %d %d" g.gid (List.length gs.g_ref) (List.length gs.g_delta)]
    @ List.map (show_part "R") gs.g_ref @ List.map (show_part "P") gs.g_delta
    @ Array.to_list (Array.mapi (fun i d ->
        Printf.sprintf "D %s:%s:%d:%d:%s:%d:%s" d.ds d.dc d.didx ids.(i) (if d.drc then "1" else "0") lens.(i) read_hex.(i)) descs) in
  if g.order = [] then
    (* no arrival order (a group without descriptors): nothing was ever pushed: the streams must not exist *)
    String.concat " " ([Printf.sprintf "G %d - -" g.gid])
  else begin
    let gs = simulate g.order in
    let out = render gs in
    serial := 0; Hashtbl.reset dummies;
    let gs1 = simulate [List.concat g.order] in
    let out1 = render gs1 in
    (* the real rounds (multi-file mode: reference sample, then the rest), through the step WITH its sort *)
    let out2 = if g.trounds = [] then out else begin
        serial := 0; Hashtbl.reset dummies;
        render (simulate ~sorted:true g.trounds) end in
    if out <> out1 then Printf.sprintf "G %d ROUNDS-DIFFER" g.gid
    else if out <> out2 then
      Printf.sprintf "G %d SORTED-ROUNDS-DIFFER %s" g.gid
        (String.concat " " (List.filter (fun t -> not (List.mem t out)) out2 |> List.map (fun t -> String.sub t 0 (min 60 (String.length t)))))
    else String.concat " " out
  end

let () = run_lines (function
  | "gs" :: m :: k :: x :: rest when String.length m > 4 && String.sub m 0 4 = "mml=" ->
    let mml = ios (String.sub m 4 (String.length m - 4)) in
    let groups = parse_groups rest [] None in
    String.concat " " (["OK"; m; k; x] @ List.map (run_group mml) groups)
  | "gs" :: rest -> String.concat " " rest          (* CREATE-ERR / DUMP-ERR lines pass through *)
  | _ -> "DRIVER-ERROR bad case")
