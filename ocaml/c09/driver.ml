(* C09 driver. cases (byte strings in hex, "-" = empty):
   enc <mml> <ref> <tgt>    -> "E <encoded> D <decode_full of it>"   (new, prepare, encode; then the decompressor's wrapper)
   dec <mml> <ref> <stream> -> "D <decoded>"                          (new, prepare, decode of an arbitrary stream)
   enc0 <mml> <tgt>         -> "E <encoded>"                          (new, encode without prepare)
   hash <hex>               -> MurMur64Hash::hash
   a panic anywhere in the real code is PANIC in that position *)
open Model
open Util
let out = function Ok l -> hex_of_bytes l | Err -> "MODEL-FUEL" | Panic -> "PANIC"
let () = run_lines (function
  | ["enc"; m; r; t] ->
    let m = n_of_int (int_of_string m) and r = bytes_of_hex r and t = bytes_of_hex t in
    (match encode m r t with
     | Ok e -> Printf.sprintf "E %s D %s" (hex_of_bytes e) (out (decode_full m r e))
     | Err -> "MODEL-FUEL" | Panic -> "PANIC")
  | ["dec"; m; r; s] ->
    (match decode_plain (n_of_int (int_of_string m)) (bytes_of_hex r) (bytes_of_hex s) with
     | Ok d -> "D " ^ hex_of_bytes d | Err -> "MODEL-FUEL" | Panic -> "PANIC")
  | ["enc0"; m; t] ->
    (match lz_new (n_of_int (int_of_string m)) with
     | Ok st -> (match lz_encode murmur64 st (bytes_of_hex t) with
                 | Ok e -> "E " ^ hex_of_bytes e | Err -> "MODEL-FUEL" | Panic -> "PANIC")
     | Err -> "MODEL-FUEL" | Panic -> "PANIC")
  | ["hash"; v] -> hex_of_n (murmur64 (n_of_hex v))
  | _ -> "DRIVER-ERROR bad case")
