(* C09 driver. cases (byte strings in hex, "-" = empty):
   enc <mml> <ref> <tgt>    -> "E <encoded> D <decode_full of it>"   (new, prepare, encode; then the decompressor's wrapper)
   dec <mml> <ref> <stream> -> "D <decoded>"                          (new, prepare, decode of an arbitrary stream)
   enc0 <mml> <tgt>         -> "E <encoded>"                          (new, encode without prepare)
   est <mml> <ref> <tgt> <bound>   -> estimate (decimal)
   cost <mml> <ref> <tgt> <0|1>    -> get_coding_cost_vector (comma separated), 1 = prefix_costs
   hash <hex>               -> MurMur64Hash::hash
   a panic anywhere in the real code is PANIC in that position *)
open Model
open Util
let out = function Ok l -> hex_of_bytes l | Err -> "MODEL-FUEL" | Panic -> "PANIC"
let () = run_lines (function
  | ["enc"; m; r; t] ->
    let m = n_of_int (int_of_string m) and r = bytes_of_hex r and t = bytes_of_hex t in
    (match encode m r t with
     | Ok e -> Printf.sprintf "E %s D %s" (hex_of_bytes e) (out (decode_full m r e))
     | Err -> "MODEL-FUEL" | Panic -> "PANIC")
  | ["dec"; m; r; s] ->
    (match decode_plain (n_of_int (int_of_string m)) (bytes_of_hex r) (bytes_of_hex s) with
     | Ok d -> "D " ^ hex_of_bytes d | Err -> "MODEL-FUEL" | Panic -> "PANIC")
  | ["enc0"; m; t] ->
    (match lz_new (n_of_int (int_of_string m)) with
     | Ok st -> (match lz_encode murmur64 st (bytes_of_hex t) with
                 | Ok e -> "E " ^ hex_of_bytes e | Err -> "MODEL-FUEL" | Panic -> "PANIC")
     | Err -> "MODEL-FUEL" | Panic -> "PANIC")
  | ["est"; m; r; t; b] ->
    (match estimate (n_of_int (int_of_string m)) (bytes_of_hex r) (bytes_of_hex t) (n_of_int (int_of_string b)) with
     | Ok e -> string_of_int (int_of_n e) | Err -> "MODEL-FUEL" | Panic -> "PANIC")
  | ["cost"; m; r; t; pre] ->
    (match cost_vector (n_of_int (int_of_string m)) (bytes_of_hex r) (bytes_of_hex t) (pre = "1") with
     | Ok [] -> "-"
     | Ok v -> String.concat "," (List.map (fun x -> string_of_int (int_of_n x)) v)
     | Err -> "MODEL-FUEL" | Panic -> "PANIC")
  | ["hash"; v] -> hex_of_n (murmur64 (n_of_hex v))
  | _ -> "DRIVER-ERROR bad case")
