(* C02B driver: the extracted AgcV3.decode_strict on the REAL bytes of an archive.
   case (built by checks/c02b.py model_cases from the implementation's line):
     dec FILE <hex of the .agc bytes> ZT { <frame hex>=<decompressed hex> }*
   zd = lookup in the table ZT (the harness decompressed every zstd frame of the archive with the zstd crate);
   a frame that is not in the table is a decoding error (None).
   prints  OK CAT { S <sample hex> <n contigs> { <contig hex>:<bases 'A'+code> }* }*   or   ERR <strict error code> *)
open Model
open Util

let key_of_bytes (l : n list) : string =
  let b = Buffer.create 256 in
  List.iter (fun x -> Buffer.add_char b (Char.chr ((int_of_n x) land 255))) l;
  Buffer.contents b
let bytes_of_raw_hex (s : string) : string =
  if s = "-" then "" else String.init (String.length s / 2) (fun i -> Char.chr (int_of_string ("0x" ^ String.sub s (2 * i) 2)))
let nlist_of_string (s : string) : n list = List.init (String.length s) (fun i -> n_of_int (Char.code s.[i]))

let code_chars (l : n list) : string =
  if l = [] then "-" else begin
    let b = Buffer.create (List.length l) in
    List.iter (fun x -> let v = int_of_n x in Buffer.add_char b (if v < 60 then Char.chr (65 + v) else '~')) l;
    Buffer.contents b end

let show_cat (c : (n list * (n list * n list) list) list) : string =
  String.concat " " (List.concat_map (fun (s, cs) ->
      Printf.sprintf "S %s %d" (hex_of_bytes s) (List.length cs)
      :: List.map (fun (nm, bases) -> hex_of_bytes nm ^ ":" ^ code_chars bases) cs) c)

let () = run_lines (function
  | "dec" :: "FILE" :: fhex :: "ZT" :: frames ->
    let tbl : (string, n list) Hashtbl.t = Hashtbl.create 256 in
    List.iter (fun t ->
        match String.index_opt t '=' with
        | Some i ->
          Hashtbl.replace tbl (bytes_of_raw_hex (String.sub t 0 i))
            (nlist_of_string (bytes_of_raw_hex (String.sub t (i + 1) (String.length t - i - 1))))
        | None -> failwith "bad ZT token") frames;
    let zd (f : n list) : n list option = Hashtbl.find_opt tbl (key_of_bytes f) in
    let file = nlist_of_string (bytes_of_raw_hex fhex) in
    (match decode_strict zd file with
     | SOk c -> "OK CAT " ^ show_cat c
     | SErr e -> Printf.sprintf "ERR %d" (int_of_n e))
  | "dec" :: rest -> String.concat " " rest          (* CREATE-ERR / NOPLACE lines pass through *)
  | _ -> "DRIVER-ERROR bad case")
