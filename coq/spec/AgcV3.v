(* spec/AgcV3.v - C02, whole-archive part: a decoder for AGC v3 archives written from the FORMAT RULES, with the
   format constants PINNED here by hand.  This file is never regenerated.  Definitions only (it is extracted).

   Provenance of each rule (C++ AGC 3.x sources as recorded in DESIGN.md C02, cross-read against ragc):
     container      archive.cpp  serialize/deserialize : 8-byte little-endian footer length at the very end; footer =
                    varint #streams, per stream NUL-terminated name, varint #parts, varint raw size, (varint offset,
                    varint size) per part; a part on disk = varint metadata followed by `size` data bytes; varint =
                    one length byte + that many big-endian value bytes            -> Container.deserialize (C13)
     params         agc_basic.cpp store_params/load_params : u32 LE k, min_match_len, pack_cardinality,
                    [segment_size], [no_raw_groups]; one part, metadata 0           -> decode_params below
     catalogue      collection_v3.cpp : streams collection-samples / -contigs / -details; samples one part,
                    contigs/details one part per 50 samples; samples/contigs part = one zstd frame, metadata = raw
                    size; details part = 10 prefix varints (raw size, packed size) x 5 then 5 zstd frames
                                                                                    -> Collection.load_all (C03)
     stream names   utils.cpp int_to_base64 / ss_ref_name / ss_delta_name : "x" + base64(id) + "r" | "d",
                    digits 0-9A-Za-z_# least significant first                      -> stream_ref_name below
     segment parts  segment.cpp : metadata 0 = stored raw; else last byte = marker (0 = plain zstd, else zstd over
                    tuple-packed symbols), metadata = unpacked size                 -> SegReader.load_part +
                                                                                       SegCompress.decompress_..._marker (C12)
     addressing     segment.h/.cpp : groups 0..15 raw (all entries in x<id>d, entry 0 of pack 0 is the placeholder
                    0x7f), groups >= 16: reference = part 0 of x<id>r, in-group id i >= 1 = entry (i-1) mod 50 of
                    pack (i-1) div 50 of x<id>d; entries end with 0xFF               -> SegReader.get_segment
     LZ-diff V2     lz_diff.cpp                                                      -> LZ.decode_full (C09)
     re-assembly    agc_decompressor_lib.cpp decompress_contig : reverse complement per descriptor flag (codes >= 4
                    unchanged), first segment whole, later ones without their first k symbols -> Range (C07)

   [decode] is the COMPOSITION of the component models above (each proved in its own property); the components
   use the constants generated from ragc's source.  props/C02B.v proves that every generated writer and reader
   constant equals the pinned one below (writer_eq_spec / reader_eq_spec), so a change applied consistently to
   ragc's writer and reader breaks those obligations.  [strict_check] re-derives every addressing rule with the
   PINNED constants only (own pack splitting, own id arithmetic) and reports a specific error code. *)
From Ragc Require Export Mach.
From Ragc Require Import Varint Container CVarint Zigzag Names Details Collection Tuple SegCompress LZ SegReader Range.
Open Scope N_scope.

(* ======================================================================== pinned constants *)
Definition SPEC_FOOTER_LEN_BYTES : N := 8.            (* little-endian u64 at the end of the file *)
Definition SPEC_NAME_TERMINATOR : N := 0.
Definition SPEC_EMPTY_PART_METADATA : N := 0.          (* a part of size 0 reads back as ([], 0) *)
Definition SPEC_VARINT_RADIX_BITS : N := 8.            (* length-prefixed big-endian bytes *)

Definition SPEC_FILE_MAJOR : N := 3.
Definition SPEC_FILE_MINOR : N := 0.
Definition SPEC_V3_NAMES_FROM : N := 3000.             (* archive_version = major * 1000 + minor >= 3000: "x" names *)
Definition SPEC_VERSION_MUL : N := 1000.

Definition SPEC_PACK_CARDINALITY : N := 50.
Definition SPEC_NO_RAW_GROUPS : N := 16.
Definition SPEC_SEPARATOR : N := 255.                  (* 0xFF *)
Definition SPEC_PLACEHOLDER : N := 127.                (* 0x7f *)
Definition SPEC_MARKER_PLAIN : N := 0.
Definition SPEC_MARKER_TUPLES : N := 1.
Definition SPEC_PACK_MARKER : N := 0.                  (* delta packs are always plain zstd *)
Definition SPEC_RAW_METADATA : N := 0.
Definition SPEC_FIRST_DELTA_ID : N := 1.
Definition SPEC_REF_PART : N := 0.
Definition SPEC_CATALOGUE_BATCH : N := 50.             (* samples per collection-contigs / -details part *)

Definition SPEC_PARAMS_FIELD_BYTES : N := 4.
Definition SPEC_PARAMS_OFF_K : N := 0.
Definition SPEC_PARAMS_OFF_MML : N := 4.
Definition SPEC_PARAMS_OFF_PACK : N := 8.
Definition SPEC_PARAMS_OFF_SEGSIZE : N := 12.
Definition SPEC_PARAMS_OFF_RAW_GROUPS : N := 16.
Definition SPEC_PARAMS_MIN_LEN : N := 12.
Definition SPEC_PARAMS_DEFAULT_SEGSIZE : N := 60000.
Definition SPEC_PARAMS_NUM_PARTS : N := 1.
Definition SPEC_PARAMS_METADATA : N := 0.

(* "0123456789ABCDEFGHIJKLMNOPQRSTUVWXYZabcdefghijklmnopqrstuvwxyz_#" *)
Definition SPEC_BASE64_DIGITS : list N :=
  [48; 49; 50; 51; 52; 53; 54; 55; 56; 57;
   65; 66; 67; 68; 69; 70; 71; 72; 73; 74; 75; 76; 77; 78; 79; 80; 81; 82; 83; 84; 85; 86; 87; 88; 89; 90;
   97; 98; 99; 100; 101; 102; 103; 104; 105; 106; 107; 108; 109; 110; 111; 112; 113; 114; 115; 116; 117; 118; 119;
   120; 121; 122; 95; 35].
Definition SPEC_BASE64_MASK : N := 63.
Definition SPEC_BASE64_RADIX : N := 64.
Definition SPEC_STREAM_PREFIX : list N := [120].       (* "x" *)
Definition SPEC_REF_SUFFIX : list N := [114].          (* "r" *)
Definition SPEC_DELTA_SUFFIX : list N := [100].        (* "d" *)

Definition SPEC_NAME_SAMPLES : list N := [99; 111; 108; 108; 101; 99; 116; 105; 111; 110; 45; 115; 97; 109; 112; 108; 101; 115].
Definition SPEC_NAME_CONTIGS : list N := [99; 111; 108; 108; 101; 99; 116; 105; 111; 110; 45; 99; 111; 110; 116; 105; 103; 115].
Definition SPEC_NAME_DETAILS : list N := [99; 111; 108; 108; 101; 99; 116; 105; 111; 110; 45; 100; 101; 116; 97; 105; 108; 115].
Definition SPEC_NAME_FILE_TYPE_INFO : list N := [102; 105; 108; 101; 95; 116; 121; 112; 101; 95; 105; 110; 102; 111].
Definition SPEC_NAME_PARAMS : list N := [112; 97; 114; 97; 109; 115].
Definition SPEC_NAME_SPLITTERS : list N := [115; 112; 108; 105; 116; 116; 101; 114; 115].
Definition SPEC_NAME_SEGMENT_SPLITTERS : list N := [115; 101; 103; 109; 101; 110; 116; 45; 115; 112; 108; 105; 116; 116; 101; 114; 115].
Definition SPEC_FIXED_NAMES : list (list N) :=
  [SPEC_NAME_SAMPLES; SPEC_NAME_CONTIGS; SPEC_NAME_DETAILS; SPEC_NAME_FILE_TYPE_INFO; SPEC_NAME_PARAMS;
   SPEC_NAME_SPLITTERS; SPEC_NAME_SEGMENT_SPLITTERS].

(* file API of the container model: the largest offset the file system accepts; any file that exists is within it *)
Definition spec_max_off : N := 9223372036854775807.

(* ======================================================================== stream names *)
(* int_to_base64: do { push(digits[n & 0x3f]); n /= 64 } while (n != 0); a u32 has at most 6 digits *)
Fixpoint b64_digits (fuel : nat) (n : N) : list N :=
  match fuel with
  | O => []
  | S f =>
    nth (N.to_nat (N.land n SPEC_BASE64_MASK)) SPEC_BASE64_DIGITS 0
    :: (if n / SPEC_BASE64_RADIX =? 0 then [] else b64_digits f (n / SPEC_BASE64_RADIX))
  end.
Definition int_to_base64 (n : N) : list N := b64_digits 6 n.
Definition stream_ref_name (g : N) : list N := SPEC_STREAM_PREFIX ++ int_to_base64 g ++ SPEC_REF_SUFFIX.
Definition stream_delta_name (g : N) : list N := SPEC_STREAM_PREFIX ++ int_to_base64 g ++ SPEC_DELTA_SUFFIX.

(* inverse, used by the strict directory check and by the injectivity proof *)
Fixpoint index_of (c : N) (l : list N) (i : N) : option N :=
  match l with
  | [] => None
  | d :: r => if d =? c then Some i else index_of c r (i + 1)
  end.
Fixpoint b64_value (l : list N) : option N :=
  match l with
  | [] => Some 0
  | c :: r =>
    match index_of c SPEC_BASE64_DIGITS 0, b64_value r with
    | Some d, Some v => Some (d + SPEC_BASE64_RADIX * v)
    | _, _ => None
    end
  end.

(* ======================================================================== generic plumbing *)
Fixpoint mapM {A B} (f : A -> outcome B) (l : list A) : outcome (list B) :=
  match l with
  | [] => Ok []
  | x :: r => obnd (f x) (fun y => obnd (mapM f r) (fun ys => Ok (y :: ys)))
  end.

(* ======================================================================== container level *)
Definition open_archive (file : list N) : outcome reader := snd (deserialize spec_max_off file).

Definition read_item (rd : reader) (sid i : N) : outcome Container.item :=
  match snd (get_part_by_id spec_max_off rd sid i) with
  | Ok (Some it) => Ok it
  | Ok None => Err
  | Err => Err
  | Panic => Panic
  end.

(* every part of a stream, in order *)
Definition read_stream (rd : reader) (sid : N) : outcome (list Container.item) :=
  mapM (fun i => read_item rd sid (N.of_nat i)) (seq 0 (N.to_nat (get_num_parts rd sid))).

(* Ok None = the directory has no stream of that name *)
Definition stream_items (rd : reader) (name : list N) : outcome (option (list Container.item)) :=
  match get_stream_id rd name with
  | None => Ok None
  | Some sid => obnd (read_stream rd sid) (fun l => Ok (Some l))
  end.

(* ======================================================================== params *)
Record params := mkParams { p_k : N; p_mml : N; p_pack : N; p_segsize : N; p_raw_groups : option N; p_len : N }.

Definition le32_at (data : list N) (off : N) : N :=
  le_value (firstnN SPEC_PARAMS_FIELD_BYTES (skipnN off data)).

Definition decode_params (data : list N) : outcome params :=
  let n := lenN data in
  if n <? SPEC_PARAMS_MIN_LEN then Err
  else Ok (mkParams (le32_at data SPEC_PARAMS_OFF_K) (le32_at data SPEC_PARAMS_OFF_MML)
                    (le32_at data SPEC_PARAMS_OFF_PACK)
                    (if SPEC_PARAMS_OFF_SEGSIZE + SPEC_PARAMS_FIELD_BYTES <=? n
                     then le32_at data SPEC_PARAMS_OFF_SEGSIZE else SPEC_PARAMS_DEFAULT_SEGSIZE)
                    (if SPEC_PARAMS_OFF_RAW_GROUPS + SPEC_PARAMS_FIELD_BYTES <=? n
                     then Some (le32_at data SPEC_PARAMS_OFF_RAW_GROUPS) else None)
                    n).

(* the params stream has exactly one part *)
Definition read_params (rd : reader) : outcome params :=
  obnd (stream_items rd SPEC_NAME_PARAMS) (fun o =>
    match o with
    | Some [it] => decode_params (fst it)
    | _ => Err
    end).

(* what the writer puts there (16-byte form): k, min_match_len, pack cardinality, segment size *)
Definition encode_params (k mml segsize : N) : list N :=
  le_bytes 4 k ++ le_bytes 4 mml ++ le_bytes 4 SPEC_PACK_CARDINALITY ++ le_bytes 4 segsize.

(* ======================================================================== catalogue *)
Definition coll_arch (rd : reader) : outcome arch :=
  obnd (stream_items rd SPEC_NAME_SAMPLES) (fun a =>
  obnd (stream_items rd SPEC_NAME_CONTIGS) (fun b =>
  obnd (stream_items rd SPEC_NAME_DETAILS) (fun c =>
    match a, b, c with
    | Some x, Some y, Some z => Ok (mkArch x y z 0)
    | _, _, _ => Err
    end))).

(* ======================================================================== segments *)
Definition swap_item (it : Container.item) : SegReader.part := (snd it, fst it).

Definition group_view_of (rd : reader) (g : N) : outcome group_view :=
  obnd (stream_items rd (stream_ref_name g)) (fun r =>
  obnd (stream_items rd (stream_delta_name g)) (fun d =>
    Ok {| gv_ref := option_map (map swap_item) r; gv_delta := option_map (map swap_item) d |})).

Definition desc_of_seg (x : seg) : seg_desc := {| d_group := sg x; d_id := si x; d_rc := src x; d_len := sl x |}.

Definition catalogue : Type := list (list N * list (list N * list N)).

Inductive sres (A : Type) : Type := SOk (a : A) | SErr (code : N).
Arguments SOk {A} a.
Arguments SErr {A} code.

(* error codes of the strict mode *)
Definition E_CONTAINER : N := 1.        (* footer / directory unreadable *)
Definition E_PARAMS : N := 2.           (* params stream missing, not one part, bad length, pack cardinality <> 50, raw groups <> 16 *)
Definition E_COLLECTION : N := 3.       (* a collection-* stream missing or undecodable *)
Definition E_STREAM : N := 4.           (* a group used by a descriptor has no / an unreadable x<id>d (or x<id>r) stream *)
Definition E_REF_PARTS : N := 5.        (* LZ group: not exactly one reference part; raw group: a reference part *)
Definition E_METADATA : N := 6.         (* metadata <> 0 but the part does not unpack to that many bytes / bad marker *)
Definition E_PACK_MARKER : N := 7.      (* a delta pack stored compressed with a marker other than 0 *)
Definition E_PACK_LAYOUT : N := 8.      (* a pack does not end with 0xFF, is empty, has > 50 entries, or a non-last pack <> 50 *)
Definition E_PLACEHOLDER : N := 9.      (* raw group: entry 0 of pack 0 is not 0x7f *)
Definition E_ID : N := 10.              (* an in-group id addresses no entry (or the placeholder) *)
Definition E_DESC_LEN : N := 11.        (* descriptor raw length <> decoded segment length *)
Definition E_DECODE : N := 12.          (* the decoder itself failed (LZ text, overlap shorter than k, ...) *)
Definition E_NAMES : N := 13.           (* the directory holds a stream name outside the format / not canonical / unpaired *)

Section Decode.
  Variable zd : list N -> option (list N).          (* zstd decode_all: the only oracle *)

  Definition dwm : list N -> N -> outcome (list N) := decompress_segment_with_marker zd.

  (* the stored bytes of one segment: SegReader.get_segment on the two streams of its group *)
  Definition get_seg (rd : reader) (mml : N) (d : seg_desc) : outcome (list N) :=
    obnd (group_view_of rd (d_group d)) (fun gv => get_segment dwm (decode_full mml) (fun _ => gv) d).

  Definition decode_seg (rd : reader) (mml : N) (x : seg) : outcome rseg :=
    obnd (get_seg rd mml (desc_of_seg x)) (fun data => Ok (mkRSeg (sl x) (src x) data)).

  Definition decode_contig (rd : reader) (k mml : N) (ct : contig) : outcome (list N * list N) :=
    obnd (mapM (decode_seg rd mml) (csegs ct)) (fun rs =>
    obnd (reconstruct_contig k rs) (fun bases => Ok (cname ct, bases))).

  Definition decode_sample (rd : reader) (k mml : N) (s : sample) : outcome (list N * list (list N * list N)) :=
    obnd (mapM (decode_contig rd k mml) (scontigs s)) (fun cs => Ok (sname s, cs)).

  (* ---- the decoder: file bytes -> list of (sample name, list of (contig name, bases as codes)) *)
  Definition decode (file : list N) : outcome catalogue :=
    obnd (open_archive file) (fun rd =>
    obnd (read_params rd) (fun p =>
    obnd (coll_arch rd) (fun a =>
    obnd (load_all zd (p_segsize p) (p_k p) a) (fun c =>
      mapM (decode_sample rd (p_k p) (p_mml p)) (samples c))))).

  (* ====================================================================== strict mode
     everything below uses the pinned constants only *)

  (* entries closed by a separator, and the bytes after the last separator *)
  Fixpoint split_sep (l acc : list N) : list (list N) * list N :=
    match l with
    | [] => ([], rev acc)
    | b :: r =>
      if b =? SPEC_SEPARATOR then (let (es, t) := split_sep r [] in (rev acc :: es, t))
      else split_sep r (b :: acc)
    end.

  (* a part as stored -> its unpacked bytes and the marker (None when stored raw) *)
  Definition unpack_part (p : SegReader.part) : sres (list N * option N) :=
    let (meta, data) := p in
    if meta =? SPEC_RAW_METADATA then SOk (data, None)
    else match data with
         | [] => SErr E_METADATA
         | _ =>
           let marker := last data 0 in
           let body := removelast data in
           match body with
           | [] => SErr E_METADATA
           | _ =>
             match zd body with
             | None => SErr E_METADATA
             | Some u =>
               match (if marker =? SPEC_MARKER_PLAIN then Ok u else tuples_to_bytes u) with
               | Ok raw => if lenN raw =? meta then SOk (raw, Some marker) else SErr E_METADATA
               | _ => SErr E_METADATA
               end
             end
           end
         end.

  Definition marker_bad (marker : option N) : bool :=
    match marker with Some m => negb (m =? SPEC_PACK_MARKER) | None => false end.

  (* the entries of every pack of a delta stream, after the marker and layout checks: every pack ends with the
     separator, holds 1..50 entries, every pack but the last exactly 50 *)
  Fixpoint unpack_packs (parts : list SegReader.part) : sres (list (list (list N))) :=
    match parts with
    | [] => SOk []
    | p :: rest =>
      match unpack_part p with
      | SErr e => SErr e
      | SOk (raw, marker) =>
        if marker_bad marker then SErr E_PACK_MARKER
        else
          let (es, t) := split_sep raw [] in
          let n := lenN es in
          if negb (is_nil t) || (n =? 0) || (SPEC_PACK_CARDINALITY <? n)
             || (negb (is_nil rest) && negb (n =? SPEC_PACK_CARDINALITY))
          then SErr E_PACK_LAYOUT
          else match unpack_packs rest with
               | SErr e => SErr e
               | SOk r => SOk (es :: r)
               end
      end
    end.

  (* one group: reference part rule, metadata convention, pack layout, placeholder.  -> entries of its packs *)
  Definition check_group (rd : reader) (g : N) : sres (list (list (list N))) :=
    match group_view_of rd g with
    | Ok gv =>
      let lz := SPEC_NO_RAW_GROUPS <=? g in
      let ref_bad :=
        match gv_ref gv with
        | Some [p] => if lz then (match unpack_part p with SOk _ => None | SErr e => Some e end) else Some E_REF_PARTS
        | Some [] => if lz then Some E_REF_PARTS else None
        | Some _ => Some E_REF_PARTS
        | None => if lz then Some E_REF_PARTS else None
        end in
      match ref_bad with
      | Some e => SErr e
      | None =>
        match gv_delta gv with
        | None => SErr E_STREAM
        | Some dparts =>
          match unpack_packs dparts with
          | SErr e => SErr e
          | SOk packs =>
            if lz then SOk packs
            else match packs with
                 | (e0 :: _) :: _ => if list_eqb N.eqb e0 [SPEC_PLACEHOLDER] then SOk packs else SErr E_PLACEHOLDER
                 | _ => SErr E_PLACEHOLDER
                 end
          end
        end
      end
    | _ => SErr E_STREAM
    end.

  (* one descriptor against the entries of its group: the id addresses an entry (packs are full except the last,
     so entry (slot mod 50) of pack (slot div 50) exists iff it does in the nested list) *)
  Definition id_ok (g id : N) (packs : list (list (list N))) : bool :=
    if SPEC_NO_RAW_GROUPS <=? g then
      (id =? 0) ||
      (let slot := id - SPEC_FIRST_DELTA_ID in
       match nthN packs (slot / SPEC_PACK_CARDINALITY) with
       | Some es => slot mod SPEC_PACK_CARDINALITY <? lenN es
       | None => false
       end)
    else
      negb (id =? 0) &&
      (match nthN packs (id / SPEC_PACK_CARDINALITY) with
       | Some es => id mod SPEC_PACK_CARDINALITY <? lenN es
       | None => false
       end).

  Fixpoint first_err {A} (f : A -> option N) (l : list A) : option N :=
    match l with
    | [] => None
    | x :: r => match f x with Some e => Some e | None => first_err f r end
    end.

  Fixpoint assoc_g {A} (g : N) (l : list (N * A)) : option A :=
    match l with
    | [] => None
    | (k, v) :: r => if k =? g then Some v else assoc_g g r
    end.

  Fixpoint nodupN (l : list N) (seen : list N) : list N :=
    match l with
    | [] => []
    | x :: r => if existsb (N.eqb x) seen then nodupN r seen else x :: nodupN r (x :: seen)
    end.

  Definition all_segs (c : coll) : list seg :=
    flat_map (fun s => flat_map csegs (scontigs s)) (samples c).

  (* groups once each (layout), then every descriptor (id in range, raw length = decoded length) *)
  Fixpoint check_groups (rd : reader) (gs : list N) : sres (list (N * list (list (list N)))) :=
    match gs with
    | [] => SOk []
    | g :: r =>
      match check_group rd g with
      | SErr e => SErr e
      | SOk packs =>
        match check_groups rd r with
        | SErr e => SErr e
        | SOk t => SOk ((g, packs) :: t)
        end
      end
    end.

  Definition check_desc (rd : reader) (mml : N) (tbl : list (N * list (list (list N)))) (x : seg) : option N :=
    match assoc_g (sg x) tbl with
    | None => Some E_STREAM
    | Some packs =>
      if id_ok (sg x) (si x) packs then
        match get_seg rd mml (desc_of_seg x) with
        | Ok data => if lenN data =? sl x then None else Some E_DESC_LEN
        | _ => Some E_DECODE
        end
      else Some E_ID
    end.

  (* directory: every name is a fixed name or the canonical x<base64 id>r|d, and r/d come in pairs *)
  Definition seg_stream_id (nm : list N) : option (N * bool) :=       (* (id, is_ref) *)
    match nm with
    | c :: rest =>
      if list_eqb N.eqb [c] SPEC_STREAM_PREFIX then
        match rev rest with
        | sfx :: mid_rev =>
          let isr := list_eqb N.eqb [sfx] SPEC_REF_SUFFIX in
          let isd := list_eqb N.eqb [sfx] SPEC_DELTA_SUFFIX in
          if isr || isd then
            match b64_value (rev mid_rev) with
            | Some g =>
              if list_eqb N.eqb nm (if isr then stream_ref_name g else stream_delta_name g) then Some (g, isr) else None
            | None => None
            end
          else None
        | [] => None
        end
      else None
    | [] => None
    end.

  Definition names_ok (rd : reader) : bool :=
    let nms := get_stream_names rd in
    forallb (fun nm =>
      existsb (list_eqb N.eqb nm) SPEC_FIXED_NAMES ||
      match seg_stream_id nm with
      | Some (g, isr) => existsb (list_eqb N.eqb (if isr then stream_delta_name g else stream_ref_name g)) nms
      | None => false
      end) nms.

  Definition params_ok (p : params) : bool :=
    ((p_len p =? 12) || (p_len p =? 16) || (p_len p =? 20)) &&
    (p_pack p =? SPEC_PACK_CARDINALITY) &&
    match p_raw_groups p with Some r => r =? SPEC_NO_RAW_GROUPS | None => true end.

  Definition strict_check (file : list N) : option N :=
    match open_archive file with
    | Ok rd =>
      if negb (names_ok rd) then Some E_NAMES else
      match read_params rd with
      | Ok p =>
        if negb (params_ok p) then Some E_PARAMS else
        match obnd (coll_arch rd) (load_all zd (p_segsize p) (p_k p)) with
        | Ok c =>
          let segs := all_segs c in
          match check_groups rd (nodupN (map sg segs) []) with
          | SErr e => Some e
          | SOk tbl => first_err (check_desc rd (p_mml p) tbl) segs
          end
        | _ => Some E_COLLECTION
        end
      | _ => Some E_PARAMS
      end
    | _ => Some E_CONTAINER
    end.

  Definition decode_strict (file : list N) : sres catalogue :=
    match strict_check file with
    | Some e => SErr e
    | None => match decode file with Ok c => SOk c | _ => SErr E_DECODE end
    end.
End Decode.
