(* Profile.v — C18: the arithmetic sites of the create path whose result used to depend on the build profile
   (overflow checks on = trap/panic, off = silent wrap).  Each function takes the "rule flag" regenerated from
   the source by translator/items_profile.py: flag = true is the repaired form that is in the tree, flag = false
   the form before the fix.  [None] = the dev/test profile panics at this site.  Definitions only. *)
From Ragc Require Export Mach.
Open Scope Z_scope.

Definition sub_i32 (a b : Z) : option Z := if in_i32 (a - b) then Some (a - b) else None.

(* ---- StreamingQueueCompressor::push : contig and sync-token priorities (agc_compressor.rs) ---- *)
Record pstate := mkP { p_next : Z; p_map : list (N * Z) }.

Fixpoint plookup (s : N) (m : list (N * Z)) : option Z :=
  match m with [] => None | (s', p) :: m' => if N.eqb s s' then Some p else plookup s m' end.
Fixpoint pupdate (s : N) (p : Z) (m : list (N * Z)) : list (N * Z) :=
  match m with
  | [] => [(s, p)]
  | (s', q) :: m' => if N.eqb s s' then (s, p) :: m' else (s', q) :: pupdate s p m'
  end.

(* one push of a contig of sample [s]; [sync] = this contig closes a pack in single-file mode.
   result: new state, priority of the N sync tokens (if any), priority of the contig itself *)
Definition push_prio (cur_rule lower_rule : bool) (st : pstate) (s : N) (sync : bool)
  : option (pstate * option Z * Z) :=
  (* priorities.entry(sample).or_insert_with(|| { let p = *next_p; *next_p -= 1; p }) *)
  obind (match plookup s (p_map st) with
         | Some p => Some (st, p)
         | None => obind (sub_i32 (p_next st) 1) (fun n' =>
                     Some (mkP n' (pupdate s (p_next st) (p_map st)), p_next st))
         end) (fun '(st1, current) =>
  if sync then
    (* *priority -= 1 *)
    obind (sub_i32 current 1) (fun new =>
    (* if *next_p >= new_priority { *next_p = new_priority - 1 }   (fix 445c73a) *)
    obind (if lower_rule then
             (if p_next st1 >=? new then sub_i32 new 1 else Some (p_next st1))
           else Some (p_next st1)) (fun n2 =>
    (* token priority: current_priority (fix 819eeb5)  vs  new_priority + 1_000_000 *)
    obind (if cur_rule then Some current else add_i32 new 1000000) (fun tok =>
    Some (mkP n2 (pupdate s new (p_map st1)), Some tok, new))))
  else Some (st1, None, current)).

Fixpoint run_pushes (cur_rule lower_rule : bool) (st : pstate) (es : list (N * bool))
  : option (pstate * list (option Z * Z)) :=
  match es with
  | [] => Some (st, [])
  | (s, sync) :: es' =>
      obind (push_prio cur_rule lower_rule st s sync) (fun '(st', tok, ctg) =>
      obind (run_pushes cur_rule lower_rule st' es') (fun '(st'', outs) =>
      Some (st'', (tok, ctg) :: outs)))
  end.

Definition pinit (init : Z) : pstate := mkP init [].

Open Scope N_scope.
(* ---- fallback-minimizer k-mer mask: (1u64 << (2*k)) - 1, guarded for k >= 32 (fix 92c88a6) ---- *)
Definition shl_checked64 (x s : N) : option N := if s <? 64 then Some (shl64 x s) else None.
Definition fb_mask (guarded : bool) (k : N) : option N :=
  if guarded && (32 <=? k) then Some max_u64
  else obind (shl_checked64 1 (2 * k)) (fun v => sub_u64 v 1).

(* ---- LZDiff::estimate tail: est_cost + (text_size - i) in u32 (fix 598816a) ---- *)
Definition wsub32 (a b : N) : N := wrap32 (a + two32 - wrap32 b).
Definition wadd32 (a b : N) : N := wrap32 (a + b).
Definition est_tail (wrapping : bool) (est ts i : N) : option N :=
  if wrapping then Some (wadd32 est (wsub32 ts i))
  else obind (sub_u32 ts i) (fun d => add_u32 est d).
(* what an optimised build computes in either form *)
Definition est_tail_release (est ts i : N) : N := wadd32 est (wsub32 ts i).
