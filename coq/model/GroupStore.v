(* GroupStore.v - the writer half of segment addressing: transcription of ragc-core/src/agc_compressor.rs
     SegmentGroupBuffer, BufferedSegment (+ its Ord), flush_pack_compress_only (the per-round step of a group),
     and the finalize flush of the pending deltas (finalize "Phase 2").
   Definitions only.

   What is live (read off the code, tree at 709bfda):
   - buffer.segments is pushed to only by prepare_batch_parallel (worker 0 at a sync barrier); it writes no part
     and no registration itself.  Every group with segments (or with !ref_written) is then handed to
     flush_pack_compress_only by exactly one worker; parts reach the archive per stream in the order produced.
   - flush_pack (finalize "Phase 1", and flush_batch at worker exit) is the same step, statement for statement
     (its two literal sites are generated separately: W_PLACEHOLDER_FLUSH_PACK, W_FIRST_RAW_PACK_MINUS_FLUSH_PACK).
     On the live path it only ever sees an empty `segments` (all were flushed in the last sync round; raw groups
     never set ref_written, so they are visited each time) and is then a no-op: [process_nil_noop] in the proofs.
     A non-empty call would just be one more op of [run].
   - write_reference_immediately is only called from flush_batch for entries of pending_batch_segments, which is
     never pushed to: dead.  The inline split/flush code in worker_thread iterates over std::iter::empty(): dead.
   - compression errors (`?` on compress_reference_segment / compress_segment_configured) are not modelled: the
     codecs are total section variables (zstd failing with a compressBound-sized destination is outside the model).

   Codecs are section variables (C09 / C12 discharge the hypotheses the proofs put on them):
     lz_enc reference target   = LZDiff::new(min_match_len); prepare(reference); encode(target)
     compress_ref data         = compress_reference_segment(data)              -> (compressed, marker)
     compress_pack data        = compress_segment_configured(data, level)      (level is a config constant)
   Arithmetic: `segments_written += 1` is u32 (dev profile traps on overflow: Panic); `data.len() as u32`
   truncates silently in both profiles (wrap32). *)
From Ragc Require Export Mach SegReader.
From Ragc Require Import Consts_groupstore.
Open Scope N_scope.

(* BufferedSegment without sample_priority (never read by the step) *)
Record seg_in := { s_sample : list N; s_contig : list N; s_part : N; s_data : list N; s_rc : bool }.

(* String::cmp = lexicographic on the UTF-8 bytes *)
Fixpoint bytes_cmp (a b : list N) : comparison :=
  match a, b with
  | [], [] => Eq
  | [], _ :: _ => Lt
  | _ :: _, [] => Gt
  | x :: a', y :: b' => match x ?= y with Eq => bytes_cmp a' b' | c => c end
  end.

(* impl Ord for BufferedSegment: sample_name, contig_name, seg_part_no *)
Definition seg_cmp (a b : seg_in) : comparison :=
  match bytes_cmp (s_sample a) (s_sample b) with
  | Eq => match bytes_cmp (s_contig a) (s_contig b) with
          | Eq => s_part a ?= s_part b
          | c => c
          end
  | c => c
  end.
Definition seg_ltb (a b : seg_in) : bool := match seg_cmp a b with Lt => true | _ => false end.

(* Vec::sort is a stable sort: equal keys keep their arrival order *)
Fixpoint insert_seg (x : seg_in) (l : list seg_in) : list seg_in :=
  match l with
  | [] => [x]
  | y :: l' => if seg_ltb x y then x :: y :: l' else y :: insert_seg x l'
  end.
Definition sort_segs (l : list seg_in) : list seg_in := fold_left (fun acc x => insert_seg x acc) l [].

(* SegmentGroupBuffer; `segments` lives only between prepare_batch_parallel and the step and is the step's
   argument here; lz_diff is Some exactly when reference_segment is (both set in the same block). *)
Record gbuf := {
  b_ref_written : bool;
  b_reference : option (list N);       (* reference_segment.data *)
  b_written : N;                       (* segments_written : u32 *)
  b_pending : list (list N);           (* pending_deltas *)
  b_pending_ids : list N;              (* pending_delta_ids *)
  b_placeholder : bool                 (* raw_placeholder_written *)
}.
Definition gbuf_new : gbuf :=
  {| b_ref_written := false; b_reference := None; b_written := 0; b_pending := []; b_pending_ids := [];
     b_placeholder := false |}.

(* `if compressed.len() < raw.len() { (compressed, raw.len()) } else { (raw, 0) }` (compressed ends with the marker) *)
Definition store_part (compressed_with_marker raw : list N) : part :=
  if lenN compressed_with_marker <? lenN raw then (lenN raw, compressed_with_marker) else (0, raw).

(* packed_data of a pack: optional placeholder entry, then every delta, each followed by the separator *)
Definition pack_bytes (placeholder : bool) (ph : N) (deltas : list (list N)) : list N :=
  (if placeholder then [ph; CONTIG_SEPARATOR] else [])
  ++ flat_map (fun d => d ++ [CONTIG_SEPARATOR]) deltas.

(* iter().position(|d| d == x) *)
Fixpoint position (x : list N) (l : list (list N)) (i : N) : option N :=
  match l with
  | [] => None
  | y :: l' => if list_eqb N.eqb y x then Some i else position x l' (i + 1)
  end.

Definition desc_of (g : N) (s : seg_in) (id : N) : seg_desc :=
  {| d_group := g; d_id := id; d_rc := s_rc s; d_len := wrap32 (lenN (s_data s)) |}.

Record step_out := {
  o_buf : gbuf;
  o_ref_parts : list part;             (* archive_writes to ref_stream_id, in order *)
  o_delta_parts : list part;           (* archive_writes to stream_id, in order *)
  o_regs : list (seg_in * N)           (* registrations: the segment and its in_group_id (see desc_of) *)
}.

Section Writer.
  Variable lz_enc : list N -> list N -> list N.
  Variable compress_ref : list N -> list N * N.
  Variable compress_pack : list N -> list N.

  Definition pack_part (placeholder : bool) (ph marker : N) (deltas : list (list N)) : part :=
    let raw := pack_bytes placeholder ph deltas in
    store_part (compress_pack raw ++ [marker]) raw.

  (* one iteration of `for (seg_idx, seg) in buffer.segments.iter().enumerate()`:
     new buffer, the pack written in this iteration (if any), the in_group_id of the segment *)
  Definition add_one (lz : bool) (buf : gbuf) (s : seg_in) : outcome (gbuf * list part * N) :=
    let contig_data :=
      match b_reference buf with
      | Some r => if lz then lz_enc r (s_data s) else s_data s
      | None => s_data s
      end in
    if lz && is_nil contig_data then Ok (buf, [], 0)
    else
      match position contig_data (b_pending buf) 0 with
      | Some idx =>
          match nthN (b_pending_ids buf) idx with
          | Some id => Ok (buf, [], id)
          | None => Panic                                   (* pending_delta_ids[existing_idx] out of bounds *)
          end
      | None =>
          let w := N.max (b_written buf) W_FIRST_ID in
          match add_u32 w 1 with
          | None => Panic                                   (* segments_written += 1 overflows u32 *)
          | Some w' =>
              let pending := b_pending buf ++ [contig_data] in
              let ids := b_pending_ids buf ++ [w] in
              let first_raw := negb lz && negb (b_placeholder buf) in
              let threshold := if first_raw then W_PACK_CARDINALITY - W_FIRST_RAW_PACK_MINUS
                               else W_PACK_CARDINALITY in
              if lenN pending =? threshold then
                Ok ({| b_ref_written := b_ref_written buf; b_reference := b_reference buf; b_written := w';
                       b_pending := []; b_pending_ids := []; b_placeholder := true |},
                    [pack_part first_raw W_PLACEHOLDER_STEP W_PACK_MARKER_STEP pending], w)
              else
                Ok ({| b_ref_written := b_ref_written buf; b_reference := b_reference buf; b_written := w';
                       b_pending := pending; b_pending_ids := ids; b_placeholder := b_placeholder buf |},
                    [], w)
          end
      end.

  Fixpoint add_all (lz : bool) (buf : gbuf) (segs : list seg_in)
    : outcome (gbuf * list part * list (seg_in * N)) :=
    match segs with
    | [] => Ok (buf, [], [])
    | s :: tl =>
        obnd (add_one lz buf s) (fun r1 =>
          let '(b1, p1, id) := r1 in
          obnd (add_all lz b1 tl) (fun r2 =>
            let '(b2, p2, regs) := r2 in
            Ok (b2, p1 ++ p2, (s, id) :: regs)))
    end.

  (* flush_pack_compress_only after `buffer.segments.sort()`: [sorted] is buffer.segments in sorted order *)
  Definition process (g : N) (buf : gbuf) (sorted : list seg_in) : outcome step_out :=
    if is_nil sorted && b_ref_written buf then
      Ok {| o_buf := buf; o_ref_parts := []; o_delta_parts := []; o_regs := [] |}
    else
      let lz := W_NO_RAW_GROUPS <=? g in
      let '(buf1, ref_parts, regs0, rest) :=
        match sorted with
        | r :: rest =>
            if lz && negb (b_ref_written buf) then
              let '(c, m) := compress_ref (s_data r) in
              ({| b_ref_written := true; b_reference := Some (s_data r); b_written := b_written buf;
                  b_pending := b_pending buf; b_pending_ids := b_pending_ids buf;
                  b_placeholder := b_placeholder buf |},
               [store_part (c ++ [m]) (s_data r)], [(r, 0)], rest)
            else (buf, [], [], sorted)
        | [] => (buf, [], [], [])
        end in
      obnd (add_all lz buf1 rest) (fun r =>
        let '(buf2, dparts, regs) := r in
        Ok {| o_buf := buf2; o_ref_parts := ref_parts; o_delta_parts := dparts; o_regs := regs0 ++ regs |}).

  Definition step (g : N) (buf : gbuf) (segs : list seg_in) : outcome step_out :=
    process g buf (sort_segs segs).

  (* ---- a group over time: its buffer, the parts of its two streams, its registrations *)
  Record gstate := { g_buf : gbuf; g_ref : list part; g_delta : list part; g_regs : list (seg_in * N) }.
  Definition gstate_new : gstate := {| g_buf := gbuf_new; g_ref := []; g_delta := []; g_regs := [] |}.

  Definition apply_out (gs : gstate) (o : step_out) : gstate :=
    {| g_buf := o_buf o; g_ref := g_ref gs ++ o_ref_parts o; g_delta := g_delta gs ++ o_delta_parts o;
       g_regs := g_regs gs ++ o_regs o |}.

  Definition gstep (g : N) (gs : gstate) (segs : list seg_in) : outcome gstate :=
    obnd (step g (g_buf gs) segs) (fun o => Ok (apply_out gs o)).

  (* the same without the sort: the caller supplies the processing order (used for trace re-simulation) *)
  Definition gprocess (g : N) (gs : gstate) (sorted : list seg_in) : outcome gstate :=
    obnd (process g (g_buf gs) sorted) (fun o => Ok (apply_out gs o)).

  (* finalize Phase 2 for one group: the remaining pending deltas become the last pack *)
  Definition finalize_group (g : N) (gs : gstate) : gstate :=
    let buf := g_buf gs in
    if is_nil (b_pending buf) then gs
    else
      let lz := W_NO_RAW_GROUPS <=? g in
      let raw := pack_bytes (negb lz && negb (b_placeholder buf)) W_PLACEHOLDER_FINALIZE (b_pending buf) in
      {| g_buf := {| b_ref_written := b_ref_written buf; b_reference := b_reference buf;
                     b_written := b_written buf; b_pending := []; b_pending_ids := [];
                     b_placeholder := b_placeholder buf |};
         g_ref := g_ref gs;
         g_delta := g_delta gs ++ [store_part (compress_pack raw ++ [W_PACK_MARKER_FINALIZE]) raw];
         g_regs := g_regs gs |}.

  (* ---- all groups.  An op = one call of the step for one group with the batch pushed to it in that round; a
     sync round is any number of ops (groups are independent: disjoint buffers, disjoint streams).
     The buffer and both streams of a group come into being together (SegmentGroupBuffer::new after
     register_stream of x<id>d and x<id>r). *)
  Definition store := N -> option gstate.
  Definition store_empty : store := fun _ => None.
  Definition upd (st : store) (g : N) (gs : gstate) : store := fun x => if x =? g then Some gs else st x.
  Definition get_group (st : store) (g : N) : gstate :=
    match st g with Some gs => gs | None => gstate_new end.

  Definition op := (N * list seg_in)%type.

  Fixpoint run_from (st : store) (ops : list op) : outcome store :=
    match ops with
    | [] => Ok st
    | (g, segs) :: tl =>
        obnd (gstep g (get_group st g) segs) (fun gs => run_from (upd st g gs) tl)
    end.
  Definition run (ops : list op) : outcome store := run_from store_empty ops.

  Definition finalize (st : store) : store :=
    fun g => match st g with Some gs => Some (finalize_group g gs) | None => None end.

  Definition view_of (st : store) : archive_view :=
    fun g => match st g with
             | Some gs => {| gv_ref := Some (g_ref gs); gv_delta := Some (g_delta gs) |}
             | None => {| gv_ref := None; gv_delta := None |}
             end.

  (* registrations of group g: (segment, in_group_id); the descriptor is desc_of g s id *)
  Definition regs_of (st : store) (g : N) : list (seg_in * N) := g_regs (get_group st g).

  (* everything pushed to group g by an op sequence, in op order *)
  Definition segs_of (ops : list op) (g : N) : list seg_in :=
    flat_map (fun o : op => if fst o =? g then snd o else []) ops.
End Writer.
