(* SplitPos.v — the post-processing of find_split_by_cost (agc_compressor.rs): how the position of the cost
   minimum becomes AssignToRight / AssignToLeft / SplitAt(pos).  It is the only producer of SplitAt on the live
   path (pinned by translator/items_splitpos.py), so its guarantee on pos is what C01's decisions_ok asks of the
   heuristics, whatever the cost vectors are.  Definitions only. *)
From Coq Require Import Arith.
From Ragc Require Export Mach.
Local Open Scope nat_scope.

Inductive split_decision := SD_NoDecision | SD_AssignRight | SD_AssignLeft | SD_SplitAt (pos : nat).

(* best_pos is ANY index (the arg-min of arbitrary cost vectors); refs_empty = left_ref.is_empty() || right_ref.is_empty() *)
Definition split_post (k seg_len : nat) (refs_empty : bool) (best_pos : nat) : split_decision :=
  let min_size := k + 1 in
  if (seg_len <? 2 * min_size)%nat || refs_empty then SD_NoDecision else
  let b1 := if (best_pos <? min_size)%nat then 0%nat else best_pos in
  let b2 := if (seg_len <? b1 + min_size)%nat then seg_len else b1 in
  if (b2 =? 0)%nat then SD_AssignRight
  else if (seg_len <=? b2)%nat then SD_AssignLeft
  else SD_SplitAt b2.
