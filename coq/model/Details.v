(* Details.v - transcription of the segment-descriptor ("details") codec of collection.rs:
   serialize_contig_details / deserialize_contig_details (5 parallel CollectionVarInt streams), the
   in_group_ids predictor (get_in_group_id / set_in_group_id / clear_in_group_ids) with the C++-compatible
   update rule.  Dev-profile arithmetic (i32 / u32 / u64 overflow = Panic).  Definitions only.

   in_group_ids is a Vec<i32> grown by `resize((pos as f64 * 1.2) as usize + 1, -1)`; reads beyond the end
   give -1 and the new length always exceeds pos, so the vector behaves as a total map with default -1.
   The model keeps that map as an association list (latest binding first); the allocation size is not
   modelled (a group id near 2^32 makes the real code allocate ~20 GB). *)
From Ragc Require Export Mach.
From Ragc Require Import Consts_collection CVarint Zigzag Names.
Open Scope N_scope.

Record seg := mkSeg { sg : N; si : N; src : bool; sl : N }.
Definition seg_empty : seg := mkSeg seg_empty_group seg_empty_in_group seg_empty_rc seg_empty_len.

Definition ptable := list (N * Z).
Fixpoint pget (t : ptable) (pos : N) : Z :=
  match t with
  | [] => (-1)%Z
  | (k, v) :: t' => if k =? pos then v else pget t' pos
  end.
Definition pset (t : ptable) (pos : N) (v : Z) : ptable := (pos, v) :: t.

(* casts *)
Definition u32_as_i32 (u : N) : Z := if u <? 2147483648 then Z.of_N u else (Z.of_N u - 4294967296)%Z.
Definition i32_as_u64 (z : Z) : N := if (z <? 0)%Z then Z.to_N (18446744073709551616 + z) else Z.to_N z.
Definition i32_as_u32 (z : Z) : N := if (z <? 0)%Z then Z.to_N (4294967296 + z) else Z.to_N z.
Definition oadd_i32 (a b : Z) : outcome Z := match add_i32 a b with Some v => Ok v | None => Panic end.
Definition ou32 (o : option N) : outcome N := match o with Some v => Ok v | None => Panic end.

(* the update applied by both sides right after each segment:
   `if id as i32 > prev && id > 0 { set_in_group_id(group, id as i32) }` *)
Definition pupd (t : ptable) (g id : N) (prev : Z) : ptable :=
  if ((prev <? u32_as_i32 id)%Z && (0 <? id)) then pset t g (u32_as_i32 id) else t.

(* ---- encoder, one segment *)
Definition enc_in (prev : Z) (id : N) : outcome N :=
  if (prev =? -1)%Z then Ok id
  else if id =? 0 then Ok 0
  else obnd (oadd_i32 prev 1) (fun p1 =>
    if (u32_as_i32 id =? p1)%Z then Ok 1
    else obnd (zigzag_encode id (i32_as_u64 p1)) (fun z => ou32 (add_u32 (wrap32 z) 1))).

Definition enc_len (pred id : N) : outcome N :=
  obnd (zigzag_encode id pred) (fun z => Ok (wrap32 z)).

Definition item := (N * N * N * N)%type.   (* e_group_id, e_in_group_id, e_raw_length, is_rev_comp as u32 *)

Definition enc_seg (pred : N) (t : ptable) (s : seg) : outcome (item * ptable) :=
  let prev := pget t (sg s) in
  obnd (enc_in prev (si s)) (fun e =>
  obnd (enc_len pred (sl s)) (fun l =>
    Ok ((sg s, e, l, if src s then 1 else 0), pupd t (sg s) (si s) prev))).

Fixpoint enc_segs (pred : N) (t : ptable) (ss : list seg) : outcome (list item * ptable) :=
  match ss with
  | [] => Ok ([], t)
  | s :: ss' =>
    obnd (enc_seg pred t s) (fun it =>
    obnd (enc_segs pred (snd it) ss') (fun r => Ok (fst it :: fst r, snd r)))
  end.

Fixpoint enc_contigs (pred : N) (t : ptable) (cs : list (list seg)) : outcome (list (list item) * ptable) :=
  match cs with
  | [] => Ok ([], t)
  | c :: cs' =>
    obnd (enc_segs pred t c) (fun it =>
    obnd (enc_contigs pred (snd it) cs') (fun r => Ok (fst it :: fst r, snd r)))
  end.

Fixpoint enc_samples (pred : N) (t : ptable) (ss : list (list (list seg)))
  : outcome (list (list (list item)) * ptable) :=
  match ss with
  | [] => Ok ([], t)
  | s :: ss' =>
    obnd (enc_contigs pred t s) (fun it =>
    obnd (enc_samples pred (snd it) ss') (fun r => Ok (fst it :: fst r, snd r)))
  end.

(* second pass: stream 0 = structure, streams 1..4 = the four item components *)
Definition cvlen {A} (l : list A) : list N := cv_encode (wrap32 (lenN l)).
Definition str0_contig (c : list item) : list N := cvlen c.
Definition str0_sample (s : list (list item)) : list N := cvlen s ++ concat (map str0_contig s).
Definition flat_items (e : list (list (list item))) : list item := concat (concat e).
Definition i_g (x : item) : N := fst (fst (fst x)).
Definition i_e (x : item) : N := snd (fst (fst x)).
Definition i_l (x : item) : N := snd (fst x).
Definition i_r (x : item) : N := snd x.
Definition cvs (vals : list N) : list N := concat (map cv_encode vals).

Definition streams := (list N * list N * list N * list N * list N)%type.

(* serialize_contig_details over the batch (samples id_from..id_to as nested segment tables);
   pred_raw_length = segment_size + kmer_length in u32 *)
Definition ser_details (segment_size kmer_length : N) (batch : list (list (list seg))) : outcome streams :=
  obnd (ou32 (add_u32 segment_size kmer_length)) (fun pred =>
  obnd (enc_samples pred [] batch) (fun er =>
    let e := fst er in
    let fl := flat_items e in
    Ok (cvlen batch ++ concat (map str0_sample e),
        cvs (map i_g fl), cvs (map i_e fl), cvs (map i_l fl), cvs (map i_r fl)))).

(* ---- decoder *)
Definition dec_in (prev : Z) (e : N) : outcome N :=
  if (prev =? -1)%Z then Ok e
  else if e =? 0 then Ok 0
  else if e =? 1 then obnd (oadd_i32 prev 1) (fun p1 => Ok (i32_as_u32 p1))
  else obnd (oadd_i32 prev 1) (fun p1 =>
       obnd (zigzag_decode (e - 1) (i32_as_u64 p1)) (fun z => Ok (wrap32 z))).

Definition dec_len (pred l : N) : outcome N :=
  obnd (zigzag_decode l pred) (fun z => Ok (wrap32 z)).

Definition dec_item (pred : N) (t : ptable) (x : item) : outcome (seg * ptable) :=
  let g := i_g x in
  let prev := pget t g in
  obnd (dec_in prev (i_e x)) (fun id =>
  obnd (dec_len pred (i_l x)) (fun l =>
    Ok (mkSeg g id (negb (i_r x =? 0)) l, pupd t g id prev))).

(* `for _ in 0..no_segments`: v_det[k][item_idx], item_idx += 1 ; running out of items = index panic
   (cannot happen: each v_det[k] holds exactly the sum of the counts) *)
Fixpoint dec_segs (pred : N) (t : ptable) (n : nat) (items : list item)
  : outcome (list seg * ptable * list item) :=
  match n with
  | O => Ok ([], t, items)
  | S n' =>
    match items with
    | [] => Panic
    | x :: items' =>
      obnd (dec_item pred t x) (fun st =>
      obnd (dec_segs pred (snd st) n' items') (fun r =>
        Ok (fst st :: fst (fst r), snd (fst r), snd r)))
    end
  end.

Fixpoint dec_contigs_d (pred : N) (t : ptable) (counts : list N) (items : list item)
  : outcome (list (list seg) * ptable * list item) :=
  match counts with
  | [] => Ok ([], t, items)
  | c :: counts' =>
    obnd (dec_segs pred t (N.to_nat c) items) (fun r1 =>
    obnd (dec_contigs_d pred (snd (fst r1)) counts' (snd r1)) (fun r =>
      Ok (fst (fst r1) :: fst (fst r), snd (fst r), snd r)))
  end.

Fixpoint dec_samples_d (pred : N) (t : ptable) (structure : list (list N)) (items : list item)
  : outcome (list (list (list seg)) * ptable * list item) :=
  match structure with
  | [] => Ok ([], t, items)
  | s :: structure' =>
    obnd (dec_contigs_d pred t s items) (fun r1 =>
    obnd (dec_samples_d pred (snd (fst r1)) structure' (snd r1)) (fun r =>
      Ok (fst (fst r1) :: fst (fst r), snd (fst r), snd r)))
  end.

(* first pass over stream 0: per sample the contig count then that many segment counts *)
Fixpoint dec_structure (k : nat) (ptr : list N) : outcome (list (list N) * list N) :=
  match k with
  | O => Ok ([], ptr)
  | S k' =>
    obnd (cv_decode ptr) (fun nr =>
    obnd (cv_decode_n (clamp (fst nr) (snd nr)) (snd nr)) (fun cr =>
    obnd (dec_structure k' (snd cr)) (fun rr => Ok (fst cr :: fst rr, snd rr))))
  end.

Definition sumN (l : list N) : N := fold_right N.add 0 l.

Fixpoint zip4 (a b c d : list N) : list item :=
  match a, b, c, d with
  | x :: a', y :: b', z :: c', w :: d' => (x, y, z, w) :: zip4 a' b' c' d'
  | _, _, _, _ => []
  end.

(* deserialize_contig_details up to (not including) the assignment into sample_desc *)
Definition deser_details (segment_size kmer_length : N) (v : streams) : outcome (list (list (list seg))) :=
  let '(s0, s1, s2, s3, s4) := v in
  obnd (cv_decode s0) (fun nr =>
  obnd (dec_structure (clamp (fst nr) (snd nr)) (snd nr)) (fun sr =>
    let structure := fst sr in
    let no_items := sumN (map sumN structure) in
    obnd (cv_decode_n (clamp no_items s1) s1) (fun v1 =>
    obnd (cv_decode_n (clamp no_items s2) s2) (fun v2 =>
    obnd (cv_decode_n (clamp no_items s3) s3) (fun v3 =>
    obnd (cv_decode_n (clamp no_items s4) s4) (fun v4 =>
    obnd (ou32 (add_u32 segment_size kmer_length)) (fun pred =>
    obnd (dec_samples_d pred [] structure (zip4 (fst v1) (fst v2) (fst v3) (fst v4))) (fun r =>
      Ok (fst (fst r)))))))))).
