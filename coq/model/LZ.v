(* LZ.v - Gallina transcription of ragc-core/src/lz_diff.rs (LZDiff::new, prepare/build_index_lp, get_code,
   get_code_skip1, get_nrun_len, encode_literal/nrun/match, append_int, find_best_match_lp, matching_length,
   encode, decode, is_literal, decode_literal, decode_nrun, decode_match, read_int) and of the decompressor's
   wrapper "empty delta => the segment equals the reference".  Definitions only.

   Conventions
   - dev profile: every u32/i32/i64 operation that can trap is checked, a trap or an out-of-range index is
     [Panic]; `as u32` / `as i32` casts wrap.  usize additions of lengths/indices of live Vecs are not checked
     (a Vec is at most isize::MAX bytes).
   - the output vector `encoded` (and `decoded`) is kept REVERSED (head = last pushed byte): push = cons,
     pop = tail, `encoded[e_size - scan_i]` = element scan_i-1.  The public functions reverse at the end.
   - loops run on explicit fuel; exhaustion is [Err] (proved unreachable in proofs/LZ_*.v).
   - for the extracted model's speed the loops carry the slice `&target[i..]` ([suf], [tsuf]) next to the index
     [i], and the state keeps `self.reference.len()` as [refp_len] (a Vec knows its length); the proofs carry
     suf = skipnN i tgt and refp_len = lenN refp.
   - the hash function is a parameter ([hash]); [encode]/[decode_full] instantiate it with [murmur64].
   - `(ht_size as f64 / 0.7) as u64` is modelled as floor(count*10/7) (equal to the f64 computation for
     count <= 788129934789842 (~2^49.5; n = 788129934789843 is the first value where binary64 n/0.7 truncates differently,
     see props/C12F.v's report in DESIGN.md 11.5b); counts are reference lengths < 2^32). *)
From Ragc Require Export Mach.
From Ragc Require Export Consts_lz MurMur.

Record lzst := mk_lzst {
  refp : list N;      (* reference, padded with key_len bytes of pad_byte by prepare *)
  refp_len : N;       (* self.reference.len() (a Vec knows its length; kept equal to lenN refp) *)
  ref_len : N;        (* length before padding *)
  ht : list N;        (* ht_lp: i / HASHING_STEP or empty_slot *)
  ht_mask : N;
  mml : N;            (* min_match_len *)
  key_len : N;
  key_mask : N }.

(* ---------------------------------------------------------------- new *)
(* key_len = min_match_len - HASHING_STEP + 1 (u32: the subtraction traps for min_match_len < 4) *)
Definition lz_new (m : N) : outcome lzst :=
  match sub_u32 m hashing_step with
  | None => Panic
  | Some d =>
    let kl := d + key_len_add in
    let km := if key_mask_full_from <=? kl then max_u64
              else N.shiftl 1 (key_bits_per_sym * kl) - 1 in
    Ok (mk_lzst [] 0 0 [] 0 m kl km)
  end.

(* ---------------------------------------------------------------- k-mer codes *)
Fixpoint get_code_go (n : nat) (seq : list N) (code : N) : outcome (option N) :=
  match n with
  | O => Ok (Some code)
  | S n' =>
    match seq with
    | [] => Panic                                   (* seq[i] out of range *)
    | c :: s' =>
      if max_valid_sym <? c then Ok None
      else get_code_go n' s' (N.lor (shl64 code code_shift) c)
    end
  end.

Definition get_code (st : lzst) (seq : list N) : outcome (option N) :=
  get_code_go (N.to_nat (key_len st)) seq 0.

Definition get_code_skip1 (st : lzst) (prev : N) (seq : list N) : outcome (option N) :=
  match sub_u64 (key_len st) 1 with
  | None => Panic
  | Some last =>
    match nthN seq last with
    | None => Panic
    | Some c =>
      if max_valid_sym_skip1 <? c then Ok None
      else Ok (Some (N.lor (N.land (shl64 prev code_shift) (key_mask st)) c))
    end
  end.

(* ---------------------------------------------------------------- N runs *)
(* while len < max_len && seq[len] == N_CODE { len += 1 }   (every caller passes max_len = seq.len(), so
   seq[len] is in range whenever len < max_len; at the end of seq the model stops) *)
Fixpoint nrun_ext (rest : list N) (len max_len : N) : N :=
  match rest with
  | c :: r => if (len <? max_len) && (c =? n_code) then nrun_ext r (len + 1) max_len else len
  | [] => len
  end.

Definition get_nrun_len (seq : list N) (max_len : N) : N :=
  match seq with
  | a :: b :: c :: rest =>
    if (a =? n_code) && (b =? n_code) && (c =? n_code) then wrap32 (nrun_ext rest 3 max_len) else 0
  | _ => 0
  end.

(* ---------------------------------------------------------------- serialisation (forward byte lists) *)
(* digits of x > 0, most significant first (the Rust pushes them in reverse and reverses in place) *)
Fixpoint digits_go (fuel : nat) (x : N) (acc : list N) : list N :=
  match fuel with
  | O => acc
  | S f => if x =? 0 then acc else digits_go f (x / radix) ((digit0 + x mod radix) :: acc)
  end.

(* x : i64, |x| < 10^20 always *)
Definition append_int (x : Z) : list N :=
  if (x =? 0)%Z then [digit0]
  else (if (x <? 0)%Z then [minus_byte] else []) ++ digits_go 20 (Z.abs_N x) [].

Definition ser_literal (c : N) : outcome (list N) :=
  if lit_base + c <? 256 then Ok [lit_base + c] else Panic.      (* b'A' + base : u8 *)

Definition ser_nrun (len : N) : outcome (list N) :=
  match sub_u32 len min_nrun_len with
  | None => Panic
  | Some d => Ok (n_run_starter_code :: append_int (Z.of_N d) ++ [n_code])
  end.

Definition as_i32 (x : N) : Z := wrap_i32 (Z.of_N x).
Definition sub_i32 (a b : Z) : option Z := if in_i32 (a - b)%Z then Some (a - b)%Z else None.

Definition ser_match (st : lzst) (ref_pos : N) (len : option N) (pred_pos : N) : outcome (list N) :=
  match sub_i32 (as_i32 ref_pos) (as_i32 pred_pos) with
  | None => Panic
  | Some dif =>
    match len with
    | None => Ok (append_int dif ++ [period_byte])
    | Some l =>
      match sub_u32 l (mml st) with
      | None => Panic
      | Some d => Ok (append_int dif ++ comma_byte :: append_int (Z.of_N d) ++ [period_byte])
      end
    end
  end.

(* ---------------------------------------------------------------- matching *)
Fixpoint matching_length_go (s1 s2 : list N) (max_len len : N) : N :=
  match s1, s2 with
  | a :: s1', b :: s2' =>
    if (len <? max_len) && (a =? b) then matching_length_go s1' s2' max_len (len + 1) else len
  | _, _ => len
  end.
Definition matching_length (s1 s2 : list N) (max_len : N) : N := matching_length_go s1 s2 max_len 0.

(* while b_len < max_back { if target[text_pos-b_len-1] != reference[h_pos-b_len-1] {break}; b_len += 1 }
   (max_back <= min h_pos text_pos, so both indices are in range) *)
Fixpoint back_go (fuel : nat) (tgt rp : list N) (tp hp max_back b : N) : N :=
  match fuel with
  | O => b
  | S f =>
    if b <? max_back then
      match nthN tgt (tp - b - 1), nthN rp (hp - b - 1) with
      | Some x, Some y => if x =? y then back_go f tgt rp tp hp max_back (b + 1) else b
      | _, _ => b
      end
    else b
  end.

Section Probe.
  (* tsuf = &target[text_pos..] *)
  Variables (st : lzst) (code : N) (tgt tsuf : list N) (tp max_len npl ht_pos : N).

  (* for j in 0..MAX_NO_TRIES *)
  Fixpoint probe (n : nat) (j : N) (bp bb bf mtu : N) : outcome (N * N * N) :=
    match n with
    | O => Ok (bp, bb, bf)
    | S n' =>
      let idx := N.land (ht_pos + j) (ht_mask st) in
      match nthN (ht st) idx with
      | None => Panic
      | Some slot =>
        if slot =? empty_slot then Ok (bp, bb, bf)
        else
          let h_pos := slot * hashing_step in
          if refp_len st <=? h_pos then probe n' (j + 1) bp bb bf mtu
          else
            let rs := skipnN h_pos (refp st) in
            match get_code st rs with
            | Panic => Panic
            | Err => Err
            | Ok None => probe n' (j + 1) bp bb bf mtu
            | Ok (Some rc) =>
              if negb (rc =? code) then probe n' (j + 1) bp bb bf mtu
              else
                let f_len := matching_length tsuf rs max_len in
                if key_len st <=? f_len then
                  let max_back := N.min (N.min npl h_pos) tp in
                  let b_len := back_go (N.to_nat max_back) tgt (refp st) tp h_pos max_back 0 in
                  if mtu <? b_len + f_len
                  then probe n' (j + 1) (wrap32 h_pos) (wrap32 b_len) (wrap32 f_len) (b_len + f_len)
                  else probe n' (j + 1) bp bb bf mtu
                else probe n' (j + 1) bp bb bf mtu
            end
      end
    end.
End Probe.

Definition find_best_match_lp (st : lzst) (code hash : N) (tgt tsuf : list N) (tp max_len npl : N)
  : outcome (option (N * N * N)) :=
  match ht st with
  | [] => Ok None
  | _ :: _ =>
    match probe st code tgt tsuf tp max_len npl (N.land hash (ht_mask st)) (N.to_nat max_no_tries) 0 0 0 0 (mml st) with
    | Panic => Panic
    | Err => Err
    | Ok (bp, bb, bf) =>
      match add_u32 bb bf with
      | None => Panic
      | Some t => if mml st <=? t then Ok (Some (bp, bb, bf)) else Ok None
      end
    end
  end.

(* ---------------------------------------------------------------- encode *)
(* for scan_i in 1..max_scan: c = encoded[e_size - scan_i]; stop unless 'A' <= c <= 'Z';
   if c - 'A' == reference[adjusted_match_pos - scan_i] then encoded[..] = '!' *)
Fixpoint bang_scan (rp : list N) (n : nat) (scan_i amp : N) (renc : list N) : outcome (list N) :=
  match n with
  | O => Ok renc
  | S n' =>
    match renc with
    | [] => Ok []
    | c :: r =>
      if (c <? scan_lo) || (scan_hi <? c) then Ok renc
      else
        match nthN rp (amp - scan_i) with
        | None => Panic
        | Some rb =>
          match bang_scan rp n' (scan_i + 1) amp r with
          | Ok r' => Ok ((if c - scan_base =? rb then scan_bang else c) :: r')
          | Err => Err
          | Panic => Panic
          end
        end
    end
  end.

Definition emit_literal (c : N) (renc : list N) : outcome (list N) :=
  obnd (ser_literal c) (fun b => Ok (rev_append b renc)).

(* while i < text_size { encode_literal(target[i]); i += 1 } *)
Fixpoint enc_tail (suf : list N) (renc : list N) : outcome (list N) :=
  match suf with
  | [] => Ok renc
  | c :: s => obnd (emit_literal c renc) (enc_tail s)
  end.

Section Enc.
  Variable hash : N -> N.
  Variable st : lzst.
  Variable tgt : list N.
  Variable tlen : N.                    (* text_size = target.len() *)

  (* suf = &target[i..] is carried along (the Rust indexes target directly) *)
  Fixpoint enc_loop (fuel : nat) (i : N) (suf : list N) (pp npl : N) (xprev : option N) (renc : list N)
    : outcome (list N) :=
    match fuel with
    | O => Err
    | S f =>
      if i + key_len st <? tlen then
        let lit := fun (x : option N) =>
          match suf with
          | [] => Panic
          | c :: suf' =>
            match add_u32 pp 1 with
            | None => Panic
            | Some pp' => obnd (emit_literal c renc) (fun r => enc_loop f (i + 1) suf' pp' (npl + 1) x r)
            end
          end in
        let xo := match xprev with
                  | Some prev => if 0 <? npl then get_code_skip1 st prev suf else get_code st suf
                  | None => get_code st suf
                  end in
        match xo with
        | Panic => Panic
        | Err => Err
        | Ok None =>
          let nrun := get_nrun_len suf (tlen - i) in
          if min_nrun_len <=? nrun then
            obnd (ser_nrun nrun) (fun b => enc_loop f (i + nrun) (skipnN nrun suf) pp 0 None (rev_append b renc))
          else lit None
        | Ok (Some code) =>
          match find_best_match_lp st code (hash code) tgt suf i (tlen - i) npl with
          | Panic => Panic
          | Err => Err
          | Ok None => lit (Some code)
          | Ok (Some (mp, lb, lf)) =>
            let renc1 := skipnN lb renc in                         (* len_bck pops *)
            match sub_u64 i lb, sub_u32 pp lb, add_u32 lb lf, sub_u32 mp lb with
            | Some i1, Some pp1, Some total, Some amp =>
              let len_to_encode :=
                if (i1 + total =? tlen) && (mp + lf =? ref_len st) then None else Some total in
              let scanned :=
                if amp =? pp1
                then bang_scan (refp st) (N.to_nat (N.min (lenN renc1) amp) - 1) 1 amp renc1
                else Ok renc1 in
              match scanned with
              | Panic => Panic
              | Err => Err
              | Ok renc2 =>
                match ser_match st amp len_to_encode pp1, add_u32 amp total with
                | Ok b, Some pp2 => enc_loop f (i1 + total) (skipnN lf suf) pp2 0 (Some code) (rev_append b renc2)
                | Err, _ => Err
                | _, _ => Panic
                end
              end
            | _, _, _, _ => Panic
            end
          end
        end
      else enc_tail suf renc
    end.
End Enc.

(* target.iter().zip(reference.iter()).all(|(a, b)| a == b) *)
Fixpoint zip_all_eq (a b : list N) : bool :=
  match a, b with
  | x :: a', y :: b' => (x =? y) && zip_all_eq a' b'
  | _, _ => true
  end.

Definition lz_encode (hash : N -> N) (st : lzst) (tgt : list N) : outcome (list N) :=
  if (lenN tgt =? ref_len st) && zip_all_eq tgt (refp st) then Ok []
  else obnd (enc_loop hash st tgt (lenN tgt) (S (length tgt)) 0 tgt 0 0 None []) (fun renc => Ok (rev renc)).

(* ---------------------------------------------------------------- decode *)
Definition is_literal (c : N) : bool :=
  ((lit_base <=? c) && (c <=? lit_base + lit_span)) || (c =? bang_byte).
Definition decode_literal (c : N) : N := if c =? bang_byte then bang_byte else c - lit_base.
Definition is_digit (c : N) : bool := (digit0 <=? c) && (c <=? digit9).
Definition i64_max : Z := 9223372036854775807%Z.

Fixpoint read_digits (data : list N) (x : Z) : outcome (Z * list N) :=
  match data with
  | c :: r =>
    if is_digit c then
      let x' := (x * Z.of_N radix + Z.of_N (c - digit0))%Z in
      if (x' <=? i64_max)%Z then read_digits r x' else Panic
    else Ok (x, data)
  | [] => Ok (x, [])
  end.

Definition read_int (data : list N) : outcome (Z * list N) :=
  match data with
  | [] => Panic                                         (* data[0] *)
  | c :: r =>
    if c =? minus_byte
    then obnd (read_digits r 0) (fun xr => Ok ((- fst xr)%Z, snd xr))
    else read_digits data 0
  end.

Definition as_u32 (z : Z) : N := Z.to_N (z mod 4294967296).
Definition as_usize (z : Z) : N := Z.to_N (z mod 18446744073709551616).

(* data = the bytes after the starter code; returns (length, rest) *)
Definition decode_nrun (data : list N) : outcome (N * list N) :=
  obnd (read_int data) (fun xr =>
    match add_u32 (as_u32 (fst xr)) min_nrun_len with
    | None => Panic
    | Some len => Ok (len, skipn 1 (snd xr))
    end).

Definition decode_match (st : lzst) (data : list N) (pp : N) : outcome (N * N * list N) :=
  obnd (read_int data) (fun xr =>
    let s := (Z.of_N pp + fst xr)%Z in
    if (i64_max <? s)%Z then Panic
    else
      let ref_pos := as_usize s in
      match snd xr with
      | [] => Panic
      | c :: r1 =>
        if c =? period_byte then Ok (ref_pos, to_end_len, r1)
        else if c =? comma_byte then
          match r1 with
          | [] => Panic
          | _ :: _ =>
            obnd (read_int r1) (fun yr =>
              match add_u32 (as_u32 (fst yr)) (mml st) with
              | None => Panic
              | Some len => Ok (ref_pos, len, skipn 1 (snd yr))
              end)
          end
        else Panic
      end).

Fixpoint decode_go (st : lzst) (fuel : nat) (data : list N) (rout : list N) (pp : N) : outcome (list N) :=
  match data with
  | [] => Ok (rev rout)
  | c :: r =>
    match fuel with
    | O => Err
    | S f =>
      if is_literal c then
        let d := decode_literal c in
        if d =? bang_byte then
          match nthN (refp st) pp with
          | None => Panic
          | Some a => decode_go st f r (a :: rout) (pp + 1)
          end
        else decode_go st f r (d :: rout) (pp + 1)
      else if c =? n_run_starter_code then
        match decode_nrun r with
        | Ok (len, r') => decode_go st f r' (repeat n_code (N.to_nat len) ++ rout) pp
        | Err => Err
        | Panic => Panic
        end
      else
        match decode_match st data pp with
        | Ok (ref_pos, len, r') =>
          match (if len =? to_end_len then sub_u64 (ref_len st) ref_pos else Some len) with
          | None => Panic
          | Some alen =>
            if ref_pos + alen <=? refp_len st
            then decode_go st f r' (rev_append (firstnN alen (skipnN ref_pos (refp st))) rout) (ref_pos + alen)
            else Panic
          end
        | Err => Err
        | Panic => Panic
        end
    end
  end.

Definition lz_decode (st : lzst) (enc : list N) : outcome (list N) :=
  decode_go st (S (length enc)) enc [] 0.

(* ---------------------------------------------------------------- prepare / build_index_lp *)
Fixpoint count_go (kl klm : N) (l : list N) (npv cm hs : N) : outcome N :=
  match l with
  | [] => Ok hs
  | c :: r =>
    match (if c <? index_valid_below then add_u32 npv 1 else Some 0) with
    | None => Panic
    | Some npv' =>
      let cm1 := cm + 1 in
      let cm' := if cm1 =? hashing_step then 0 else cm1 in
      count_go kl klm r npv' cm' (if (cm' =? klm) && (kl <=? npv') then hs + 1 else hs)
    end
  end.

(* while (s & (s-1)) != 0 { s &= s-1 } *)
Fixpoint pow2_floor (fuel : nat) (s : N) : N :=
  match fuel with
  | O => s
  | S f => if N.land s (s - 1) =? 0 then s else pow2_floor f (N.land s (s - 1))
  end.

Definition ht_size_of (count : N) : N :=
  let s := (count * load_den) / load_num in
  let s := if s =? 0 then 1 else s in
  let s := pow2_floor 64 s in
  let s := shl64 s 1 in
  if s <? min_ht_size then min_ht_size else s.

Fixpoint set_nth {A} (l : list A) (n : nat) (v : A) : list A :=
  match l, n with
  | [], _ => []
  | _ :: t, O => v :: t
  | h :: t, S n' => h :: set_nth t n' v
  end.

Fixpoint insert_probe (n : nat) (j base mask : N) (t : list N) (v : N) : outcome (list N) :=
  match n with
  | O => Ok t
  | S n' =>
    let idx := N.land (base + j) mask in
    match nthN t idx with
    | None => Panic
    | Some s =>
      if s =? empty_slot then Ok (set_nth t (N.to_nat idx) v)
      else insert_probe n' (j + 1) base mask t v
    end
  end.

Section Build.
  Variable hash : N -> N.
  Variables (kl rlen mask : N).
  (* suf = reference[i..] *)
  Fixpoint build_go (fuel : nat) (i : N) (suf : list N) (t : list N) : outcome (list N) :=
    match fuel with
    | O => Err
    | S f =>
      if i + kl <? rlen then
        match get_code_go (N.to_nat kl) suf 0 with
        | Panic => Panic
        | Err => Err
        | Ok None => build_go f (i + hashing_step) (skipnN hashing_step suf) t
        | Ok (Some code) =>
          obnd (insert_probe (N.to_nat max_no_tries) 0 (N.land (hash code) mask) mask t (wrap32 (i / hashing_step)))
               (fun t' => build_go f (i + hashing_step) (skipnN hashing_step suf) t')
        end
      else Ok t
    end.
End Build.

Definition lz_prepare (hash : N -> N) (st : lzst) (reference : list N) : outcome lzst :=
  let rp := reference ++ repeat pad_byte (N.to_nat (key_len st)) in
  obnd (count_go (key_len st) (key_len st mod hashing_step) rp 0 0 0) (fun cnt =>
    let size := ht_size_of cnt in
    let mask := size - 1 in
    obnd (build_go hash (key_len st) (lenN rp) mask (S (length rp)) 0 rp (repeat empty_slot (N.to_nat size)))
      (fun t => Ok (mk_lzst rp (lenN rp) (lenN reference) t mask (mml st) (key_len st) (key_mask st)))).

(* ---------------------------------------------------------------- cost vector / estimate
   (correspondence only: no C09 theorem is about them; same loop skeleton as encode) *)
Definition int_len (x : N) : N :=
  if x <? 10 then 1 else if x <? 100 then 2 else if x <? 1000 then 3 else if x <? 10000 then 4
  else if x <? 100000 then 5 else if x <? 1000000 then 6 else if x <? 10000000 then 7
  else if x <? 100000000 then 8 else if x <? 1000000000 then 9 else 10.
Definition uint_len_v2 (x : N) : N :=
  if x <? 10 then 1 else if x <? 100 then 2 else if x <? 1000 then 3 else if x <? 10000 then 4
  else if x <? 100000 then 5 else if x <? 1000000 then 6 else if x <? 10000000 then 7 else 8.

(* (-dif_pos) as u32 / dif_pos as u32 of an i32 *)
Definition abs_u32 (z : Z) : N := as_u32 (Z.abs z).

Definition coding_cost_nrun (len : N) : outcome N :=
  match sub_u32 len min_nrun_len with
  | None => Panic
  | Some d => Ok (1 + int_len d + 1)
  end.

Definition coding_cost_match (st : lzst) (match_pos len pred_pos : N) : outcome N :=
  match sub_i32 (as_i32 match_pos) (as_i32 pred_pos), sub_u32 len (mml st) with
  | Some dif, Some delta =>
    let pos_digits := if (0 <=? dif)%Z then int_len (abs_u32 dif) else int_len (abs_u32 dif) + 1 in
    Ok (pos_digits + int_len delta + 2)
  | _, _ => Panic
  end.

(* push tc and total-1 zeros (prefix) or the zeros first (suffix), on the reversed vector *)
Definition push_cost (prefix : bool) (tc n : N) (rv : list N) : list N :=
  let zeros := repeat 0 (N.to_nat n - 1) in
  if prefix then zeros ++ tc :: rv else tc :: zeros ++ rv.

Section Cost.
  Variable hash : N -> N.
  Variable st : lzst.
  Variable tgt : list N.
  Variable tlen : N.
  Variable prefix : bool.

  Fixpoint cost_loop (fuel : nat) (i : N) (suf : list N) (pp npl : N) (xprev : option N) (rv : list N)
    : outcome (list N) :=
    match fuel with
    | O => Err
    | S f =>
      if i + key_len st <? tlen then
        let lit := fun (x : option N) =>
          match suf with
          | [] => Panic
          | _ :: suf' =>
            match add_u32 pp 1 with
            | None => Panic
            | Some pp' => cost_loop f (i + 1) suf' pp' (npl + 1) x (1 :: rv)
            end
          end in
        let xo := match xprev with
                  | Some prev => if 0 <? npl then get_code_skip1 st prev suf else get_code st suf
                  | None => get_code st suf
                  end in
        match xo with
        | Panic => Panic
        | Err => Err
        | Ok None =>
          let nrun := get_nrun_len suf (tlen - i) in
          if min_nrun_len <=? nrun then
            obnd (coding_cost_nrun nrun) (fun tc =>
              cost_loop f (i + nrun) (skipnN nrun suf) pp 0 None (push_cost prefix tc nrun rv))
          else lit None
        | Ok (Some code) =>
          match find_best_match_lp st code (hash code) tgt suf i (tlen - i) npl with
          | Panic => Panic
          | Err => Err
          | Ok None => lit (Some code)
          | Ok (Some (mp, lb, lf)) =>
            let rv1 := skipnN lb rv in
            match sub_u64 i lb, sub_u32 pp lb, add_u32 lb lf, sub_u32 mp lb with
            | Some i1, Some pp1, Some total, Some amp =>
              match coding_cost_match st amp total pp1, add_u32 amp total with
              | Ok tc, Some pp2 =>
                cost_loop f (i1 + total) (skipnN lf suf) pp2 0 (Some code) (push_cost prefix tc total rv1)
              | Err, _ => Err
              | _, _ => Panic
              end
            | _, _, _, _ => Panic
            end
          end
        end
      else Ok (repeat 1 (length suf) ++ rv)
    end.
End Cost.

Definition lz_cost_vector (hash : N -> N) (st : lzst) (tgt : list N) (prefix : bool) : outcome (list N) :=
  match refp st with
  | [] => Ok []
  | _ :: _ => obnd (cost_loop hash st tgt (lenN tgt) prefix (S (length tgt)) 0 tgt 0 0 None [])
                   (fun rv => Ok (rev rv))
  end.

Definition cost_match_v2 (st : lzst) (ref_pos : N) (len : option N) (pred_pos : N) : outcome N :=
  match sub_i32 (as_i32 ref_pos) (as_i32 pred_pos) with
  | None => Panic
  | Some dif =>
    let r := if (0 <=? dif)%Z then uint_len_v2 (abs_u32 dif) else 1 + uint_len_v2 (abs_u32 dif) in
    match len with
    | None => Ok (r + 1)
    | Some l => match sub_u32 l (mml st) with
                | None => Panic
                | Some d => Ok (r + (1 + uint_len_v2 d) + 1)
                end
    end
  end.

Section Est.
  Variable hash : N -> N.
  Variable st : lzst.
  Variable tgt : list N.
  Variable tlen : N.       (* text_size : u32 *)
  Variable bound : N.

  (* returns (est_cost, i) at loop exit, or the early-return value *)
  Fixpoint est_loop (fuel : nat) (i : N) (suf : list N) (pp npl : N) (xprev : option N) (est : N)
    : outcome (N * option N) :=
    match fuel with
    | O => Err
    | S f =>
      match add_u32 i (key_len st) with
      | None => Panic
      | Some ik =>
        if ik <? tlen then
          if bound <? est then Ok (est, None)
          else
            let lit := fun (x : option N) =>
              match suf with
              | [] => Panic
              | _ :: suf' =>
                match add_u32 est 1, add_u32 i 1, add_u32 pp 1, add_u32 npl 1 with
                | Some est', Some i', Some pp', Some npl' => est_loop f i' suf' pp' npl' x est'
                | _, _, _, _ => Panic
                end
              end in
            let xo := match xprev with
                      | Some prev => if 0 <? npl then get_code_skip1 st prev suf else get_code st suf
                      | None => get_code st suf
                      end in
            match xo with
            | Panic => Panic
            | Err => Err
            | Ok None =>
              let nrun := get_nrun_len suf (tlen - i) in
              if min_nrun_len <=? nrun then
                match sub_u32 nrun min_nrun_len with
                | None => Panic
                | Some d =>
                  match add_u32 est (2 + uint_len_v2 d), add_u32 i nrun with
                  | Some est', Some i' => est_loop f i' (skipnN nrun suf) pp 0 None est'
                  | _, _ => Panic
                  end
                end
              else lit None
            | Ok (Some code) =>
              match find_best_match_lp st code (hash code) tgt suf i (tlen - i) npl with
              | Panic => Panic
              | Err => Err
              | Ok None => lit (Some code)
              | Ok (Some (mp, lb, lf)) =>
                match add_u32 lb lf with
                | None => Panic
                | Some total =>
                  match add_u32 i total, add_u32 mp total with
                  | Some it, Some mt =>
                    let is_end := (it =? tlen) && (mt =? ref_len st) in
                    match cost_match_v2 st mp (if is_end then None else Some total) pp with
                    | Ok c =>
                      match add_u32 est c with
                      | Some est' => est_loop f it (skipnN total suf) mt 0 (Some code) est'
                      | None => Panic
                      end
                    | Err => Err
                    | Panic => Panic
                    end
                  | _, _ => Panic
                  end
                end
              end
            end
        else Ok (est, Some i)
      end
    end.
End Est.

Definition lz_estimate (hash : N -> N) (st : lzst) (tgt : list N) (bound : N) : outcome N :=
  match ht st with
  | [] => Ok (wrap32 (lenN tgt))
  | _ :: _ =>
    let tlen := wrap32 (lenN tgt) in
    if (tlen =? wrap32 (ref_len st)) && zip_all_eq tgt (refp st) then Ok 0
    else
      match est_loop hash st tgt tlen bound (S (length tgt)) 0 tgt 0 0 None 0 with
      | Ok (est, None) => Ok est
      | Ok (est, Some i) => Ok (wrap32 (est + wrap32 (tlen + two32 - i)))
      | Err => Err
      | Panic => Panic
      end
  end.

Definition cost_vector (m : N) (reference tgt : list N) (prefix : bool) : outcome (list N) :=
  obnd (lz_new m) (fun st0 => obnd (lz_prepare murmur64 st0 reference) (fun st => lz_cost_vector murmur64 st tgt prefix)).
Definition estimate (m : N) (reference tgt : list N) (bound : N) : outcome N :=
  obnd (lz_new m) (fun st0 => obnd (lz_prepare murmur64 st0 reference) (fun st => lz_estimate murmur64 st tgt bound)).

(* ---------------------------------------------------------------- public entry points *)
Definition encode_with (hash : N -> N) (m : N) (reference tgt : list N) : outcome (list N) :=
  obnd (lz_new m) (fun st0 => obnd (lz_prepare hash st0 reference) (fun st => lz_encode hash st tgt)).

(* decompressor.rs: LZDiff::new(mml); prepare(reference); if lz_encoded.is_empty() { reference.clone() }
   else { lz_diff.decode(&lz_encoded) } *)
Definition decode_full_with (hash : N -> N) (m : N) (reference enc : list N) : outcome (list N) :=
  obnd (lz_new m) (fun st0 => obnd (lz_prepare hash st0 reference) (fun st =>
    match enc with [] => Ok reference | _ :: _ => lz_decode st enc end)).

Definition encode := encode_with murmur64.
Definition decode_full := decode_full_with murmur64.
(* plain LZDiff::decode after new + prepare (no empty-delta wrapper), for the correspondence *)
Definition decode_plain (m : N) (reference enc : list N) : outcome (list N) :=
  obnd (lz_new m) (fun st0 => obnd (lz_prepare murmur64 st0 reference) (fun st => lz_decode st enc)).

(* symbols the theorems quantify over: the literal byte lit_base + c fits a u8, is accepted by is_literal,
   decodes back to c (is not the bang byte, and c itself is not mistaken for the bang marker after
   decode_literal), and c is not the padding byte *)
Definition sym_okb (c : N) : bool :=
  (lit_base + c <? 256) && is_literal (lit_base + c) && negb (lit_base + c =? bang_byte)
  && negb (c =? bang_byte) && negb (c =? pad_byte).
Definition sym_ok (c : N) : Prop := sym_okb c = true.
