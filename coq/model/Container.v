(* Container.v - ragc-common/src/archive.rs: the Archive writer and reader over a byte list.  Definitions only.

   Writer (output mode).  The file is written through a BufWriter front to back, so the file content after
   close is the concatenation of everything written, in order: [w_chunks] (newest first).  f_offset is a u64
   that counts the bytes written; it is modelled with unbounded addition because it can only overflow when
   the file is larger than 2^64 bytes (Container_proofs.winv: w_off = length written; the theorems assume the
   final file is shorter than 2^64).  Write errors of the sink are out of scope here (C15).
   packed_size / packed_data_size are statistics that are never written to the file: not modelled.
     register_stream   idempotent (stream_map lookup first)
     add_part          Err on an unknown stream id, nothing written; else varint(metadata) ++ data at f_offset
     add_part_buffered BTreeMap<stream_id, Vec<(data, metadata)>>: a key-sorted association list; the stream id
                       is NOT checked here
     flush_buffers     takes the map, then add_part for every entry in key order, insertion order inside a
                       key; stops at the first Err (the rest of the taken map is dropped)
     set_raw_size      ignored on an unknown id
     close             writer.flush(); serialize(): footer = varint(#streams), per stream name NUL
                       varint(#parts) varint(raw_size) (varint(offset) varint(size))*, then 8 bytes LE footer
                       length.  close does NOT flush write_buffer: parts still buffered are dropped.
   Stream names are Rust Strings, here the list of their UTF-8 bytes.  The writer writes the bytes as they
   are; the reader rebuilds the name with `push(byte as char)`, i.e. decodes Latin-1, so a byte >= 128 comes
   back as two bytes [char_utf8].  A NUL inside a name ends it early on the reading side.

   Reader (input mode) over an arbitrary byte string.  File API facts used:
     metadata().len() = length; seek(End(-8)) fails iff length < 8; seek(Start(o)) fails iff o > max_off (the
     file system's largest offset: about 2^44 on ext4, 2^63-1 on tmpfs), seeking past the end is fine;
     read_exact(n) at pos fails iff n > 0 and pos + n > length.
   Every `vec![0u8; n]` sized from file content is reported in the allocation log (first component). *)
From Ragc Require Export Mach Varint.
From Ragc Require Import Consts_archive.

Definition item : Type := (list N * N)%type.            (* (data, metadata) *)

Record part := mkPart { p_off : N; p_size : N }.

Definition name_eqb (a b : list N) : bool := list_eqb N.eqb a b.

Fixpoint map_get (name : list N) (m : list (list N * N)) : option N :=
  match m with
  | [] => None
  | (k, v) :: r => if name_eqb name k then Some v else map_get name r
  end.

Fixpoint upd_nth {A} (n : nat) (f : A -> A) (l : list A) : list A :=
  match l with
  | [] => []
  | x :: r => match n with O => f x :: r | S m => x :: upd_nth m f r end
  end.

(* nthN / skipnN / firstnN that never convert an out-of-range (possibly 2^64-sized) index to nat and never
   measure the whole list: same value, but the extracted program is fast on any index
   (Container_proofs.nthS_eq, skipnS_eq, firstnS_eq) *)
Definition nthS {A} (l : list A) (i : N) : option A := if i <? lenN l then nthN l i else None.
Fixpoint skipnS {A} (n : N) (l : list A) : list A :=
  match l with [] => [] | _ :: r => if n =? 0 then l else skipnS (N.pred n) r end.
Fixpoint firstnS {A} (n : N) (l : list A) : list A :=
  match l with [] => [] | x :: r => if n =? 0 then [] else x :: firstnS (N.pred n) r end.

(* ------------------------------------------------------------------ writer *)
Record wstream := mkWS { ws_name : list N; ws_raw : N; ws_parts : list part }.

Record writer := mkW {
  w_off : N;                               (* f_offset *)
  w_streams : list wstream;
  w_map : list (list N * N);               (* stream_map: HashMap<String, usize>; newest binding first *)
  w_buf : list (N * list item);            (* write_buffer: BTreeMap, keys strictly increasing *)
  w_chunks : list (list N)                 (* what has been written, newest chunk first *)
}.

Definition w_init : writer := mkW 0 [] [] [] [].
Definition w_bytes (w : writer) : list N := concat (rev (w_chunks w)).

Definition register_stream (w : writer) (name : list N) : writer * N :=
  match map_get name (w_map w) with
  | Some id => (w, id)
  | None =>
    let id := lenN (w_streams w) in
    (mkW (w_off w) (w_streams w ++ [mkWS name 0 []]) ((name, id) :: w_map w) (w_buf w) (w_chunks w), id)
  end.

Definition get_stream_id_w (w : writer) (name : list N) : option N := map_get name (w_map w).

Definition ws_push_part (p : part) (s : wstream) : wstream := mkWS (ws_name s) (ws_raw s) (ws_parts s ++ [p]).

(* Ok tt / Err ("Invalid stream ID") *)
Definition add_part (w : writer) (sid : N) (data : list N) (meta : N) : writer * outcome unit :=
  if lenN (w_streams w) <=? sid then (w, Err)
  else
    let part_offset := w_off w in
    let mb := write_varint meta in
    let off1 := w_off w + lenN mb in
    let off2 := off1 + lenN data in
    (mkW off2 (upd_nth (N.to_nat sid) (ws_push_part (mkPart part_offset (lenN data))) (w_streams w))
         (w_map w) (w_buf w) (data :: mb :: w_chunks w), Ok tt).

Fixpoint buf_push (sid : N) (it : item) (b : list (N * list item)) : list (N * list item) :=
  match b with
  | [] => [(sid, [it])]
  | (k, v) :: r =>
    if sid <? k then (sid, [it]) :: b
    else if sid =? k then (k, v ++ [it]) :: r
    else (k, v) :: buf_push sid it r
  end.

Definition add_part_buffered (w : writer) (sid : N) (data : list N) (meta : N) : writer :=
  mkW (w_off w) (w_streams w) (w_map w) (buf_push sid (data, meta) (w_buf w)) (w_chunks w).

Fixpoint flush_items (w : writer) (sid : N) (its : list item) : writer * outcome unit :=
  match its with
  | [] => (w, Ok tt)
  | (d, m) :: r =>
    match add_part w sid d m with
    | (w', Ok _) => flush_items w' sid r
    | (w', e) => (w', e)
    end
  end.

Fixpoint flush_groups (w : writer) (b : list (N * list item)) : writer * outcome unit :=
  match b with
  | [] => (w, Ok tt)
  | (sid, its) :: r =>
    match flush_items w sid its with
    | (w', Ok _) => flush_groups w' r
    | (w', e) => (w', e)
    end
  end.

Definition flush_buffers (w : writer) : writer * outcome unit :=
  flush_groups (mkW (w_off w) (w_streams w) (w_map w) [] (w_chunks w)) (w_buf w).

Definition set_raw_size (w : writer) (sid raw : N) : writer :=
  if sid <? lenN (w_streams w)
  then mkW (w_off w) (upd_nth (N.to_nat sid) (fun s => mkWS (ws_name s) raw (ws_parts s)) (w_streams w))
           (w_map w) (w_buf w) (w_chunks w)
  else w.

Definition ser_part (p : part) : list N := write_varint (p_off p) ++ write_varint (p_size p).

Definition ser_stream (s : wstream) : list N :=
  ws_name s ++ [ar_name_term_w] ++ write_varint (lenN (ws_parts s)) ++ write_varint (ws_raw s)
  ++ flat_map ser_part (ws_parts s).

Definition footer_of (w : writer) : list N :=
  write_varint (lenN (w_streams w)) ++ flat_map ser_stream (w_streams w).

(* the file after close (explicit or by Drop) *)
Definition close (w : writer) : list N :=
  let footer := footer_of w in
  w_bytes w ++ footer ++ write_fixed_u64 (lenN footer).

(* op histories, for the correspondence driver and the refinement theorem *)
Inductive wop :=
| WRegister (name : list N)
| WAdd (sid : N) (data : list N) (meta : N)
| WAddBuf (sid : N) (data : list N) (meta : N)
| WFlush
| WSetRaw (sid raw : N).

Inductive wres := WId (id : N) | WOk | WErr | WNone.

Definition wres_of (o : outcome unit) : wres := match o with Ok _ => WOk | _ => WErr end.

Definition wstep (w : writer) (o : wop) : writer * wres :=
  match o with
  | WRegister name => let (w', id) := register_stream w name in (w', WId id)
  | WAdd sid d m => let (w', r) := add_part w sid d m in (w', wres_of r)
  | WAddBuf sid d m => (add_part_buffered w sid d m, WNone)
  | WFlush => let (w', r) := flush_buffers w in (w', wres_of r)
  | WSetRaw sid raw => (set_raw_size w sid raw, WNone)
  end.

Fixpoint wrun (w : writer) (ops : list wop) : writer * list wres :=
  match ops with
  | [] => (w, [])
  | o :: r => let (w1, x) := wstep w o in let (w2, xs) := wrun w1 r in (w2, x :: xs)
  end.

(* ------------------------------------------------------------------ file API *)
Definition file_seek_end (bs : list N) (back : N) : option N :=
  if lenN bs <? back then None else Some (lenN bs - back).

Definition file_seek_start (max_off o : N) : option N :=
  if max_off <? o then None else Some o.

Definition file_read_exact (bs : list N) (pos n : N) : option (list N) :=
  if n =? 0 then Some []
  else if pos + n <=? lenN bs then Some (firstnN n (skipnN pos bs)) else None.

(* ------------------------------------------------------------------ reader *)
Record rstream := mkRS { rs_name : list N; rs_raw : N; rs_parts : list part; rs_cur : N }.

Record reader := mkR {
  r_file : list N;
  r_streams : list rstream;
  r_map : list (list N * N)                (* later insert of the same name wins: newest binding first *)
}.

(* String::push(byte as char): the UTF-8 encoding of U+0000..U+00FF *)
Definition char_utf8 (b : N) : list N :=
  if b <? 128 then [b] else [192 + b / 64; 128 + b mod 64].

(* loop { read 1 byte; if 0 break; name.push(byte as char) } on the footer cursor *)
Fixpoint read_name (cur : list N) : option (list N * list N) :=
  match cur with
  | [] => None
  | b :: r =>
    if b =? ar_name_term_r then Some ([], r)
    else match read_name r with
         | Some (nm, r') => Some (char_utf8 b ++ nm, r')
         | None => None
         end
  end.

(* for _ in 0..num_parts { offset; size; checked_add / > footer_start => Err; push }.
   num_parts is any u64; every iteration consumes at least two bytes of the cursor or fails, so
   fuel = S (length cursor) is never exhausted (Container_proofs.read_parts_no_panic); exhaustion = Panic. *)
Fixpoint read_parts (fuel : nat) (n : N) (footer_start : N) (cur : list N) : outcome (list part * list N) :=
  if n =? 0 then Ok ([], cur)
  else match fuel with
       | O => Panic
       | S f =>
         obnd (read_varint cur) (fun x1 => let '(off, _, c1) := x1 in
         obnd (read_varint c1) (fun x2 => let '(sz, _, c2) := x2 in
         match add_u64 off sz with
         | None => Err
         | Some e =>
           if footer_start <? e then Err
           else obnd (read_parts f (n - 1) footer_start c2) (fun x3 => let '(ps, c3) := x3 in
                Ok (mkPart off sz :: ps, c3))
         end))
       end.

(* for i in 0..num_streams { name; num_parts; raw_size; parts } - same fuel argument (>= 1 byte each) *)
Fixpoint read_streams (fuel : nat) (n : N) (footer_start : N) (cur : list N) : outcome (list rstream) :=
  if n =? 0 then Ok []
  else match fuel with
       | O => Panic
       | S f =>
         match read_name cur with
         | None => Err
         | Some (name, c1) =>
           obnd (read_varint c1) (fun x1 => let '(num_parts, _, c2) := x1 in
           obnd (read_varint c2) (fun x2 => let '(raw, _, c3) := x2 in
           obnd (read_parts (S (length c3)) num_parts footer_start c3) (fun x3 => let '(ps, c4) := x3 in
           obnd (read_streams f (n - 1) footer_start c4) (fun rest =>
           Ok (mkRS name raw ps 0 :: rest)))))
         end
       end.

Definition parse_footer (footer_start : N) (footer : list N) : outcome (list rstream) :=
  obnd (read_varint footer) (fun x => let '(num_streams, _, cur) := x in
  read_streams (S (length cur)) num_streams footer_start cur).

(* stream_map.insert(stream_name, i) for i = 0, 1, ... *)
Fixpoint build_map (i : N) (sts : list rstream) (m : list (list N * N)) : list (list N * N) :=
  match sts with
  | [] => m
  | s :: r => build_map (i + 1) r ((rs_name s, i) :: m)
  end.

(* Archive::open in input mode = deserialize.  -> (allocation log, outcome) *)
Definition deserialize (max_off : N) (bs : list N) : list N * outcome reader :=
  let file_size := lenN bs in
  match file_seek_end bs ar_len_field_seek with
  | None => ([], Err)
  | Some pos =>
    match file_read_exact bs pos ar_len_field_buf with
    | None => ([], Err)
    | Some fsb =>
      let footer_size := le_value fsb in
      match obind (sub_u64 file_size ar_len_field_sub) (fun n => sub_u64 n footer_size) with
      | None => ([], Err)                  (* "footer size exceeds file size" *)
      | Some footer_start =>
        match file_seek_start max_off footer_start with
        | None => ([], Err)
        | Some _ =>
          ([footer_size],                  (* vec![0u8; footer_size as usize] *)
           match file_read_exact bs footer_start footer_size with
           | None => Err
           | Some footer =>
             obnd (parse_footer footer_start footer) (fun sts =>
             match file_seek_start max_off 0 with
             | None => Err
             | Some _ => Ok (mkR bs sts (build_map 0 sts []))
             end)
           end)
        end
      end
    end
  end.

Definition get_stream_id (r : reader) (name : list N) : option N := map_get name (r_map r).
Definition get_num_streams (r : reader) : N := lenN (r_streams r).
Definition get_num_parts (r : reader) (sid : N) : N :=
  match nthS (r_streams r) sid with Some s => lenN (rs_parts s) | None => 0 end.
Definition get_raw_size (r : reader) (sid : N) : N :=
  match nthS (r_streams r) sid with Some s => rs_raw s | None => 0 end.
Definition get_stream_names (r : reader) : list (list N) := map rs_name (r_streams r).
(* what a listing of the opened archive shows: (name, raw size, number of parts), position = stream id *)
Definition directory (r : reader) : list (list N * N * N) :=
  map (fun s => (rs_name s, rs_raw s, lenN (rs_parts s))) (r_streams r).

(* read_part_data -> (allocation log, Ok (data, metadata) | Err) *)
Definition read_part_data (max_off : N) (file : list N) (p : part) : list N * outcome item :=
  if p_size p =? 0 then ([], Ok ([], ar_empty_meta))
  else match file_seek_start max_off (p_off p) with
       | None => ([], Err)
       | Some pos =>
         match read_varint (skipnS pos file) with
         | Ok (meta, _, c) =>
           ([p_size p],                    (* vec![0u8; part.size as usize]; read_exact: all of it or Err *)
            let d := firstnS (p_size p) c in
            if lenN d =? p_size p then Ok (d, meta) else Err)
         | Err => ([], Err)
         | Panic => ([], Panic)
         end
       end.

Definition rs_advance (s : rstream) : rstream := mkRS (rs_name s) (rs_raw s) (rs_parts s) (rs_cur s + 1).

(* get_part: Ok None at the end of the stream; cur_id advances before the read, also when the read fails *)
Definition get_part (max_off : N) (r : reader) (sid : N) : reader * (list N * outcome (option item)) :=
  match nthS (r_streams r) sid with
  | None => (r, ([], Err))
  | Some s =>
    match nthS (rs_parts s) (rs_cur s) with
    | None => (r, ([], Ok None))
    | Some p =>
      let r' := mkR (r_file r) (upd_nth (N.to_nat sid) rs_advance (r_streams r)) (r_map r) in
      let (al, res) := read_part_data max_off (r_file r) p in
      (r', (al, obnd res (fun it => Ok (Some it))))
    end
  end.

Definition get_part_by_id (max_off : N) (r : reader) (sid pid : N) : list N * outcome (option item) :=
  match nthS (r_streams r) sid with
  | None => ([], Err)
  | Some s =>
    match nthS (rs_parts s) pid with
    | None => ([], Err)
    | Some p =>
      let (al, res) := read_part_data max_off (r_file r) p in
      (al, obnd res (fun it => Ok (Some it)))
    end
  end.

Inductive rop := RGet (sid : N) | RById (sid pid : N).

Definition rstep (max_off : N) (r : reader) (o : rop) : reader * (list N * outcome (option item)) :=
  match o with
  | RGet sid => get_part max_off r sid
  | RById sid pid => (r, get_part_by_id max_off r sid pid)
  end.

Fixpoint rrun (max_off : N) (r : reader) (ops : list rop) : list (list N * outcome (option item)) :=
  match ops with
  | [] => []
  | o :: rest => let (r', x) := rstep max_off r o in x :: rrun max_off r' rest
  end.

(* ------------------------------------------------------------------ abstract specification (C13)
   What the container promises, with no bytes, offsets or maps: streams in registration order, each with a
   raw size and the committed parts in commit order, plus the parts buffered so far in call order.
   flush commits the buffered parts in stable stream-id order, up to the first unknown stream id (the
   remainder is dropped, the call reports an error); close drops whatever is still buffered. *)
Record sstream := mkSS { ss_name : list N; ss_raw : N; ss_parts : list item }.
Record spec := mkSpec { sp_streams : list sstream; sp_pending : list (N * item) }.
Definition sp_init : spec := mkSpec [] [].

Fixpoint sp_find (name : list N) (i : N) (l : list sstream) : option N :=
  match l with
  | [] => None
  | s :: r => if name_eqb name (ss_name s) then Some i else sp_find name (i + 1) r
  end.

Definition sp_commit1 (st : list sstream) (sid : N) (it : item) : option (list sstream) :=
  if sid <? lenN st
  then Some (upd_nth (N.to_nat sid) (fun s => mkSS (ss_name s) (ss_raw s) (ss_parts s ++ [it])) st)
  else None.

Fixpoint sp_commit_all (st : list sstream) (l : list (N * item)) : list sstream * wres :=
  match l with
  | [] => (st, WOk)
  | (sid, it) :: r =>
    match sp_commit1 st sid it with
    | None => (st, WErr)
    | Some st' => sp_commit_all st' r
    end
  end.

(* stable insertion sort by stream id *)
Fixpoint ins_stable (x : N * item) (l : list (N * item)) : list (N * item) :=
  match l with
  | [] => [x]
  | y :: r => if fst x <? fst y then x :: l else y :: ins_stable x r
  end.
Definition sort_by_sid (l : list (N * item)) : list (N * item) :=
  fold_left (fun acc x => ins_stable x acc) l [].

Definition sp_step (s : spec) (o : wop) : spec * wres :=
  match o with
  | WRegister name =>
    match sp_find name 0 (sp_streams s) with
    | Some id => (s, WId id)
    | None => (mkSpec (sp_streams s ++ [mkSS name 0 []]) (sp_pending s), WId (lenN (sp_streams s)))
    end
  | WAdd sid d m =>
    match sp_commit1 (sp_streams s) sid (d, m) with
    | Some st => (mkSpec st (sp_pending s), WOk)
    | None => (s, WErr)
    end
  | WAddBuf sid d m => (mkSpec (sp_streams s) (sp_pending s ++ [(sid, (d, m))]), WNone)
  | WFlush =>
    let (st, r) := sp_commit_all (sp_streams s) (sort_by_sid (sp_pending s)) in (mkSpec st [], r)
  | WSetRaw sid raw =>
    (mkSpec (if sid <? lenN (sp_streams s)
             then upd_nth (N.to_nat sid) (fun x => mkSS (ss_name x) raw (ss_parts x)) (sp_streams s)
             else sp_streams s) (sp_pending s), WNone)
  end.

Fixpoint sp_run (s : spec) (ops : list wop) : spec * list wres :=
  match ops with
  | [] => (s, [])
  | o :: r => let (s1, x) := sp_step s o in let (s2, xs) := sp_run s1 r in (s2, x :: xs)
  end.

(* what a read returns for a stored part: an empty part reads back as ([], 0) whatever its metadata was *)
Definition sp_view (it : item) : item :=
  match fst it with [] => ([], ar_empty_meta) | _ => it end.

(* reading state of the spec: per stream the committed parts and the sequential cursor *)
Definition sp_rstep (st : list (list item * N)) (o : rop) : list (list item * N) * outcome (option item) :=
  match o with
  | RGet sid =>
    match nthS st sid with
    | None => (st, Err)
    | Some (ps, cur) =>
      match nthS ps cur with
      | None => (st, Ok None)
      | Some it => (upd_nth (N.to_nat sid) (fun x => (fst x, snd x + 1)) st, Ok (Some (sp_view it)))
      end
    end
  | RById sid pid =>
    match nthS st sid with
    | None => (st, Err)
    | Some (ps, _) =>
      match nthS ps pid with
      | None => (st, Err)
      | Some it => (st, Ok (Some (sp_view it)))
      end
    end
  end.

Fixpoint sp_rrun (st : list (list item * N)) (ops : list rop) : list (outcome (option item)) :=
  match ops with
  | [] => []
  | o :: rest => let (st', x) := sp_rstep st o in x :: sp_rrun st' rest
  end.

Definition sp_read_init (s : spec) : list (list item * N) := map (fun ss => (ss_parts ss, 0)) (sp_streams s).
Definition sp_directory (s : spec) : list (list N * N * N) :=
  map (fun ss => (ss_name ss, ss_raw ss, lenN (ss_parts ss))) (sp_streams s).

(* well-formedness of a history for the refinement theorem: names over bytes 1..127, u64 values *)
Definition name_wf (nm : list N) : Prop := Forall (fun b => 1 <= b /\ b < 128) nm.
Definition wop_wf (o : wop) : Prop :=
  match o with
  | WRegister nm => name_wf nm
  | WAdd _ _ m => m < two64
  | WAddBuf _ _ m => m < two64
  | WFlush => True
  | WSetRaw _ raw => raw < two64
  end.
