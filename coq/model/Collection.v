(* Collection.v - transcription of CollectionV3 (ragc-common/src/collection.rs): register_sample_contig,
   add_segment_placed, the listing accessors, store_batch_sample_names / store_contig_batch,
   load_batch_sample_names / load_contig_batch (cursor samples_loaded), and the two loops around them:
   the writer's `while i < num_samples { store_contig_batch(i, min(i + PACK_CARDINALITY, n)) }`
   (agc_compressor.rs) and the reader's `for batch_id in 0..num_batches { load_contig_batch }`
   (decompressor.rs).  zstd is a pair of Section variables.  The Archive is abstract: per stream the list
   of parts (data, metadata) in the order added (what Archive gives back after flush/close/open is C13).
   Definitions only. *)
From Ragc Require Export Mach.
From Ragc Require Import Consts_collection CVarint Zigzag Names Details.
Open Scope N_scope.

Record contig := mkContig { cname : name; csegs : list seg }.
Record sample := mkSample { sname : name; scontigs : list contig }.

(* sample_ids : HashMap<String, usize> as an association list without duplicate keys *)
Definition idmap := list (name * N).
Fixpoint id_get (m : idmap) (k : name) : option N :=
  match m with
  | [] => None
  | (k', v) :: m' => if beqb k' k then Some v else id_get m' k
  end.
Fixpoint id_remove (m : idmap) (k : name) : idmap :=
  match m with
  | [] => []
  | (k', v) :: m' => if beqb k' k then id_remove m' k else (k', v) :: id_remove m' k
  end.
Definition id_insert (m : idmap) (k : name) (v : N) : idmap := (k, v) :: id_remove m k.

Record coll := mkColl {
  samples : list sample;
  ids : idmap;
  segment_size : N;
  kmer_length : N;
  no_samples_in_last_batch : N;
  samples_loaded : N }.

Definition coll_new (segment_size kmer_length : N) : coll := mkColl [] [] segment_size kmer_length 0 0.
Definition with_samples (c : coll) (s : list sample) : coll :=
  mkColl s (ids c) (segment_size c) (kmer_length c) (no_samples_in_last_batch c) (samples_loaded c).

(* ---- extract_contig_name: s.split_whitespace().next().unwrap_or(s)  (char::is_whitespace on UTF-8 bytes) *)
Definition ws_len (l : list N) : nat :=
  match l with
  | b :: r =>
    if ((9 <=? b) && (b <=? 13)) || (b =? 32) then 1%nat
    else match r with
      | c :: r' =>
        if (b =? 194) && ((c =? 133) || (c =? 160)) then 2%nat
        else match r' with
          | d :: _ =>
            if (b =? 225) && (c =? 154) && (d =? 128) then 3%nat
            else if (b =? 226) && (c =? 128) && (((128 <=? d) && (d <=? 138)) || (d =? 168) || (d =? 169) || (d =? 175)) then 3%nat
            else if (b =? 226) && (c =? 129) && (d =? 159) then 3%nat
            else if (b =? 227) && (c =? 128) && (d =? 128) then 3%nat
            else 0%nat
          | [] => 0%nat
          end
      | [] => 0%nat
      end
  | [] => 0%nat
  end.

Fixpoint take_word (fuel : nat) (l : list N) : list N :=
  match fuel with
  | O => []
  | S f =>
    match l with
    | [] => []
    | b :: r => if Nat.eqb (ws_len l) 0 then b :: take_word f r else []
    end
  end.
Fixpoint skip_ws (fuel : nat) (l : list N) : list N :=
  match fuel with
  | O => l
  | S f => match ws_len l with O => l | n => skip_ws f (skipn n l) end
  end.
Definition extract_contig_name (s : name) : name :=
  match skip_ws (length s) s with
  | [] => s
  | w => take_word (length w) w
  end.

Definition stored_name (sample_name contig_name : name) : name :=
  match sample_name with [] => extract_contig_name contig_name | _ => sample_name end.

(* ---- list helpers *)
Fixpoint set_nth {A} (l : list A) (i : nat) (x : A) : list A :=
  match l, i with
  | [], _ => []
  | _ :: l', O => x :: l'
  | y :: l', S i' => y :: set_nth l' i' x
  end.
Fixpoint resize {A} (l : list A) (n : nat) (d : A) : list A :=
  match n with
  | O => []
  | S n' => match l with [] => d :: resize [] n' d | x :: l' => x :: resize l' n' d end
  end.

(* ---- register_sample_contig : Ok (collection, contig newly added?) ; Result is always Ok in the code,
   `self.sample_desc[sample_id]` is an index (Panic when out of range) *)
Definition register_sample_contig (c : coll) (sample_name contig_name : name) : outcome (coll * bool) :=
  let st := stored_name sample_name contig_name in
  let '(sid, c1) :=
    match id_get (ids c) st with
    | Some id => (id, c)
    | None =>
      let id := lenN (ids c) in
      (id, mkColl (samples c ++ [mkSample st []]) (id_insert (ids c) st id) (segment_size c) (kmer_length c)
                  (no_samples_in_last_batch c) (samples_loaded c))
    end in
  match nthN (samples c1) sid with
  | None => Panic
  | Some s =>
    if existsb (fun ct => beqb (cname ct) contig_name) (scontigs s) then Ok (c1, false)
    else Ok (with_samples c1 (set_nth (samples c1) (N.to_nat sid)
                                 (mkSample (sname s) (scontigs s ++ [mkContig contig_name []]))), true)
  end.

(* ---- add_segment_placed: Err = bail!/context (sample or contig not found) *)
Fixpoint place_in (cs : list contig) (contig_name : name) (place : N) (sg : seg) : option (list contig) :=
  match cs with
  | [] => None
  | ct :: cs' =>
    if beqb (cname ct) contig_name then
      let segs := if lenN (csegs ct) <=? place then resize (csegs ct) (N.to_nat (place + 1)) seg_empty
                  else csegs ct in
      Some (mkContig (cname ct) (set_nth segs (N.to_nat place) sg) :: cs')
    else match place_in cs' contig_name place sg with
         | Some r => Some (ct :: r)
         | None => None
         end
  end.

Definition add_segment_placed (c : coll) (sample_name contig_name : name) (place : N) (sg : seg) : outcome coll :=
  let st := stored_name sample_name contig_name in
  match id_get (ids c) st with
  | None => Err
  | Some sid =>
    match nthN (samples c) sid with
    | None => Panic
    | Some s =>
      match place_in (scontigs s) contig_name place sg with
      | None => Err
      | Some cs => Ok (with_samples c (set_nth (samples c) (N.to_nat sid) (mkSample (sname s) cs)))
      end
    end
  end.

(* ---- accessors used by listing *)
Definition get_samples_list (c : coll) : list name := map sname (samples c).
Definition get_no_samples (c : coll) : N := lenN (samples c).
Definition sample_by_name (c : coll) (sample_name : name) : outcome (option sample) :=
  match id_get (ids c) sample_name with
  | None => Ok None
  | Some sid => match nthN (samples c) sid with Some s => Ok (Some s) | None => Panic end
  end.
Definition get_contig_list (c : coll) (sample_name : name) : outcome (option (list name)) :=
  obnd (sample_by_name c sample_name) (fun o => Ok (option_map (fun s => map cname (scontigs s)) o)).
Definition get_sample_desc (c : coll) (sample_name : name) : outcome (option (list (name * list seg))) :=
  obnd (sample_by_name c sample_name)
       (fun o => Ok (option_map (fun s => map (fun ct => (cname ct, csegs ct)) (scontigs s)) o)).

(* ---- (de)serialisers over the collection state *)
Definition slice {A} (l : list A) (from to : N) : list A := firstnN (to - from) (skipnN from l).
Definition names_of (ss : list sample) : list (list name) := map (fun s => map cname (scontigs s)) ss.
Definition segs_of (ss : list sample) : list (list (list seg)) := map (fun s => map csegs (scontigs s)) ss.

Definition serialize_sample_names (c : coll) : list N := ser_sample_names (map sname (samples c)).
(* `self.sample_desc[id_from..id_to]` and `id_to - id_from` panic unless from <= to <= len *)
Definition range_ok (c : coll) (from to : N) : bool := (from <=? to) && (to <=? lenN (samples c)).
Definition serialize_contig_names (c : coll) (from to : N) : outcome (list N) :=
  if range_ok c from to then Ok (ser_names (names_of (slice (samples c) from to))) else Panic.
Definition serialize_contig_details (c : coll) (from to : N) : outcome streams :=
  if range_ok c from to then ser_details (segment_size c) (kmer_length c) (segs_of (slice (samples c) from to))
  else Panic.

(* deserialize_sample_names: clear, then push / insert(name, i) in order (a repeated name keeps the last i) *)
Fixpoint ids_of (names : list name) (i : N) (m : idmap) : idmap :=
  match names with
  | [] => m
  | n :: r => ids_of r (i + 1) (id_insert m n i)
  end.
Definition deserialize_sample_names (c : coll) (data : list N) : outcome coll :=
  obnd (deser_sample_names data) (fun ns =>
    Ok (mkColl (map (fun n => mkSample n []) ns) (ids_of ns 0 []) (segment_size c) (kmer_length c)
               (no_samples_in_last_batch c) (samples_loaded c))).

(* write decoded contig names into samples i_sample.. (contigs cleared and rebuilt, segments empty) *)
Fixpoint put_names (ss : list sample) (i : nat) (t : list (list name)) : list sample :=
  match t with
  | [] => ss
  | ns :: t' =>
    match nth_error ss i with
    | Some s => put_names (set_nth ss i (mkSample (sname s) (map (fun n => mkContig n []) ns))) (S i) t'
    | None => ss   (* unreachable: dec_samples has already panicked *)
    end
  end.
Definition deserialize_contig_names (c : coll) (data : list N) (i_sample : N) : outcome coll :=
  obnd (deser_names (lenN (samples c) - i_sample) data) (fun r =>
    Ok (mkColl (put_names (samples c) (N.to_nat i_sample) (snd r)) (ids c) (segment_size c) (kmer_length c)
               (fst r) (samples_loaded c))).

(* second pass of deserialize_contig_details: sample_desc[i_sample+i].contigs[j].segments = ... (index panics) *)
Fixpoint put_contig_segs (cs : list contig) (t : list (list seg)) : option (list contig) :=
  match t, cs with
  | [], _ => Some cs
  | sg :: t', ct :: cs' =>
    match put_contig_segs cs' t' with Some r => Some (mkContig (cname ct) sg :: r) | None => None end
  | _ :: _, [] => None
  end.
Fixpoint put_segs (ss : list sample) (i : nat) (t : list (list (list seg))) : option (list sample) :=
  match t with
  | [] => Some ss
  | st :: t' =>
    match nth_error ss i with
    | None => None
    | Some s =>
      match put_contig_segs (scontigs s) st with
      | None => None
      | Some cs => put_segs (set_nth ss i (mkSample (sname s) cs)) (S i) t'
      end
    end
  end.
Definition deserialize_contig_details (c : coll) (v : streams) (i_sample : N) : outcome coll :=
  obnd (deser_details (segment_size c) (kmer_length c) v) (fun t =>
    match put_segs (samples c) (N.to_nat i_sample) t with
    | Some ss => Ok (with_samples c ss)
    | None => Panic
    end).

(* ---- the archive as seen by the collection: three streams of parts; cur = sequential cursor of
   get_part on collection-samples *)
Definition part := (list N * N)%type.
Record arch := mkArch { a_samples : list part; a_contigs : list part; a_details : list part; a_cur : N }.
Definition arch_empty : arch := mkArch [] [] [] 0.
(* read_part_data: a part of size 0 comes back as (empty, 0) *)
Definition read_part (p : part) : part := match fst p with [] => ([], 0) | _ => p end.

Definition clear_contigs (ss : list sample) (from to : N) : list sample :=
  firstnN from ss ++ map (fun s => mkSample (sname s) []) (slice ss from to) ++ skipnN to ss.

Definition pack5 (raw comp : list (list N)) : list N :=
  concat (map (fun rc => cv_encode (wrap32 (lenN (fst rc))) ++ cv_encode (wrap32 (lenN (snd rc)))) (combine raw comp))
  ++ concat comp.

Definition streams_list (v : streams) : list (list N) :=
  let '(s0, s1, s2, s3, s4) := v in [s0; s1; s2; s3; s4].

Section Zstd.
  Variable zc : N -> list N -> list N.           (* zstd::encode_all(data, level) *)
  Variable zd : list N -> option (list N).       (* zstd::decode_all(data) *)

  Definition store_batch_sample_names (c : coll) (a : arch) : arch :=
    let v := serialize_sample_names c in
    mkArch (a_samples a ++ [(zc 19 v, lenN v)]) (a_contigs a) (a_details a) (a_cur a).

  Definition store_contig_batch (c : coll) (a : arch) (from to : N) : outcome (coll * arch) :=
    obnd (serialize_contig_names c from to) (fun vn =>
    obnd (serialize_contig_details c from to) (fun vd =>
      let raw := streams_list vd in
      let comp := map (zc 19) raw in
      Ok (with_samples c (clear_contigs (samples c) from to),
          mkArch (a_samples a) (a_contigs a ++ [(zc 18 vn, lenN vn)]) (a_details a ++ [(pack5 raw comp, 0)])
                 (a_cur a)))).

  (* while i < num_samples { batch_end = min(i + bs, n); store(i, batch_end); i = batch_end }
     fuel: n + 1 iterations suffice when bs > 0; bs = 0 loops forever in the code (Err here) *)
  Fixpoint store_loop (fuel : nat) (bs n i : N) (c : coll) (a : arch) : outcome (coll * arch) :=
    if n <=? i then Ok (c, a) else
    match fuel with
    | O => Err
    | S f =>
      let e := N.min (i + bs) n in
      obnd (store_contig_batch c a i e) (fun ca => store_loop f bs n e (fst ca) (snd ca))
    end.

  Definition store_all (bs : N) (c : coll) (a : arch) : outcome (coll * arch) :=
    let n := lenN (samples c) in
    store_loop (S (N.to_nat n)) bs n 0 c (store_batch_sample_names c a).

  Definition unz (data : list N) (raw_size : N) : outcome (list N) :=
    match zd data with
    | None => Err
    | Some v => if lenN v =? raw_size then Ok v else Err
    end.

  Definition load_batch_sample_names (c : coll) (a : arch) : outcome (coll * arch) :=
    match nthN (a_samples a) (a_cur a) with
    | None => Err
    | Some p =>
      let p := read_part p in
      obnd (unz (fst p) (snd p)) (fun v =>
      obnd (deserialize_sample_names c v) (fun c' =>
        Ok (c', mkArch (a_samples a) (a_contigs a) (a_details a) (a_cur a + 1))))
    end.

  (* `ptr[..sizes[i].1]` for the five compressed streams: panics when the part is too short *)
  Fixpoint take5 (sizes : list (N * N)) (ptr : list N) : outcome (list (list N)) :=
    match sizes with
    | [] => Ok []
    | (_, cs) :: sizes' =>
      if cs <=? lenN ptr then obnd (take5 sizes' (skipnN cs ptr)) (fun r => Ok (firstnN cs ptr :: r))
      else Panic
    end.
  Fixpoint unz5 (sizes : list (N * N)) (comp : list (list N)) : outcome (list (list N)) :=
    match sizes, comp with
    | (rs, _) :: sizes', x :: comp' =>
      obnd (unz x rs) (fun v => obnd (unz5 sizes' comp') (fun r => Ok (v :: r)))
    | _, _ => Ok []
    end.
  Fixpoint pairs (l : list N) : list (N * N) :=
    match l with a :: b :: r => (a, b) :: pairs r | _ => [] end.

  Definition load_contig_batch (c : coll) (a : arch) (id_batch : N) : outcome coll :=
    let i_sample := samples_loaded c in
    match nthN (a_contigs a) id_batch with
    | None => Err
    | Some p =>
      let p := read_part p in
      obnd (unz (fst p) (snd p)) (fun vn =>
      obnd (deserialize_contig_names c vn i_sample) (fun c1 =>
        match nthN (a_details a) id_batch with
        | None => Err
        | Some q =>
          let q := read_part q in
          obnd (cv_decode_n 10 (fst q)) (fun sr =>
            let sizes := pairs (fst sr) in
            obnd (take5 sizes (snd sr)) (fun comp =>
            obnd (unz5 sizes comp) (fun raw =>
              match raw with
              | [s0; s1; s2; s3; s4] =>
                obnd (deserialize_contig_details c1 (s0, s1, s2, s3, s4) i_sample) (fun c2 =>
                  Ok (mkColl (samples c2) (ids c2) (segment_size c2) (kmer_length c2)
                             (no_samples_in_last_batch c2)
                             (samples_loaded c2 + no_samples_in_last_batch c2)))
              | _ => Panic  (* unreachable: five sizes give five streams *)
              end)))
        end))
    end.

  Fixpoint load_loop (k : nat) (b : N) (c : coll) (a : arch) : outcome coll :=
    match k with
    | O => Ok c
    | S k' => obnd (load_contig_batch c a b) (fun c' => load_loop k' (b + 1) c' a)
    end.

  (* Decompressor::open + "load ALL contig batches" *)
  Definition load_all (segment_size kmer_length : N) (a : arch) : outcome coll :=
    obnd (load_batch_sample_names (coll_new segment_size kmer_length) a) (fun ca =>
      load_loop (length (a_contigs a)) 0 (fst ca) (snd ca)).
End Zstd.
