(* Pipeline.v — C01, contig level: transcription of the data path between a pushed contig and the
   extracted contig.

     writer  ragc-core/src/agc_compressor.rs
       StreamingQueueCompressor::push          register_sample_contig, error on a repeated name
       worker_thread (contig branch)           split_at_splitters_with_size (Segment.v) and, per raw
                                               segment, the precomputed data_rc
       classify_raw_segments_at_barrier        key / orientation rule, KNOWN / NEW group, the split
                                               attempt (SplitAt / AssignToLeft / AssignToRight), part numbers
       split_segment_at_position, reverse_complement_sequence
     catalogue  ragc-common/src/collection.rs  register_sample_contig, add_segment_placed
     reader  ragc-core/src/decompressor.rs     reverse_complement_segment, reconstruct_contig, get_sample,
                                               list_samples

   Heuristics (find_group_with_one_kmer, fallback minimizers, find_middle_splitter, find_split_by_cost) only
   return decisions; they are an oracle here ([decision]).  Where a piece ends up (group, in-group id) is the
   group store's business (GroupStore.v / SegReader.v); this file sees it through [addr] (which address a piece
   was registered under) and [get] (what the reader's get_segment returns for a descriptor).
   Definitions only. *)
From Ragc Require Export Mach.
From Ragc Require Import Consts_kmer Consts_segment Consts_pipeline Kmer Segment.
Open Scope N_scope.

(* ------------------------------------------------------------------ the three reverse complements *)
(* worker_thread: segment.data.iter().rev().map(|&base| match base {0=>3,1=>2,2=>1,3=>0,_=>base}).collect() *)
Definition data_rc_of (data : list N) : list N := map rc_pre (rev data).
(* fn reverse_complement_sequence(seq) = seq.iter().rev().map(|&base| ..).collect() *)
Definition reverse_complement_sequence (seq : list N) : list N := map rc_seq (rev seq).
(* Decompressor::reverse_complement_segment *)
Definition reverse_complement_segment (segment : list N) : list N := map rc_dec (rev segment).

(* ------------------------------------------------------------------ split_segment_at_position
   half_ceil = (k + 1) / 2; seg2_start_pos = split_pos.saturating_sub(half_ceil);
   right = segment_data[seg2_start_pos..]; left_end = seg2_start_pos + k; left = segment_data[..left_end];
   a slice bound beyond the length panics *)
Definition split_segment_at_position (segment_data : list N) (split_pos k : nat)
  : outcome (list N * list N) :=
  let seg2_start_pos := (split_pos - half_ceil k)%nat in
  if Nat.ltb (length segment_data) seg2_start_pos then Panic
  else
    let right := skipn seg2_start_pos segment_data in
    let left_end := (seg2_start_pos + k)%nat in
    if Nat.ltb (length segment_data) left_end then Panic
    else Ok (firstn left_end segment_data, right).

(* ------------------------------------------------------------------ per raw segment decision (oracle)
   [o] : the should_reverse the heuristics return in Cases 3a / 3b / 1 (ignored in Case 2, where it is
         computed from the two k-mers)
   Plain            KNOWN group, or NEW group without successful split attempt (add_known / add_new)
   Split pos lf rf  SplitDecision::SplitAt(pos) with the two per-half orientation flags
   AssignL / R f    SplitDecision::AssignToLeft / AssignToRight with assign_rc = f *)
Inductive decision :=
| Plain (o : bool)
| Split (o : bool) (pos : nat) (lflag rflag : bool)
| AssignL (o : bool) (flag : bool)
| AssignR (o : bool) (flag : bool).

(* Case 2: both k-mers present: front < back ? (front, back, false) : (back, front, true) *)
Definition both_kmers (s : segment) : bool :=
  negb (sfront s =? MISSING_KMER) && negb (sback s =? MISSING_KMER).
Definition should_reverse (s : segment) (o : bool) : bool :=
  if both_kmers s then (if sfront s <? sback s then false else true) else o.
Definition dec_o (d : decision) : bool :=
  match d with Plain o => o | Split o _ _ _ => o | AssignL o _ => o | AssignR o _ => o end.

(* BufferedSegment { seg_part_no, data, is_rev_comp } (names are added by the caller) *)
Record piece := mkPiece { p_part : nat; p_rc : bool; p_data : list N }.

(* seg_part_no += 2 after a split, += 1 otherwise *)
Definition part_incr (d : decision) : nat := match d with Split _ _ _ _ => 2%nat | _ => 1%nat end.

(* one raw segment at the barrier; [output_seg_part_no] is the running counter of its contig; the pieces are
   listed in the order of the add_known calls *)
Definition seg_pieces (k : nat) (s : segment) (d : decision) (output_seg_part_no : nat)
  : outcome (list piece) :=
  let data := sdata s in
  let data_rc := data_rc_of data in
  let sr := should_reverse s (dec_o d) in
  let segment_data := if sr then data_rc else data in
  match d with
  | Plain _ => Ok [mkPiece output_seg_part_no sr segment_data]
  | Split _ split_pos left_should_reverse right_should_reverse =>
      match split_segment_at_position segment_data split_pos k with
      | Ok (left_data, right_data) =>
          let left_final := if xorb left_should_reverse sr
                            then reverse_complement_sequence left_data else left_data in
          let right_final := if xorb right_should_reverse sr
                             then reverse_complement_sequence right_data else right_data in
          let (left_seg_part, right_seg_part) :=
            if sr then (S output_seg_part_no, output_seg_part_no)
            else (output_seg_part_no, S output_seg_part_no) in
          Ok [mkPiece left_seg_part left_should_reverse left_final;
              mkPiece right_seg_part right_should_reverse right_final]
      | Err => Err
      | Panic => Panic
      end
  | AssignL _ assign_rc | AssignR _ assign_rc =>
      let assign_data := if xorb assign_rc sr
                         then reverse_complement_sequence segment_data else segment_data in
      Ok [mkPiece output_seg_part_no assign_rc assign_data]
  end.

(* for raw_seg in contig_segs (sorted by original_place): [j] = original_place, [seg_part_no] the counter *)
Fixpoint contig_pieces (k : nat) (segs : list segment) (dec : nat -> decision) (j : nat)
         (seg_part_no : nat) : outcome (list piece) :=
  match segs with
  | [] => Ok []
  | s :: rest =>
      obnd (seg_pieces k s (dec j) seg_part_no) (fun ps =>
      obnd (contig_pieces k rest dec (S j) (seg_part_no + part_incr (dec j))%nat) (fun more =>
      Ok (ps ++ more)))
  end.

(* what find_split_by_cost guarantees for SplitAt(pos) (min_size = k + 1; best_pos < min_size => 0,
   best_pos + min_size > len => len): min_size <= pos and pos + min_size <= len *)
Definition decision_okb (k : nat) (s : segment) (d : decision) : bool :=
  match d with
  | Split _ pos _ _ => Nat.leb (split_min_size k) pos && Nat.leb (pos + split_min_size k) (length (sdata s))
  | _ => true
  end.

(* ------------------------------------------------------------------ catalogue (collection.rs) *)
Definition name := list N.                        (* a String, as bytes *)
Definition name_eqb : name -> name -> bool := list_eqb N.eqb.

(* struct SegmentDesc { group_id, in_group_id, is_rev_comp, raw_length }  (convertible to SegReader's) *)
Record seg_desc := mkDesc { d_group : N; d_id : N; d_rc : bool; d_len : N }.
Definition empty_desc : seg_desc :=
  mkDesc EMPTY_GROUP_ID EMPTY_IN_GROUP_ID EMPTY_IS_REV_COMP EMPTY_RAW_LENGTH.
Definition desc_eqb (a b : seg_desc) : bool :=
  (d_group a =? d_group b) && (d_id a =? d_id b) && Bool.eqb (d_rc a) (d_rc b) && (d_len a =? d_len b).

Definition contig_desc := (name * list seg_desc)%type.      (* ContigDesc { name, segments } *)
Definition sample_desc := (name * list contig_desc)%type.   (* SampleDesc { name, contigs } *)
Definition collection := list sample_desc.                  (* sample_desc; sample_ids = index by name *)

Definition is_named {A} (n : name) (x : name * A) : bool := name_eqb (fst x) n.

(* x[i] = f(x[i]) for the first i with p(x[i]) *)
Fixpoint upd_first {A} (p : A -> bool) (f : A -> A) (l : list A) : list A :=
  match l with
  | [] => []
  | x :: r => if p x then f x :: r else x :: upd_first p f r
  end.

Section Names.
  (* CollectionV3::extract_contig_name (first word); only consulted for an empty sample name *)
  Variable extract_contig_name : name -> name.

  Definition stored_sample_name (sample_name contig_name : name) : name :=
    match sample_name with [] => extract_contig_name contig_name | _ => sample_name end.

  (* register_sample_contig: get or create the sample, push the contig unless the name is already there;
     returns (collection, newly registered) *)
  Definition register_sample_contig (coll : collection) (sample_name contig_name : name)
    : collection * bool :=
    let st := stored_sample_name sample_name contig_name in
    let coll1 := if existsb (is_named st) coll then coll else coll ++ [(st, [])] in
    match find (is_named st) coll1 with
    | Some sd =>
        if existsb (is_named contig_name) (snd sd) then (coll1, false)
        else (upd_first (is_named st) (fun sd => (fst sd, snd sd ++ [(contig_name, [])])) coll1, true)
    | None => (coll1, false)
    end.

  (* contig.segments.resize(place + 1, SegmentDesc::empty()) when place >= len; segments[place] = desc *)
  Definition place_at (segments : list seg_desc) (place : nat) (d : seg_desc) : list seg_desc :=
    let v := if Nat.leb (length segments) place
             then segments ++ repeat empty_desc (place + 1 - length segments)
             else segments in
    firstn place v ++ d :: skipn (S place) v.

  (* add_segment_placed: None = Err("Sample not found" / "Contig .. not found in sample ..") *)
  Definition add_segment_placed (coll : collection) (sample_name contig_name : name) (place : nat)
             (d : seg_desc) : option collection :=
    let st := stored_sample_name sample_name contig_name in
    match find (is_named st) coll with
    | None => None
    | Some sd =>
        if existsb (is_named contig_name) (snd sd)
        then Some (upd_first (is_named st)
                     (fun sd => (fst sd, upd_first (is_named contig_name)
                                           (fun cd => (fst cd, place_at (snd cd) place d)) (snd sd)))
                     coll)
        else None
    end.
End Names.

(* ------------------------------------------------------------------ reader (decompressor.rs) *)
Section Reader.
  (* Decompressor::get_segment: the decoded stored bytes of a descriptor (SegReader.v) *)
  Variable get : seg_desc -> outcome (list N).

  (* for (i, segment_desc) in segments.iter().enumerate(): [first] = (i == 0) *)
  Fixpoint reconstruct_loop (k : nat) (first : bool) (segments : list seg_desc) (contig : list N)
    : outcome (list N) :=
    match segments with
    | [] => Ok contig
    | d :: rest =>
        obnd (get d) (fun segment_data =>
        let segment_data := if d_rc d then reverse_complement_segment segment_data else segment_data in
        if first then reconstruct_loop k false rest (contig ++ segment_data)
        else if Nat.ltb (length segment_data) k then Err   (* bail!("Corrupted archive: segment too short") *)
        else reconstruct_loop k false rest (contig ++ skipn k segment_data))
    end.
  Definition reconstruct_contig (k : N) (segments : list seg_desc) : outcome (list N) :=
    reconstruct_loop (N.to_nat k) true segments [].

  Fixpoint reconstruct_all (k : N) (contigs : list contig_desc) : outcome (list (name * list N)) :=
    match contigs with
    | [] => Ok []
    | (contig_name, segments) :: rest =>
        obnd (reconstruct_contig k segments) (fun contig_data =>
        obnd (reconstruct_all k rest) (fun more => Ok ((contig_name, contig_data) :: more)))
    end.

  (* get_sample: get_sample_desc (sample_ids lookup) or Err("Sample not found"), then every contig in order *)
  Definition get_sample (k : N) (coll : collection) (sample_name : name) : outcome (list (name * list N)) :=
    match find (is_named sample_name) coll with
    | None => Err
    | Some sd => reconstruct_all k (snd sd)
    end.

  (* for s in list_samples() { get_sample(s) } *)
  Fixpoint extract_samples (k : N) (coll : collection) (names : list name)
    : outcome (list (name * list (name * list N))) :=
    match names with
    | [] => Ok []
    | s :: rest =>
        obnd (get_sample k coll s) (fun contigs =>
        obnd (extract_samples k coll rest) (fun more => Ok ((s, contigs) :: more)))
    end.
  Definition list_samples (coll : collection) : list name := map fst coll.
  Definition extract_all (k : N) (coll : collection) : outcome (list (name * list (name * list N))) :=
    extract_samples k coll (list_samples coll).
End Reader.

(* ------------------------------------------------------------------ create *)
Definition push := (name * name * list N)%type.     (* compressor.push(sample, contig, data) *)
(* a registration: add_segment_placed(sample, contig, seg_part_no, group, in_group_id, is_rev_comp,
   data.len() as u32), and the bytes that were handed to the group store under that address *)
Record registration := mkReg { r_sample : name; r_contig : name; r_place : nat; r_desc : seg_desc;
                               r_data : list N }.

Section Create.
  Variable extract_contig_name : name -> name.
  Variable k : N.
  Variable splitters : N -> bool.
  Variable segment_size : N.
  Variable dec : nat -> nat -> decision.        (* contig number (push order), original_place *)
  Variable addr : nat -> nat -> N * N.          (* contig number, seg_part_no -> (group_id, in_group_id) *)
  Variable sched : list registration -> list registration.   (* order in which the registrations arrive *)

  (* push: register the contig; a repeated (sample, contig) name is an error *)
  Fixpoint register_all (coll : collection) (pushes : list push) : outcome collection :=
    match pushes with
    | [] => Ok coll
    | (s, c, _) :: rest =>
        let (coll', newly_registered) := register_sample_contig extract_contig_name coll s c in
        if newly_registered then register_all coll' rest else Err
    end.

  Definition contig_regs (i : nat) (p : push) : outcome (list registration) :=
    let '(s, c, data) := p in
    let segments := split_at_splitters_with_size data splitters k segment_size in
    obnd (contig_pieces (N.to_nat k) segments (dec i) 0 0) (fun ps =>
    Ok (map (fun pc => let (g, id) := addr i (p_part pc) in
                       mkReg s c (p_part pc) (mkDesc g id (p_rc pc) (wrap32 (lenN (p_data pc)))) (p_data pc))
            ps)).

  Fixpoint all_regs (i : nat) (pushes : list push) : outcome (list registration) :=
    match pushes with
    | [] => Ok []
    | p :: rest =>
        obnd (contig_regs i p) (fun rs =>
        obnd (all_regs (S i) rest) (fun more => Ok (rs ++ more)))
    end.

  (* worker 0 after a round: if let Err(e) = coll.add_segment_placed(..) { eprintln!(..) } *)
  Definition place_step (coll : collection) (r : registration) : collection :=
    match add_segment_placed extract_contig_name coll (r_sample r) (r_contig r) (r_place r) (r_desc r) with
    | Some coll' => coll'
    | None => coll
    end.
  Definition place_all (coll : collection) (regs : list registration) : collection :=
    fold_left place_step regs coll.

  (* the catalogue the reader will load, and what was handed to the group store under which descriptor *)
  Definition create (pushes : list push) : outcome (collection * list (seg_desc * list N)) :=
    obnd (register_all [] pushes) (fun coll0 =>
    obnd (all_regs 0 pushes) (fun regs =>
    Ok (place_all coll0 (sched regs), map (fun r => (r_desc r, r_data r)) regs))).
End Create.

(* the sample set as the API sees it: one push per contig, sample after sample *)
Definition pushes_of (samples : list (name * list (name * list N))) : list push :=
  flat_map (fun s => map (fun c => (fst s, fst c, snd c)) (snd s)) samples.

(* interface to the group store: every registered descriptor decodes to the bytes stored under it *)
Definition stored_ok (get : seg_desc -> outcome (list N)) (stored : list (seg_desc * list N)) : Prop :=
  forall d b, In (d, b) stored -> get d = Ok b /\ d_len d = lenN b.
