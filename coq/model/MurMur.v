(* MurMur.v - ragc-common/src/hash.rs MurMur64Hash::hash, u64 arithmetic with explicit mod 2^64.
   Definitions only. Constants come from the translator (gen/Consts_lz.v). *)
From Ragc Require Export Mach.
From Ragc Require Export Consts_lz.

(* h ^= h >> 33; h = h.wrapping_mul(C1); h ^= h >> 33; h = h.wrapping_mul(C2); h ^= h >> 33 *)
Definition murmur64 (h : N) : N :=
  let h := N.lxor h (shr64 h murmur_shift) in
  let h := wrap64 (h * murmur_c1) in
  let h := N.lxor h (shr64 h murmur_shift) in
  let h := wrap64 (h * murmur_c2) in
  N.lxor h (shr64 h murmur_shift).
