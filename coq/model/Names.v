(* Names.v - transcription of the contig-name codec of ragc-common/src/collection.rs:
   split_string, encode_split, decode_split_bytes, serialize_contig_names, deserialize_contig_names
   (and serialize/deserialize_sample_names).  A name is the byte list of a Rust `String`.
   Definitions only.

   Loop counts read from the stream are u32; each loop iteration consumes at least one byte of the stream or
   fails, so running [min count (remaining bytes + 1)] iterations has exactly the outcome of running [count]
   iterations (if count > remaining bytes the loop cannot finish).  [clamp] does that; it keeps every [nat]
   small.  The round-trip theorems never hit the clamp (Names_proofs.clamp_id). *)
From Ragc Require Export Mach.
From Ragc Require Import Consts_collection CVarint.
Open Scope N_scope.

Definition name := list N.
Definition beqb (a b : list N) : bool := list_eqb N.eqb a b.
Definition clamp (count : N) (ptr : list N) : nat := N.to_nat (N.min count (lenN ptr + 1)).

(* ---- s.split(' ') : always at least one field *)
Fixpoint split_sp (l : list N) : list (list N) :=
  match l with
  | [] => [[]]
  | b :: r =>
    if b =? 32 then [] :: split_sp r
    else match split_sp r with
         | f :: fs => (b :: f) :: fs
         | [] => [[b]]
         end
  end.

(* every field followed by ' ', final ' ' removed *)
Fixpoint join_sp (fs : list (list N)) : list N :=
  match fs with
  | [] => []
  | [f] => f
  | f :: fs' => f ++ 32 :: join_sp fs'
  end.

(* ---- encode_split, one field of equal length: run-length markers (-cnt) as u8 = 256 - cnt *)
Definition flush (cnt : N) : list N := if 0 <? cnt then [256 - cnt] else [].

Fixpoint rle (p c : list N) (cnt : N) : list N :=
  match c, p with
  | [], _ => flush cnt
  | cb :: c', pb :: p' =>
    if pb =? cb then
      if cnt =? run_cap then (256 - cnt) :: rle p' c' 1 else rle p' c' (cnt + 1)
    else flush cnt ++ cb :: rle p' c' 0
  | _ :: _, [] => flush cnt   (* p_bytes[j] out of range: unreachable, lengths are equal here *)
  end.

Definition enc_field (p c : list N) : list N :=
  if beqb p c then [same_marker]
  else if negb (Nat.eqb (length p) (length c)) then c
  else rle p c 0.

(* for i in 0..curr_split.len(): prev_split[i] ... ; the only call site has equal lengths *)
Fixpoint enc_fields (prev cur : list (list N)) : list (list N) :=
  match cur, prev with
  | [], _ => []
  | c :: cur', p :: prev' => enc_field p c :: enc_fields prev' cur'
  | _ :: _, [] => []          (* prev_split[i] out of range: unreachable *)
  end.

Definition encode_split (prev cur : list (list N)) : list N := join_sp (enc_fields prev cur).

(* ---- decode_split_bytes, one field.  [prest] = p_bytes[p_idx..] (empty once p_idx >= len).
   literal (as i8 >= 0): push, p_idx += 1;  negative: count = -c (c = -128: negation overflows, Panic),
   p_bytes[p_idx..p_idx+count] panics when it leaves p_bytes. *)
Fixpoint dec_bytes (prest e : list N) : outcome (list N) :=
  match e with
  | [] => Ok []
  | b :: e' =>
    if b <? 128 then obnd (dec_bytes (tl prest) e') (fun r => Ok (b :: r))
    else if b =? 128 then Panic
    else
      let cnt := 256 - b in
      if cnt <=? lenN prest
      then obnd (dec_bytes (skipnN cnt prest) e') (fun r => Ok (firstnN cnt prest ++ r))
      else Panic
  end.

Definition dec_field (p e : list N) : outcome (list N) :=
  match e with
  | [b] => if b =? same_marker_dec then Ok p else dec_bytes p e
  | _ => dec_bytes p e
  end.

Fixpoint dec_fields (prev cur : list (list N)) : outcome (list (list N)) :=
  match cur, prev with
  | [], _ => Ok []
  | e :: cur', p :: prev' =>
    obnd (dec_field p e) (fun f => obnd (dec_fields prev' cur') (fun fs => Ok (f :: fs)))
  | _ :: _, [] => Panic      (* prev_split[i] out of range: unreachable, the call site has equal lengths *)
  end.

(* returns (decoded name, updated curr_split); String::from_utf8(dec).expect(..) panics on invalid UTF-8 *)
Definition decode_split (prev cur : list (list N)) : outcome (name * list (list N)) :=
  obnd (dec_fields prev cur) (fun fs =>
    let nm := join_sp fs in
    if utf8_valid nm then Ok (nm, fs) else Panic).

(* ---- serialize_contig_names: one sample's contigs, prev_split threaded *)
Fixpoint ser_contigs (prev : list (list N)) (names : list name) : list N :=
  match names with
  | [] => []
  | nm :: rest =>
    let cs := split_sp nm in
    (if negb (Nat.eqb (length cs) (length prev)) then enc_cstring nm
     else encode_split prev cs ++ [0]) ++ ser_contigs cs rest
  end.

Definition ser_sample (names : list name) : list N :=
  cv_encode (wrap32 (lenN names)) ++ ser_contigs [] names.

(* the whole batch: samples id_from..id_to given as the list of their contig-name lists *)
Definition ser_names (batch : list (list name)) : list N :=
  cv_encode (wrap32 (lenN batch)) ++ concat (map ser_sample batch).

(* ---- deserialize_contig_names *)
Fixpoint dec_contigs (n : nat) (prev : list (list N)) (ptr : list N) : outcome (list name * list N) :=
  match n with
  | O => Ok ([], ptr)
  | S n' =>
    obnd (dec_cbytes ptr) (fun er =>
      let enc := fst er in
      let cs := split_sp enc in
      obnd (if (match prev with [] => true | _ => false end) || negb (Nat.eqb (length cs) (length prev))
            then Ok (utf8_lossy enc, cs)
            else decode_split prev cs) (fun nc =>
      obnd (dec_contigs n' (snd nc) (snd er)) (fun rr => Ok (fst nc :: fst rr, snd rr))))
  end.

(* [avail] = number of SampleDesc entries from i_sample on: `self.sample_desc[i_sample + i]` panics beyond *)
Fixpoint dec_samples (k : nat) (avail : N) (ptr : list N) : outcome (list (list name) * list N) :=
  match k with
  | O => Ok ([], ptr)
  | S k' =>
    obnd (cv_decode ptr) (fun nr =>
      if avail =? 0 then Panic else
      obnd (dec_contigs (clamp (fst nr) (snd nr)) [] (snd nr)) (fun cr =>
      obnd (dec_samples k' (avail - 1) (snd cr)) (fun rr => Ok (fst cr :: fst rr, snd rr))))
  end.

(* result: (no_samples_in_curr_batch, contig names per sample); trailing bytes are ignored *)
Definition deser_names (avail : N) (data : list N) : outcome (N * list (list name)) :=
  obnd (cv_decode data) (fun nr =>
  obnd (dec_samples (clamp (fst nr) (snd nr)) avail (snd nr)) (fun tr => Ok (fst nr, fst tr))).

(* ---- sample names: count, then NUL-terminated strings (decode_string: from_utf8 must succeed) *)
Definition ser_sample_names (names : list name) : list N :=
  cv_encode (wrap32 (lenN names)) ++ concat (map enc_cstring names).

Fixpoint dec_strings (n : nat) (ptr : list N) : outcome (list name * list N) :=
  match n with
  | O => Ok ([], ptr)
  | S n' =>
    obnd (dec_cstring ptr) (fun sr =>
    obnd (dec_strings n' (snd sr)) (fun rr => Ok (fst sr :: fst rr, snd rr)))
  end.

Definition deser_sample_names (data : list N) : outcome (list name) :=
  obnd (cv_decode data) (fun nr =>
  obnd (dec_strings (clamp (fst nr) (snd nr)) (snd nr)) (fun tr => Ok (fst tr))).
