(* Registry.v - C01R: the group registry of the streaming compressor, i.e. how ragc-core/src/agc_compressor.rs decides
   WHICH group id a stored segment goes to.  Transcribed (tree at 24678a9 + fixes):
     with_splitters_internal            the initial state (map_segments = {(MISSING, MISSING) -> 0}, group_counter = 16,
                                        raw_group_counter = 0, segment_groups empty, BufferedSegPart::new(16))
     classify_raw_segments_at_barrier   sort, per contig sequentially, per raw segment: key / orientation (Case 2 computed,
                                        Cases 3a / 3b / 1 from the heuristics = oracle, with the fallback override as the code
                                        applies it), lookup in map_segments, KNOWN (orphan round robin) / NEW (split attempt
                                        with the oracle's middle k-mer and decision, else immediate registration), then
                                        process_new
     BufferedSegPart::{add_known, ensure_capacity, add_new, process_new}
     prepare_batch_parallel             process_new again, reverse map group id -> key, buffer key per group id,
                                        batch_local_groups, stream registration, SegmentGroupBuffer creation / lookup
     cleanup_batch_parallel             what is written back into map_segments
   Heuristics (find_group_with_one_kmer, find_cand_segment_using_fallback_minimizers, find_middle_splitter,
   find_split_by_cost) only return decisions: they are the record [oracle] attached to each raw segment.  Segment bytes do
   not influence the registry and are absent (Pipeline.v has the data path); a stored segment is identified by
   (sample name, contig name, seg_part_no) and carries its is_rev_comp flag.
   Not modelled: reference_segments / terminators / fallback maps (inputs of the heuristics only); sort_known (the order
   inside a group's batch: flush_pack_compress_only sorts again, GroupStore.step); two contigs with equal names in one
   round (push rejects a repeated name).
   Containers: BTreeMap<SegmentGroupKey, _> = association list in insertion order, entries are only ever added for absent
   keys (the code inserts under `if absent` / entry().or_insert), so get = first match; the one place where the ITERATION
   order of map_segments matters (group_id_to_key: a later key overwrites an earlier one with the same id) uses the derived
   Ord of SegmentGroupKey ([key_ltb]).  vl_seg_part and s_seg_part are lists with the NEWEST element first (get_part pops
   from the back of the Vec).
   Definitions only. *)
From Ragc Require Export Mach.
From Ragc Require Import Consts_segment Consts_registry GroupStore.
Open Scope N_scope.

Definition key := (N * N)%type.                       (* SegmentGroupKey { kmer_front, kmer_back } *)
Definition key_eqb (a b : key) : bool := (fst a =? fst b) && (snd a =? snd b).
(* #[derive(Ord)]: lexicographic on (kmer_front, kmer_back) *)
Definition key_ltb (a b : key) : bool := (fst a <? fst b) || ((fst a =? fst b) && (snd a <? snd b)).
Definition MISS : N := MISSING_KMER.
Definition orphan_key : key := (MISS, MISS).
Definition NRAW : N := R_NO_RAW_GROUPS.

Fixpoint kget {V} (m : list (key * V)) (k : key) : option V :=
  match m with
  | [] => None
  | (k', v) :: m' => if key_eqb k' k then Some v else kget m' k
  end.
(* entry(k).or_insert(v) *)
Definition or_insert {V} (m : list (key * V)) (k : key) (v : V) : list (key * V) :=
  match kget m k with Some _ => m | None => m ++ [(k, v)] end.
(* BTreeMap::insert: overwrite *)
Fixpoint kset {V} (m : list (key * V)) (k : key) (v : V) : list (key * V) :=
  match m with
  | [] => [(k, v)]
  | (k', v') :: m' => if key_eqb k' k then (k', v) :: m' else (k', v') :: kset m' k v
  end.

(* ------------------------------------------------------------------ inputs of a round *)
(* RawBufferedSegment without data: the two k-mers and their is_dir flags *)
Record rawseg := { rs_front : N; rs_back : N; rs_fdir : bool; rs_bdir : bool }.
(* SplitDecision without the position *)
Inductive split_dec := SD_At | SD_Left | SD_Right | SD_None.
(* what the heuristics answer for one raw segment (each field is read on the path that calls the function):
   o_one   find_group_with_one_kmer (Cases 3a / 3b)       (key_front, key_back, should_reverse)
   o_fb    find_cand_segment_using_fallback_minimizers    (key_front, key_back, should_reverse)
   o_mid   find_middle_splitter
   o_split find_split_by_cost *)
Record oracle := { o_one : N * N * bool; o_fb : N * N * bool; o_mid : option N; o_split : split_dec }.
(* one ContigTask: names and its raw segments in original_place order *)
Record contig := { c_sample : list N; c_name : list N; c_segs : list (rawseg * oracle) }.
(* BufferedSegment without data: identity and flag *)
Record placed := { p_sample : list N; p_name : list N; p_part : N; p_rc : bool }.
(* configuration: fallback_filter.is_enabled(), env RAGC_DISABLE_BARRIER_SPLIT *)
Record config := { cf_fallback : bool; cf_no_split : bool }.

(* ------------------------------------------------------------------ the registry *)
Record buf := { b_gid : N; b_sid : N; b_rsid : N }.    (* SegmentGroupBuffer { group_id, stream_id, ref_stream_id } *)
Record reg := {
  r_map : list (key * N);        (* map_segments *)
  r_gc : N;                      (* group_counter : AtomicU32 *)
  r_rgc : N;                     (* raw_group_counter : AtomicU32 *)
  r_vlen : N;                    (* buffered_seg_part.vl_seg_part.len() *)
  r_bufs : list (key * buf);     (* segment_groups *)
  r_streams : list (N * bool)    (* the segment streams of the archive in registration order: (group id, is the
                                    reference stream); the archive's stream id is 7 + the index (seven streams are
                                    registered before the first group) *)
}.
Definition reg_init : reg :=
  {| r_map := [(orphan_key, 0)]; r_gc := NRAW; r_rgc := 0; r_vlen := NRAW; r_bufs := []; r_streams := [] |}.

(* ------------------------------------------------------------------ key and orientation of a raw segment *)
(* `if (kf == MISSING || kb == MISSING) && fallback_filter.is_enabled() { fb = ..; if fb_kf != MISSING && fb_kb != MISSING
   { kf = fb_kf; kb = fb_kb; sr = fb_sr (Case 3b: !fb_sr) } }` *)
Definition fb_pick (fb_en : bool) (cur fb : N * N * bool) (inv : bool) : N * N * bool :=
  let '(kf, kb, sr) := cur in
  if ((kf =? MISS) || (kb =? MISS)) && fb_en then
    let '(a, b, s) := fb in
    if negb (a =? MISS) && negb (b =? MISS) then (a, b, if inv then negb s else s) else cur
  else cur.

Definition classify_key (cf : config) (s : rawseg) (o : oracle) : N * N * bool :=
  if negb (rs_front s =? MISS) && negb (rs_back s =? MISS) then
    (* Case 2 *)
    if rs_front s <? rs_back s then (rs_front s, rs_back s, false) else (rs_back s, rs_front s, true)
  else if negb (rs_front s =? MISS) then
    (* Case 3a *)
    fb_pick (cf_fallback cf) (o_one o) (o_fb o) false
  else if negb (rs_back s =? MISS) then
    (* Case 3b: sr = !sr *)
    let '(kf, kb, sr) := o_one o in fb_pick (cf_fallback cf) (kf, kb, negb sr) (o_fb o) true
  else
    (* Case 1 *)
    fb_pick (cf_fallback cf) (MISS, MISS, false) (o_fb o) false.

(* ------------------------------------------------------------------ BufferedSegPart *)
(* add_known: a group id beyond the vector DROPS the segment (eprintln! "WARNING: add_known dropping segment") *)
Definition add_known (vlen : N) (vl : list (N * placed)) (g : N) (p : placed) : list (N * placed) :=
  if g <? vlen then (g, p) :: vl else vl.
Definition ensure_capacity (vlen g : N) : N := if vlen <=? g then g + 1 else vlen.

(* what classification has done so far in a round *)
Record cstate := {
  cs_reg : reg;
  cs_vl : list (N * placed);           (* vl_seg_part: (group id, segment), newest first *)
  cs_news : list (key * placed);       (* s_seg_part, newest first *)
  cs_log : list (placed * key * N)     (* ghost: (segment, key it was classified under, group id it was handed to
                                          add_known with, or registered under), newest first *)
}.

Definition set_reg (r : reg) (m : list (key * N)) (gc rgc vlen : N) : reg :=
  {| r_map := m; r_gc := gc; r_rgc := rgc; r_vlen := vlen; r_bufs := r_bufs r; r_streams := r_streams r |}.

Definition mk_placed (sn cn : list N) (pt : N) (rc : bool) : placed :=
  {| p_sample := sn; p_name := cn; p_part := pt; p_rc := rc |}.

(* the split attempt of a NEW key: `try_split`, find_middle_splitter (oracle), the two target keys, both must be in
   map_segments, find_split_by_cost (oracle).  -> the add_known calls (group id, segment, target key) in order and the
   seg_part_no increment; None = `was_split` stays false *)
Definition split_attempt (cf : config) (m : list (key * N)) (s : rawseg) (o : oracle) (kf kb : N) (sr : bool)
           (sn cn : list N) (part : N) : option (list (N * placed * key) * N) :=
  let try_split := negb (cf_no_split cf) && negb (kf =? MISS) && negb (kb =? MISS) && negb (kf =? kb) in
  if try_split then
    match o_mid o with
    | Some middle =>
        let left_key : key := if kf <=? middle then (kf, middle) else (middle, kf) in
        let right_key : key := if middle <=? kb then (middle, kb) else (kb, middle) in
        match kget m left_key, kget m right_key with
        | Some left_gid, Some right_gid =>
            match o_split o with
            | SD_At =>
                (* orientation of the halves from the ORIGINAL k-mers; part numbers swapped when should_reverse *)
                let lrc := if sr then rs_back s <=? middle else middle <=? rs_front s in
                let rrc := if sr then middle <=? rs_front s else rs_back s <=? middle in
                let lpart := if sr then part + 1 else part in
                let rpart := if sr then part else part + 1 in
                Some ([(left_gid, mk_placed sn cn lpart lrc, left_key); (right_gid, mk_placed sn cn rpart rrc, right_key)], 2)
            | SD_Left =>
                let arc := if sr then rs_back s <=? middle else middle <=? rs_front s in
                Some ([(left_gid, mk_placed sn cn part arc, left_key)], 1)
            | SD_Right =>
                let arc := if sr then middle <=? rs_front s else rs_back s <=? middle in
                Some ([(right_gid, mk_placed sn cn part arc, right_key)], 1)
            | SD_None => None
            end
        | _, _ => None
        end
    | None => None
    end
  else None.

(* `if let Some(&existing_gid) = seg_map.get(&key) { existing_gid } else { gid = group_counter.fetch_add(1); insert }`
   -> (map_segments, group_counter, the group id) *)
Definition register_key (m : list (key * N)) (gc : N) (k : key) : list (key * N) * N * N :=
  match kget m k with
  | Some existing_gid => (m, gc, existing_gid)
  | None => (m ++ [(k, gc)], wrap32 (gc + 1), gc)
  end.

(* one raw segment; [part] = seg_part_no of its contig; returns the new state and the new seg_part_no *)
Definition classify_step (cf : config) (sn cn : list N) (x : rawseg * oracle) (acc : cstate * N) : cstate * N :=
  let '(st, part) := acc in
  let '(s, o) := x in
  let r := cs_reg st in
  let '(kf, kb, sr) := classify_key cf s o in
  let k : key := (kf, kb) in
  match kget (r_map r) k with
  | Some group_id =>
      (* KNOWN; orphans (MISSING, MISSING): round robin over the raw groups *)
      if (kf =? MISS) && (kb =? MISS) then
        let g := r_rgc r mod NRAW in
        ({| cs_reg := set_reg r (r_map r) (r_gc r) (wrap32 (r_rgc r + 1)) (r_vlen r);
            cs_vl := add_known (r_vlen r) (cs_vl st) g (mk_placed sn cn part sr);
            cs_news := cs_news st; cs_log := (mk_placed sn cn part sr, k, g) :: cs_log st |}, part + 1)
      else
        ({| cs_reg := r; cs_vl := add_known (r_vlen r) (cs_vl st) group_id (mk_placed sn cn part sr);
            cs_news := cs_news st; cs_log := (mk_placed sn cn part sr, k, group_id) :: cs_log st |}, part + 1)
  | None =>
      match split_attempt cf (r_map r) s o kf kb sr sn cn part with
      | Some (adds, incr) =>
          ({| cs_reg := r;
              cs_vl := fold_left (fun vl a => add_known (r_vlen r) vl (fst (fst a)) (snd (fst a))) adds (cs_vl st);
              cs_news := cs_news st;
              cs_log := rev (map (fun a => (snd (fst a), snd a, fst (fst a))) adds) ++ cs_log st |}, part + incr)
      | None =>
          (* register the group IMMEDIATELY (the lookup is repeated under the write lock), ensure_capacity, add_new *)
          let '(m', gc', gid) := register_key (r_map r) (r_gc r) k in
          ({| cs_reg := set_reg r m' gc' (r_rgc r) (ensure_capacity (r_vlen r) gid);
              cs_vl := cs_vl st;
              cs_news := (k, mk_placed sn cn part sr) :: cs_news st;
              cs_log := (mk_placed sn cn part sr, k, gid) :: cs_log st |}, part + 1)
      end
  end.

(* for raw_seg in contig_segs: seg_part_no starts at 0 *)
Definition classify_contig (cf : config) (st : cstate) (c : contig) : cstate :=
  fst (fold_left (fun acc x => classify_step cf (c_sample c) (c_name c) x acc) (c_segs c) (st, 0)).

(* raw_segs.sort() + BTreeMap<(String, String), Vec<_>>: contigs in (sample_name, contig_name) order *)
Definition contig_ltb (a b : contig) : bool :=
  match bytes_cmp (c_sample a) (c_sample b) with
  | Lt => true
  | Eq => match bytes_cmp (c_name a) (c_name b) with Lt => true | _ => false end
  | Gt => false
  end.
Fixpoint insert_contig (x : contig) (l : list contig) : list contig :=
  match l with
  | [] => [x]
  | y :: l' => if contig_ltb x y then x :: y :: l' else y :: insert_contig x l'
  end.
Definition sort_contigs (l : list contig) : list contig := fold_left (fun acc x => insert_contig x acc) l [].

(* ------------------------------------------------------------------ process_new
   [news] in BTreeSet iteration order (NewSegment's Ord: sample_priority descending, then names and part). *)
(* first pass: assign group ids to keys in neither m_kmers nor map_segments (`*next_group_id += 1` on a u32) *)
Fixpoint pn_assign (m : list (key * N)) (mk : list (key * N)) (next : N) (news : list (key * placed))
  : list (key * N) * N :=
  match news with
  | [] => (mk, next)
  | (k, _) :: tl =>
      match kget mk k, kget m k with
      | None, None => pn_assign m (mk ++ [(k, next)]) (wrap32 (next + 1)) tl
      | _, _ => pn_assign m mk next tl
      end
  end.
(* second pass: move the segments to vl_seg_part, insert newly assigned keys into map_segments *)
Fixpoint pn_move (mk : list (key * N)) (vlen : N) (m : list (key * N)) (vl : list (N * placed))
         (news : list (key * placed)) : list (key * N) * list (N * placed) :=
  match news with
  | [] => (m, vl)
  | (k, p) :: tl =>
      match kget m k with
      | Some id => pn_move mk vlen m (add_known vlen vl id p) tl
      | None =>
          match kget mk k with
          | Some id => pn_move mk vlen (m ++ [(k, id)]) (add_known vlen vl id p) tl
          | None => pn_move mk vlen m vl tl                       (* `continue; // Should not happen` *)
          end
      end
  end.
(* -> (map_segments, next_group_id, vl_seg_part.len(), vl_seg_part) *)
Definition process_new (m : list (key * N)) (next vlen : N) (vl : list (N * placed)) (news : list (key * placed))
  : list (key * N) * N * N * list (N * placed) :=
  let '(mk, next') := pn_assign m [] next news in
  let vlen' := if vlen <? next' then next' else vlen in          (* while groups.len() < *next_group_id { push } *)
  let '(m', vl') := pn_move mk vlen' m vl news in
  (m', next', vlen', vl').

(* ------------------------------------------------------------------ classify_raw_segments_at_barrier
   [ord] = the iteration order of s_seg_part as a function of the insertion sequence (a permutation) *)
Definition cstate_of (r : reg) : cstate := {| cs_reg := r; cs_vl := []; cs_news := []; cs_log := [] |}.

Definition classify_round (cf : config) (ord : list (key * placed) -> list (key * placed)) (r : reg)
           (contigs : list contig) : cstate :=
  match contigs with
  | [] => cstate_of r                                            (* raw_segs.is_empty(): return *)
  | _ :: _ =>
      let st := fold_left (classify_contig cf) (sort_contigs contigs) (cstate_of r) in
      let r1 := cs_reg st in
      let '(m', next', vlen', vl') := process_new (r_map r1) (r_gc r1) (r_vlen r1) (cs_vl st) (ord (rev (cs_news st))) in
      {| cs_reg := set_reg r1 m' next' (r_rgc r1) vlen'; cs_vl := vl'; cs_news := []; cs_log := cs_log st |}
  end.

(* ------------------------------------------------------------------ prepare_batch_parallel *)
(* group_id_to_key: map_segments.iter() (ascending key order) collected into a HashMap: among the keys of one id the
   LARGEST wins *)
Fixpoint rev_get (m : list (key * N)) (g : N) (best : option key) : option key :=
  match m with
  | [] => best
  | (k, g') :: m' =>
      if g' =? g then
        rev_get m' g (match best with Some b => if key_ltb b k then Some k else Some b | None => Some k end)
      else rev_get m' g best
  end.
(* raw groups: the buffer key (group id, MISSING); LZ groups: the key of the map, else the (MISSING, MISSING) fallback *)
Definition key_of_gid (m : list (key * N)) (g : N) : key :=
  if g <? NRAW then (g, MISS)
  else match rev_get m g None with Some k => k | None => orphan_key end.

(* for group_id in 0..num_groups { while let Some(seg) = get_part(group_id) { .. } }: per group, newest first *)
Fixpoint collect (vl : list (N * placed)) (g : nat) (from : N) : list (N * placed) :=
  match g with
  | O => []
  | S g' => filter (fun x => fst x =? from) vl ++ collect vl g' (from + 1)
  end.

(* archive.register_stream(name): the id of an existing name, else a new stream; names are injective in (group id, kind) *)
Definition has_stream (ss : list (N * bool)) (g : N) (rf : bool) : bool :=
  existsb (fun x => (fst x =? g) && Bool.eqb (snd x) rf) ss.
Definition register_stream (ss : list (N * bool)) (g : N) (rf : bool) : list (N * bool) :=
  if has_stream ss g rf then ss else ss ++ [(g, rf)].
Fixpoint stream_index (ss : list (N * bool)) (g : N) (rf : bool) (i : N) : N :=
  match ss with
  | [] => i
  | x :: tl => if (fst x =? g) && Bool.eqb (snd x) rf then i else stream_index tl g rf (i + 1)
  end.
(* delta stream first, then the reference stream *)
Definition register_group (ss : list (N * bool)) (g : N) : list (N * bool) :=
  register_stream (register_stream ss g false) g true.

(* BTreeSet<u32> of the collected group ids that no existing buffer carries *)
Fixpoint set_insert (x : N) (l : list N) : list N :=
  match l with
  | [] => [x]
  | y :: l' => if x <? y then x :: y :: l' else if x =? y then y :: l' else y :: set_insert x l'
  end.
Definition new_group_ids (bufs : list (key * buf)) (coll : list (N * placed)) : list N :=
  fold_left (fun acc x => if existsb (fun kb => b_gid (snd kb) =? fst x) bufs then acc else set_insert (fst x) acc)
            coll [].

(* Phase 2c-6: the buffer of the segment's key, created with the segment's group id when absent; the result lists
   (group id of the BUFFER that received the segment, segment) in push order *)
Fixpoint place_all (m : list (key * N)) (bufs : list (key * buf)) (ss : list (N * bool)) (coll : list (N * placed))
  : list (key * buf) * list (N * bool) * list (N * placed) :=
  match coll with
  | [] => (bufs, ss, [])
  | (g, p) :: tl =>
      let k := key_of_gid m g in
      match kget bufs k with
      | Some b =>
          let '(bufs', ss', out) := place_all m bufs ss tl in (bufs', ss', (b_gid b, p) :: out)
      | None =>
          let ss1 := register_group ss g in                      (* pre-registered, or the fallback registration *)
          let b := {| b_gid := g; b_sid := stream_index ss1 g false 0; b_rsid := stream_index ss1 g true 0 |} in
          let '(bufs', ss', out) := place_all m (bufs ++ [(k, b)]) ss1 tl in (bufs', ss', (g, p) :: out)
      end
  end.

(* one sync round of worker 0: classify, prepare, (flush = GroupStore), cleanup.
   -> the registry after the round, what each buffer received: (buffer group id, segment), the classification log *)
Definition round (cf : config) (ord : list (key * placed) -> list (key * placed)) (r : reg) (contigs : list contig)
  : reg * list (N * placed) * list (placed * key * N) :=
  let st := classify_round cf ord r contigs in
  let r1 := cs_reg st in
  match cs_vl st with
  | [] => (r1, [], rev (cs_log st))                              (* has_segments() is false (s_seg_part was cleared by
                                                                    process_new): Ok(false), cleanup has nothing to do *)
  | _ :: _ =>
      (* Phase 2a: process_new once more (s_seg_part is empty by now) *)
      let '(m2, next2, vlen2, vl2) := process_new (r_map r1) (r_gc r1) (r_vlen r1) (cs_vl st) [] in
      let coll := collect vl2 (N.to_nat vlen2) 0 in
      (* Phase 2c-2: batch_local_groups *)
      let batch := fold_left (fun b x => kset b (key_of_gid m2 (fst x)) (fst x)) coll [] in
      (* Phase 2c-5: streams of the new group ids, ascending *)
      let ss1 := fold_left register_group (new_group_ids (r_bufs r1) coll) (r_streams r1) in
      let '(bufs', ss', out) := place_all m2 (r_bufs r1) ss1 coll in
      (* cleanup_batch_parallel: entry(key).or_insert(group_id) for the batch-local groups *)
      let m3 := fold_left (fun m x => or_insert m (fst x) (snd x)) batch m2 in
      ({| r_map := m3; r_gc := next2; r_rgc := r_rgc r1; r_vlen := vlen2; r_bufs := bufs'; r_streams := ss' |},
       out, rev (cs_log st))
  end.

Fixpoint run_rounds (cf : config) (ord : list (key * placed) -> list (key * placed)) (r : reg)
         (rounds : list (list contig)) : reg * list (list (N * placed)) * list (list (placed * key * N)) :=
  match rounds with
  | [] => (r, [], [])
  | c :: tl =>
      let '(r1, out, lg) := round cf ord r c in
      let '(r2, outs, lgs) := run_rounds cf ord r1 tl in
      (r2, out :: outs, lg :: lgs)
  end.

(* the ops of GroupStore.run a round hands over: one op per buffer group id, in the order of first use *)
Fixpoint gids_of (out : list (N * placed)) (seen : list N) : list N :=
  match out with
  | [] => []
  | (g, _) :: tl => if existsb (N.eqb g) seen then gids_of tl seen else g :: gids_of tl (g :: seen)
  end.
Definition ops_of_round (out : list (N * placed)) : list (N * list placed) :=
  map (fun g => (g, map snd (filter (fun x => fst x =? g) out))) (gids_of out []).
