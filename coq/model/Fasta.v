(* Fasta.v - transcription of the FASTA input path of ragc and the specification it is compared with.

   Code side (transcribed as it is today):
     ragc-core/src/genome_io.rs      GenomeIO::read_contig_raw / read_contig_impl(converted) / CNV_NUM,
                                     parse_sample_from_header
     ragc-core/src/contig_iterator.rs MultiFileIterator (sample name: PanSN `a#b` from the header, else the
                                     file stem minus .fa / .fasta; contig name = the whole trimmed header)
     ragc-cli/src/main.rs            create_archive: one input = single-file mode (sample change detection,
                                     "sorted" check), several = one pass per file; empty sequences skipped
     ragc-core/src/agc_compressor.rs push: a second contig with the same (sample, name) is an error
     ragc-core/src/decompressor.rs   write_sample_fasta: code < 16 ? CNV_NUM[code] : 'N'; GenomeWriter wraps at 80
   Spec side: [records] (split at lines starting with '>'), [norm] (upper case, letters only, non-IUPAC -> N),
   [render] (width, line end, case mask).

   Bytes are N.  The header is decoded by the code with String::from_utf8_lossy and trimmed with str::trim
   (Unicode White_Space); the model works on bytes and trims the ASCII members of White_Space
   (9..13 and 32), so model = code for header lines made of bytes < 128 only.  Definitions only. *)
From Ragc Require Export Mach.
From Ragc Require Import Consts_fasta.
Open Scope N_scope.

(* ------------------------------------------------------------------ bytes *)
Definition is_marker (c : N) : bool := c =? record_marker_byte.          (* '>' *)
Definition is_eol (c : N) : bool := c =? line_end_byte.                  (* '\n' *)
(* char::is_whitespace on ASCII: U+0009..U+000D, U+0020 *)
Definition is_ws (c : N) : bool := ((9 <=? c) && (c <=? 13)) || (c =? 32).
(* read_contig_impl / read_contig_raw: c > 64 && (c as usize) < CNV_NUM.len() *)
Definition keep (c : N) : bool := (keep_lower_bound <? c) && (c <? cnv_num_len).
Definition cnv (c : N) : N := nth (N.to_nat c) cnv_num 0.

Definition is_nil {A} (l : list A) : bool := match l with [] => true | _ => false end.

(* ------------------------------------------------------------------ BufRead::read_until(b'\n') *)
(* the lines of a byte string, each with its terminator; the last one may lack it; never an empty line *)
Fixpoint lines (t : list N) : list (list N) :=
  match t with
  | [] => []
  | c :: t' =>
    if is_eol c then [c] :: lines t'
    else match lines t' with
         | [] => [[c]]
         | l :: ls => (c :: l) :: ls
         end
  end.

(* ------------------------------------------------------------------ header trimming *)
Fixpoint drop_while (p : N -> bool) (l : list N) : list N :=
  match l with
  | [] => []
  | c :: l' => if p c then drop_while p l' else l
  end.
(* id_line.trim_start_matches('>').trim() *)
Definition trim_ws (l : list N) : list N := rev (drop_while is_ws (rev (drop_while is_ws l))).
Definition header_id (hl : list N) : list N := trim_ws (drop_while is_marker hl).

Definition starts_marker (l : list N) : bool :=
  match l with c :: _ => is_marker c | [] => false end.

(* ------------------------------------------------------------------ read_contig_raw *)
(* reader state: the buffered next header (if any) and the lines not yet delivered by the BufReader *)
Definition rstate : Type := option (list N) * list (list N).

(* inner loop: append lines to the contig until a line starts with '>' (kept as next_header) or EOF *)
Fixpoint read_seq (ls : list (list N)) (contig : list N) : list N * rstate :=
  match ls with
  | [] => (contig, (None, []))
  | l :: ls' => if starts_marker l then (contig, (Some l, ls')) else read_seq ls' (contig ++ l)
  end.

(* outer `loop`: skips nameless records without bases and records without any sequence line;
   fuel exhaustion = Panic (proved impossible for fuel > number of pending lines) *)
Fixpoint read_contig_raw (fuel : nat) (st : rstate) : outcome (option (list N * list N)) * rstate :=
  match fuel with
  | O => (Panic, st)
  | S f =>
    let '(nh, ls) := st in
    match (match nh with
           | Some h => Some (h, ls)
           | None => match ls with [] => None | l :: ls' => Some (l, ls') end
           end) with
    | None => (Ok None, (None, ls))
    | Some (hl, ls1) =>
      let id := header_id hl in
      let '(contig, st') := read_seq ls1 [] in
      if is_nil id then
        if existsb keep contig then (Err, st') else read_contig_raw f st'
      else if is_nil contig then read_contig_raw f st'
      else (Ok (Some (id, contig)), st')
    end
  end.

(* read_contig_impl(converted = true) *)
Definition convert (raw : list N) : list N := map cnv (filter keep raw).
Definition read_contig_converted (fuel : nat) (st : rstate) : outcome (option (list N * list N)) * rstate :=
  match read_contig_raw fuel st with
  | (Ok (Some (id, raw)), st') => (Ok (Some (id, convert raw)), st')
  | r => r
  end.

(* `while let Some(..) = reader.read_contig_converted()?` *)
Fixpoint read_all (fuel inner : nat) (st : rstate) : outcome (list (list N * list N)) :=
  match fuel with
  | O => Panic
  | S f =>
    match read_contig_converted inner st with
    | (Ok None, _) => Ok []
    | (Ok (Some r), st') => obnd (read_all f inner st') (fun rs => Ok (r :: rs))
    | (Err, _) => Err
    | (Panic, _) => Panic
    end
  end.

Definition parse (text : list N) : outcome (list (list N * list N)) :=
  let ls := lines text in
  read_all (S (length ls)) (S (length ls)) (None, ls).

(* what create pushes: `if !sequence.is_empty()` *)
Definition nonempty_contigs (rs : list (list N * list N)) : list (list N * list N) :=
  filter (fun r => negb (is_nil (snd r))) rs.
Definition pushed (text : list N) : outcome (list (list N * list N)) :=
  obnd (parse text) (fun rs => Ok (nonempty_contigs rs)).

(* ------------------------------------------------------------------ output mapping (write_sample_fasta) *)
Definition out_letter (code : N) : N :=
  if code <? out_code_bound then nth (N.to_nat code) cnv_num 0 else out_default_byte.
Definition out_letters (codes : list N) : list N := map out_letter codes.

(* GenomeWriter::save_contig_directly: ">" id "\n", then chunks of LINE_WIDTH each followed by "\n" *)
Fixpoint wrap_go (w col : nat) (eol s : list N) : list N :=
  match s with
  | [] => match col with O => [] | _ => eol end
  | c :: s' =>
    if Nat.eqb col w then eol ++ c :: wrap_go w 1 eol s'
    else c :: wrap_go w (S col) eol s'
  end.
Definition wrap (w : nat) (eol s : list N) : list N := wrap_go w 0 eol s.
Definition write_contig (id letters : list N) : list N :=
  [record_marker_byte] ++ id ++ [line_end_byte] ++ wrap (N.to_nat out_line_width) [line_end_byte] letters.

(* ------------------------------------------------------------------ specification *)
(* grouping of lines into (header line, concatenated following lines); the first line is taken as a header
   whatever it is - this is how the code sees a file *)
Fixpoint groups (ls : list (list N)) : list (list N * list N) :=
  match ls with
  | [] => []
  | l :: ls' =>
    match groups ls' with
    | [] => [(l, [])]
    | (h, c) :: rs => if starts_marker h then (l, []) :: (h, c) :: rs else (l, h ++ c) :: rs
    end
  end.

(* the natural reading of a FASTA text: records start at the lines beginning with '>'; whatever precedes the
   first such line is a record with an empty header line *)
Definition records (text : list N) : list (list N * list N) :=
  match lines text with
  | [] => []
  | l :: ls => if starts_marker l then groups (l :: ls) else groups ([] :: l :: ls)
  end.

(* the part of the input space on which the code's reading and the natural reading coincide:
   the first line starts with '>' or is blank (nothing but '>' and white space) *)
Definition first_line_ok (text : list N) : bool :=
  match lines text with
  | [] => true
  | l :: _ => starts_marker l || is_nil (header_id l)
  end.

Definition rec_name (r : list N * list N) : list N := header_id (fst r).
Definition rec_has_base (r : list N * list N) : bool := existsb keep (snd r).

(* what the reader must deliver for a list of records: Err iff some record has bases but no name; otherwise the
   named records that have at least one sequence line (possibly without bases: those come out with no codes) *)
Fixpoint deliver (gs : list (list N * list N)) : outcome (list (list N * list N)) :=
  match gs with
  | [] => Ok []
  | r :: gs' =>
    if is_nil (rec_name r) then
      if rec_has_base r then Err else deliver gs'
    else if is_nil (snd r) then deliver gs'
    else obnd (deliver gs') (fun rs => Ok ((rec_name r, convert (snd r)) :: rs))
  end.

Definition nameless_with_bases (r : list N * list N) : bool := is_nil (rec_name r) && rec_has_base r.

(* normalisation of the property: upper case, letters only, letters outside the IUPAC set read back as N *)
Definition is_upper (c : N) : bool := (65 <=? c) && (c <=? 90).
Definition is_lower (c : N) : bool := (97 <=? c) && (c <=? 122).
Definition is_letter (c : N) : bool := is_upper c || is_lower c.
Definition upcase (c : N) : N := if is_lower c then c - 32 else c.
Definition downcase (c : N) : N := if is_upper c then c + 32 else c.
Definition iupac : list N := [65; 67; 71; 84; 78; 82; 89; 83; 87; 75; 77; 66; 68; 72; 86; 85]. (* ACGTNRYSWKMBDHVU *)
Definition memN (x : N) (l : list N) : bool := existsb (N.eqb x) l.
Definition norm_letter (c : N) : N := let u := upcase c in if memN u iupac then u else 78.
Definition norm (s : list N) : list N := map norm_letter (filter is_letter s).
(* the bytes that the reader keeps although they are not letters: [ \ ] ^ _ ` and { | } ~ DEL *)
Definition odd_byte (c : N) : bool := keep c && negb (is_letter c).

(* presentation: line width, line end, case mask (true = lower case at that position of the sequence) *)
Fixpoint set_case (mask : nat -> bool) (i : nat) (s : list N) : list N :=
  match s with
  | [] => []
  | c :: s' => (if mask i then downcase c else upcase c) :: set_case mask (S i) s'
  end.
Definition render_rec (w : nat) (eol : list N) (mask : nat -> bool) (r : list N * list N) : list N :=
  [record_marker_byte] ++ fst r ++ eol ++ wrap w eol (set_case mask 0 (snd r)).
Definition render (w : nat) (eol : list N) (mask : nat -> bool) (rs : list (list N * list N)) : list N :=
  concat (map (render_rec w eol mask) rs).
Definition eol_lf : list N := [10].
Definition eol_crlf : list N := [13; 10].
Definition mask_upper : nat -> bool := fun _ => false.
Definition mask_lower : nat -> bool := fun _ => true.
Definition mask_mixed : nat -> bool := fun i => negb (Nat.eqb (Nat.modulo i 3) 0).

(* conditions on a record for parse (render ..) to give it back: the name survives header trimming and line
   splitting, the sequence is non-empty and made of kept bytes *)
Definition good_name (n : list N) : bool :=
  negb (is_nil n) && negb (existsb is_eol n) &&
  match n with c :: _ => negb (is_marker c) && negb (is_ws c) | [] => false end &&
  match rev n with c :: _ => negb (is_ws c) | [] => false end.
Definition good_rec (r : list N * list N) : bool :=
  good_name (fst r) && negb (is_nil (snd r)) && forallb keep (snd r).

(* ------------------------------------------------------------------ sample and contig naming *)
Fixpoint split_on (sep : N) (l : list N) : list (list N) :=
  match l with
  | [] => [[]]
  | c :: l' =>
    if c =? sep then [] :: split_on sep l'
    else match split_on sep l' with
         | p :: ps => (c :: p) :: ps
         | [] => [[c]]
         end
  end.
Fixpoint join_with (sep : N) (ps : list (list N)) : list N :=
  match ps with
  | [] => []
  | [p] => p
  | p :: ps' => p ++ sep :: join_with sep ps'
  end.
Definition bytes_eqb (a b : list N) : bool := list_eqb N.eqb a b.

(* parse_sample_from_header *)
Definition parse_sample_from_header (h : list N) : list N * list N :=
  let parts := split_on pansn_sep_byte h in
  if pansn_min_parts <=? lenN parts then
    (nth 0 parts [] ++ pansn_sep_byte :: nth 1 parts [], join_with pansn_sep_byte (skipn 2 parts))
  else (unknown_name, h).

(* Path::file_stem / Path::extension on a bare file name (no directory part) *)
Fixpoint rsplit_dot (l : list N) : option (list N * list N) :=      (* split at the last '.' *)
  match l with
  | [] => None
  | c :: l' =>
    match rsplit_dot l' with
    | Some (b, a) => Some (c :: b, a)
    | None => if c =? 46 then Some ([], l') else None
    end
  end.
Definition file_stem (name : list N) : list N :=
  if bytes_eqb name [46; 46] then name else
  match rsplit_dot name with
  | Some (b, a) => if is_nil b then name else b
  | None => name
  end.
Definition file_extension (name : list N) : option (list N) :=
  if bytes_eqb name [46; 46] then None else
  match rsplit_dot name with
  | Some (b, a) => if is_nil b then None else Some a
  | None => None
  end.
Definition is_gz_name (name : list N) : bool :=
  match file_extension name with Some e => bytes_eqb e gz_extension | None => false end.

(* str::trim_end_matches(pat): remove the suffix as often as it occurs; fuel = length bounds the repetitions *)
Definition ends_with (suf l : list N) : bool :=
  (length suf <=? length l)%nat && bytes_eqb (skipn (length l - length suf)%nat l) suf.
Fixpoint trim_end_matches (fuel : nat) (suf l : list N) : list N :=
  match fuel with
  | O => l
  | S f => if negb (is_nil suf) && ends_with suf l
           then trim_end_matches f suf (firstn (length l - length suf)%nat l) else l
  end.
(* MultiFileIterator::open_file *)
Definition sample_name_of_file (name : list N) : list N :=
  let s := file_stem name in
  let s1 := trim_end_matches (length s) stem_trim_first s in
  trim_end_matches (length s1) stem_trim_second s1.

(* MultiFileIterator::next_contig: (sample, contig name, codes) *)
Definition sample_for (fname id : list N) : list N :=
  let s := fst (parse_sample_from_header id) in
  if negb (bytes_eqb s multifile_unknown) then s else sample_name_of_file fname.
Definition contig3 : Type := (list N * list N * list N)%type.
Definition contig_stream (fname text : list N) : outcome (list contig3) :=
  obnd (pushed text) (fun rs => Ok (map (fun r => (sample_for fname (fst r), fst r, snd r)) rs)).

Definition oapp {A} (a b : outcome (list A)) : outcome (list A) :=
  match a, b with
  | Ok x, Ok y => Ok (x ++ y)
  | Panic, _ => Panic
  | _, Panic => Panic
  | _, _ => Err
  end.

(* create_archive, several inputs: reference file first, then the others, one MultiFileIterator each *)
Fixpoint stream_multi (files : list (list N * list N)) : outcome (list contig3) :=
  match files with
  | [] => Ok []
  | (fname, text) :: fs => oapp (contig_stream fname text) (stream_multi fs)
  end.

(* create_archive, one input: `seen_samples` check - a sample must not come back after another one *)
Fixpoint sorted_go (cur : option (list N)) (seen : list (list N)) (cs : list contig3) : bool :=
  match cs with
  | [] => true
  | (s, _, _) :: cs' =>
    match cur with
    | Some c => if bytes_eqb c s then sorted_go cur seen cs'
                else if existsb (bytes_eqb s) seen then false
                else sorted_go (Some s) (c :: seen) cs'
    | None => if existsb (bytes_eqb s) seen then false else sorted_go (Some s) seen cs'
    end
  end.
Definition stream_single (fname text : list N) : outcome (list contig3) :=
  obnd (contig_stream fname text) (fun cs => if sorted_go None [] cs then Ok cs else Err).

(* Collection::register_sample_contig + push: samples in order of first appearance, contigs in order of
   arrival; a repeated (sample, contig name) is an error (commit 139ec00) *)
Fixpoint add_contig (arch : list (list N * list (list N * list N))) (c : contig3)
  : option (list (list N * list (list N * list N))) :=
  let '(s, n, codes) := c in
  match arch with
  | [] => Some [(s, [(n, codes)])]
  | (s', cs) :: arch' =>
    if bytes_eqb s' s then
      if existsb (fun x => bytes_eqb (fst x) n) cs then None else Some ((s', cs ++ [(n, codes)]) :: arch')
    else match add_contig arch' c with
         | Some a => Some ((s', cs) :: a)
         | None => None
         end
  end.
Fixpoint collect (arch : list (list N * list (list N * list N))) (cs : list contig3)
  : outcome (list (list N * list (list N * list N))) :=
  match cs with
  | [] => Ok arch
  | c :: cs' => match add_contig arch c with Some a => collect a cs' | None => Err end
  end.

(* what `ragc create` followed by listset / listctg / getset shows, by C01 (lossless) and the output mapping:
   Err = create exits non-zero *)
Definition create_view (files : list (list N * list N)) : outcome (list (list N * list (list N * list N))) :=
  obnd (match files with
        | [(fname, text)] => stream_single fname text
        | _ => stream_multi files
        end) (fun cs =>
  obnd (collect [] cs) (fun arch =>
  Ok (map (fun sc => (fst sc, map (fun nc => (fst nc, out_letters (snd nc))) (snd sc))) arch))).

(* the input file as the reader sees it: MultiGzDecoder when the extension is gz *)
Definition file_bytes (gunzip : list N -> option (list N)) (name data : list N) : option (list N) :=
  if is_gz_name name then gunzip data else Some data.

(* ------------------------------------------------------------------ vocabulary of the theorems (specification side) *)
Definition read_back (s : list N) : list N :=
  map (fun c => if is_letter c then norm_letter c else 78) (filter keep s).
Definition ends_lf (a : list N) : Prop := a = [] \/ exists a0 c, a = a0 ++ [c] /\ is_eol c = true.
Definition eol_ok (eol : list N) : Prop := eol = eol_lf \/ eol = eol_crlf.
Definition starts_gt (t : list N) : Prop := t = [] \/ exists t', t = record_marker_byte :: t'.
Definition is_pansn (id : list N) : bool := pansn_min_parts <=? lenN (split_on pansn_sep_byte id).
Definition all_pansn (t : list N) : Prop :=
  forall rs, pushed t = Ok rs -> Forall (fun r => is_pansn (fst r) = true) rs.
Definition file_ok (t : list N) : Prop := ends_lf t /\ starts_gt t.
Definition archive : Type := list (list N * list (list N * list N)).

Fixpoint contigs_of (arch : archive) (s : list N) : list (list N * list N) :=
  match arch with
  | [] => []
  | (s', cs) :: a => if bytes_eqb s' s then cs else contigs_of a s
  end.
Definition has_contig (arch : archive) (s n : list N) : bool :=
  existsb (fun x => bytes_eqb (fst x) n) (contigs_of arch s).
Definition of_sample (s : list N) (cs : list contig3) : list (list N * list N) :=
  map (fun x => (snd (fst x), snd x)) (filter (fun x => bytes_eqb (fst (fst x)) s) cs).
Definition wanted (r : list N * list N) : bool := negb (is_nil (rec_name r)) && negb (is_nil (snd r)).
Definition as_contig (r : list N * list N) : list N * list N := (rec_name r, convert (snd r)).
Definition has_named_base (r : list N * list N) : bool := negb (is_nil (rec_name r)) && rec_has_base r.

(* one input file as create consumes it: bytes through the (possibly gzip) reader, then the contig stream *)
Definition input_stream (gunzip : list N -> option (list N)) (name data : list N) : outcome (list contig3) :=
  match file_bytes gunzip name data with
  | Some t => contig_stream name t
  | None => Err
  end.
Definition ext_fa : list N := [46; 102; 97].                    (* ".fa" *)
Definition ext_fa_gz : list N := [46; 102; 97; 46; 103; 122].   (* ".fa.gz" *)
