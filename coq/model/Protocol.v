(* Protocol.v - model of the compression pipeline of ragc-core/src/agc_compressor.rs (StreamingQueueCompressor:
   push / drain / sync_and_flush / finalize on the producer side, worker_thread on the worker side), of the
   MemoryBoundedQueue<ContigTask> they share (memory_bounded_queue.rs: one Mutex, Condvars not_full / not_empty)
   and of std::sync::Barrier(num_threads).  Definitions only.

   Small-step system, one label per atomic step; `step pa s l = None` = the label is not an enabled
   transition of the code in state s.  BLOCKING = NO ENABLED STEP:
     - a producer inside `not_full.wait` (PWaitF) moves only after a `pull` notified it (PWokenF);
     - a worker inside `not_empty.wait` (WWaitE) moves only after a `push` notified it (WWokenE; the label of
       the push says which waiter `notify_one` picked: any one, none iff there is none) or after `close`
       (notify_all: modelled as a wake step that a waiter may take once `closed` is set);
     - a worker inside `Barrier::wait` (WBarW k g) moves only after the generation changed.
   Spurious wake-ups (LSpurE / LSpurF) and the sleeping poll loop of drain / sync_and_flush while the queue is
   not empty are STUTTERING steps (`stutter`); the theorems are about the other steps.

   Critical sections are atomic: a pull that finds the queue empty and open goes WPull/WWokenE -> WWaitE in one
   step (log records [KE] WE), a pull that takes an item does the pop, the size accounting and
   not_full.notify_one in one step ([KE] T), and so on; the barrier's own mutex makes arrive / leave atomic.

   Not modelled: usize overflow of current_size + size (the queued contigs are resident in memory, so the sum
   of their lengths is below 2^64), Err returns (push on a closed queue: the producer is the only closer;
   prepare_batch_parallel failing in worker 0, which would skip barriers: a fault outside the property), the
   RAGC_SYNC_PER_SAMPLE=1 debugging path (it is a TokenBlock in script terms), pack_size = 0 (division by zero).
   The i32 priorities are plain Z (no overflow below 2^31 samples + packs).

   Ghost fields (no influence on control): ground, pushed, segd, rawbuf, rounds, wrounds. *)
From Ragc Require Export Mach.
Open Scope N_scope.

Record params := mkParams {
  nthr : nat;            (* config.num_threads = number of workers = Barrier size = tokens per block *)
  cap : N;               (* config.queue_capacity *)
  old_rule : bool        (* true = the push loop condition before the fix (without `current_size > 0`) *)
}.

(* ContigTask as far as the protocol is concerned *)
Record task := mkTask {
  tprio : Z;             (* sample_priority *)
  tcost : N;             (* cost *)
  tord : N;              (* sequence *)
  tsize : N;             (* size_bytes handed to queue.push *)
  ttok : bool            (* is_sync_token *)
}.
Record item := mkItem { iseq : N; itask : task }.     (* iseq = admission counter kept by the hook *)

(* impl Ord for ContigTask: sample_priority, then cost, then REVERSED sequence;  task_le a b = (a <= b) *)
Definition task_le (a b : task) : bool :=
  (tprio a <? tprio b)%Z
  || ((tprio a =? tprio b)%Z
      && ((tcost a <? tcost b) || ((tcost a =? tcost b) && (tord b <=? tord a)))).
(* BinaryHeap::pop returns some maximal element *)
Definition is_max (i : item) (l : list item) : bool := forallb (fun j => task_le (itask j) (itask i)) l.

Fixpoint find_max (l : list item) : option item :=
  match l with
  | [] => None
  | x :: r => match find_max r with
              | None => Some x
              | Some y => if task_le (itask x) (itask y) then Some y else Some x
              end
  end.

Fixpoint extract (sq : N) (l : list item) : option (item * list item) :=
  match l with
  | [] => None
  | x :: r =>
    if iseq x =? sq then Some (x, r)
    else match extract sq r with Some (y, r') => Some (y, x :: r') | None => None end
  end.

(* ---------------------------------------------------------------------------------------------- producer *)
(* the producer's primitive queue operations, in program order *)
Inductive pop :=
| OPush (t : task)       (* queue.push(task, size) *)
| OPoll.                 (* while queue.len() > 0 { sleep }   (drain, tail of sync_and_flush) *)

(* the script: what the caller of the API does before finalize.  Finalize (N tokens of priority 1_000_000
   and sequence 0, close, join) is implicit at the end of every script: finalize(self) consumes the compressor. *)
Inductive cmd :=
| Contig (size : N) (prio : Z) (ord : N)   (* the contig push at the end of StreamingQueueCompressor::push *)
| TokenBlock (prio : Z) (ord : N)          (* num_threads zero-size sync tokens (pack boundary inside push) *)
| Drain                                    (* drain() *)
| SyncAndFlush (ord : N).                  (* sync_and_flush(): a token block of priority 1_000_000, then poll *)

Definition flush_prio : Z := 1000000%Z.
Definition token (p : Z) (o : N) : task := mkTask p 0 o 0 true.
Definition contig (sz : N) (p : Z) (o : N) : task := mkTask p sz o sz false.

Definition ops_of_cmd (n : nat) (c : cmd) : list pop :=
  match c with
  | Contig sz p o => [OPush (contig sz p o)]
  | TokenBlock p o => repeat (OPush (token p o)) n
  | Drain => [OPoll]
  | SyncAndFlush o => repeat (OPush (token flush_prio o)) n ++ [OPoll]
  end.
Definition final_ops (n : nat) : list pop := repeat (OPush (token flush_prio 0)) n.
Definition todo_of (n : nat) (script : list cmd) : list pop := flat_map (ops_of_cmd n) script ++ final_ops n.

(* number of token blocks of a script, finalize included *)
Definition blocks_of_cmd (c : cmd) : nat :=
  match c with TokenBlock _ _ | SyncAndFlush _ => 1%nat | _ => 0%nat end.
Definition nblocks (script : list cmd) : nat := S (list_sum (map blocks_of_cmd script)).
Definition contig_sizes (script : list cmd) : list N :=
  flat_map (fun c => match c with Contig sz _ _ => [sz] | _ => [] end) script.

Inductive pstate :=
| PRun                   (* not inside a wait; the next operation is the head of todo (close when todo is empty) *)
| PWaitF                 (* inside not_full.wait of the push at the head of todo, not notified *)
| PWokenF                (* notified, has not re-acquired the mutex yet *)
| PJoin                  (* queue closed, joining the workers *)
| PDone.                 (* "P JOINED" *)

(* ----------------------------------------------------------------------------------------------- workers *)
(* barriers are numbered k = 0..3 (B1..B4); WPhase k = the code between barrier k and barrier k+1:
   WPhase 0 = classification + prepare (worker 0 only does something), WPhase 1 = the claim loop,
   WPhase 2 = flush / registration / cleanup (worker 0 only); after barrier 3 the worker pulls again *)
Inductive wpc :=
| WPull                  (* about to call queue.pull() *)
| WWaitE                 (* inside not_empty.wait, not notified *)
| WWokenE                (* notified (or spuriously woken), has not re-acquired the mutex yet *)
| WSeg (sq : N)          (* holds the contig admitted as number sq, segmenting it *)
| WBar (k : nat)         (* about to call barrier.wait() number k *)
| WBarW (k g : nat)      (* inside barrier.wait() number k, local_gen = g *)
| WPhase (k : nat)
| WExited.
Record worker := mkW { pc : wpc; wrounds : nat }.     (* wrounds: ghost, rounds this worker completed *)

Record state := mkState {
  items : list item;     (* inner.items (heap content, order irrelevant) *)
  cur : N;               (* inner.current_size *)
  closed : bool;         (* inner.closed *)
  nseq : N;              (* inner.next_seq (hook) *)
  pst : pstate;
  todo : list pop;
  ws : list worker;
  bcount : nat;          (* Barrier: lock.count *)
  bgen : nat;            (* Barrier: lock.generation_id *)
  claimable : nat;       (* ParallelFlushState: max (next_idx + 1) 0 *)
  ground : nat;          (* ghost: completed rounds *)
  pushed : list N;       (* ghost: seqs of the contigs admitted so far, newest first *)
  segd : list N;         (* ghost: seqs of the contigs segmented so far, newest first *)
  rawbuf : list N;       (* ghost: seqs in the raw segment buffers, not yet classified *)
  rounds : list (list N) (* ghost: what each classification drained, newest first *)
}.

Definition init (pa : params) (script : list cmd) : state :=
  mkState [] 0 false 0 PRun (todo_of (nthr pa) script) (repeat (mkW WPull 0) (nthr pa)) 0 0 0 0 [] [] [] [].

Fixpoint upd {A} (i : nat) (x : A) (l : list A) : list A :=
  match l, i with
  | [], _ => []
  | _ :: r, O => x :: r
  | y :: r, S j => y :: upd j x r
  end.

Definition set_pst (s : state) (p : pstate) : state :=
  mkState (items s) (cur s) (closed s) (nseq s) p (todo s) (ws s) (bcount s) (bgen s) (claimable s)
          (ground s) (pushed s) (segd s) (rawbuf s) (rounds s).
Definition set_todo (s : state) (t : list pop) : state :=
  mkState (items s) (cur s) (closed s) (nseq s) (pst s) t (ws s) (bcount s) (bgen s) (claimable s)
          (ground s) (pushed s) (segd s) (rawbuf s) (rounds s).
Definition set_ws (s : state) (w : list worker) : state :=
  mkState (items s) (cur s) (closed s) (nseq s) (pst s) (todo s) w (bcount s) (bgen s) (claimable s)
          (ground s) (pushed s) (segd s) (rawbuf s) (rounds s).

Definition is_waitE (w : worker) : bool := match pc w with WWaitE => true | _ => false end.
Definition is_exited (w : worker) : bool := match pc w with WExited => true | _ => false end.
Definition set_pc (w : worker) (p : wpc) : worker := mkW p (wrounds w).

(* not_empty.notify_one(): wakes one blocked worker (the label says which), nobody only if nobody is blocked *)
Definition notify_empty (l : list worker) (ntf : option nat) : option (list worker) :=
  match ntf with
  | None => if existsb is_waitE l then None else Some l
  | Some i =>
    match nth_error l i with
    | Some w => if is_waitE w then Some (upd i (set_pc w WWokenE) l) else None
    | None => None
    end
  end.
(* not_full.notify_one(): the producer is the only thread that ever waits there *)
Definition notify_full (p : pstate) : pstate := match p with PWaitF => PWokenF | _ => p end.

(* `while current_size + size_bytes > capacity && current_size > 0 && !closed` *)
Definition push_blocked (pa : params) (s : state) (sz : N) : bool :=
  (cap pa <? cur s + sz) && (old_rule pa || (0 <? cur s)) && negb (closed s).

(* seq = next_seq; next_seq += 1; items.push; current_size += size; not_empty.notify_one() *)
Definition do_admit (s : state) (t : task) (rest : list pop) (ntf : option nat) : option state :=
  match notify_empty (ws s) ntf with
  | Some ws' =>
    Some (mkState (mkItem (nseq s) t :: items s) (cur s + tsize t) (closed s) (nseq s + 1) PRun rest ws'
                  (bcount s) (bgen s) (claimable s) (ground s)
                  (if ttok t then pushed s else nseq s :: pushed s) (segd s) (rawbuf s) (rounds s))
  | None => None
  end.

Definition do_close (s : state) : state :=
  mkState (items s) (cur s) true (nseq s) PJoin (todo s) (ws s) (bcount s) (bgen s) (claimable s)
          (ground s) (pushed s) (segd s) (rawbuf s) (rounds s).

(* the critical section of queue.push(t, size) (first entry, or re-entry after not_full.wait returned) *)
Definition step_push (pa : params) (s : state) (t : task) (rest : list pop) (ntf : option nat) : option state :=
  if closed s then None                                                         (* Err(Closed): see header *)
  else if push_blocked pa s (tsize t) then Some (set_pst s PWaitF)             (* [KF] WF *)
  else do_admit s t rest ntf.                                                      (* [KF] A *)

(* one atomic step of the producer *)
Definition step_prod (pa : params) (s : state) (ntf : option nat) : option state :=
  match pst s with
  | PRun =>
    match todo s with
    | OPush t :: rest => step_push pa s t rest ntf
    | OPoll :: rest =>
      match items s with
      | [] => Some (set_todo s rest)                                            (* queue.len() == 0: loop exit *)
      | _ :: _ => Some s                                                        (* sleep and look again: stutter *)
      end
    | [] => if closed s then None else Some (do_close s)                        (* finalize: C *)
    end
  | PWokenF =>
    match todo s with
    | OPush t :: rest => step_push pa s t rest ntf
    | _ => None
    end
  | PWaitF => None
  | PJoin => if forallb is_exited (ws s) then Some (set_pst s PDone) else None  (* all joins returned *)
  | PDone => None
  end.

(* the pc after barrier k *)
Definition after_bar (k : nat) (w : worker) : worker :=
  if (k =? 3)%nat then mkW WPull (S (wrounds w)) else mkW (WPhase k) (wrounds w).

(* the critical section of queue.pull() entered by worker w (wk = its record), from WPull or WWokenE *)
Definition step_pull (s : state) (w : nat) (wk : worker) (sq : N) : option state :=
  let put (x : worker) := upd w x (ws s) in
  match items s with
  | [] =>
    if closed s then Some (set_ws s (put (set_pc wk WExited)))                          (* N, "EXIT" *)
    else Some (set_ws s (put (set_pc wk WWaitE)))                                       (* WE *)
  | _ :: _ =>
    match extract sq (items s) with
    | Some (it, rest) =>
      if is_max it (items s) then
        match sub_u64 (cur s) (tsize (itask it)) with
        | Some c' =>                                                                     (* T *)
          Some (mkState rest c' (closed s) (nseq s) (notify_full (pst s)) (todo s)
                        (put (set_pc wk (if ttok (itask it) then WBar 0 else WSeg (iseq it))))
                        (bcount s) (bgen s) (claimable s) (ground s) (pushed s) (segd s) (rawbuf s) (rounds s))
        | None => None
        end
      else None
    | None => None
    end
  end.

(* Barrier::wait number k entered by worker w *)
Definition step_arrive (pa : params) (s : state) (w : nat) (wk : worker) (k : nat) : option state :=
  let put (x : worker) := upd w x (ws s) in
  if (4 <=? k)%nat then None
  else if (S (bcount s) <? nthr pa)%nat then                                            (* count += 1; wait *)
    Some (mkState (items s) (cur s) (closed s) (nseq s) (pst s) (todo s) (put (set_pc wk (WBarW k (bgen s))))
                  (S (bcount s)) (bgen s) (claimable s) (ground s) (pushed s) (segd s) (rawbuf s) (rounds s))
  else                                                                                   (* last: count = 0; gen += 1 *)
    Some (mkState (items s) (cur s) (closed s) (nseq s) (pst s) (todo s) (put (after_bar k wk))
                  0 (S (bgen s)) (claimable s) (if (k =? 3)%nat then S (ground s) else ground s)
                  (pushed s) (segd s) (rawbuf s) (rounds s)).

(* one atomic step of worker w; sq = seq of the item taken (pull), nb = number of buffers prepared (worker 0,
   phase 0); both ignored by the other steps *)
Definition step_work (pa : params) (s : state) (w : nat) (sq : N) (nb : nat) : option state :=
  match nth_error (ws s) w with
  | None => None
  | Some wk =>
    let put (x : worker) := upd w x (ws s) in
    match pc wk with
    | WPull | WWokenE => step_pull s w wk sq
    | WWaitE =>
      if closed s then Some (set_ws s (put (set_pc wk WWokenE))) else None              (* close's notify_all *)
    | WSeg q =>                                                                          (* "SEGMENTED" *)
      Some (mkState (items s) (cur s) (closed s) (nseq s) (pst s) (todo s) (put (set_pc wk WPull))
                    (bcount s) (bgen s) (claimable s) (ground s) (pushed s) (q :: segd s) (q :: rawbuf s) (rounds s))
    | WBar k => step_arrive pa s w wk k
    | WBarW k g =>
      if (g =? bgen s)%nat then None else Some (set_ws s (put (after_bar k wk)))        (* generation changed *)
    | WPhase 0 =>
      if (w =? 0)%nat then                                                               (* "ROUND ..." *)
        Some (mkState (items s) (cur s) (closed s) (nseq s) (pst s) (todo s) (put (set_pc wk (WBar 1)))
                      (bcount s) (bgen s) nb (ground s) (pushed s) (segd s) [] (rawbuf s :: rounds s))
      else Some (set_ws s (put (set_pc wk (WBar 1))))
    | WPhase 1 =>
      match claimable s with
      | O => Some (set_ws s (put (set_pc wk (WBar 2))))                                 (* claim_next_idx = None *)
      | S c =>                                                                           (* "CLAIM idx" *)
        Some (mkState (items s) (cur s) (closed s) (nseq s) (pst s) (todo s) (ws s)
                      (bcount s) (bgen s) c (ground s) (pushed s) (segd s) (rawbuf s) (rounds s))
      end
    | WPhase 2 =>
      if (w =? 0)%nat then                                                               (* drain_buffers: next_idx = -1 *)
        Some (mkState (items s) (cur s) (closed s) (nseq s) (pst s) (todo s) (put (set_pc wk (WBar 3)))
                      (bcount s) (bgen s) 0 (ground s) (pushed s) (segd s) (rawbuf s) (rounds s))
      else Some (set_ws s (put (set_pc wk (WBar 3))))
    | WPhase _ => None
    | WExited => None
    end
  end.

Inductive label :=
| LProd (ntf : option nat)
| LWork (w : nat) (sq : N) (nb : nat)
| LSpurE (w : nat)            (* spurious wake-up inside not_empty.wait *)
| LSpurF.                     (* spurious wake-up inside not_full.wait *)

Definition step (pa : params) (s : state) (l : label) : option state :=
  match l with
  | LProd ntf => step_prod pa s ntf
  | LWork w sq nb => step_work pa s w sq nb
  | LSpurE w =>
    match nth_error (ws s) w with
    | Some wk => if is_waitE wk then Some (set_ws s (upd w (set_pc wk WWokenE) (ws s))) else None
    | None => None
    end
  | LSpurF => match pst s with PWaitF => Some (set_pst s PWokenF) | _ => None end
  end.

(* steps that are allowed to repeat forever without progress *)
Definition stutter (s : state) (l : label) : bool :=
  match l with
  | LSpurE _ | LSpurF => true
  | LProd _ =>
    match pst s, todo s, items s with
    | PRun, OPoll :: _, _ :: _ => true
    | _, _, _ => false
    end
  | LWork _ _ _ => false
  end.

Inductive tid := TProd | TWork (w : nat).
Definition tid_of (l : label) : tid :=
  match l with LProd _ | LSpurF => TProd | LWork w _ _ | LSpurE w => TWork w end.

Definition finalb (s : state) : bool :=
  match pst s with PDone => forallb is_exited (ws s) | _ => false end.

(* ------------------------------------------------------------------------------- executable enabledness *)
Fixpoint first_waiter (l : list worker) (i : nat) : option nat :=
  match l with
  | [] => None
  | w :: r => if is_waitE w then Some i else first_waiter r (S i)
  end.
(* a canonical non-stuttering label of thread t, if it has an enabled one *)
Definition canon_label (s : state) (t : tid) : label :=
  match t with
  | TProd => LProd (first_waiter (ws s) 0)
  | TWork w => LWork w (match find_max (items s) with Some it => iseq it | None => 0 end) 0
  end.
Definition enabledb (pa : params) (s : state) (t : tid) : bool :=
  let l := canon_label s t in
  match step pa s l with Some _ => negb (stutter s l) | None => false end.
Definition tids (s : state) : list tid := TProd :: map TWork (seq 0 (length (ws s))).
Definition stuckb (pa : params) (s : state) : bool :=
  negb (finalb s) && negb (existsb (enabledb pa s) (tids s)).

Fixpoint run (pa : params) (s : state) (tr : list label) : option state :=
  match tr with
  | [] => Some s
  | l :: r => obind (step pa s l) (fun s' => run pa s' r)
  end.

(* ------------------------------------------------------- the API calls and the priorities `push` assigns *)
Inductive call :=
| CPush (sample : N) (size : N)     (* compressor.push(sample, contig, data), data.len() = size *)
| CDrain
| CSync.                            (* compressor.sync_and_flush(..) *)

Fixpoint lookupZ (k : N) (m : list (N * Z)) : option Z :=
  match m with
  | [] => None
  | (k', v) :: r => if k' =? k then Some v else lookupZ k r
  end.
Fixpoint setZ (k : N) (v : Z) (m : list (N * Z)) : list (N * Z) :=
  match m with
  | [] => [(k, v)]
  | (k', v') :: r => if k' =? k then (k, v) :: r else (k', v') :: setZ k v r
  end.

Definition first_priority : Z := 2147483647%Z.     (* next_priority starts at i32::MAX *)

(* StreamingQueueCompressor::push, lines "Get sequence number" .. "Push to queue": m = sample_priorities,
   np = next_priority, no = next_sequence, gc = global_contig_count *)
Fixpoint compile_go (concat : bool) (pack : N) (calls : list call)
         (m : list (N * Z)) (np : Z) (no gc : N) : list cmd :=
  match calls with
  | [] => []
  | CDrain :: r => Drain :: compile_go concat pack r m np no gc
  | CSync :: r => SyncAndFlush no :: compile_go concat pack r m np (no + 1) gc
  | CPush smp sz :: r =>
    let '(curp, m1, np1) :=
      match lookupZ smp m with
      | Some p => (p, m, np)
      | None => (np, setZ smp np m, (np - 1)%Z)
      end in
    if concat && ((gc + 1) mod pack =? 0) then
      (* pack boundary: the sample's priority drops by one; `if *next_p >= new_priority { *next_p = new_priority - 1 }`
         keeps the priorities of samples seen later below everything pushed so far *)
      let newp := (curp - 1)%Z in
      let np2 := if (newp <=? np1)%Z then (newp - 1)%Z else np1 in
      TokenBlock curp no :: Contig sz newp no
                 :: compile_go concat pack r (setZ smp newp m1) np2 (no + 1) (gc + 1)
    else
      Contig sz curp no :: compile_go concat pack r m1 np1 (no + 1) (gc + 1)
  end.
Definition compile_calls (concat : bool) (pack : N) (calls : list call) : list cmd :=
  compile_go concat pack calls [] first_priority 0 0.

(* ===================================================================================================
   Vocabulary of the theorems (props/C05.v): counters, the sync section, reachability, enabledness,
   the termination measure.  Nothing below is used by `step`. *)
Open Scope nat_scope.

Definition b2n (b : bool) : nat := if b then 1 else 0.
Fixpoint cnt {A} (f : A -> bool) (l : list A) : nat :=
  match l with [] => 0 | x :: r => b2n (f x) + cnt f r end.

Definition is_tok_item (i : item) : bool := ttok (itask i).
Definition is_tok_op (o : pop) : bool := match o with OPush t => ttok t | OPoll => false end.
Definition ntok_items (s : state) : nat := cnt is_tok_item (items s).      (* tokens queued *)
Definition ntok_todo (s : state) : nat := cnt is_tok_op (todo s).          (* tokens the producer has still to push *)

(* between the pull of a token and the release of barrier 3 (B4): a worker still inside Barrier::wait number 3
   whose generation has already changed is logically out *)
Definition insec (g : nat) (w : worker) : bool :=
  match pc w with
  | WBar _ | WPhase _ => true
  | WBarW k g' => negb (k =? 3) || (g' =? g)
  | _ => false
  end.
Definition nsec (s : state) : nat := cnt (insec (bgen s)) (ws s).
(* number of barriers of the current round that a worker in the section has (logically) passed *)
Definition stage (g : nat) (p : wpc) : option nat :=
  match p with
  | WBar k => Some k
  | WBarW k g' => if g' =? g then Some k else if k =? 3 then None else Some (S k)
  | WPhase k => Some (S k)
  | _ => None
  end.

Inductive reachable (pa : params) (script : list cmd) : state -> Prop :=
| reach_init : reachable pa script (init pa script)
| reach_step : forall s l s', reachable pa script s -> step pa s l = Some s' -> reachable pa script s'.

(* a non-stuttering step *)
Definition progress (pa : params) (s : state) (l : label) (s' : state) : Prop :=
  step pa s l = Some s' /\ stutter s l = false.
Definition enabled (pa : params) (s : state) (t : tid) : Prop :=
  exists l s', tid_of l = t /\ progress pa s l s'.
Definition final (s : state) : Prop := pst s = PDone /\ Forall (fun w => pc w = WExited) (ws s).

(* every maximal sequence of non-stuttering steps from s is finite and ends in a final state, and every
   non-final state on the way has a thread with an enabled non-stuttering step *)
Inductive ends_final (pa : params) (s : state) : Prop :=
| ef_final : final s -> ends_final pa s
| ef_step : (exists t, enabled pa s t) ->
            (forall l s', progress pa s l s' -> ends_final pa s') -> ends_final pa s.

(* termination measure: (A, claimable) in lexicographic order *)
Definition opw (o : pop) : nat := match o with OPush _ => 17 | OPoll => 1 end.
Definition pstw (p : pstate) : nat := match p with PRun => 2 | PWokenF => 1 | PJoin => 1 | PWaitF => 0 | PDone => 0 end.
Definition wpw (c : bool) (p : wpc) : nat :=
  match p with
  | WExited => 0
  | WWaitE => if c then 3 else 1
  | WWokenE => 2
  | WPull => 3
  | WSeg _ => 4
  | WBar k => 14 - 3 * k
  | WBarW k _ => 13 - 3 * k
  | WPhase k => 12 - 3 * k
  end.
Definition wsum (c : bool) (l : list worker) : nat := list_sum (map (fun w => wpw c (pc w)) l).
Definition measureA (s : state) : nat :=
  list_sum (map opw (todo s)) + pstw (pst s) + 14 * length (items s) + wsum (closed s) (ws s)
  + (if closed s then 0 else 2 * length (ws s)).
Definition measure (s : state) : nat * nat := (measureA s, claimable s).
Definition mlt (a b : nat * nat) : Prop := fst a < fst b \/ (fst a = fst b /\ snd a < snd b).

(* ghost bookkeeping used by final_complete *)
Definition inflight (l : list worker) : list N :=
  flat_map (fun w => match pc w with WSeg q => [q] | _ => [] end) l.
Definition qctg (l : list item) : list N := map iseq (filter (fun i => negb (is_tok_item i)) l).
Definition nctg_todo (l : list pop) : nat := cnt (fun o => match o with OPush t => negb (ttok t) | OPoll => false end) l.
Close Scope nat_scope.
