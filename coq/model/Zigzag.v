(* Zigzag.v - transcription of collection.rs zigzag_encode / zigzag_decode (prediction variant, u64) and
   zigzag_encode_i64 / zigzag_decode_i64.  Dev-profile arithmetic: every `2 * x`, `a - b`, `a + b` on u64 /
   i64 that leaves the type is [Panic].  Definitions only. *)
From Ragc Require Export Mach.
Open Scope N_scope.

Definition ou64 (o : option N) : outcome N := match o with Some v => Ok v | None => Panic end.

(* pub fn zigzag_encode(x_curr: u64, x_prev: u64) -> u64 *)
Definition zigzag_encode (x_curr x_prev : N) : outcome N :=
  if x_curr <? x_prev then
    obnd (ou64 (mul_u64 2 (x_prev - x_curr))) (fun d => ou64 (sub_u64 d 1))
  else
    obnd (ou64 (mul_u64 2 x_prev)) (fun p2 =>
      if x_curr <? p2 then ou64 (mul_u64 2 (x_curr - x_prev)) else Ok x_curr).

(* pub fn zigzag_decode(x_val: u64, x_prev: u64) -> u64 *)
Definition zigzag_decode (x_val x_prev : N) : outcome N :=
  obnd (ou64 (mul_u64 2 x_prev)) (fun p2 =>
    if p2 <=? x_val then Ok x_val
    else if N.land x_val 1 =? 1 then
      (* (2 * x_prev - x_val) / 2 ; x_val < 2*x_prev here *)
      Ok ((p2 - x_val) / 2)
    else
      obnd (ou64 (add_u64 x_val p2)) (fun s => Ok (s / 2))).

(* i64 variants (exported by the crate, not used by the collection streams) *)
Definition i64_min : Z := (-9223372036854775808)%Z.
Definition i64_max : Z := 9223372036854775807%Z.
Definition in_i64 (x : Z) : bool := ((i64_min <=? x) && (x <=? i64_max))%Z.
Definition oi64 (x : Z) : outcome Z := if in_i64 x then Ok x else Panic.

Definition zigzag_encode_i64 (x : Z) : outcome N :=
  if (0 <=? x)%Z then obnd (oi64 (2 * x)) (fun v => Ok (Z.to_N v))
  else obnd (oi64 (- x)) (fun nx => obnd (oi64 (2 * nx)) (fun d => obnd (oi64 (d - 1)) (fun v => Ok (Z.to_N v)))).

Definition zigzag_decode_i64 (x : N) : outcome Z :=
  if N.land x 1 =? 1 then
    (* -(x.div_ceil(2) as i64): the cast wraps (2^63 -> i64::MIN), the negation of MIN panics *)
    let h := Z.of_N ((x + 1) / 2) in
    let c := if (h <=? i64_max)%Z then h else (h - 18446744073709551616)%Z in
    oi64 (- c)
  else Ok (Z.of_N (x / 2)).
