(* CliGz.v - C19G: the pipeline behind `ragc create` over input FILE BYTES.  Definitions only.

   CliGrand.v (C17G) defines [create_pipe] over FASTA TEXTS: the bytes after decompression.  Fasta.v (C19) says how a file
   becomes a text: [Fasta.file_bytes gunzip name data] = [gunzip data] when [Fasta.is_gz_name name] (GenomeIO::open /
   MultiFileIterator::open_file: `path.extension() == Some("gz")` -> flate2 MultiGzDecoder; the detection is by file NAME,
   not by magic bytes: a gzip stream under another name is read as plain text and a plain text named *.gz goes through the
   decoder), the data themselves otherwise; and [Fasta.input_stream gunzip name data] = that text through the reader and
   the naming rule, Err when the decoder fails.  Here the two are joined:
     fb_stream        one input = single-file mode (Fasta.stream_single's samples-sorted check on the input_stream),
                      several = one pass per file (Fasta.stream_multi with input_stream for contig_stream)
     create_pipe_files / create_pipe_files_io
                      CliGrand.create_pipe / create_pipe_io with that stream in place of the text stream
     file_texts       the decompressed texts, under the names the files have (None when a decoder fails)
     same_input       two presentations of one input: the same file; S.gz holding any member split of a text versus a
                      plain file with that text; two gzip files holding two member splits of one text - names may differ
                      as long as MultiFileIterator derives the same sample name from them (x.fa.gz / x.fa) *)
From Ragc Require Export Mach.
From Ragc Require Cli Fasta Sink Container Pipeline GroupStore AgcV3 ModelCreate CliGrand.
Open Scope N_scope.

(* ------------------------------------------------------------------ 1. file bytes -> what create hands to the compressor *)
Definition fb_stream_single (gunzip : list N -> option (list N)) (name data : list N) : outcome (list Fasta.contig3) :=
  obnd (Fasta.input_stream gunzip name data) (fun cs => if Fasta.sorted_go None [] cs then Ok cs else Err).

Fixpoint fb_stream_multi (gunzip : list N -> option (list N)) (files : list (list N * list N)) : outcome (list Fasta.contig3) :=
  match files with
  | [] => Ok []
  | (name, data) :: fs => Fasta.oapp (Fasta.input_stream gunzip name data) (fb_stream_multi gunzip fs)
  end.

Definition fb_stream (gunzip : list N -> option (list N)) (files : list (list N * list N)) : outcome (list Fasta.contig3) :=
  match files with
  | [(name, data)] => fb_stream_single gunzip name data
  | _ => fb_stream_multi gunzip files
  end.

Definition fb_samples (gunzip : list N -> option (list N)) (files : list (list N * list N))
  : outcome (list (list N * list (list N * list N))) :=
  obnd (fb_stream gunzip files) (Fasta.collect []).

(* the decompressed texts, each under the name of its file; None as soon as one decoder fails *)
Fixpoint file_texts (gunzip : list N -> option (list N)) (files : list (list N * list N)) : option (list (list N * list N)) :=
  match files with
  | [] => Some []
  | (name, data) :: fs =>
    match Fasta.file_bytes gunzip name data, file_texts gunzip fs with
    | Some t, Some ts => Some ((name, t) :: ts)
    | _, _ => None
    end
  end.

(* ------------------------------------------------------------------ 2. the pipeline behind `create`, from file bytes *)
Section CreateFiles.
  Variable zc : N -> list N -> list N.
  Variable ecn : Pipeline.name -> Pipeline.name.
  Variables (k mml segsize level : N).
  Variable spl : N -> bool.
  Variable dec : nat -> nat -> Pipeline.decision.
  Variable grp : nat -> nat -> N.
  Variable sched : list Pipeline.registration -> list Pipeline.registration.
  Variable gops : list GroupStore.op.
  Variable fti : Container.item.
  Variable leftover : option Cli.str.                         (* what a failed pipeline leaves at the output path (any value) *)
  Variable gunzip : list N -> option (list N).                (* flate2 MultiGzDecoder, whole file *)

  Definition create_pipe_files (files : list (list N * list N)) : Cli.pipe_result :=
    match fb_samples gunzip files with
    | Ok arch =>
      match ModelCreate.model_create zc ecn k mml segsize level spl dec grp sched gops fti arch with
      | Ok bytes => Cli.PipeFinalized bytes
      | _ => Cli.PipeFail leftover
      end
    | _ => Cli.PipeFail leftover
    end.

  Variable pol : Sink.policy.
  Variable cap : N.

  Definition create_pipe_files_io (files : list (list N * list N)) : Cli.pipe_result :=
    match fb_samples gunzip files with
    | Ok arch =>
      match ModelCreate.model_build zc ecn k mml segsize level spl dec grp sched gops fti arch with
      | Ok b =>
        let r := Sink.main_io Sink.code_sites (Sink.pipeline_state pol cap (CliGrand.pre_finalize b)) in
        match snd r with
        | Sink.ExitZero => Cli.PipeFinalized (Sink.ar_file (fst r))
        | Sink.ExitNonZero => Cli.PipeFail (Some (Sink.ar_file (fst r)))
        end
      | _ => Cli.PipeFail leftover
      end
    | _ => Cli.PipeFail leftover
    end.
End CreateFiles.

(* ------------------------------------------------------------------ 3. presentations of one input file *)
Inductive same_input (gzip : list N -> list N) : list N * list N -> list N * list N -> Prop :=
| SameFile : forall f, same_input gzip f f
| GzPlain : forall ngz nplain xs, xs <> [] ->
    Fasta.is_gz_name ngz = true -> Fasta.is_gz_name nplain = false ->
    Fasta.sample_name_of_file ngz = Fasta.sample_name_of_file nplain ->
    same_input gzip (ngz, concat (map gzip xs)) (nplain, concat xs)
| PlainGz : forall ngz nplain xs, xs <> [] ->
    Fasta.is_gz_name ngz = true -> Fasta.is_gz_name nplain = false ->
    Fasta.sample_name_of_file ngz = Fasta.sample_name_of_file nplain ->
    same_input gzip (nplain, concat xs) (ngz, concat (map gzip xs))
| GzGz : forall n1 n2 xs ys, xs <> [] -> ys <> [] -> concat xs = concat ys ->
    Fasta.is_gz_name n1 = true -> Fasta.is_gz_name n2 = true ->
    Fasta.sample_name_of_file n1 = Fasta.sample_name_of_file n2 ->
    same_input gzip (n1, concat (map gzip xs)) (n2, concat (map gzip ys)).

(* toy gzip for the non-vacuity examples: a member is the magic bytes 1f 8b, then every data byte c as the pair 01 c,
   then 00; the decoder reads members until the end of the file and fails on anything else (an empty file, a missing
   magic, a truncated member) - so it satisfies C19's oracle hypothesis for EVERY member list and also refuses inputs *)
Definition toy_gzip (x : list N) : list N := 31 :: 139 :: flat_map (fun c => [1; c]) x ++ [0].
Fixpoint toy_gunzip_go (inside : bool) (d : list N) : option (list N) :=
  match d with
  | [] => if inside then None else Some []
  | a :: r =>
    if inside then
      if a =? 0 then toy_gunzip_go false r
      else if a =? 1 then
        match r with
        | c :: r' => match toy_gunzip_go true r' with Some t => Some (c :: t) | None => None end
        | [] => None
        end
      else None
    else
      if a =? 31 then
        match r with
        | b :: r' => if b =? 139 then toy_gunzip_go true r' else None
        | [] => None
        end
      else None
  end.
Definition toy_gunzip (d : list N) : option (list N) :=
  match d with
  | [] => None                                   (* an empty file is not a gzip stream *)
  | _ => toy_gunzip_go false d
  end.
