(* Tuple.v - transcription of ragc-core/src/tuple_packing.rs
   (bytes_to_tuples, tuples_to_bytes, pack_tuples::<N, MAX>, unpack_tuples::<N, MAX>).
   Definitions only.  Constants (thresholds, widths, radices, marker layout) come from
   gen/Consts_tuple.v, regenerated from the Rust source on every check.

   Machine arithmetic made explicit
   - the Horner accumulator `c` is a u32: [horner] wraps every step with [wrap32] (the proofs show
     that no step ever reaches 2^32 for byte inputs, so the dev-profile overflow trap is unreachable);
   - `result.push(c as u8)` is [wrap8]; `(c % MAX) as u8` is [wrap8];
   - `(N as u8) << S` and `(len % N) as u8` are [wrap8];
   - `tuples.len() - 2` is a checked usize subtraction ([sub_u64]: None = panic in the dev profile),
     `tuples[i]` past the end and the `_ => panic!` arm are [Panic]. *)
From Ragc Require Export Mach.
From Ragc Require Import Consts_tuple.
Open Scope N_scope.

(* ---------------------------------------------------------------- pack_tuples::<N, MAX> *)
(* c = 0; for b in chunk { c = c * MAX + b }   (u32) *)
Definition horner (r : N) (chunk : list N) : N :=
  fold_left (fun c b => wrap32 (c * r + b)) chunk 0.

(* the first w elements and the rest, if there are w elements (`i + N <= bytes.len()`) *)
Fixpoint split_chunk (w : nat) (l : list N) : option (list N * list N) :=
  match w with
  | O => Some ([], l)
  | S w' =>
      match l with
      | [] => None
      | x :: l' =>
          match split_chunk w' l' with
          | Some (c, rest) => Some (x :: c, rest)
          | None => None
          end
      end
  end.

(* the two loops of pack_tuples: full tuples while w symbols remain, then ALWAYS one trailing tuple
   (0 when nothing remains).  fuel: one unit per full tuple; [S (length l)] is always enough (w >= 1).
   Exhausted fuel yields [None] (never happens, see Tuple_proofs.pack_loop_fuel_ok). *)
Fixpoint pack_loop (fuel : nat) (w : nat) (r : N) (l : list N) : option (list N) :=
  match fuel with
  | O => None
  | S f =>
      match split_chunk w l with
      | Some (c, rest) =>
          match pack_loop f w r rest with
          | Some out => Some (wrap8 (horner r c) :: out)
          | None => None
          end
      | None => Some [wrap8 (horner r l)]
      end
  end.

(* marker = ((N as u8) << S) | ((bytes.len() % N) as u8) *)
Definition pack_marker (w : N) (len : N) : N :=
  N.lor (wrap8 (N.shiftl (wrap8 w) tp_pack_shift)) (wrap8 (len mod w)).

Definition pack_tuples (w r : N) (l : list N) : option (list N) :=
  match pack_loop (S (length l)) (N.to_nat w) r l with
  | Some body => Some (body ++ [pack_marker w (lenN l)])
  | None => None
  end.

(* *bytes.iter().max().unwrap() on a non-empty slice *)
Definition max_elem (l : list N) : N := fold_left N.max l 0.

(* the if / else-if chain of bytes_to_tuples *)
Fixpoint choose_range (m : N) (rs : list (N * N * N)) : option (N * N) :=
  match rs with
  | [] => None
  | (t, w, r) :: rs' => if m <? t then Some (w, r) else choose_range m rs'
  end.

Definition bytes_to_tuples_opt (l : list N) : option (list N) :=
  match l with
  | [] => Some [tp_empty_marker]
  | _ =>
      match choose_range (max_elem l) tp_ranges with
      | Some (w, r) => pack_tuples w r l
      | None => Some (l ++ [tp_plain_marker])
      end
  end.

(* total version used by the compression model; the [None] (fuel) case is unreachable *)
Definition bytes_to_tuples (l : list N) : list N :=
  match bytes_to_tuples_opt l with Some t => t | None => [] end.

(* ---------------------------------------------------------------- unpack_tuples::<N, MAX> *)
(* for k in (0..n).rev() { output[j + k] = (c % MAX) as u8; c /= MAX }  : n digits, most significant first *)
Fixpoint digits (r : N) (n : nat) (c : N) : list N :=
  match n with
  | O => []
  | S n' => digits r n' (c / r) ++ [wrap8 (c mod r)]
  end.

(* `while j + N <= output_size`: nfull full tuples; returns (output so far, tuples not yet consumed) *)
Fixpoint unpack_loop (w : nat) (r : N) (nfull : nat) (t : list N) : outcome (list N * list N) :=
  match nfull with
  | O => Ok ([], t)
  | S k =>
      match t with
      | [] => Panic                                   (* tuples[i]: index out of bounds *)
      | c :: t' =>
          match unpack_loop w r k t' with
          | Ok (o, rest) => Ok (digits r w c ++ o, rest)
          | Err => Err
          | Panic => Panic
          end
      end
  end.

Definition unpack_tuples (w r : N) (t : list N) (output_size : N) : outcome (list N) :=
  match unpack_loop (N.to_nat w) r (N.to_nat (output_size / w)) t with
  | Ok (o, rest) =>
      let n := output_size mod w in
      if 0 <? n then
        match rest with
        | [] => Panic                                 (* tuples[i]: index out of bounds *)
        | c :: _ => Ok (o ++ digits r (N.to_nat n) c)
        end
      else Ok o
  | Err => Err
  | Panic => Panic
  end.

Fixpoint lookup_arm (k : N) (arms : list (N * N * N)) : option (N * N) :=
  match arms with
  | [] => None
  | (k', w, r) :: arms' => if k =? k' then Some (w, r) else lookup_arm k arms'
  end.

Definition tuples_to_bytes (t : list N) : outcome (list N) :=
  match t with
  | [] => Ok []
  | _ =>
      let marker := last t 0 in
      let no_bytes := N.shiftr marker tp_unpack_shift in
      let trailing := N.land marker tp_unpack_mask in
      if no_bytes =? tp_plain_no_bytes then Ok (removelast t)
      else
        match sub_u64 (lenN t) tp_size_sub with
        | None => Panic                               (* tuples.len() - 2 underflows *)
        | Some m =>
            let output_size := m * no_bytes + trailing in
            match lookup_arm no_bytes tp_unpack_arms with
            | Some (w, r) => unpack_tuples w r (removelast t) output_size
            | None => Panic                           (* panic!("Invalid no_bytes") *)
            end
        end
  end.
