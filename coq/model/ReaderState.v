(* ReaderState.v - C08: the per-handle state of ragc's Decompressor (ragc-core/src/decompressor.rs) and of the
   CollectionV3 it owns (ragc-common/src/collection.rs), over an ABSTRACT archive.

   What is state (and therefore modelled):
     - sample_desc[i].contigs: filled lazily by load_contig_batch for ALL batches whenever the asked sample has
       no contigs loaded (get_no_contigs(..).is_none_or(|c| c == 0)); the loader writes at the cumulative cursor
       samples_loaded (reset to 0 when batch 0 is loaded), names first (contigs.clear(); push) then details;
     - samples_loaded, no_samples_in_last_batch;
     - segment_cache: group id -> decoded reference, filled by TWO code paths (get_segment / get_reference_segment).
   What is not state: the sample-name table (read once by open), the stream directory, the file (every read seeks
   to an absolute offset first), in_group_ids (cleared at the start of every deserialize_contig_details).
   What is abstract: the bytes.  An archive is the parsed catalogue (sample names; per batch and per sample, by
   POSITION, the contigs with their segment descriptors; a batch that fails to decode is None), the part 0 of each
   group's reference stream (metadata, data), and two functions for everything stored in delta streams
   (ar_lz g i ref = delta-stream lookup + pack decompression + unpack_contig + LZDiff decode against ref;
   ar_raw g i = the same for raw groups).  zstd (+ tuple unpacking) is the Section variable dz.
   Outcomes: Ok v | Err | Panic (Panic = dev-profile panic: index out of bounds, integer overflow).
   Definitions only. *)
From Ragc Require Export Mach.

Definition name := list N.
Definition name_eqb (a b : name) : bool := list_eqb N.eqb a b.
(* str::starts_with *)
Fixpoint starts_with (s p : name) : bool :=
  match p, s with
  | [], _ => true
  | x :: p', y :: s' => N.eqb x y && starts_with s' p'
  | _ :: _, [] => false
  end.

Record desc := mkDesc { d_group : N; d_in : N; d_rc : bool; d_len : N }.
Definition contig := (name * list desc)%type.
Definition batch := list (list contig).          (* one entry per sample of the batch, positional *)

Record archive := mkAr {
  ar_k : N;                                      (* kmer_length from the params stream *)
  ar_names : list name;                          (* collection-samples *)
  ar_batches : list (option batch);              (* parts of collection-contigs / collection-details, parsed *)
  ar_ref : N -> option (N * list N);             (* part 0 of stream_ref_name(g): (metadata, data); None: no stream *)
  ar_lz : N -> N -> list N -> outcome (list N);  (* group, in_group_id (>= 1), reference -> decoded segment *)
  ar_raw : N -> N -> outcome (list N);           (* raw group (< 16), in_group_id -> segment *)
  ar_streams : list (name * N * N * N)           (* stream directory: name, raw size, packed size, parts *)
}.

Record rstate := mkSt {
  st_tabs : list (list contig);                  (* sample_desc[i].contigs *)
  st_cursor : nat;                               (* samples_loaded *)
  st_last : nat;                                 (* no_samples_in_last_batch *)
  st_cache : list (N * list N)                   (* segment_cache; lookup = first match, insert = cons *)
}.
Definition set_cache (st : rstate) (c : list (N * list N)) : rstate :=
  mkSt (st_tabs st) (st_cursor st) (st_last st) c.

(* Decompressor::open: names loaded, every contig list empty, cursor 0, cache empty *)
Definition fresh (ar : archive) : rstate := mkSt (map (fun _ => []) (ar_names ar)) 0 0 [].

(* sample_ids: HashMap filled in table order by deserialize_sample_names - a later duplicate wins *)
Fixpoint sid_from (ns : list name) (i : nat) (s : name) : option nat :=
  match ns with
  | [] => None
  | n :: r => match sid_from r (S i) s with
              | Some j => Some j
              | None => if name_eqb n s then Some i else None
              end
  end.
Definition sid (ar : archive) (s : name) : option nat := sid_from (ar_names ar) 0 s.

(* ------------------------------------------------------------------ CollectionV3 getters *)
Definition tab (tabs : list (list contig)) (id : nat) : list contig := nth id tabs [].
Definition get_no_contigs (ar : archive) (tabs : list (list contig)) (s : name) : option nat :=
  option_map (fun id => length (tab tabs id)) (sid ar s).
Definition get_contig_list (ar : archive) (tabs : list (list contig)) (s : name) : option (list name) :=
  option_map (fun id => map fst (tab tabs id)) (sid ar s).
Definition get_sample_desc (ar : archive) (tabs : list (list contig)) (s : name) : option (list contig) :=
  option_map (tab tabs) (sid ar s).
Definition get_contig_desc (ar : archive) (tabs : list (list contig)) (s c : name) : option (list desc) :=
  match sid ar s with
  | None => None
  | Some id => option_map snd (find (fun x => name_eqb (fst x) c) (tab tabs id))
  end.

(* ------------------------------------------------------------------ load_contig_batch *)
Fixpoint set_nth {A} (l : list A) (i : nat) (x : A) : list A :=
  match l, i with
  | [], _ => []
  | _ :: r, O => x :: r
  | a :: r, S j => a :: set_nth r j x
  end.

(* for i in 0..n { sample_desc[i_sample + i] = .. }: false = index out of bounds (the earlier writes stay) *)
Fixpoint put (tabs : list (list contig)) (i : nat) (b : batch) : list (list contig) * bool :=
  match b with
  | [] => (tabs, true)
  | cs :: b' => if Nat.ltb i (length tabs) then put (set_nth tabs i cs) (S i) b' else (tabs, false)
  end.

Definition strip (cs : list contig) : list contig := map (fun c => (fst c, @nil desc)) cs.

Definition load_contig_batch (st : rstate) (ob : option batch) (id : nat) : rstate * outcome unit :=
  let i := if Nat.eqb id 0 then O else st_cursor st in        (* if id_batch == 0 { samples_loaded = 0 } *)
  match ob with
  | None => (mkSt (st_tabs st) i (st_last st) (st_cache st), Err)
  | Some b =>
    (* deserialize_contig_names: contigs.clear(); push(ContigDesc::new(name)) - segments empty *)
    match put (st_tabs st) i (map strip b) with
    | (t1, false) => (mkSt t1 i (st_last st) (st_cache st), Panic)
    | (t1, true) =>
      (* deserialize_contig_details: same indices, same shape: contigs[j].segments = .. *)
      match put t1 i b with
      | (t2, false) => (mkSt t2 i (length b) (st_cache st), Panic)
      | (t2, true) => (mkSt t2 (i + length b) (length b) (st_cache st), Ok tt)
      end
    end
  end.

(* for batch_id in 0..num_batches { load_contig_batch(batch_id)? } *)
Fixpoint load_from (bs : list (option batch)) (id : nat) (st : rstate) : rstate * outcome unit :=
  match bs with
  | [] => (st, Ok tt)
  | ob :: r => match load_contig_batch st ob id with
               | (st', Ok _) => load_from r (S id) st'
               | (st', Err) => (st', Err)
               | (st', Panic) => (st', Panic)
               end
  end.
Definition load_all (ar : archive) (st : rstate) : rstate * outcome unit := load_from (ar_batches ar) 0 st.

(* the block repeated in list_contigs / get_contig_length / get_contig_range / get_contig /
   get_contig_segments_desc / get_sample *)
Definition need_load (ar : archive) (st : rstate) (s : name) : bool :=
  match get_no_contigs ar (st_tabs st) s with
  | None => true
  | Some O => true
  | Some (S _) => false
  end.
Definition ensure_loaded (ar : archive) (st : rstate) (s : name) : rstate * outcome unit :=
  if need_load ar st s then load_all ar st else (st, Ok tt).

(* ------------------------------------------------------------------ segments *)
Definition cache_get (c : list (N * list N)) (g : N) : option (list N) :=
  match find (fun e => N.eqb (fst e) g) c with Some e => Some (snd e) | None => None end.

(* Archive::read_part_data: a part of size 0 is returned as (empty, metadata 0) *)
Definition get_part (p : N * list N) : N * list N := match snd p with [] => (0, []) | _ => p end.

Fixpoint pop_last (l : list N) : option (list N * N) :=
  match l with
  | [] => None
  | x :: r => match r with
              | [] => Some ([], x)
              | _ => match pop_last r with Some (b, m) => Some (x :: b, m) | None => None end
              end
  end.

Definition four (b : N) : list N :=
  [N.land (N.shiftr b 6) 3; N.land (N.shiftr b 4) 3; N.land (N.shiftr b 2) 3; N.land b 3].
Definition unpack_2bit (packed : list N) (expected : N) : list N := firstnN expected (flat_map four packed).
Definition revcomp (s : list N) : list N := map (fun b => if b <? 4 then 3 - b else b) (rev s).

Section Zstd.
  (* decompress_segment_with_marker(data, marker): zstd (+ tuples_to_bytes for marker != 0) *)
  Variable dz : list N -> N -> outcome (list N).

  (* get_segment's reference decoder (decompressor.rs 729-799) *)
  Definition ref_via_segment (p : N * list N) : outcome (list N) :=
    let meta := fst p in
    let data := snd p in
    obnd (if meta =? 0 then Ok data
          else match pop_last data with None => Err | Some (body, marker) => dz body marker end)
         (fun dec =>
            let expected := if meta =? 0 then lenN dec else meta in
            let l4 := lenN dec * 4 in
            (* is_packed = ref_metadata != 0 && len*4 >= expected && len*4 < expected + 8  (since 709bfda; before,
               without the first conjunct, a stored-raw reference of 1 or 2 bases was "unpacked" to zeros) *)
            Ok (if negb (meta =? 0) && (expected <=? l4) && (l4 <? expected + 8)
                then unpack_2bit dec expected else dec)).

  (* get_reference_segment's decoder (decompressor.rs 486-506): no 2-bit unpacking *)
  Definition ref_via_query (p : N * list N) : outcome (list N) :=
    let meta := fst p in
    let data := snd p in
    match data with
    | [] => Ok []
    | _ => if meta =? 0 then Ok data
           else match pop_last data with None => Err | Some (body, marker) => dz body marker end
    end.

  Definition get_segment (ar : archive) (st : rstate) (d : desc) : rstate * outcome (list N) :=
    let g := d_group d in
    if 16 <=? g then
      let r := match cache_get (st_cache st) g with
               | Some rf => (st, Ok rf)
               | None =>
                 match ar_ref ar g with
                 | None => (st, Err)
                 | Some p => match ref_via_segment (get_part p) with
                             | Ok rf => (set_cache st ((g, rf) :: st_cache st), Ok rf)
                             | Err => (st, Err)
                             | Panic => (st, Panic)
                             end
                 end
               end in
      match r with
      | (st', Ok rf) => if d_in d =? 0 then (st', Ok rf) else (st', ar_lz ar g (d_in d) rf)
      | (st', Err) => (st', Err)
      | (st', Panic) => (st', Panic)
      end
    else (st, ar_raw ar g (d_in d)).

  Definition get_reference_segment (ar : archive) (st : rstate) (g : N) : rstate * outcome (list N) :=
    match cache_get (st_cache st) g with
    | Some rf => (st, Ok rf)
    | None =>
      match ar_ref ar g with
      | None => (st, Err)
      | Some p => match ref_via_query (get_part p) with
                  | Ok rf => (set_cache st ((g, rf) :: st_cache st), Ok rf)
                  | Err => (st, Err)
                  | Panic => (st, Panic)
                  end
      end
    end.

  Definition orient (d : desc) (sd : list N) : list N := if d_rc d then revcomp sd else sd.

  (* reconstruct_contig *)
  Fixpoint reconstruct (ar : archive) (st : rstate) (ds : list desc) (first : bool) (acc : list N)
    : rstate * outcome (list N) :=
    match ds with
    | [] => (st, Ok acc)
    | d :: r =>
      match get_segment ar st d with
      | (st', Ok sd) =>
        let sd := orient d sd in
        if first then reconstruct ar st' r false (acc ++ sd)
        else if lenN sd <? ar_k ar then (st', Err)       (* "Corrupted archive: segment too short" *)
        else reconstruct ar st' r false (acc ++ skipnN (ar_k ar) sd)
      | (st', Err) => (st', Err)
      | (st', Panic) => (st', Panic)
      end
    end.

  Fixpoint reconstruct_all (ar : archive) (st : rstate) (cs : list contig) (acc : list (name * list N))
    : rstate * outcome (list (name * list N)) :=
    match cs with
    | [] => (st, Ok acc)
    | c :: r =>
      match reconstruct ar st (snd c) true [] with
      | (st', Ok sq) => reconstruct_all ar st' r (acc ++ [(fst c, sq)])
      | (st', Err) => (st', Err)
      | (st', Panic) => (st', Panic)
      end
    end.

  (* get_contig_length: `raw_length as usize - kmer_len` traps in the dev profile when raw_length < k *)
  Fixpoint total_len (k : N) (ds : list desc) (first : bool) (acc : N) : outcome N :=
    match ds with
    | [] => Ok acc
    | d :: r => if first then total_len k r false (acc + d_len d)
                else match sub_u64 (d_len d) k with
                     | None => Panic
                     | Some c => total_len k r false (acc + c)
                     end
    end.

  (* get_contig_range, first loop: (seg_start, seg_end, descriptor, is_first) and the contig length *)
  Fixpoint seg_ranges (k : N) (ds : list desc) (first : bool) (pos : N)
    : outcome (list (N * N * desc * bool) * N) :=
    match ds with
    | [] => Ok ([], pos)
    | d :: r =>
      match (if first then Some (d_len d) else sub_u64 (d_len d) k) with
      | None => Panic
      | Some c => obnd (seg_ranges k r false (pos + c))
                       (fun x => Ok ((pos, pos + c, d, first) :: fst x, snd x))
      end
    end.

  (* get_contig_range, second loop *)
  Fixpoint range_loop (ar : archive) (st : rstate) (rs : list (N * N * desc * bool)) (start end_ : N)
           (acc : list N) : rstate * outcome (list N) :=
    match rs with
    | [] => (st, Ok acc)
    | (s0, e0, d, first) :: r =>
      if e0 <=? start then range_loop ar st r start end_ acc
      else if end_ <=? s0 then (st, Ok acc)
      else match get_segment ar st d with
           | (st', Ok sd) =>
             let sd := orient d sd in
             let cs := if first then 0 else ar_k ar in
             let rs_ := start - s0 in                          (* saturating_sub *)
             let re_ := N.min (end_ - s0) (e0 - s0) in
             let a := cs + rs_ in
             let b := cs + re_ in
             let acc' := if (a <? b) && (b <=? lenN sd) then acc ++ firstnN (b - a) (skipnN a sd) else acc in
             range_loop ar st' r start end_ acc'
           | (st', Err) => (st', Err)
           | (st', Panic) => (st', Panic)
           end
    end.

  (* get_group_statistics / get_all_segments, after the load: for each sample name of the table, for each name of
     its contig list, get_contig_desc (the FIRST contig of that name) *)
  Definition segs_of_sample (ar : archive) (tabs : list (list contig)) (s : name) (cl : list name)
    : list (name * name * list desc) :=
    flat_map (fun cn => match get_contig_desc ar tabs s cn with Some ds => [(s, cn, ds)] | None => [] end) cl.
  Fixpoint collect_segments (ar : archive) (tabs : list (list contig)) (ns : list name)
    : outcome (list (name * name * list desc)) :=
    match ns with
    | [] => Ok []
    | s :: r => match get_contig_list ar tabs s with
                | None => Err
                | Some cl => obnd (collect_segments ar tabs r) (fun rest => Ok (segs_of_sample ar tabs s cl ++ rest))
                end
    end.

  (* HashMap<group, (total, refs, deltas)> then sort_by_key(group): kept sorted here *)
  Fixpoint bump (stats : list (N * (N * N * N))) (g : N) (isref : bool) : list (N * (N * N * N)) :=
    let one := if isref then (1, 1, 0) else (1, 0, 1) in
    match stats with
    | [] => [(g, one)]
    | (g', (t, r, dl)) :: rest =>
      if g <? g' then (g, one) :: stats
      else if g =? g' then (g', if isref then (t + 1, r + 1, dl) else (t + 1, r, dl + 1)) :: rest
      else (g', (t, r, dl)) :: bump rest g isref
    end.
  Definition group_stats (l : list (name * name * list desc)) : list (N * (N * N * N)) :=
    fold_left (fun acc x => fold_left (fun acc d => bump acc (d_group d) ((16 <=? d_group d) && (d_in d =? 0)))
                                      (snd x) acc) l [].

  (* ---------------------------------------------------------------- the public queries *)
  Inductive query :=
  | QListSamples
  | QPrefix (p : name)
  | QCompStats
  | QListContigs (s : name)
  | QContigLength (s c : name)
  | QContigRange (s c : name) (a b : N)
  | QContig (s c : name)
  | QSegDesc (s c : name)
  | QSegData (d : desc)
  | QRefSeg (g : N)
  | QSample (s : name)
  | QGroupStats
  | QAllSegments.

  Inductive value :=
  | VNames (l : list name)
  | VNum (n : N)
  | VSeq (l : list N)
  | VDescs (l : list desc)
  | VSample (l : list (name * list N))
  | VStats (l : list (N * (N * N * N)))
  | VAll (l : list (name * name * list desc))
  | VStreams (l : list (name * N * N * N)).

  Definition lift {A} (f : A -> value) (r : rstate * outcome A) : rstate * outcome value :=
    match r with
    | (st, Ok a) => (st, Ok (f a))
    | (st, Err) => (st, Err)
    | (st, Panic) => (st, Panic)
    end.

  (* run f on the state left by the loader, if the loader succeeded *)
  Definition after {A} (r : rstate * outcome unit) (f : rstate -> rstate * outcome A) : rstate * outcome A :=
    match r with
    | (st, Ok _) => f st
    | (st, Err) => (st, Err)
    | (st, Panic) => (st, Panic)
    end.

  Definition step (ar : archive) (st : rstate) (q : query) : rstate * outcome value :=
    match q with
    | QListSamples => (st, Ok (VNames (ar_names ar)))
    | QPrefix p => (st, Ok (VNames (filter (fun s => starts_with s p) (ar_names ar))))
    | QCompStats => (st, Ok (VStreams (ar_streams ar)))
    | QListContigs s =>
      after (ensure_loaded ar st s) (fun st =>
        match get_contig_list ar (st_tabs st) s with Some l => (st, Ok (VNames l)) | None => (st, Err) end)
    | QContigLength s c =>
      after (ensure_loaded ar st s) (fun st =>
        match get_contig_desc ar (st_tabs st) s c with
        | None => (st, Err)
        | Some ds => lift VNum (st, total_len (ar_k ar) ds true 0)
        end)
    | QContigRange s c a b =>
      if b <=? a then (st, Ok (VSeq []))
      else after (ensure_loaded ar st s) (fun st =>
        match get_contig_desc ar (st_tabs st) s c with
        | None => (st, Err)
        | Some ds =>
          match seg_ranges (ar_k ar) ds true 0 with
          | Panic => (st, Panic)
          | Err => (st, Err)
          | Ok (rs, clen) =>
            let e := N.min b clen in
            if e <=? a then (st, Ok (VSeq []))
            else lift VSeq (range_loop ar st rs a e [])
          end
        end)
    | QContig s c =>
      after (ensure_loaded ar st s) (fun st =>
        match get_contig_desc ar (st_tabs st) s c with
        | None => (st, Err)
        | Some ds => lift VSeq (reconstruct ar st ds true [])
        end)
    | QSegDesc s c =>
      after (ensure_loaded ar st s) (fun st =>
        match get_contig_desc ar (st_tabs st) s c with Some ds => (st, Ok (VDescs ds)) | None => (st, Err) end)
    | QSegData d => lift VSeq (get_segment ar st d)
    | QRefSeg g => lift VSeq (get_reference_segment ar st g)
    | QSample s =>
      after (ensure_loaded ar st s) (fun st =>
        match get_sample_desc ar (st_tabs st) s with
        | None => (st, Err)
        | Some cs => lift VSample (reconstruct_all ar st cs [])
        end)
    | QGroupStats =>
      after (load_all ar st) (fun st =>
        lift (fun l => VStats (group_stats l)) (st, collect_segments ar (st_tabs st) (ar_names ar)))
    | QAllSegments =>
      after (load_all ar st) (fun st => lift VAll (st, collect_segments ar (st_tabs st) (ar_names ar)))
    end.

  Fixpoint run (ar : archive) (st : rstate) (h : list query) : rstate :=
    match h with
    | [] => st
    | q :: r => run ar (fst (step ar st q)) r
    end.
  (* the outcome of q on a handle that was opened and then asked h *)
  Definition ask_after (ar : archive) (h : list query) (q : query) : outcome value :=
    snd (step ar (run ar (fresh ar) h) q).

  (* ---------------------------------------------------------------- the stateless specification *)
  Definition batch_or_nil (ob : option batch) : batch := match ob with Some b => b | None => [] end.
  Definition all_entries (ar : archive) : list (list contig) := concat (map batch_or_nil (ar_batches ar)).
  (* the complete catalogue: batch entries by position, samples beyond them have no contigs *)
  Definition catalogue (ar : archive) : list (list contig) :=
    all_entries ar ++ repeat [] (length (ar_names ar) - length (all_entries ar)).

  Definition ref_spec (ar : archive) (g : N) : outcome (list N) :=
    match ar_ref ar g with None => Err | Some p => ref_via_segment (get_part p) end.
  Definition seg_spec (ar : archive) (d : desc) : outcome (list N) :=
    if 16 <=? d_group d then
      obnd (ref_spec ar (d_group d)) (fun rf => if d_in d =? 0 then Ok rf else ar_lz ar (d_group d) (d_in d) rf)
    else ar_raw ar (d_group d) (d_in d).

  Fixpoint recon_spec (ar : archive) (ds : list desc) (first : bool) (acc : list N) : outcome (list N) :=
    match ds with
    | [] => Ok acc
    | d :: r =>
      obnd (seg_spec ar d) (fun sd =>
        let sd := orient d sd in
        if first then recon_spec ar r false (acc ++ sd)
        else if lenN sd <? ar_k ar then Err
        else recon_spec ar r false (acc ++ skipnN (ar_k ar) sd))
    end.
  Fixpoint recon_all_spec (ar : archive) (cs : list contig) (acc : list (name * list N))
    : outcome (list (name * list N)) :=
    match cs with
    | [] => Ok acc
    | c :: r => obnd (recon_spec ar (snd c) true []) (fun sq => recon_all_spec ar r (acc ++ [(fst c, sq)]))
    end.
  Fixpoint range_spec (ar : archive) (rs : list (N * N * desc * bool)) (start end_ : N) (acc : list N)
    : outcome (list N) :=
    match rs with
    | [] => Ok acc
    | (s0, e0, d, first) :: r =>
      if e0 <=? start then range_spec ar r start end_ acc
      else if end_ <=? s0 then Ok acc
      else obnd (seg_spec ar d) (fun sd =>
             let sd := orient d sd in
             let cs := if first then 0 else ar_k ar in
             let rs_ := start - s0 in
             let re_ := N.min (end_ - s0) (e0 - s0) in
             let a := cs + rs_ in
             let b := cs + re_ in
             let acc' := if (a <? b) && (b <=? lenN sd) then acc ++ firstnN (b - a) (skipnN a sd) else acc in
             range_spec ar r start end_ acc')
    end.

  Definition omap {A} (f : A -> value) (o : outcome A) : outcome value :=
    match o with Ok a => Ok (f a) | Err => Err | Panic => Panic end.

  Definition answer (ar : archive) (q : query) : outcome value :=
    let cat := catalogue ar in
    match q with
    | QListSamples => Ok (VNames (ar_names ar))
    | QPrefix p => Ok (VNames (filter (fun s => starts_with s p) (ar_names ar)))
    | QCompStats => Ok (VStreams (ar_streams ar))
    | QListContigs s => match get_contig_list ar cat s with Some l => Ok (VNames l) | None => Err end
    | QContigLength s c =>
      match get_contig_desc ar cat s c with None => Err | Some ds => omap VNum (total_len (ar_k ar) ds true 0) end
    | QContigRange s c a b =>
      if b <=? a then Ok (VSeq [])
      else match get_contig_desc ar cat s c with
           | None => Err
           | Some ds =>
             match seg_ranges (ar_k ar) ds true 0 with
             | Panic => Panic
             | Err => Err
             | Ok (rs, clen) =>
               let e := N.min b clen in
               if e <=? a then Ok (VSeq []) else omap VSeq (range_spec ar rs a e [])
             end
           end
    | QContig s c =>
      match get_contig_desc ar cat s c with None => Err | Some ds => omap VSeq (recon_spec ar ds true []) end
    | QSegDesc s c => match get_contig_desc ar cat s c with Some ds => Ok (VDescs ds) | None => Err end
    | QSegData d => omap VSeq (seg_spec ar d)
    | QRefSeg g => match ar_ref ar g with None => Err | Some p => omap VSeq (ref_via_query (get_part p)) end
    | QSample s =>
      match get_sample_desc ar cat s with None => Err | Some cs => omap VSample (recon_all_spec ar cs []) end
    | QGroupStats => omap (fun l => VStats (group_stats l)) (collect_segments ar cat (ar_names ar))
    | QAllSegments => omap VAll (collect_segments ar cat (ar_names ar))
    end.

  (* ---------------------------------------------------------------- several handles: clone_for_thread *)
  (* clone_for_thread(&self) = Self::open(&self.archive_path, ..): the clone starts from the open state and shares
     nothing with its parent (own File, own CollectionV3, own cache) *)
  Inductive sysop :=
  | OpQuery (h : nat) (q : query)       (* handle number h (missing handle: no-op) asks q *)
  | OpClone (h : nat).                  (* handle h is cloned; the clone gets the next number *)

  Definition sys_step (ar : archive) (hs : list rstate) (o : sysop) : list rstate * option (outcome value) :=
    match o with
    | OpQuery h q =>
      match nth_error hs h with
      | None => (hs, None)
      | Some st => let r := step ar st q in (set_nth hs h (fst r), Some (snd r))
      end
    | OpClone h =>
      match nth_error hs h with
      | None => (hs, None)
      | Some _ => (hs ++ [fresh ar], None)
      end
    end.
  Fixpoint sys_run (ar : archive) (hs : list rstate) (os : list sysop) : list rstate :=
    match os with
    | [] => hs
    | o :: r => sys_run ar (fst (sys_step ar hs o)) r
    end.
End Zstd.
