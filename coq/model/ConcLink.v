(* ConcLink.v - vocabulary of the link between the three concurrency models (definitions only):
     Queue.v     (C06)  the MemoryBoundedQueue as a transition system at condvar level,
     Protocol.v  (C05)  producer script + N workers + ITS OWN copy of the queue + barrier,
   Part 1 (this file): the projection of a Protocol state onto a Queue state and of a Protocol label onto a list
   of Queue events (forward simulation, proofs/ConcLink_proofs.v).  Part 2 (Protocol rounds vs Determinism.v) has
   its vocabulary in ConcLinkR.v.

   What is related, exactly:
   - threads: the producer is queue thread 0, worker w is queue thread w+1;
   - items: same admission number and size; the Queue.v priority is a single Z, ContigTask's order is
     (sample_priority, cost, REVERSED sequence): `rank` packs the triple lexicographically into Z.  It is an order
     embedding (task_le a b = true <-> rank a <= rank b) on tasks whose cost and sequence are below 2^64 (they
     are usize / u64 in the Rust code): `task_bounded`;
   - current_size, closed, next_seq: equal;
   - blocked in not_full.wait / woken from it: the producer in PWaitF / PWokenF, with the arguments of the push
     at the head of `todo`;
   - blocked in not_empty.wait: workers in WWaitE WHILE THE QUEUE IS OPEN; woken: workers in WWokenE, and workers
     in WWaitE once the queue is closed (Protocol.v models close()'s notify_all as a step that each waiter takes
     later, Queue.v moves all waiters at the close event: the projection absorbs the difference, the later
     Protocol step WWaitE -> WWokenE projects to no queue event);
   - Queue.v records the blocked / woken consumers in lists whose order depends on the history; the projection
     lists them by worker index, and `qsim` is equality up to that order (same set, no duplicates);
   - the ghost histories accepted / returned of Queue.v are lists of Protocol items (acc, ret) that Protocol.v
     does not keep; they are tied to Protocol's own ghosts pushed / segd / in-flight contigs (`ghost_link`);
   - Queue.v checks current_size + size_bytes < 2^64 (a trap otherwise), Protocol.v does not model the overflow:
     the simulation is for scripts whose contig sizes sum to less than 2^64 (`script_bounded`);
   - Protocol's poll loop (queue.len() in drain / sync_and_flush), the join and all barrier / phase steps do not
     touch the queue: they project to the empty list of events. *)
From Coq Require Import Permutation.
From Ragc Require Export Mach.
From Ragc Require Queue.
From Ragc Require Import Protocol.
Open Scope N_scope.

(* ------------------------------------------------------------------------------------------------ threads *)
Definition ptid : Queue.tid := 0.
Definition wtid (w : nat) : Queue.tid := N.succ (N.of_nat w).

(* --------------------------------------------------------------------------------------------- priorities *)
Definition two64Z : Z := 18446744073709551616%Z.
Definition rank (t : task) : Z :=
  (tprio t * (two64Z * two64Z) + Z.of_N (tcost t) * two64Z + (two64Z - 1 - Z.of_N (tord t)))%Z.
Definition task_bounded (t : task) : Prop := tcost t < two64 /\ tord t < two64.

Definition qitem (i : item) : Queue.item := Queue.mkItem (iseq i) (rank (itask i)) (tsize (itask i)).
Definition preq_of (t : task) : Queue.preq := (rank t, tsize t).

(* ------------------------------------------------------------------------------------------ the projection *)
Definition abs_wfull (s : state) : list (Queue.tid * Queue.preq) :=
  match pst s, todo s with PWaitF, OPush t :: _ => [(ptid, preq_of t)] | _, _ => [] end.
Definition abs_kfull (s : state) : list (Queue.tid * Queue.preq) :=
  match pst s, todo s with PWokenF, OPush t :: _ => [(ptid, preq_of t)] | _, _ => [] end.

Definition blockedE (c : bool) (w : worker) : bool := match pc w with WWaitE => negb c | _ => false end.
Definition wokenE (c : bool) (w : worker) : bool :=
  match pc w with WWokenE => true | WWaitE => c | _ => false end.
Fixpoint wtids_from (i : nat) (f : worker -> bool) (l : list worker) : list Queue.tid :=
  match l with
  | [] => []
  | w :: r => if f w then wtid i :: wtids_from (S i) f r else wtids_from (S i) f r
  end.

(* acc / ret: the items admitted / handed out so far (ghost, newest first) *)
Definition abs (s : state) (acc ret : list item) : Queue.state :=
  Queue.mkState (map qitem (items s)) (cur s) (closed s) (nseq s) (abs_wfull s) (abs_kfull s)
                (wtids_from 0 (blockedE (closed s)) (ws s)) (wtids_from 0 (wokenE (closed s)) (ws s))
                (map qitem acc) (map qitem ret).

Definition same_set (l l' : list N) : Prop := NoDup l /\ forall t, In t l <-> In t l'.
(* equality of queue states up to the order in which blocked / woken consumers are listed *)
Definition qsim (q q' : Queue.state) : Prop :=
  Queue.items q = Queue.items q' /\ Queue.cur q = Queue.cur q' /\ Queue.closed q = Queue.closed q' /\
  Queue.nseq q = Queue.nseq q' /\ Queue.wfull q = Queue.wfull q' /\ Queue.kfull q = Queue.kfull q' /\
  same_set (Queue.wempty q) (Queue.wempty q') /\ same_set (Queue.kempty q) (Queue.kempty q') /\
  Queue.accepted q = Queue.accepted q' /\ Queue.returned q = Queue.returned q'.

(* --------------------------------------------------------------------------------- labels to queue events *)
Definition ntf_tid (ntf : option nat) : option Queue.tid :=
  match ntf with Some i => Some (wtid i) | None => None end.

Definition push_events (pa : params) (s : state) (t : task) (woke : bool) (ntf : option nat) : list Queue.event :=
  if push_blocked pa s (tsize t) then [Queue.EPushWait ptid (rank t) (tsize t) woke]
  else [Queue.EPushAdmit ptid (rank t) (tsize t) woke (ntf_tid ntf)].

Definition pull_events (s : state) (w : nat) (woke : bool) (sq : N) : list Queue.event :=
  match items s with
  | [] => if closed s then [Queue.EPullNone (wtid w) woke] else [Queue.EPullWait (wtid w) woke]
  | _ :: _ => [Queue.EPullTake (wtid w) woke sq (match pst s with PWaitF => Some ptid | _ => None end)]
  end.

Definition qevents (pa : params) (s : state) (l : label) : list Queue.event :=
  match l with
  | LProd ntf =>
    match pst s, todo s with
    | PRun, OPush t :: _ => push_events pa s t false ntf
    | PWokenF, OPush t :: _ => push_events pa s t true ntf
    | PRun, [] => [Queue.EClose ptid]
    | _, _ => []
    end
  | LWork w sq _ =>
    match nth_error (ws s) w with
    | Some wk =>
      match pc wk with
      | WPull => pull_events s w false sq
      | WWokenE => pull_events s w true sq
      | _ => []
      end
    | None => []
    end
  | LSpurE w => if closed s then [] else [Queue.ESpurEmpty (wtid w)]
  | LSpurF => [Queue.ESpurFull ptid]
  end.

(* ------------------------------------------------------------------------------- the scripts in the domain *)
Definition cmd_bounded (c : cmd) : Prop :=
  match c with
  | Contig _ _ o => o < two64
  | TokenBlock _ o => o < two64
  | Drain => True
  | SyncAndFlush o => o < two64
  end.
Definition sumN (l : list N) : N := fold_right N.add 0 l.
(* sequence numbers are u64, the contigs of one run are resident in memory together *)
Definition script_bounded (script : list cmd) : Prop :=
  Forall cmd_bounded script /\ sumN (contig_sizes script) < two64.

Definition op_size (o : pop) : N := match o with OPush t => tsize t | OPoll => 0 end.
Definition todo_size (l : list pop) : N := fold_right (fun o a => op_size o + a) 0 l.
Definition op_bounded (o : pop) : Prop := match o with OPush t => task_bounded t | OPoll => True end.

(* ---------------------------------------------------------------------------------- ghost histories linked *)
Definition nontok (i : item) : bool := negb (ttok (itask i)).
Definition ctg_seqs (l : list item) : list N := map iseq (filter nontok l).

(* acc / ret against Protocol's own ghost fields: the contigs counted as pushed are exactly the non-token
   accepted items; the contigs handed out by the queue are exactly the segmented ones plus those a worker holds *)
Definition ghost_link (s : state) (acc ret : list item) : Prop :=
  pushed s = ctg_seqs acc /\
  Permutation (ctg_seqs ret) (segd s ++ inflight (ws s)).

Definition sum_sizes (l : list item) : N := fold_right (fun i a => tsize (itask i) + a) 0 l.

(* what the simulation carries along besides the projection: the ghost link, the part of the script already
   executed (every accepted item was pushed by an operation of it), no usize overflow ahead, and every queued
   task inside the domain of `rank` *)
Definition hist_ok (pa : params) (script : list cmd) (s : state) (acc ret : list item) : Prop :=
  ghost_link s acc ret /\
  (exists pre, todo_of (nthr pa) script = pre ++ todo s /\ Forall (fun i => In (OPush (itask i)) pre) acc) /\
  cur s + todo_size (todo s) <= todo_size (todo_of (nthr pa) script) /\
  Forall (fun i => task_bounded (itask i)) (items s).

(* the queue events of a whole Protocol trace *)
Fixpoint qtrace (pa : params) (s : state) (tr : list label) : list Queue.event :=
  match tr with
  | [] => []
  | l :: r => qevents pa s l ++ match step pa s l with Some s' => qtrace pa s' r | None => [] end
  end.
