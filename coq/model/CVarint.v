(* CVarint.v - transcription of ragc-common/src/collection.rs `CollectionVarInt`
   (prefix varint of the collection streams; NOT the LEB-like varint of varint.rs),
   `encode_string` / `decode_string` / `decode_bytes_string` and Rust's UTF-8 validation
   (needed because names travel as `String`: `from_utf8` / `from_utf8_lossy`).
   u32 arithmetic of the dev profile: an overflowing `+=` is [Panic].  Definitions only. *)
From Ragc Require Export Mach.
From Ragc Require Import Consts_collection.
Open Scope N_scope.

(* ---- CollectionVarInt::encode(data, num : u32): the bytes pushed *)
Definition cv_encode (num : N) : list N :=
  if num <? cv_thr_1 then [cv_pref_1 + num]
  else if num <? cv_thr_2 then
    let n := num - cv_thr_1 in
    [cv_pref_2 + N.shiftr n 8; N.land n 255]
  else if num <? cv_thr_3 then
    let n := num - cv_thr_2 in
    [cv_pref_3 + N.shiftr n 16; N.land (N.shiftr n 8) 255; N.land n 255]
  else if num <? cv_thr_4 then
    let n := num - cv_thr_3 in
    [cv_pref_4 + N.shiftr n 24; N.land (N.shiftr n 16) 255; N.land (N.shiftr n 8) 255; N.land n 255]
  else
    let n := num - cv_thr_4 in
    [cv_pref_5; N.land (N.shiftr n 24) 255; N.land (N.shiftr n 16) 255; N.land (N.shiftr n 8) 255; N.land n 255].

(* ---- CollectionVarInt::decode(ptr): value and the advanced slice.
   Err = `bail!` (short input).  The 2/3/4-byte sums cannot leave u32 (first byte is bounded by
   its mask class); the 5-byte form adds THR_4 to a full 32-bit value: `num.checked_add(THR_4).context(..)?`
   = Err when it leaves u32 (Consts_collection.cv5_checked = true; the older `num += THR_4` form, false,
   was a [Panic] in the dev profile). *)
Definition cv_decode (ptr : list N) : outcome (N * list N) :=
  match ptr with
  | [] => Err
  | first :: _ =>
    if N.land first cv_mask_1 =? cv_pref_1 then
      Ok (first - cv_pref_1, tl ptr)
    else if N.land first cv_mask_2 =? cv_pref_2 then
      match ptr with
      | p0 :: p1 :: r =>
        Ok (N.shiftl p0 8 + p1 + cv_thr_1 - N.shiftl cv_pref_2 8, r)
      | _ => Err
      end
    else if N.land first cv_mask_3 =? cv_pref_3 then
      match ptr with
      | p0 :: p1 :: p2 :: r =>
        Ok (N.shiftl p0 16 + N.shiftl p1 8 + p2 + cv_thr_2 - N.shiftl cv_pref_3 16, r)
      | _ => Err
      end
    else if N.land first cv_mask_4 =? cv_pref_4 then
      match ptr with
      | p0 :: p1 :: p2 :: p3 :: r =>
        Ok (N.shiftl p0 24 + N.shiftl p1 16 + N.shiftl p2 8 + p3 + cv_thr_3 - N.shiftl cv_pref_4 24, r)
      | _ => Err
      end
    else
      match ptr with
      | _ :: p1 :: p2 :: p3 :: p4 :: r =>
        let num := N.shiftl (N.shiftl (N.shiftl p1 8 + p2) 8 + p3) 8 + p4 in
        match add_u32 num cv_thr_4 with
        | Some v => Ok (v, r)
        | None => if cv5_checked then Err else Panic
        end
      | _ => Err
      end
  end.

(* ---- decode [n] varints in sequence (the `for _ in 0..no_items { v.push(decode(&mut ptr)?) }` loops) *)
Fixpoint cv_decode_n (n : nat) (ptr : list N) : outcome (list N * list N) :=
  match n with
  | O => Ok ([], ptr)
  | S n' =>
    obnd (cv_decode ptr) (fun vr =>
    obnd (cv_decode_n n' (snd vr)) (fun wr => Ok (fst vr :: fst wr, snd wr)))
  end.

(* ---- encode_string: bytes then NUL;  decode_bytes_string: up to the first NUL (Err when there is none) *)
Definition enc_cstring (s : list N) : list N := s ++ [0].

Fixpoint dec_cbytes (ptr : list N) : outcome (list N * list N) :=
  match ptr with
  | [] => Err
  | b :: r => if b =? 0 then Ok ([], r)
              else obnd (dec_cbytes r) (fun sr => Ok (b :: fst sr, snd sr))
  end.

(* ---- Rust UTF-8: core::str::from_utf8 (valid?) and String::from_utf8_lossy (Utf8Chunks: every maximal
   invalid prefix of a sequence becomes one U+FFFD = EF BF BD).  [utf8_scan l] = (valid, lossy l). *)
Definition u_cont (b : N) : bool := N.land b 192 =? 128.
Definition u_fffd : list N := [239; 191; 189].
Definition u_in (lo hi b : N) : bool := (lo <=? b) && (b <=? hi).
Definition u_second3 (b c : N) : bool :=
  ((b =? 224) && u_in 160 191 c) || (u_in 225 236 b && u_in 128 191 c) ||
  ((b =? 237) && u_in 128 159 c) || (u_in 238 239 b && u_in 128 191 c).
Definition u_second4 (b c : N) : bool :=
  ((b =? 240) && u_in 144 191 c) || (u_in 241 243 b && u_in 128 191 c) || ((b =? 244) && u_in 128 143 c).

Definition u_bad (r : bool * list N) : bool * list N := (false, u_fffd ++ snd r).
Definition u_good (pre : list N) (r : bool * list N) : bool * list N := (fst r, pre ++ snd r).

Fixpoint utf8_scan (l : list N) : bool * list N :=
  match l with
  | [] => (true, [])
  | b :: r =>
    if b <? 128 then u_good [b] (utf8_scan r)
    else if u_in 194 223 b then
      match r with
      | c1 :: r1 => if u_cont c1 then u_good [b; c1] (utf8_scan r1) else u_bad (utf8_scan r)
      | [] => u_bad (true, [])
      end
    else if u_in 224 239 b then
      match r with
      | c1 :: r1 =>
        if u_second3 b c1 then
          match r1 with
          | c2 :: r2 => if u_cont c2 then u_good [b; c1; c2] (utf8_scan r2) else u_bad (utf8_scan r1)
          | [] => u_bad (true, [])
          end
        else u_bad (utf8_scan r)
      | [] => u_bad (true, [])
      end
    else if u_in 240 244 b then
      match r with
      | c1 :: r1 =>
        if u_second4 b c1 then
          match r1 with
          | c2 :: r2 =>
            if u_cont c2 then
              match r2 with
              | c3 :: r3 => if u_cont c3 then u_good [b; c1; c2; c3] (utf8_scan r3) else u_bad (utf8_scan r2)
              | [] => u_bad (true, [])
              end
            else u_bad (utf8_scan r1)
          | [] => u_bad (true, [])
          end
        else u_bad (utf8_scan r)
      | [] => u_bad (true, [])
      end
    else u_bad (utf8_scan r)
  end.

Definition utf8_valid (l : list N) : bool := fst (utf8_scan l).
Definition utf8_lossy (l : list N) : list N := snd (utf8_scan l).

(* CollectionVarInt::decode_string: NUL-terminated, then String::from_utf8 (Err when invalid) *)
Definition dec_cstring (ptr : list N) : outcome (list N * list N) :=
  obnd (dec_cbytes ptr) (fun sr => if utf8_valid (fst sr) then Ok sr else Err).
