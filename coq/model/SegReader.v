(* SegReader.v - the reader half of segment addressing: transcription of
   ragc-core/src/decompressor.rs  get_segment / unpack_contig / unpack_2bit  (tree at 709bfda: the is_packed
   heuristic requires ref_metadata != 0).  Definitions only.

   ======================= INTERFACE (fixed; used by Pipeline / props C01, do not change) =======================
   seg_desc      : what a descriptor of the collection gives the reader: group, in-group id, orientation flag,
                   raw length.  get_segment uses only d_group and d_id (d_rc is undone by the caller,
                   d_len is what `desc_len_is_decoded_len` talks about).
   part          : (metadata, bytes) as Archive::get_part_by_id returns them (bytes = what is stored in the part,
                   i.e. still compressed and with the trailing marker byte when metadata <> 0).
   group_view    : the two streams of one group: gv_ref = parts of x<id>r, gv_delta = parts of x<id>d,
                   None = no stream of that name in the archive (get_stream_id returned None).
   archive_view  : group id -> group_view   (build it from a name-indexed archive with
                   fun g => {| gv_ref := lookup (stream_ref_name g); gv_delta := lookup (stream_delta_name g) |}).
   get_segment dwm lz_dec ar d : outcome (list N)
                   dwm    = segment_compression::decompress_segment_with_marker  (compressed bytes, marker)
                   lz_dec = fun reference encoded => LZDiff::new(min_match_len); prepare(reference); decode(encoded)
                            (only called with a non-empty [encoded]: the empty case is handled here as in the code)
                   returns the STORED bytes of the segment (orientation is not undone here).
                   Err = an anyhow error reaches the caller, Panic = the real code panics.
   Writer side (model/GroupStore.v, same codecs-as-arguments style: lz_enc compress_ref compress_pack):
     seg_in = { s_sample; s_contig; s_part; s_data; s_rc }        a stored segment (BufferedSegment)
     op     = (group id, list seg_in)                              one call of the per-round step for one group
     run lz_enc compress_ref compress_pack (ops : list op) : outcome store      (Panic = u32 id counter overflow)
     finalize compress_pack st : store                             the finalize flush of every group
     view_of st : archive_view
     regs_of st g : list (seg_in * N)                              registrations of group g: (segment, in_group_id)
     desc_of g s id : seg_desc = { g; id; s_rc s; wrap32 (lenN (s_data s)) }
     segs_of ops g : list seg_in                                   everything pushed to g
   Main theorem (proofs/GroupStore_proofs.v [store_then_get_proof], pinned in props/C02.v as store_then_get):
     <codec hypotheses> -> ops_ok ops ->
     run .. ops = Ok st -> In (s, id) (regs_of st g) ->
       get_segment dwm lz_dec (view_of (finalize compress_pack st)) (desc_of g s id) = Ok (s_data s)
       /\ d_len (desc_of g s id) = lenN (s_data s)
   and [every_segment_registered]: run .. ops = Ok st -> Permutation (map fst (regs_of st g)) (segs_of ops g).
   ============================================================================================================ *)
From Ragc Require Export Mach.
From Ragc Require Import Consts_groupstore.
Open Scope N_scope.

Record seg_desc := { d_group : N; d_id : N; d_rc : bool; d_len : N }.

Definition part := (N * list N)%type.                      (* (metadata, stored bytes) *)
Record group_view := { gv_ref : option (list part); gv_delta : option (list part) }.
Definition archive_view := N -> group_view.

Definition is_nil {A} (l : list A) : bool := match l with [] => true | _ => false end.

(* decompressor.rs unpack_contig: the [pos]-th piece of [l] split at CONTIG_SEPARATOR; a trailing piece without
   separator counts ("Handle last contig").  [cur] = current_position, [acc] = bytes since contig_start, reversed. *)
Fixpoint unpack_contig_aux (l : list N) (pos cur : N) (acc : list N) : outcome (list N) :=
  match l with
  | [] => if cur =? pos then Ok (rev acc) else Err
  | b :: l' =>
      if b =? CONTIG_SEPARATOR then
        (if cur =? pos then Ok (rev acc) else unpack_contig_aux l' pos (cur + 1) [])
      else unpack_contig_aux l' pos cur (b :: acc)
  end.
Definition unpack_contig (packed : list N) (pos : N) : outcome (list N) := unpack_contig_aux packed pos 0 [].

(* decompressor.rs unpack_2bit: four 2-bit symbols per byte, most significant first, truncated to [expected] *)
Definition unpack_2bit_byte (b : N) : list N :=
  [N.land (N.shiftr b 6) 3; N.land (N.shiftr b 4) 3; N.land (N.shiftr b 2) 3; N.land b 3].
Definition unpack_2bit (packed : list N) (expected : N) : list N :=
  firstnN expected (flat_map unpack_2bit_byte packed).

Section Reader.
  Variable dwm : list N -> N -> outcome (list N).            (* decompress_segment_with_marker *)
  Variable lz_dec : list N -> list N -> outcome (list N).    (* reference -> encoded -> decoded *)

  (* `if metadata == 0 { data } else { if data.is_empty() { bail } marker = data.pop(); decompress(.., marker) }`
     (three textually identical sites in get_segment: reference, LZ delta pack, raw pack) *)
  Definition load_part (p : part) : outcome (list N) :=
    let '(meta, data) := p in
    if meta =? 0 then Ok data
    else match data with
         | [] => Err
         | _ => dwm (removelast data) (last data 0)
         end.

  (* Archive::get_part_by_id on a stream that exists: part index out of range is an error *)
  Definition get_part (parts : list part) (i : N) : outcome part :=
    match nthN parts i with Some p => Ok p | None => Err end.

  (* the reference of an LZ group as get_segment caches it (segment_cache is only a memo of this value) *)
  Definition load_reference (gv : group_view) : outcome (list N) :=
    match gv_ref gv with
    | None => Err                                            (* "Reference stream not found" *)
    | Some rparts =>
        obnd (get_part rparts R_REF_PART) (fun p =>
        obnd (load_part p) (fun dref =>
          let meta := fst p in
          let expected := if negb (meta =? 0) then meta else lenN dref in
          let is_packed := negb (meta =? 0)
                           && (expected <=? lenN dref * R_PACKED_MUL_LO)
                           && (lenN dref * R_PACKED_MUL_HI <? expected + R_PACKED_SLACK) in
          Ok (if is_packed then unpack_2bit dref expected else dref)))
    end.

  Definition get_segment (ar : archive_view) (d : seg_desc) : outcome (list N) :=
    let gv := ar (d_group d) in
    if R_NO_RAW_GROUPS <=? d_group d then
      (* LZ group *)
      obnd (load_reference gv) (fun reference =>
        if d_id d =? 0 then Ok reference
        else
          let delta_position := d_id d - R_DELTA_ID_OFFSET in
          let pack_id := delta_position / R_PACK_CARDINALITY in
          let position_in_pack := delta_position mod R_PACK_CARDINALITY in
          match gv_delta gv with
          | None => Err                                      (* "Delta stream not found" *)
          | Some dparts =>
              if lenN dparts <=? pack_id then Err            (* "Pack ID .. out of range" *)
              else
                obnd (get_part dparts pack_id) (fun p =>
                obnd (load_part p) (fun pack =>
                obnd (unpack_contig pack position_in_pack) (fun enc =>
                  if is_nil enc then Ok reference else lz_dec reference enc)))
          end)
    else
      (* raw group: no reference, everything in the delta stream *)
      let pack_id := d_id d / R_PACK_CARDINALITY in
      let position_in_pack := d_id d mod R_PACK_CARDINALITY in
      match gv_delta gv with
      | None => Err
      | Some dparts =>
          obnd (get_part dparts pack_id) (fun p =>
          obnd (load_part p) (fun pack =>
            unpack_contig pack position_in_pack))
      end.
End Reader.
