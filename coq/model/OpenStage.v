(* OpenStage.v - C14O: the second stage of opening an archive, ragc-core/src/decompressor.rs `Decompressor::open`
   (verbosity 0), over an ARBITRARY byte string.  Definitions only.

     Archive::new_reader().open(path)            Container.deserialize                           (stage 1, props/C14.v)
     load_params(&mut archive)                   get_stream_id("params"), get_num_parts == 1, get_part_by_id(id, 0),
                                                 len >= 12, four u32 LE fields (segment_size only when len >= 16)
     collection.prepare_for_decompression        three get_stream_id lookups, then three is_none() tests in order
     collection.load_batch_sample_names          get_part(collection-samples) (sequential cursor), zstd::decode_all,
                                                 decoded length == metadata, deserialize_sample_names:
                                                 CollectionVarInt::decode count, count x decode_string (NUL
                                                 terminated, String::from_utf8), HashMap insert + Vec push

   Reused: Container.deserialize / get_stream_id / get_num_parts / get_part / get_part_by_id (C13, C14),
   CVarint.cv_decode / dec_cbytes / utf8_valid (C03), Collection.coll / ids_of (C03).  Proved equal to the C03
   decoder (Names.deser_sample_names, Collection.deserialize_sample_names) in OpenStage_proofs.v.

   zstd is the argument [zd : list N -> option (list N)] (None = zstd::decode_all returns an error).
   Profile: until /repo 4d083e0 CollectionVarInt::decode's 5-byte form did `num += THR_4` on a full 32-bit value
   (translator item CV5_ADD_FORM = 0): the dev profile trapped when the sum left u32, release wrapped.  The code
   now uses checked_add + error (CV5_ADD_FORM = 2): no profile dependence is left; the old forms stay in the model
   as the [form] argument of cv_decode_f / open2_f.  No other arithmetic of this stage can leave its type (all other varint forms are bounded by their mask class, the params fields are
   from_le_bytes, `raw_size as usize` is u64 -> usize on a 64-bit target).
   Indexing: `data[0..16]` in load_params is guarded by the length tests; it is still written with an explicit
   bounds test ([u32_le_at] = None -> Panic) so that the safety theorem says something.  `ptr[..end]` /
   `ptr[end + 1..]` in decode_string: end = position of the first 0, so both are in range ([dec_cbytes] is that
   function).  `opt.expect("Part should exist")` in get_part_by_id: Panic arm on Ok None.

   Outcomes carry the place where open stopped ([o2], codes below) so that the correspondence compares more than
   Ok/Err.  The allocation log lists every buffer whose size comes from the input:
     AFile n    vec![0u8; n] sized from file content (footer buffer, part buffers)            - Container's log
     AZstd n    the Vec<u8> that zstd::decode_all returns, n = its length
     AName n    a name buffer of n bytes: ptr[..end].to_vec() (becomes the String); logged twice for an accepted
                name (name.clone() is the HashMap key)
     ATable n   sample_desc (Vec<SampleDesc>) / sample_ids (HashMap) hold n entries after the push / insert
   There is no allocation sized from the decoded COUNT (translator item R_SAMPLES_PREALLOC_FROM_COUNT = false). *)
From Ragc Require Export Mach.
From Ragc Require Import Consts_archive Consts_collection Consts_agcv3 Consts_open.
From Ragc Require Import Varint Container CVarint Names Collection.
Open Scope N_scope.

Inductive profile := Dev | Release.

Inductive o2 (A : Type) : Type :=
| O2ok (a : A)
| O2err (code : N)      (* an error value; code = where (see below) *)
| O2panic.
Arguments O2ok {A} a.
Arguments O2err {A} code.
Arguments O2panic {A}.

Definition o2_outcome {A} (r : o2 A) : outcome A :=
  match r with O2ok a => Ok a | O2err _ => Err | O2panic => Panic end.

(* where open stopped *)
Definition e_archive : N := 1.          (* Archive::open failed ("Failed to open archive for reading") *)
Definition e_no_params : N := 2.        (* "params stream not found in archive" *)
Definition e_params_parts : N := 3.     (* "Expected 1 part in params stream, found .." *)
Definition e_io : N := 4.               (* seek / read_varint / read_exact error while reading a part *)
Definition e_params_short : N := 5.     (* "params stream too short" *)
Definition e_no_coll : N := 6.          (* + i: "collection-{samples,contigs,details} stream not found in archive" *)
Definition e_samples_unreg : N := 9.    (* "collection-samples stream not found" (load_batch_sample_names; unreachable) *)
Definition e_no_batch : N := 10.        (* "No sample names batch found" *)
Definition e_zstd : N := 11.            (* "Failed to decompress sample names" *)
Definition e_size : N := 12.            (* "Decompressed size mismatch" *)
Definition e_varint : N := 13.          (* "Unexpected end of data while decoding .. varint" *)
Definition e_no_nul : N := 14.          (* "Null terminator not found in string" *)
Definition e_utf8 : N := 15.            (* "Invalid UTF-8 in string" *)
Definition e_varint_range : N := 16.    (* "Invalid 5-byte varint: value exceeds u32" (since /repo 4d083e0) *)

Inductive alloc := AFile (n : N) | AZstd (n : N) | AName (n : N) | ATable (n : N).

(* computations that log allocations and may stop early *)
Definition lres (A : Type) : Type := (list alloc * o2 A)%type.
Definition lret {A} (a : A) : lres A := ([], O2ok a).
Definition lbind {A B} (x : lres A) (f : A -> lres B) : lres B :=
  match snd x with
  | O2ok a => let y := f a in (fst x ++ fst y, snd y)
  | O2err e => (fst x, O2err e)
  | O2panic => (fst x, O2panic)
  end.

(* ------------------------------------------------------------------ CollectionVarInt::decode, every form of the 5-byte addition *)
(* Own transcription (CVarint.cv_decode, the C03 model of the same function, is proved equal wherever the count is
   in range: OpenStage_proofs.cv_decode_f_c03).  The 1..4-byte sums cannot leave u32 (the first byte is bounded by
   its mask class).  The 5-byte form adds THR_4 to a full 32-bit value; [form] says how the code does it:
     0  `num += Self::THR_4`      the code before /repo 4d083e0: the dev profile traps, release wraps
     1  wrapping_add              wraps in both profiles
     2  (anything else) checked_add(..).context(..)?   an error value in both profiles - the code today
   The code has form CV5_ADD_FORM (translator item, re-read from the source on every run). *)
Definition cv_decode_f (form : N) (pf : profile) (ptr : list N) : outcome (N * list N) :=
  match ptr with
  | [] => Err
  | first :: _ =>
    if N.land first cv_mask_1 =? cv_pref_1 then
      Ok (first - cv_pref_1, tl ptr)
    else if N.land first cv_mask_2 =? cv_pref_2 then
      match ptr with
      | p0 :: p1 :: r => Ok (N.shiftl p0 8 + p1 + cv_thr_1 - N.shiftl cv_pref_2 8, r)
      | _ => Err
      end
    else if N.land first cv_mask_3 =? cv_pref_3 then
      match ptr with
      | p0 :: p1 :: p2 :: r => Ok (N.shiftl p0 16 + N.shiftl p1 8 + p2 + cv_thr_2 - N.shiftl cv_pref_3 16, r)
      | _ => Err
      end
    else if N.land first cv_mask_4 =? cv_pref_4 then
      match ptr with
      | p0 :: p1 :: p2 :: p3 :: r =>
        Ok (N.shiftl p0 24 + N.shiftl p1 16 + N.shiftl p2 8 + p3 + cv_thr_3 - N.shiftl cv_pref_4 24, r)
      | _ => Err
      end
    else
      match ptr with
      | _ :: p1 :: p2 :: p3 :: p4 :: r =>
        let num := N.shiftl (N.shiftl (N.shiftl p1 8 + p2) 8 + p3) 8 + p4 in
        match add_u32 num cv_thr_4 with
        | Some v => Ok (v, r)
        | None =>
          match form, pf with
          | 0, Dev => Panic
          | 0, Release | 1, _ => Ok (wrap32 (num + cv_thr_4), r)
          | _, _ => Err                      (* "Invalid 5-byte varint: value exceeds u32" *)
          end
        end
      | _ => Err
      end
  end.
Definition cv_decode_p (pf : profile) (ptr : list N) : outcome (N * list N) := cv_decode_f CV5_ADD_FORM pf ptr.

(* the inputs on which the forms differ: first byte 0xF0..0xFF, four more bytes whose big-endian value
   plus THR_4 (270549120) does not fit u32, i.e. value >= 0xEFDFBF80 *)
Definition cv5_overflows (v : list N) : bool :=
  match v with
  | f :: p1 :: p2 :: p3 :: p4 :: _ =>
    (240 <=? f mod 256) && (two32 <=? ((p1 * 256 + p2) * 256 + p3) * 256 + p4 + cv_thr_4)
  | _ => false
  end.

(* ------------------------------------------------------------------ deserialize_sample_names *)
(* for i in 0..no_samples { name = decode_string(&mut ptr)?; sample_ids.insert(name.clone(), i); sample_desc.push(..) }
   n = number of iterations still to run (clamped, see Names.clamp), i = entries so far *)
Fixpoint dec_names (n : nat) (i : N) (ptr : list N) : lres (list name) :=
  match n with
  | O => lret []
  | S n' =>
    match dec_cbytes ptr with                        (* position of the first 0; ptr[..end]; ptr[end + 1..] *)
    | Ok (s, r) =>
      if utf8_valid s                                (* String::from_utf8(ptr[..end].to_vec()) *)
      then lbind ([AName (lenN s); AName (lenN s); ATable (i + 1)], O2ok tt) (fun _ =>
           lbind (dec_names n' (i + 1) r) (fun ns => lret (s :: ns)))
      else ([AName (lenN s)], O2err e_utf8)
    | Err => ([], O2err e_no_nul)
    | Panic => ([], O2panic)
    end
  end.

Definition deser_sample_names_f (form : N) (pf : profile) (data : list N) : lres (list name) :=
  match cv_decode_f form pf data with
  | Ok (no_samples, ptr) => dec_names (clamp no_samples ptr) 0 ptr
  | Err => ([], O2err (if cv5_overflows data then e_varint_range else e_varint))
  | Panic => ([], O2panic)
  end.
Definition deser_sample_names_p (pf : profile) (data : list N) : lres (list name) :=
  deser_sample_names_f CV5_ADD_FORM pf data.

(* the CollectionV3 after deserialize_sample_names (sample_desc, sample_ids) with set_config(segment_size, k) *)
Definition coll_of_names (segment_size kmer_length : N) (ns : list name) : coll :=
  mkColl (map (fun n => mkSample n []) ns) (ids_of ns 0 []) segment_size kmer_length 0 0.

(* ------------------------------------------------------------------ load_params *)
(* u32::from_le_bytes([data[off], .., data[off + 3]]); None = an index out of range (panic) *)
Definition u32_le_at (data : list N) (off : N) : option N :=
  if off + R_PARAMS_FIELD_BYTES <=? lenN data
  then Some (le_value (firstnN R_PARAMS_FIELD_BYTES (skipnN off data)))
  else None.

(* -> (segment_size, kmer_length, min_match_len) *)
Definition load_params (max_off : N) (rd : reader) : lres (N * N * N) :=
  match get_stream_id rd R_NAME_PARAMS with
  | None => ([], O2err e_no_params)
  | Some sid =>
    if negb (get_num_parts rd sid =? R_PARAMS_NUM_PARTS) then ([], O2err e_params_parts)
    else
      let x := get_part_by_id max_off rd sid R_PARAMS_PART_ID in
      (map AFile (fst x),
       match snd x with
       | Panic => O2panic
       | Err => O2err e_io
       | Ok None => O2panic                            (* opt.expect("Part should exist") *)
       | Ok (Some (data, _)) =>
         if lenN data <? R_PARAMS_MIN_LEN then O2err e_params_short
         else
           match u32_le_at data R_PARAMS_OFF_K, u32_le_at data R_PARAMS_OFF_MML, u32_le_at data R_PARAMS_OFF_PACK with
           | Some k, Some mml, Some _ =>
             if R_PARAMS_SEGSIZE_FROM_LEN <=? lenN data then
               match u32_le_at data R_PARAMS_OFF_SEGSIZE with
               | Some ss => O2ok (ss, k, mml)
               | None => O2panic
               end
             else O2ok (R_PARAMS_DEFAULT_SEGSIZE, k, mml)
           | _, _, _ => O2panic
           end
       end)
  end.

(* ------------------------------------------------------------------ prepare_for_decompression *)
Definition coll_name (i : N) : list N :=
  match i with 0 => R_NAME_COLL_0 | 1 => R_NAME_COLL_1 | _ => R_NAME_COLL_2 end.

Fixpoint prep_checks (rd : reader) (order : list N) : option N :=
  match order with
  | [] => None
  | i :: r =>
    match get_stream_id rd (coll_name i) with
    | None => Some (e_no_coll + i)
    | Some _ => prep_checks rd r
    end
  end.

(* -> collection_samples_id *)
Definition prepare (rd : reader) : lres N :=
  match prep_checks rd R_PREP_CHECK_ORDER with
  | Some e => ([], O2err e)
  | None =>
    match get_stream_id rd R_NAME_COLL_0 with
    | Some sid => lret sid
    | None => ([], O2err e_samples_unreg)              (* .context("collection-samples stream not found") *)
    end
  end.

(* ------------------------------------------------------------------ load_batch_sample_names up to the decoded bytes *)
(* -> (the Archive with the stream's cursor advanced, the decompressed sample-name stream) *)
Definition load_samples_stream (max_off : N) (zd : list N -> option (list N)) (rd : reader) (sid : N)
  : lres (reader * list N) :=
  let x := get_part max_off rd sid in
  let al := map AFile (fst (snd x)) in
  match snd (snd x) with
  | Panic => (al, O2panic)
  | Err => (al, O2err e_io)                            (* "Invalid stream ID" cannot happen: sid comes from the map *)
  | Ok None => (al, O2err e_no_batch)
  | Ok (Some (frame, raw_size)) =>
    match zd frame with
    | None => (al, O2err e_zstd)
    | Some v =>
      (al ++ [AZstd (lenN v)],
       if lenN v =? raw_size then O2ok (fst x, v) else O2err e_size)   (* v_data.len() != raw_size as usize *)
    end
  end.

(* ------------------------------------------------------------------ Decompressor::open *)
Record pre_state := mkPre {
  ps_segment_size : N; ps_kmer_length : N; ps_min_match_len : N;
  ps_reader : reader;                   (* the Archive after get_part on collection-samples *)
  ps_stream : list N }.                 (* the decompressed sample-name stream handed to deserialize_sample_names *)

(* everything before deserialize_sample_names: the same in both profiles *)
Definition open_pre (max_off : N) (zd : list N -> option (list N)) (file : list N) : lres pre_state :=
  let d := deserialize max_off file in
  lbind (map AFile (fst d),
         match snd d with Ok rd => O2ok rd | Err => O2err e_archive | Panic => O2panic end) (fun rd =>
  lbind (load_params max_off rd) (fun prm => let '(ss, k, mml) := prm in
  lbind (prepare rd) (fun sid =>
  lbind (load_samples_stream max_off zd rd sid) (fun rv =>
  lret (mkPre ss k mml (fst rv) (snd rv)))))).

Record handle_summary := mkHandle {
  h_segment_size : N;
  h_kmer_length : N;
  h_min_match_len : N;
  h_coll : coll;                        (* CollectionV3: sample_desc / sample_ids, no contigs loaded yet *)
  h_reader : reader }.

Definition h_samples (h : handle_summary) : list name := get_samples_list (h_coll h).   (* list_samples() *)

Definition open2_f (form : N) (pf : profile) (max_off : N) (zd : list N -> option (list N)) (file : list N)
  : lres handle_summary :=
  lbind (open_pre max_off zd file) (fun st =>
  lbind (deser_sample_names_f form pf (ps_stream st)) (fun ns =>
  lret (mkHandle (ps_segment_size st) (ps_kmer_length st) (ps_min_match_len st)
                 (coll_of_names (ps_segment_size st) (ps_kmer_length st) ns) (ps_reader st)))).
Definition open2 (pf : profile) (max_off : N) (zd : list N -> option (list N)) (file : list N) : lres handle_summary :=
  open2_f CV5_ADD_FORM pf max_off zd file.

(* the file lives on a file system whose largest offset is at least 2^64 - 1: no seek is refused for its offset
   (every offset open uses is at most the file length, OpenStage_proofs.open2_max_off_irrelevant) *)
Definition decompressor_open (pf : profile) (zd : list N -> option (list N)) (file : list N) : outcome handle_summary :=
  o2_outcome (snd (open2 pf max_u64 zd file)).

(* ------------------------------------------------------------------ helpers for the statements *)
(* the streams open insists on *)
Definition required_names : list (list N) := [R_NAME_PARAMS; R_NAME_COLL_0; R_NAME_COLL_1; R_NAME_COLL_2].

Fixpoint prefixb (p l : list N) : bool :=
  match p, l with
  | [], _ => true
  | a :: p', b :: l' => (a =? b) && prefixb p' l'
  | _ :: _, [] => false
  end.
Fixpoint infixb (p l : list N) : bool :=
  prefixb p l || match l with [] => false | _ :: r => infixb p r end.

(* the params fields as load_params reads them, with the literal offsets (pinned against the translator's
   R_PARAMS_* by props/C14O.v open2_code_shape): (segment_size, kmer_length, min_match_len) *)
Definition le32_at (data : list N) (off : N) : N := le_value (firstnN 4 (skipnN off data)).
Definition params_fields (data : list N) : N * N * N :=
  ((if 16 <=? lenN data then le32_at data 12 else 60000), le32_at data 0, le32_at data 4).

(* log entries of the sample table are bounded by the length of the decoded stream *)
Definition stream_alloc_ok (bound : N) (a : alloc) : Prop :=
  match a with AName m => m < bound | ATable k => k < bound | _ => False end.
