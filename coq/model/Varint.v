(* Varint.v - ragc-common/src/varint.rs: the archive's length-prefixed big-endian integer and the fixed
   little-endian u64.  Definitions only.

   write_varint(value: u64)   [num_bytes: u8][value bytes, most significant first]; 0 is the single byte 00
   read_varint(reader)        -> (value, bytes_read); a short read is an io error (Err)
   write_fixed_u64 / read_fixed_u64: 8 bytes little-endian

   A reader (`impl Read`: a Cursor over the footer, or the BufReader over the file positioned by seek) is the
   list of bytes still to come; reading returns the rest.

   History: until /repo 24e9f9d the byte count was computed as `(no_bytes + 1) as usize` in u8, which
   overflowed (dev profile: panic) for a length byte of 255 followed by 255 bytes; the translator item
   `vi_len_u8` records which form the code has (false = `no_bytes as usize + 1`, no overflow possible), and
   props/C14.v pins it. *)
From Ragc Require Export Mach.
From Ragc Require Import Consts_archive.

(* while tmp > 0 { no_bytes += 1; tmp >>= 8; }   a u64 has 8 bytes: at most 8 iterations (fuel 8 is exact
   for every value < 2^64, the domain of the Rust function) *)
Fixpoint vi_count (fuel : nat) (tmp : N) : N :=
  match fuel with
  | O => 0
  | S f => if 0 <? tmp then 1 + vi_count f (shr64 tmp vi_shift_w) else 0
  end.

(* for i in (0..no_bytes).rev() { byte = ((value >> (i * 8)) & 0xff) as u8 } *)
Fixpoint vi_be (i : nat) (v : N) : list N :=
  match i with
  | O => []
  | S j => N.land (shr64 v (N.of_nat j * vi_mul_w)) vi_mask_w :: vi_be j v
  end.

Definition write_varint (v : N) : list N :=
  let nb := vi_count 8 v in
  if nb =? 0 then [0] else nb :: vi_be (N.to_nat nb) v.

(* for _ in 0..no_bytes { read_exact 1 byte; value <<= 8; value += byte }
   `<<=` on u64 drops the bits shifted out in both profiles; the addition cannot overflow because the low
   8 bits are zero after the shift and the addend is a byte.  no_bytes is a u8: at most 255 iterations. *)
Fixpoint vi_read_be (n : nat) (acc : N) (l : list N) : option (N * list N) :=
  match n with
  | O => Some (acc, l)
  | S m => match l with
           | [] => None
           | b :: r => vi_read_be m (shl64 acc vi_shift_r + b) r
           end
  end.

(* -> Ok (value, bytes_read, rest) | Err (UnexpectedEof) *)
Definition read_varint (l : list N) : outcome (N * N * list N) :=
  match l with
  | [] => Err
  | nb :: r =>
    if nb =? 0 then Ok (0, 1, r)
    else match vi_read_be (N.to_nat nb) 0 r with
         | None => Err
         | Some (v, r') => Ok (v, nb + 1, r')     (* no_bytes as usize + 1 *)
         end
  end.

(* value.to_le_bytes() / u64::from_le_bytes *)
Fixpoint le_bytes (n : nat) (v : N) : list N :=
  match n with
  | O => []
  | S m => v mod 256 :: le_bytes m (v / 256)
  end.

Fixpoint le_value (l : list N) : N :=
  match l with
  | [] => 0
  | b :: r => b + 256 * le_value r
  end.

Definition write_fixed_u64 (v : N) : list N := le_bytes 8 v.

Definition read_fixed_u64 (l : list N) : outcome (N * list N) :=
  if lenN l <? 8 then Err else Ok (le_value (firstn 8 l), skipn 8 l).
