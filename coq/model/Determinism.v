(* Determinism.v — C04: the archive depends only on inputs and parameters (definitions only).

   Two models, both with the schedule as explicit data:

   A. the protocol (agc_compressor.rs push / drain / sync_and_flush / finalize, memory_bounded_queue.rs,
      worker_thread): a producer script of pushes, waits-until-empty and close; a priority queue ordered by
      ContigTask::cmp (priority, cost, REVERSED sequence) with a byte capacity; N workers that pull a maximal
      task, put a contig's segments into their own raw buffer, or stop at the barrier with a sync token; a round
      "fires" when all N workers hold a token: the raw buffers of that moment are the round.
      A schedule is a list of events; a disabled event is a no-op, so every list is a schedule.
   B. the pipeline from one round's raw buffers to the file (classify_raw_segments_at_barrier,
      prepare_batch_parallel, phase-3 claims + ParallelWriteBuffer, drain_results_sorted, flush_to_archive,
      finalize: rayon compression in any completion order, sort_by_key(stream_id), Archive::flush_buffers).
      Payloads are tokens; classification, compression and the catalogue are arbitrary functions (Section
      variables); the ordering decisions of the code are the definitions below.

   Names are abstracted to numbers by an order preserving numbering (the harness ranks the byte strings). *)
From Ragc Require Export Mach Consts_determinism.

(* ------------------------------------------------------------------ 1. keys, orders, the stable sort *)
Definition ckey := (N * N)%type.                 (* (sample, contig) *)
Definition skey := (ckey * N)%type.              (* (sample, contig, place) *)

Definition cmp_then (c d : comparison) : comparison := match c with Eq => d | _ => c end.
Definition ckey_cmp (a b : ckey) : comparison :=
  cmp_then (N.compare (fst a) (fst b)) (N.compare (snd a) (snd b)).
(* impl Ord for RawBufferedSegment / BufferedSegment: sample_name, contig_name, place *)
Definition skey_cmp (a b : skey) : comparison :=
  cmp_then (ckey_cmp (fst a) (fst b)) (N.compare (snd a) (snd b)).
Definition leb_of {A} (cmp : A -> A -> comparison) (a b : A) : bool :=
  match cmp a b with Gt => false | _ => true end.
Definition skey_leb : skey -> skey -> bool := leb_of skey_cmp.

(* slice::sort and sort_by_key are stable; executable stand-in: stable insertion sort *)
Fixpoint insert_sorted {A} (leb : A -> A -> bool) (x : A) (l : list A) : list A :=
  match l with
  | [] => [x]
  | y :: t => if leb x y then x :: l else y :: insert_sorted leb x t
  end.
Fixpoint isort {A} (leb : A -> A -> bool) (l : list A) : list A :=
  match l with
  | [] => []
  | x :: t => insert_sorted leb x (isort leb t)
  end.
Definition sort_by_key {A} (key : A -> N) : list A -> list A := isort (fun a b => key a <=? key b).

(* ------------------------------------------------------------------ 2. BTreeMap<usize, Vec<_>> *)
(* ParallelWriteBuffer::streams and Archive::write_buffer: key = stream id, value = parts in insertion order;
   iteration is by ascending key.  Representation: association list with strictly increasing keys. *)
Definition btmap (X : Type) := list (N * list X).
Fixpoint bt_push {X} (s : N) (p : X) (m : btmap X) : btmap X :=
  match m with
  | [] => [(s, [p])]
  | (k, v) :: m' =>
      if s <? k then (s, [p]) :: m
      else if s =? k then (k, v ++ [p]) :: m'
      else (k, v) :: bt_push s p m'
  end.
Definition bt_push_all {X} (l : list (N * X)) (m : btmap X) : btmap X :=
  fold_left (fun m sp => bt_push (fst sp) (snd sp) m) l m.
(* iteration order: stream id ascending, then insertion order *)
Definition bt_flatten {X} (m : btmap X) : list (N * X) :=
  concat (map (fun kv => map (pair (fst kv)) (snd kv)) m).

(* ------------------------------------------------------------------ 3. schedules as data *)
(* take the head of the i-th list *)
Fixpoint take_at {A} (i : nat) (ls : list (list A)) {struct ls} : option (A * list (list A)) :=
  match ls with
  | [] => None
  | l :: ls' =>
      match i with
      | O => match l with [] => None | a :: l' => Some (a, l' :: ls') end
      | S i' => match take_at i' ls' with None => None | Some (a, r) => Some (a, l :: r) end
      end
  end.
Fixpoint tag_from {A} (i : nat) (ls : list (list A)) : list (nat * A) :=
  match ls with
  | [] => []
  | l :: ls' => map (pair i) l ++ tag_from (S i) ls'
  end.
(* any interleaving of the lists that keeps each list's own order: the schedule says whose turn it is; a
   turn of an exhausted list is skipped; what is left at the end runs in index order *)
Fixpoint interleave {A} (sched : list nat) (ls : list (list A)) : list (nat * A) :=
  match sched with
  | [] => tag_from 0 ls
  | i :: sched' =>
      match take_at i ls with
      | Some (a, ls') => (i, a) :: interleave sched' ls'
      | None => interleave sched' ls
      end
  end.
(* any permutation: the schedule picks the next element to complete *)
Fixpoint remove_at {A} (i : nat) (l : list A) {struct l} : option (A * list A) :=
  match l with
  | [] => None
  | x :: t => match i with
              | O => Some (x, t)
              | S i' => match remove_at i' t with None => None | Some (y, r) => Some (y, x :: r) end
              end
  end.
Fixpoint permute {A} (sched : list nat) (l : list A) : list A :=
  match sched with
  | [] => l
  | i :: sched' => match remove_at i l with
                   | Some (x, r) => x :: permute sched' r
                   | None => permute sched' l
                   end
  end.
Fixpoint upd_nth {A} (i : nat) (x : A) (l : list A) {struct l} : list A :=
  match l with
  | [] => []
  | y :: t => match i with O => x :: t | S i' => y :: upd_nth i' x t end
  end.

(* ------------------------------------------------------------------ 4. the pipeline of one round and finalize *)
Definition contig := (ckey * N)%type.            (* key and payload token of a queued contig *)

Section Pipeline.
  Variables G Buf Res Part : Type.
  (* worker: split_at_splitters_with_size: payload tokens of the segments of a contig, in place order *)
  Variable segment : contig -> list N.
  (* thread 0, sequential: classify_raw_segments_at_barrier (after its sort) + prepare_batch_parallel:
     new global state and the group buffers extracted for flushing, in index order *)
  Variable classify : G -> list (skey * N) -> G * list Buf.
  (* flush_pack_compress_only: a pure function of the claimed buffer *)
  Variable flushf : Buf -> Buf * list (N * Part) * Res.
  Variable res_gid : Res -> N.
  (* thread 0 after barrier 3: registrations in sorted order, cleanup_batch_parallel (buffers in index order) *)
  Variable commit : G -> list Res -> list Buf -> G.
  (* finalize: sequential flush of groups with pending segments; the partial packs in BTreeMap order, already
     compressed (compression is a function); params, splitters, catalogue, file_type_info *)
  Variable fin_seq : G -> G * list (N * Part).
  Variable fin_packs : G -> list (N * Part).
  Variable meta_parts : G -> list (N * Part).

  Definition segs_of (c : contig) : list (skey * N) :=
    map (fun ip => ((fst c, N.of_nat (fst ip)), snd ip)) (combine (seq 0 (length (segment c))) (segment c)).
  (* classify_raw_segments_at_barrier: buffers of worker 0, 1, ... appended; each holds whole contigs in
     the order that worker finished them *)
  Definition raw_of (bufs : list (list contig)) : list (skey * N) :=
    concat (map (fun b => concat (map segs_of b)) bufs).
  (* raw_segs.sort(): Ord looks at the key only *)
  Definition sort_raw (l : list (skey * N)) : list (skey * N) :=
    isort (fun a b => skey_leb (fst a) (fst b)) l.

  Inductive act := AWrite (sp : N * Part) | AStore (r : Res).
  Definition acts_of (o : Buf * list (N * Part) * Res) : list act :=
    map AWrite (snd (fst o)) ++ [AStore (snd o)].
  Definition p3_apply (st : btmap Part * list (option Res)) (ia : nat * act) : btmap Part * list (option Res) :=
    match snd ia with
    | AWrite sp => (bt_push (fst sp) (snd sp) (fst st), snd st)     (* ParallelWriteBuffer::buffer_write *)
    | AStore r => (fst st, upd_nth (fst ia) (Some r) (snd st))      (* ParallelFlushState::store_result *)
    end.
  (* phase 3: every index is claimed by exactly one worker (atomic fetch_sub); the claimants' actions
     interleave in any way *)
  Definition phase3 (claims : list nat) (outs : list (Buf * list (N * Part) * Res))
    : btmap Part * list (option Res) :=
    fold_left p3_apply (interleave claims (map acts_of outs)) ([], repeat None (length outs)).
  Definition drain_results_sorted (slots : list (option Res)) : list Res :=
    sort_by_key res_gid (flat_map (fun o => match o with Some r => [r] | None => [] end) slots).

  Record rsched := { rs_bufs : list (list contig); rs_claims : list nat }.

  Definition round_step (st : G * btmap Part) (rs : rsched) : G * btmap Part :=
    let sorted := sort_raw (raw_of (rs_bufs rs)) in
    let gb := classify (fst st) sorted in
    let outs := map flushf (snd gb) in
    let p3 := phase3 (rs_claims rs) outs in
    (* write_buffer.flush_to_archive: streams ascending, parts in insertion order -> add_part_buffered *)
    let arch := bt_push_all (bt_flatten (fst p3)) (snd st) in
    let g2 := commit (fst gb) (drain_results_sorted (snd p3)) (map (fun o => fst (fst o)) outs) in
    (g2, arch).

  Definition finalize (st : G * btmap Part) (sigma3 : list nat) : list (N * Part) :=
    let gp := fin_seq (fst st) in
    let arch1 := bt_push_all (snd gp) (snd st) in
    let packs := sort_by_key fst (permute sigma3 (fin_packs (fst gp))) in   (* collect + sort_by_key(stream_id) *)
    let arch2 := bt_push_all packs arch1 in
    let arch3 := bt_push_all (meta_parts (fst gp)) arch2 in
    bt_flatten arch3.                                                       (* Archive::flush_buffers *)

  (* the parts of the file in file order (the footer is a function of this list) *)
  Definition output (g0 : G) (rounds : list rsched) (sigma3 : list nat) : list (N * Part) :=
    finalize (fold_left round_step rounds (g0, [])) sigma3.
End Pipeline.
Arguments AWrite {Res Part} sp.
Arguments AStore {Res Part} r.

(* ------------------------------------------------------------------ 5. tasks and the queue order *)
Record task := mk_task {
  t_tok : bool;        (* is_sync_token *)
  t_key : ckey;        (* (sample, contig); irrelevant for tokens *)
  t_data : N;          (* payload token *)
  t_prio : Z;          (* sample_priority : i32 *)
  t_cost : N;          (* data.len(); also the size counted by the queue *)
  t_seq : N;           (* sequence : u64 *)
  t_round : nat        (* ghost: the sync round the producer intends the task for; ignored by every function
                          of the model except the expected-result functions used in theorem statements *)
}.
(* impl Ord for ContigTask *)
Definition task_cmp (a b : task) : comparison :=
  cmp_then (Z.compare (t_prio a) (t_prio b))
    (cmp_then (N.compare (t_cost a) (t_cost b)) (N.compare (t_seq b) (t_seq a))).
(* BinaryHeap::pop returns a maximal element *)
Definition is_maxb (q : list task) (x : task) : bool :=
  forallb (fun y => match task_cmp y x with Gt => false | _ => true end) q.
Definition qbytes (q : list task) : N := fold_right (fun t a => t_cost t + a) 0 q.

(* ------------------------------------------------------------------ 6. the producer *)
Inductive pact := PPush (t : task) | PWaitEmpty | PClose.

(* which rule push() uses at a pack boundary (single-file mode); the translator reads the current one *)
Record prule := mk_prule {
  pr_tok_rule : N;        (* 0: tokens carry the sample's priority before the decrement; 1: new + offset in i32 *)
  pr_tok_offset : Z;
  pr_lower_next : bool    (* next_priority is lowered below the decremented sample priority *)
}.
Definition current_rule : prule := mk_prule det_tok_rule det_tok_offset (det_lower_next =? 1).

Record pstate := mk_pstate {
  ps_prios : list (N * Z);   (* sample_priorities: BTreeMap<String, i32>, looked up only *)
  ps_next : Z;               (* next_priority *)
  ps_count : N;              (* global_contig_count *)
  ps_seq : N;                (* next_sequence *)
  ps_rnd : nat               (* ghost: token blocks emitted so far *)
}.
Definition pstate0 : pstate := mk_pstate [] det_prio_start 0 0 0.
Fixpoint prio_get (s : N) (m : list (N * Z)) : option Z :=
  match m with [] => None | (k, v) :: m' => if k =? s then Some v else prio_get s m' end.
Fixpoint prio_set (s : N) (p : Z) (m : list (N * Z)) : list (N * Z) :=
  match m with
  | [] => [(s, p)]
  | (k, v) :: m' => if k =? s then (k, p) :: m' else (k, v) :: prio_set s p m'
  end.

(* one input contig: key, payload token, number of symbols *)
Definition input := (ckey * N * N)%type.

(* StreamingQueueCompressor::push (release arithmetic: i32 wraps) *)
Definition push_one (R : prule) (single : bool) (pack : N) (n : nat) (st : pstate) (inp : input)
  : pstate * list pact :=
  let key := fst (fst inp) in
  let sample := fst key in
  let seq := ps_seq st in
  let cpn := match prio_get sample (ps_prios st) with
             | Some p => (p, ps_prios st, ps_next st)
             | None => (ps_next st, prio_set sample (ps_next st) (ps_prios st), wrap_i32 (ps_next st - 1))
             end in
  let cur := fst (fst cpn) in
  let need_sync := single && ((ps_count st + 1) mod pack =? 0) in
  let ctg p r := mk_task false key (snd (fst inp)) p (snd inp) seq r in
  if need_sync then
    let newp := wrap_i32 (cur - 1) in
    let next2 := if pr_lower_next R && (newp <=? snd cpn)%Z then wrap_i32 (newp - 1) else snd cpn in
    let tokp := if pr_tok_rule R =? 0 then cur else wrap_i32 (newp + pr_tok_offset R) in
    let tok := mk_task true key 0 tokp 0 seq (ps_rnd st) in
    (mk_pstate (prio_set sample newp (snd (fst cpn))) next2 (ps_count st + 1) (seq + 1) (S (ps_rnd st)),
     repeat (PPush tok) n ++ [PPush (ctg newp (S (ps_rnd st)))])
  else
    (mk_pstate (snd (fst cpn)) (snd cpn) (ps_count st + 1) (seq + 1) (ps_rnd st),
     [PPush (ctg cur (ps_rnd st))]).

Fixpoint push_all (R : prule) (single : bool) (pack : N) (n : nat) (st : pstate) (l : list input)
  : pstate * list pact :=
  match l with
  | [] => (st, [])
  | inp :: l' => let r1 := push_one R single pack n st inp in
                 let r2 := push_all R single pack n (fst r1) l' in
                 (fst r2, snd r1 ++ snd r2)
  end.

(* sync_and_flush: takes a sequence number; N tokens of priority 1_000_000 *)
Definition flush_block (n : nat) (st : pstate) : pstate * list pact :=
  (mk_pstate (ps_prios st) (ps_next st) (ps_count st) (ps_seq st + 1) (S (ps_rnd st)),
   repeat (PPush (mk_task true (0, 0) 0 det_flush_prio 0 (ps_seq st) (ps_rnd st))) n).
(* finalize: sequence 0 *)
Definition final_block (n : nat) (st : pstate) : list pact :=
  repeat (PPush (mk_task true (0, 0) 0 det_final_prio 0 det_final_seq (ps_rnd st))) n.

(* ragc-cli create_archive / harness mk.rs, several files: reference file, drain, sync_and_flush (which waits
   until the queue is empty), the other files, finalize *)
Definition multifile_script (R : prule) (n : nat) (first rest : list input) : list pact :=
  let a := push_all R false 1 n pstate0 first in
  let b := flush_block n (fst a) in
  let c := push_all R false 1 n (fst b) rest in
  snd a ++ [PWaitEmpty] ++ snd b ++ [PWaitEmpty] ++ snd c ++ final_block n (fst c) ++ [PClose].
(* one PanSN file: drain() once, when the second sample starts; pack tokens from push; finalize *)
Definition singlefile_script (R : prule) (n : nat) (pack : N) (ref rest : list input) : list pact :=
  let a := push_all R true pack n pstate0 ref in
  let c := push_all R true pack n (fst a) rest in
  snd a ++ (match rest with [] => [] | _ => [PWaitEmpty] end) ++ snd c ++ final_block n (fst c) ++ [PClose].

(* ------------------------------------------------------------------ 7. the system and its events *)
Inductive wst := WIdle | WBar | WExit.
Record sys := mk_sys {
  s_q : list task;
  s_prod : list pact;
  s_closed : bool;
  s_wk : list (wst * list task);          (* worker state and its raw buffer (whole contigs) *)
  s_rounds : list (list (list task))      (* per fired round: the raw buffers of workers 0, 1, ... *)
}.
Inductive ev :=
| EProd                       (* the producer performs its next action if it can *)
| EPull (w i : nat)           (* idle worker w pulls the i-th queued task, which must be maximal *)
| ENone (w : nat)             (* pull returns None: queue empty and closed *)
| EFire.                      (* all workers are at the barrier: thread 0 drains the raw buffers *)

Definition init (n : nat) (script : list pact) : sys :=
  mk_sys [] script false (repeat (WIdle, []) n) [].

Definition admits (cap : N) (q : list task) (t : task) : bool :=
  (qbytes q + t_cost t <=? cap) || (qbytes q =? 0).

Definition all_bar (wk : list (wst * list task)) : bool :=
  forallb (fun w => match fst w with WBar => true | _ => false end) wk.

Definition step (cap : N) (e : ev) (s : sys) : sys :=
  match e with
  | EProd =>
      match s_prod s with
      | [] => s
      | PPush t :: rest =>
          if negb (s_closed s) && admits cap (s_q s) t
          then mk_sys (s_q s ++ [t]) rest (s_closed s) (s_wk s) (s_rounds s)
          else s
      | PWaitEmpty :: rest =>
          match s_q s with
          | [] => mk_sys [] rest (s_closed s) (s_wk s) (s_rounds s)
          | _ => s
          end
      | PClose :: rest => mk_sys (s_q s) rest true (s_wk s) (s_rounds s)
      end
  | EPull w i =>
      match nth_error (s_wk s) w, remove_at i (s_q s) with
      | Some (WIdle, buf), Some (x, q') =>
          if is_maxb (s_q s) x then
            if t_tok x
            then mk_sys q' (s_prod s) (s_closed s) (upd_nth w (WBar, buf) (s_wk s)) (s_rounds s)
            else mk_sys q' (s_prod s) (s_closed s) (upd_nth w (WIdle, buf ++ [x]) (s_wk s)) (s_rounds s)
          else s
      | _, _ => s
      end
  | ENone w =>
      match nth_error (s_wk s) w, s_q s with
      | Some (WIdle, buf), [] =>
          if s_closed s
          then mk_sys [] (s_prod s) true (upd_nth w (WExit, buf) (s_wk s)) (s_rounds s)
          else s
      | _, _ => s
      end
  | EFire =>
      match s_wk s with
      | [] => s
      | _ =>
          if all_bar (s_wk s)
          then mk_sys (s_q s) (s_prod s) (s_closed s) (map (fun _ => (WIdle, [])) (s_wk s))
                 (s_rounds s ++ [map snd (s_wk s)])
          else s
      end
  end.

Definition run (cap : N) (sigma : list ev) (s : sys) : sys := fold_left (fun s e => step cap e s) sigma s.

Definition idle_or_exit (w : wst * list task) : bool :=
  match fst w with WBar => false | _ => true end.
(* everything pushed, pulled and classified *)
Definition completeb (s : sys) : bool :=
  match s_prod s, s_q s with
  | [], [] => forallb (fun w => idle_or_exit w && match snd w with [] => true | _ => false end) (s_wk s)
  | _, _ => false
  end.

(* what a round hands to the pipeline *)
Definition contig_of (t : task) : contig := (t_key t, t_data t).
Definition bufs_of (rd : list (list task)) : list (list contig) := map (map contig_of) rd.
Definition attach (rounds : list (list (list task))) (claims : list (list nat)) : list rsched :=
  map (fun rc => {| rs_bufs := bufs_of (fst rc); rs_claims := snd rc |})
      (combine rounds (claims ++ repeat [] (length rounds))).

(* the tasks of a script and the expected composition of round k *)
Fixpoint tasks_of (l : list pact) : list task :=
  match l with
  | [] => []
  | PPush t :: l' => t :: tasks_of l'
  | _ :: l' => tasks_of l'
  end.
Definition in_round (k : nat) (t : task) : bool := negb (t_tok t) && Nat.eqb (t_round t) k.
Definition expected_round (script : list pact) (k : nat) : list task := filter (in_round k) (tasks_of script).
