(* Mach.v — machine integers and bytes shared by every model.
   Definitions only (no proofs): the model must still run when a proof breaks.

   Conventions
   - a byte is an [N]; [byte b] / [bytes l] state the range explicitly.
   - u64 / u32 / i32 values are [N] / [Z] with explicit wrap ([wrap64]) or
     explicit checks ([sub_u64 : N -> N -> option N]): "the model returns
     Some" entails "no overflow trap on this path" (consumed by C18).
   - lengths, indices and fuel are [nat]; data values are [N]/[Z]. *)
From Coq Require Export List NArith ZArith Bool.
Export ListNotations.
Open Scope N_scope.

Definition byte (b : N) : Prop := b < 256.
Definition bytes (l : list N) : Prop := Forall byte l.
Definition byteb (b : N) : bool := b <? 256.
Definition bytesb (l : list N) : bool := forallb byteb l.

Definition two64 : N := 18446744073709551616.
Definition two32 : N := 4294967296.
Definition max_u64 : N := 18446744073709551615.
Definition wrap64 (x : N) : N := x mod two64.
Definition wrap32 (x : N) : N := x mod two32.
Definition wrap8 (x : N) : N := x mod 256.

(* checked unsigned arithmetic: None = the dev profile panics here *)
Definition add_u64 (a b : N) : option N := if a + b <? two64 then Some (a + b) else None.
Definition sub_u64 (a b : N) : option N := if b <=? a then Some (a - b) else None.
Definition mul_u64 (a b : N) : option N := if a * b <? two64 then Some (a * b) else None.
Definition add_u32 (a b : N) : option N := if a + b <? two32 then Some (a + b) else None.
Definition sub_u32 (a b : N) : option N := if b <=? a then Some (a - b) else None.
Definition mul_u32 (a b : N) : option N := if a * b <? two32 then Some (a * b) else None.

Definition i32_min : Z := (-2147483648)%Z.
Definition i32_max : Z := 2147483647%Z.
Definition in_i32 (x : Z) : bool := ((i32_min <=? x) && (x <=? i32_max))%Z.
Definition add_i32 (a b : Z) : option Z := if in_i32 (a + b)%Z then Some (a + b)%Z else None.
Definition wrap_i32 (x : Z) : Z := (((x + 2147483648) mod 4294967296) - 2147483648)%Z.

(* u64 shifts as the hardware does them (shift amount < 64 is the caller's duty) *)
Definition shl64 (x s : N) : N := wrap64 (N.shiftl x s).
Definition shr64 (x s : N) : N := N.shiftr x s.

(* option / result plumbing *)
Definition obind {A B} (o : option A) (f : A -> option B) : option B :=
  match o with Some a => f a | None => None end.

Inductive outcome (A : Type) : Type :=
| Ok (a : A)
| Err            (* an error value returned to the caller *)
| Panic.         (* the real code panics / traps on this path *)
Arguments Ok {A} a.
Arguments Err {A}.
Arguments Panic {A}.

Definition obnd {A B} (o : outcome A) (f : A -> outcome B) : outcome B :=
  match o with Ok a => f a | Err => Err | Panic => Panic end.

(* list helpers with N indices *)
Definition nthN {A} (l : list A) (i : N) : option A := nth_error l (N.to_nat i).
Definition lenN {A} (l : list A) : N := N.of_nat (length l).
Definition firstnN {A} (n : N) (l : list A) : list A := firstn (N.to_nat n) l.
Definition skipnN {A} (n : N) (l : list A) : list A := skipn (N.to_nat n) l.

Fixpoint list_eqb {A} (eqb : A -> A -> bool) (a b : list A) : bool :=
  match a, b with
  | [], [] => true
  | x :: a', y :: b' => eqb x y && list_eqb eqb a' b'
  | _, _ => false
  end.

(* used by every Extraction command so that the numeric types are always emitted *)
Definition keep_types : nat * N * Z * positive := (O, 0, 0%Z, 1%positive).
