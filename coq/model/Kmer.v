(* Kmer.v — transcription of ragc-core/src/kmer.rs (Kmer in Canonical mode,
   canonical_kmer, reverse_complement_kmer) and kmer_extract.rs::enumerate_kmers.
   u64 arithmetic is explicit: [+=] and [<<=] wrap (in the dev profile an
   overflowing [+=] would trap; the proofs show the sums never exceed 2^64 on
   the property's domain, see Kmer_proofs). Definitions only. *)
From Ragc Require Export Mach.
From Ragc Require Import Consts_kmer.
Open Scope N_scope.

Record kmer := mkKmer { kdir : N; krc : N; kcur : N; kmax : N }.

(* Kmer::new : shift = 64 - 2*max_size (u32, checked), mask = !0 << shift *)
Definition kshift (k : N) : N := 64 - 2 * k.
Definition kmask (k : N) : N := shl64 max_u64 (kshift k).
Definition kmer_new (k : N) : kmer := mkKmer 0 0 0 k.
Definition kmer_reset (x : kmer) : kmer := mkKmer 0 0 0 (kmax x).

(* the three steps of insert_canonical on kmer_rc, each u64 op explicit *)
Definition rc_step (k rc s : N) : N :=
  N.land (wrap64 (shr64 rc 2 + shl64 (kmer_rc_base s) 62)) (kmask k).

Definition dir_step_full (k dir s : N) : N :=
  wrap64 (shl64 dir 2 + shl64 s (kshift k)).
Definition dir_step_fill (dir cur' s : N) : N :=
  wrap64 (dir + shl64 s (64 - 2 * cur')).

Definition insert_canonical (x : kmer) (s : N) : kmer :=
  let rc := rc_step (kmax x) (krc x) s in
  if kcur x =? kmax x
  then mkKmer (dir_step_full (kmax x) (kdir x) s) rc (kcur x) (kmax x)
  else mkKmer (dir_step_fill (kdir x) (kcur x + 1) s) rc (kcur x + 1) (kmax x).

Definition is_full (x : kmer) : bool := kcur x =? kmax x.
Definition data_canonical (x : kmer) : N := N.min (kdir x) (krc x).
Definition is_dir_oriented (x : kmer) : bool := kdir x <=? krc x.

(* reverse_complement_kmer: for i in 0..k { base = (kmer >> (shift+2i)) & 3;
   result |= rc(base) << (shift + 2(k-1-i)) } *)
Fixpoint rck_loop (kmer shift k : N) (i : nat) (n : nat) (result : N) : N :=
  match n with
  | O => result
  | S n' =>
      let iN := N.of_nat i in
      let base := N.land (shr64 kmer (shift + 2 * iN)) 3 in
      let result' := N.lor result (shl64 (kmer_rc_base base) (shift + 2 * (k - 1 - iN))) in
      rck_loop kmer shift k (S i) n' result'
  end.
Definition reverse_complement_kmer (kmer k : N) : N :=
  rck_loop kmer (kshift k) k 0 (N.to_nat k) 0.
Definition canonical_kmer (kmer k : N) : N := N.min kmer (reverse_complement_kmer kmer k).

(* enumerate_kmers (kmer_extract.rs): reset on base > 3 *)
Fixpoint enum_loop (x : kmer) (l : list N) : list N :=
  match l with
  | [] => []
  | b :: l' =>
      if 3 <? b then enum_loop (kmer_reset x) l'
      else let x' := insert_canonical x b in
           if is_full x' then data_canonical x' :: enum_loop x' l' else enum_loop x' l'
  end.
Definition enumerate_kmers (contig : list N) (k : N) : list N :=
  if lenN contig <? k then [] else enum_loop (kmer_new k) contig.

(* ---- specification side: packings computed from scratch ---- *)
(* left-aligned packing of a window w (most significant = first base) into the top 2|w| bits *)
Fixpoint packv (acc : N) (w : list N) : N :=
  match w with [] => acc | b :: w' => packv (acc * 4 + b) w' end.
Definition packed (w : list N) : N := packv 0 w.
Definition left_aligned (k : N) (w : list N) : N := packed w * 2 ^ (kshift k).
Definition revcomp (w : list N) : list N := rev (map kmer_rc_base w).
Definition acgt (b : N) : Prop := b < 4.
Definition acgtb (b : N) : bool := b <? 4.

(* run a list of symbols through insert_canonical *)
Definition feed (x : kmer) (l : list N) : kmer := fold_left insert_canonical l x.
Definition lastn {A} (n : nat) (l : list A) : list A := skipn (length l - n) l.

(* canonical value of a window computed from scratch *)
Definition canon (k : N) (w : list N) : N :=
  N.min (left_aligned k w) (left_aligned k (revcomp w)).
(* all length-k windows of c, by start position, in order *)
Fixpoint windows (k : nat) (c : list N) : list (list N) :=
  match c with
  | [] => []
  | _ :: c' => (if (k <=? length c)%nat then [firstn k c] else []) ++ windows k c'
  end.
(* what enumerate_kmers is meant to return: the canonical values of the ACGT-only windows *)
Definition kmers_spec (k : N) (c : list N) : list N :=
  map (canon k) (filter (forallb acgtb) (windows (N.to_nat k) c)).
