(* Sink.v - the output path of `ragc create` over a fallible sink (C15).  Definitions only.

   ragc-common/src/archive.rs (output mode), the part of ragc-core/src/agc_compressor.rs: finalize that does
   I/O, and the dispatch of ragc-cli/src/main.rs.  The archive content and the directory bookkeeping are
   Container.v's (add_part / flush_buffers / footer_of / close are reused, so "the complete file" is literally
   Container.close); what is added here is the order of the I/O calls, where they can fail, and which `?`
   carries a failure to the caller.

   sink       the output File.  One model call = one `write_all`-style loop over write(2) on the file
              (File::write_all, or BufWriter::flush_buf's loop).  The behaviour of the file system is a
              parameter: s_pol call_index bytes_stored_so_far request = number of bytes accepted.  The call
              succeeds iff the whole request is accepted; otherwise the accepted prefix is stored and the
              call returns Err (what std does on a short write followed by an error).  A call that returns Ok
              has stored all its bytes (kernel behaviour after a successful write is not modelled).
                limit_policy partial n   RLIMIT_FSIZE = n / disk with n bytes: a request that does not fit
                                         stores the fitting prefix (partial = true: EFBIG/ENOSPC as Linux
                                         does it) or nothing (partial = false)
                oneshot_policy i k       call i accepts only k bytes, every other call succeeds (transient)
              Empty requests make no call (write_all(&[]) and flush_buf on an empty buffer do no syscall).
   bufw       std::io::BufWriter<File> with capacity b_cap (std 1.7x: write_all / write_all_cold / flush_buf /
              flush / Drop).  A failed flush_buf keeps the unwritten remainder in the buffer; a request that
              does not fit the spare capacity flushes first (error returned, request dropped); a request >=
              capacity goes straight to the file.
   sites      one boolean per `?` of the source (translator/items_sink.py -> Consts_sink.v): true = the error
              is returned to the caller at this point, false = it is dropped and execution continues.
   arch       Archive { writer state of Container.v, the BufWriter, writer.is_some() }.
   Drop       `impl Drop for Archive { let _ = self.close(); }`, then the fields are dropped: a BufWriter that
              is still there flushes once more, result ignored.  close sets writer = None on success (the
              BufWriter is dropped there); a second close does no I/O and returns Err (serialize's
              "Archive not open for writing"). *)
From Ragc Require Export Mach Varint Container.
From Ragc Require Import Consts_sink.

Definition io : Type := outcome unit.

(* ------------------------------------------------------------------ the file *)
Definition policy : Type := N -> N -> N -> N.

Record sink := mkSink {
  s_pol : policy;
  s_calls : N;                    (* write calls made so far *)
  s_len : N;                      (* bytes stored = current file offset (the file is written front to back) *)
  s_chunks : list (list N)        (* what is stored, newest chunk first *)
}.

Definition sink_bytes (s : sink) : list N := concat (rev (s_chunks s)).
Definition sink_new (pol : policy) : sink := mkSink pol 0 0 [].

Definition sink_write (s : sink) (bs : list N) : sink * io :=
  let n := lenN bs in
  if n =? 0 then (s, Ok tt)
  else
    let k := s_pol s (s_calls s) (s_len s) n in
    if n <=? k then (mkSink (s_pol s) (s_calls s + 1) (s_len s + n) (bs :: s_chunks s), Ok tt)
    else (mkSink (s_pol s) (s_calls s + 1) (s_len s + k) (firstnS k bs :: s_chunks s), Err).

Definition limit_policy (partial : bool) (limit : N) : policy :=
  fun _ len n => if len + n <=? limit then n else if partial then limit - len else 0.

Definition oneshot_policy (i k : N) : policy :=
  fun call _ n => if call =? i then k else n.

Definition sink_set_policy (s : sink) (pol : policy) : sink := mkSink pol (s_calls s) (s_len s) (s_chunks s).

(* ------------------------------------------------------------------ BufWriter<File> *)
Record bufw := mkBW {
  b_cap : N;
  b_len : N;                      (* buf.len() *)
  b_buf : list (list N);          (* buffered bytes, newest chunk first *)
  b_sink : sink
}.

Definition buf_bytes (b : bufw) : list N := concat (rev (b_buf b)).
Definition bw_new (cap : N) (s : sink) : bufw := mkBW cap 0 [] s.

(* flush_buf: write the buffer; whatever was written is removed from the buffer, also on failure *)
Definition bw_flush_buf (b : bufw) : bufw * io :=
  if b_len b =? 0 then (b, Ok tt)
  else
    let data := buf_bytes b in
    let (s', r) := sink_write (b_sink b) data in
    match r with
    | Ok _ => (mkBW (b_cap b) 0 [] s', Ok tt)
    | e =>
      let wr := s_len s' - s_len (b_sink b) in
      (mkBW (b_cap b) (b_len b - wr) [skipnS wr data] s', e)
    end.

(* flush = flush_buf, then File::flush (a no-op) *)
Definition bw_flush (b : bufw) : bufw * io := bw_flush_buf b.

Definition bw_push (b : bufw) (bs : list N) : bufw :=
  mkBW (b_cap b) (b_len b + lenN bs) (bs :: b_buf b) (b_sink b).

(* write_all: `if buf.len() < spare { copy } else { write_all_cold }`;
   write_all_cold: `if buf.len() > spare { flush_buf()? } if buf.len() >= capacity { inner.write_all(buf) } else { copy }` *)
Definition bw_write_all (b : bufw) (bs : list N) : bufw * io :=
  let n := lenN bs in
  let spare := b_cap b - b_len b in
  if n <? spare then (bw_push b bs, Ok tt)
  else
    let (b1, r1) := if spare <? n then bw_flush_buf b else (b, Ok tt) in
    match r1 with
    | Ok _ =>
      if b_cap b1 <=? n
      then let (s', r) := sink_write (b_sink b1) bs in (mkBW (b_cap b1) (b_len b1) (b_buf b1) s', r)
      else (bw_push b1 bs, Ok tt)
    | e => (b1, e)
    end.

(* ------------------------------------------------------------------ the `?` sites *)
Record sites := mkSites {
  p_add_meta : bool;       (* add_part:       writer.write_all(&metadata_buf)?            *)
  p_add_data : bool;       (* add_part:       writer.write_all(data)?                     *)
  p_fb_add : bool;         (* flush_buffers:  self.add_part(stream_id, &data, metadata)?  *)
  p_close_flush : bool;    (* close:          writer.flush()?                             *)
  p_close_ser : bool;      (* close:          self.serialize()?                           *)
  p_ser_footer : bool;     (* serialize:      writer.write_all(&footer)?                  *)
  p_ser_len : bool;        (* serialize:      writer.write_all(&footer_size.to_le_bytes())? *)
  p_ser_flush : bool;      (* serialize:      writer.flush()?                             *)
  p_fin_flush : bool;      (* finalize:       archive.flush_buffers().context(..)?        *)
  p_fin_close : bool;      (* finalize:       archive.close().context(..)?                *)
  p_cli_finalize : bool;   (* create_archive: compressor.finalize()?                      *)
  p_cli_create : bool      (* main:           create_archive(..)?  with fn main() -> Result<()> *)
}.

Definition all_true : sites := mkSites true true true true true true true true true true true true.

(* the sites as the source has them today *)
Definition code_sites : sites :=
  mkSites site_add_meta site_add_data site_fb_add site_close_flush site_close_ser site_ser_footer site_ser_len
          site_ser_flush site_fin_flush site_fin_close site_cli_finalize site_cli_create.

(* facts of the source text that make "nothing is written before finalize" true of the create pipeline: no
   unbuffered add_part, one flush_buffers and one close call (finalize's), the CLI uses this pipeline only,
   and Drop ignores the result of close *)
Definition pipeline_buffers_everything : bool :=
  (cmp_unbuffered_add_part_calls =? 0) && (cmp_flush_buffers_calls =? 1) && (cmp_archive_close_calls =? 1)
  && cli_create_uses_streaming && ar_drop_ignores_close.

(* `e?` : does control leave the function here *)
Definition stops (flag : bool) (r : io) : bool :=
  match r with Ok _ => false | _ => flag end.

(* ------------------------------------------------------------------ Archive in output mode *)
Record arch := mkAr { a_w : writer; a_bw : bufw; a_open : bool }.

Definition ar_open (pol : policy) (cap : N) : arch := mkAr w_init (bw_new cap (sink_new pol)) true.
Definition ar_file (a : arch) : list N := sink_bytes (b_sink (a_bw a)).

(* add_part: stream id check, `writer.as_mut().context(..)?`, varint(metadata), data, then the bookkeeping.
   f_offset is advanced after each successful (or ignored) write; the part is recorded at the end. *)
Definition ar_add_part (S : sites) (a : arch) (sid : N) (data : list N) (meta : N) : arch * io :=
  let w := a_w a in
  if lenN (w_streams w) <=? sid then (a, Err)
  else if negb (a_open a) then (a, Err)
  else
    let mb := write_varint meta in
    let (b1, r1) := bw_write_all (a_bw a) mb in
    if stops (p_add_meta S) r1 then (mkAr w b1 true, Err)
    else
      let w1 := mkW (w_off w + lenN mb) (w_streams w) (w_map w) (w_buf w) (mb :: w_chunks w) in
      let (b2, r2) := bw_write_all b1 data in
      if stops (p_add_data S) r2 then (mkAr w1 b2 true, Err)
      else (mkAr (fst (add_part w sid data meta)) b2 true, Ok tt).

Definition ar_with_w (a : arch) (w : writer) : arch := mkAr w (a_bw a) (a_open a).

Fixpoint ar_flush_items (S : sites) (a : arch) (sid : N) (its : list item) : arch * io :=
  match its with
  | [] => (a, Ok tt)
  | (d, m) :: r =>
    let (a', res) := ar_add_part S a sid d m in
    if stops (p_fb_add S) res then (a', Err) else ar_flush_items S a' sid r
  end.

Fixpoint ar_flush_groups (S : sites) (a : arch) (b : list (N * list item)) : arch * io :=
  match b with
  | [] => (a, Ok tt)
  | (sid, its) :: r =>
    match ar_flush_items S a sid its with
    | (a', Ok _) => ar_flush_groups S a' r
    | (a', e) => (a', e)
    end
  end.

(* std::mem::take(&mut self.write_buffer), then add_part in key order *)
Definition ar_flush_buffers (S : sites) (a : arch) : arch * io :=
  let w := a_w a in
  ar_flush_groups S (ar_with_w a (mkW (w_off w) (w_streams w) (w_map w) [] (w_chunks w))) (w_buf w).

Definition ar_serialize (S : sites) (b : bufw) (w : writer) : bufw * io :=
  let footer := footer_of w in
  let (b1, r1) := bw_write_all b footer in
  if stops (p_ser_footer S) r1 then (b1, Err)
  else
    let (b2, r2) := bw_write_all b1 (write_fixed_u64 (lenN footer)) in
    if stops (p_ser_len S) r2 then (b2, Err)
    else
      let (b3, r3) := bw_flush b2 in
      if stops (p_ser_flush S) r3 then (b3, Err) else (b3, Ok tt).

(* close: `if let Some(writer) { writer.flush()? } self.serialize()?; self.writer = None; ..`
   dropping the BufWriter flushes it once more (result ignored), then the file is closed *)
Definition ar_close (S : sites) (a : arch) : arch * io :=
  let (b1, r1) := if a_open a then bw_flush (a_bw a) else (a_bw a, Ok tt) in
  if stops (p_close_flush S) r1 then (mkAr (a_w a) b1 (a_open a), Err)
  else
    let (b2, r2) := if a_open a then ar_serialize S b1 (a_w a) else (b1, Err) in
    if stops (p_close_ser S) r2 then (mkAr (a_w a) b2 (a_open a), Err)
    else (mkAr (a_w a) (if a_open a then fst (bw_flush_buf b2) else b2) false, Ok tt).

(* impl Drop for Archive, then the field drops *)
Definition ar_drop (S : sites) (a : arch) : arch :=
  let (a1, _) := ar_close S a in
  if a_open a1 then mkAr (a_w a1) (fst (bw_flush_buf (a_bw a1))) false else a1.

(* ------------------------------------------------------------------ histories on the library (harness) *)
Inductive aop :=
| AOp (o : wop)                       (* register / add_part / add_part_buffered / flush_buffers / set_raw_size *)
| ALimit (partial : bool) (n : N).    (* the environment changes: from now on the file obeys limit_policy *)

Definition ar_step (S : sites) (a : arch) (o : aop) : arch * wres :=
  match o with
  | AOp (WRegister name) => let (w', id) := register_stream (a_w a) name in (ar_with_w a w', WId id)
  | AOp (WAdd sid d m) => let (a', r) := ar_add_part S a sid d m in (a', wres_of r)
  | AOp (WAddBuf sid d m) => (ar_with_w a (add_part_buffered (a_w a) sid d m), WNone)
  | AOp WFlush => let (a', r) := ar_flush_buffers S a in (a', wres_of r)
  | AOp (WSetRaw sid raw) => (ar_with_w a (set_raw_size (a_w a) sid raw), WNone)
  | ALimit partial n =>
    let b := a_bw a in
    (mkAr (a_w a) (mkBW (b_cap b) (b_len b) (b_buf b) (sink_set_policy (b_sink b) (limit_policy partial n))) (a_open a),
     WNone)
  end.

Fixpoint ar_run (S : sites) (a : arch) (ops : list aop) : arch * list wres :=
  match ops with
  | [] => (a, [])
  | o :: r => let (a1, x) := ar_step S a o in let (a2, xs) := ar_run S a1 r in (a2, x :: xs)
  end.

(* the Container-level history underneath (limit changes are not Archive calls) *)
Fixpoint wops_of (ops : list aop) : list wop :=
  match ops with
  | [] => []
  | AOp o :: r => o :: wops_of r
  | ALimit _ _ :: r => wops_of r
  end.

(* operations of the create pipeline before finalize: memory only *)
Definition buffered_only (o : wop) : Prop :=
  match o with WAdd _ _ _ => False | WFlush => False | _ => True end.

(* ------------------------------------------------------------------ finalize and the CLI *)
(* the I/O of StreamingQueueCompressor::finalize: everything before it only buffers parts *)
Definition finalize_io (S : sites) (a : arch) : arch * io :=
  let (a1, r1) := ar_flush_buffers S a in
  if stops (p_fin_flush S) r1 then (a1, Err)
  else
    let (a2, r2) := ar_close S a1 in
    if stops (p_fin_close S) r2 then (a2, Err) else (a2, Ok tt).

Inductive exit_status := ExitZero | ExitNonZero.

(* create_archive: `compressor.finalize()?; .. return Ok(())`; finalize consumes the compressor, so the
   Archive is dropped when it returns, whatever it returns *)
Definition create_archive_io (S : sites) (a : arch) : arch * io :=
  let (a1, r) := finalize_io S a in
  let a2 := ar_drop S a1 in
  if stops (p_cli_finalize S) r then (a2, Err) else (a2, Ok tt).

(* main: `Commands::Create {..} => create_archive(..)?,` in `fn main() -> Result<()>`: Err = exit status 1 *)
Definition main_io (S : sites) (a : arch) : arch * exit_status :=
  let (a1, r) := create_archive_io S a in
  if stops (p_cli_create S) r then (a1, ExitNonZero) else (a1, ExitZero).

(* the state in which finalize finds the archive after a pipeline history *)
Definition pipeline_state (pol : policy) (cap : N) (ops : list wop) : arch :=
  fst (ar_run code_sites (ar_open pol cap) (map AOp ops)).

(* the complete archive for that history *)
Definition complete_file (ops : list wop) : list N :=
  close (fst (flush_buffers (fst (wrun w_init ops)))).

(* switching one site off, for the "this `?` is needed" witnesses *)
Definition site_off (i : nat) (S : sites) : sites :=
  let f := fun (j : nat) (x : bool) => if Nat.eqb i j then false else x in
  mkSites (f 0%nat (p_add_meta S)) (f 1%nat (p_add_data S)) (f 2%nat (p_fb_add S)) (f 3%nat (p_close_flush S))
          (f 4%nat (p_close_ser S)) (f 5%nat (p_ser_footer S)) (f 6%nat (p_ser_len S)) (f 7%nat (p_ser_flush S))
          (f 8%nat (p_fin_flush S)) (f 9%nat (p_fin_close S)) (f 10%nat (p_cli_finalize S)) (f 11%nat (p_cli_create S)).

(* for the correspondence driver: a whole run, returning what the outside sees *)
Definition hist_run (S : sites) (pol : policy) (cap : N) (ops : list aop) : list wres * io * list N :=
  let (a1, rs) := ar_run S (ar_open pol cap) ops in
  let (a2, rc) := ar_close S a1 in
  (rs, rc, ar_file (ar_drop S a2)).

Definition cli_run (S : sites) (pol : policy) (cap : N) (ops : list wop) : exit_status * io * list N :=
  let a0 := fst (ar_run S (ar_open pol cap) (map AOp ops)) in
  let (a1, e) := main_io S a0 in
  (e, snd (finalize_io S a0), ar_file a1).
