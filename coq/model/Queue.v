(* Queue.v - model of ragc-core/src/memory_bounded_queue.rs (MemoryBoundedQueue<T>): one Mutex around
   (items : BinaryHeap, current_size, closed), two Condvars not_full / not_empty.  Definitions only.

   Atomic steps = the critical sections of push / try_push / pull / try_pull / close, split at every
   `Condvar::wait` (wait releases the mutex atomically; the woken thread re-acquires it and re-checks its
   loop condition).  Everything the code leaves to the library is a field of the step's label (event):
     - which item `BinaryHeap::pop` returns: any item of maximal priority (label field sq = its seq),
     - which waiter `notify_one` wakes: any thread blocked on that condvar, none iff there is none,
     - spurious wake-ups: separate events, enabled for any blocked thread at any time.
   `step cap s e = None` = the label is not an enabled transition of the code in state s (this also covers
   the dev-profile overflow panic of `current_size + size_bytes`, which is outside the theorems' guard).

   Threads: a thread is *blocked* (inside wait, not notified: wfull / wempty), *woken* (notified or spuriously
   woken, contending for the mutex: kfull / kempty) or idle (in none of the four lists).
   Ghost: nseq (the admission counter that the cfg(ragc_verif) hook also keeps), accepted, returned. *)
From Ragc Require Export Mach.
Open Scope N_scope.

Definition tid := N.
Record item := mkItem { iseq : N; iprio : Z; isize : N }.
Definition preq := (Z * N)%type.            (* the (priority, size_bytes) arguments of a push in progress *)

Record state := mkState {
  items : list item;                        (* inner.items (heap content; the order in the list is irrelevant) *)
  cur : N;                                  (* inner.current_size *)
  closed : bool;                            (* inner.closed *)
  nseq : N;                                 (* inner.next_seq (hook / ghost) *)
  wfull : list (tid * preq);                (* blocked in not_full.wait *)
  kfull : list (tid * preq);                (* woken from not_full.wait, mutex not yet re-acquired *)
  wempty : list tid;                        (* blocked in not_empty.wait *)
  kempty : list tid;                        (* woken from not_empty.wait *)
  accepted : list item;                     (* ghost: every item ever admitted, newest first *)
  returned : list item                      (* ghost: every item ever handed out, newest first *)
}.

Definition init : state := mkState [] 0 false 0 [] [] [] [] [] [].

Definition set_wfull (s : state) (v : list (tid * preq)) : state :=
  mkState (items s) (cur s) (closed s) (nseq s) v (kfull s) (wempty s) (kempty s) (accepted s) (returned s).
Definition set_kfull (s : state) (v : list (tid * preq)) : state :=
  mkState (items s) (cur s) (closed s) (nseq s) (wfull s) v (wempty s) (kempty s) (accepted s) (returned s).
Definition set_wempty (s : state) (v : list tid) : state :=
  mkState (items s) (cur s) (closed s) (nseq s) (wfull s) (kfull s) v (kempty s) (accepted s) (returned s).
Definition set_kempty (s : state) (v : list tid) : state :=
  mkState (items s) (cur s) (closed s) (nseq s) (wfull s) (kfull s) (wempty s) v (accepted s) (returned s).

(* remove the first element whose key is k *)
Fixpoint extract {A} (key : A -> N) (k : N) (l : list A) : option (A * list A) :=
  match l with
  | [] => None
  | x :: r =>
    if key x =? k then Some (x, r)
    else match extract key k r with Some (y, r') => Some (y, x :: r') | None => None end
  end.
Definition memk {A} (key : A -> N) (k : N) (l : list A) : bool := existsb (fun x => key x =? k) l.
Definition idN (x : N) : N := x.
Definition ftid (x : tid * preq) : N := fst x.

Definition idle (s : state) (t : tid) : bool :=
  negb (memk ftid t (wfull s) || memk ftid t (kfull s) || memk idN t (wempty s) || memk idN t (kempty s)).

Definition sumsz (l : list item) : N := fold_right (fun i a => isize i + a) 0 l.
Definition is_max (i : item) (l : list item) : bool := forallb (fun j => (iprio j <=? iprio i)%Z) l.

(* Condvar::notify_one: moves one blocked thread (the label says which) to the woken list; "nobody" only when
   nobody is blocked.  Condvar::notify_all: moves them all. *)
Definition notify_one {A} (key : A -> N) (w k : list A) (ntf : option tid) : option (list A * list A) :=
  match ntf with
  | None => match w with [] => Some (w, k) | _ :: _ => None end
  | Some t => match extract key t w with Some (x, w') => Some (w', x :: k) | None => None end
  end.

Inductive event :=
| EPushWait (t : tid) (p : Z) (sz : N) (woke : bool)                       (* push: [KF] loop condition true, WF, wait *)
| EPushRefuse (t : tid) (p : Z) (sz : N) (woke : bool)                     (* push: [KF] loop exit, closed: R, Err(Closed) *)
| EPushAdmit (t : tid) (p : Z) (sz : N) (woke : bool) (ntf : option tid)   (* push: [KF] loop exit, A, Ok *)
| ETryRefuse (t : tid) (p : Z) (sz : N)                                    (* try_push: TR *)
| ETryBlock (t : tid) (p : Z) (sz : N)                                     (* try_push: TB *)
| ETryAdmit (t : tid) (p : Z) (sz : N) (ntf : option tid)                  (* try_push: TA *)
| EPullWait (t : tid) (woke : bool)                                        (* pull: [KE] empty and open, WE, wait *)
| EPullNone (t : tid) (woke : bool)                                        (* pull: [KE] empty (and closed), N *)
| EPullTake (t : tid) (woke : bool) (sq : N) (ntf : option tid)            (* pull: [KE] pop, T *)
| ETryNone (t : tid)                                                       (* try_pull: TN *)
| ETryTake (t : tid) (sq : N) (ntf : option tid)                           (* try_pull: TT *)
| EClose (t : tid)                                                         (* close: C, notify_all on both *)
| ESpurFull (t : tid)                                                      (* spurious wake-up in not_full.wait *)
| ESpurEmpty (t : tid).                                                    (* spurious wake-up in not_empty.wait *)

(* who runs the critical section: an idle thread entering the method (woke = false) or a woken thread coming
   back from wait with the same arguments (woke = true) *)
Definition push_prologue (s : state) (t : tid) (p : Z) (sz : N) (woke : bool) : option state :=
  if woke then
    match extract ftid t (kfull s) with
    | Some ((_, (p', sz')), k') => if (p' =? p)%Z && (sz' =? sz) then Some (set_kfull s k') else None
    | None => None
    end
  else if idle s t then Some s else None.

Definition pull_prologue (s : state) (t : tid) (woke : bool) : option state :=
  if woke then
    match extract idN t (kempty s) with
    | Some (_, k') => Some (set_kempty s k')
    | None => None
    end
  else if idle s t then Some s else None.

(* `while current_size + size_bytes > capacity && current_size > 0 && !closed`, sum = current_size + size_bytes *)
Definition push_blocked (cap : N) (s : state) (sum : N) : bool :=
  (cap <? sum) && (0 <? cur s) && negb (closed s).

(* seq = next_seq; next_seq += 1; items.push; current_size += size_bytes; not_empty.notify_one() *)
Definition do_admit (s : state) (p : Z) (sz : N) (sum : N) (ntf : option tid) : option state :=
  let it := mkItem (nseq s) p sz in
  match notify_one idN (wempty s) (kempty s) ntf with
  | Some (w', k') =>
    Some (mkState (it :: items s) sum (closed s) (nseq s + 1) (wfull s) (kfull s) w' k' (it :: accepted s) (returned s))
  | None => None
  end.

(* items.pop().unwrap() (some maximal item); current_size -= size (checked); not_full.notify_one() *)
Definition take (s : state) (sq : N) (ntf : option tid) : option state :=
  match extract iseq sq (items s) with
  | Some (i, rest) =>
    if is_max i (items s) then
      match sub_u64 (cur s) (isize i) with
      | Some c' =>
        match notify_one ftid (wfull s) (kfull s) ntf with
        | Some (w', k') =>
          Some (mkState rest c' (closed s) (nseq s) w' k' (wempty s) (kempty s) (accepted s) (i :: returned s))
        | None => None
        end
      | None => None
      end
    else None
  | None => None
  end.

Definition step (cap : N) (s : state) (e : event) : option state :=
  match e with
  | EPushWait t p sz woke =>
    obind (push_prologue s t p sz woke) (fun s1 =>
    obind (add_u64 (cur s1) sz) (fun sum =>
    if push_blocked cap s1 sum then Some (set_wfull s1 ((t, (p, sz)) :: wfull s1)) else None))
  | EPushRefuse t p sz woke =>
    obind (push_prologue s t p sz woke) (fun s1 =>
    obind (add_u64 (cur s1) sz) (fun sum =>
    if push_blocked cap s1 sum then None else if closed s1 then Some s1 else None))
  | EPushAdmit t p sz woke ntf =>
    obind (push_prologue s t p sz woke) (fun s1 =>
    obind (add_u64 (cur s1) sz) (fun sum =>
    if push_blocked cap s1 sum then None else if closed s1 then None else do_admit s1 p sz sum ntf))
  | ETryRefuse t p sz =>
    if idle s t && closed s then Some s else None
  | ETryBlock t p sz =>
    if idle s t && negb (closed s) then
      obind (add_u64 (cur s) sz) (fun sum => if cap <? sum then Some s else None)
    else None
  | ETryAdmit t p sz ntf =>
    if idle s t && negb (closed s) then
      obind (add_u64 (cur s) sz) (fun sum => if cap <? sum then None else do_admit s p sz sum ntf)
    else None
  | EPullWait t woke =>
    obind (pull_prologue s t woke) (fun s1 =>
    match items s1 with
    | [] => if closed s1 then None else Some (set_wempty s1 (t :: wempty s1))
    | _ :: _ => None
    end)
  | EPullNone t woke =>
    obind (pull_prologue s t woke) (fun s1 =>
    match items s1 with
    | [] => if closed s1 then Some s1 else None
    | _ :: _ => None
    end)
  | EPullTake t woke sq ntf =>
    obind (pull_prologue s t woke) (fun s1 => take s1 sq ntf)
  | ETryNone t =>
    if idle s t then match items s with [] => Some s | _ :: _ => None end else None
  | ETryTake t sq ntf =>
    if idle s t then take s sq ntf else None
  | EClose t =>
    if idle s t then
      Some (mkState (items s) (cur s) true (nseq s) [] (wfull s ++ kfull s) [] (wempty s ++ kempty s)
                    (accepted s) (returned s))
    else None
  | ESpurFull t =>
    match extract ftid t (wfull s) with
    | Some (x, w') => Some (set_kfull (set_wfull s w') (x :: kfull s))
    | None => None
    end
  | ESpurEmpty t =>
    match extract idN t (wempty s) with
    | Some (x, w') => Some (set_kempty (set_wempty s w') (x :: kempty s))
    | None => None
    end
  end.

Fixpoint run (cap : N) (s : state) (tr : list event) : option state :=
  match tr with
  | [] => Some s
  | e :: r => obind (step cap s e) (fun s' => run cap s' r)
  end.

Definition is_admit (e : event) : bool :=
  match e with EPushAdmit _ _ _ _ _ | ETryAdmit _ _ _ _ => true | _ => false end.
Definition admit_of (e : event) : option preq :=
  match e with EPushAdmit _ p sz _ _ | ETryAdmit _ p sz _ => Some (p, sz) | _ => None end.
Definition take_of (e : event) : option N :=
  match e with EPullTake _ _ sq _ | ETryTake _ sq _ => Some sq | _ => None end.
Definition is_wait (e : event) : bool :=
  match e with EPushWait _ _ _ _ | EPullWait _ _ => true | _ => false end.

(* ------------------------------------------------------------------------------------------------------
   Replay of a log written by the cfg(ragc_verif) hooks (one record per log_event call, in lock order).
   The driver adds to every push record the priority of the item (taken from the thread's script).
   `KF t` / `KE t` are the first half of a critical section: `pend` remembers the thread that holds the
   mutex until its next record.  The log does not say whom notify_one woke; replay picks the first blocked
   thread and inserts a spurious wake-up when a record `KF t`/`KE t` shows that t (still blocked in the
   model) woke: the accepted logs are exactly those that are traces of `step` for some resolution. *)
Inductive logev :=
| LWF (t : tid) (p : Z) (sz : N) | LKF (t : tid) | LR (t : tid) (p : Z) (sz : N) | LA (t : tid) (p : Z) (sq sz : N)
| LTR (t : tid) (p : Z) (sz : N) | LTB (t : tid) (p : Z) (sz : N) | LTA (t : tid) (p : Z) (sq sz : N)
| LWE (t : tid) | LKE (t : tid) | LN (t : tid) | LT (t : tid) (sq sz : N)
| LTN (t : tid) | LTT (t : tid) (sq sz : N) | LC (t : tid).

Definition pending := option (tid * bool).      (* (thread, true = woke in push / false = woke in pull) *)

Definition first_full (s : state) : option tid :=
  match wfull s with [] => None | x :: _ => Some (ftid x) end.
Definition first_empty (s : state) : option tid :=
  match wempty s with [] => None | x :: _ => Some x end.

(* woke flag of a push / pull record of thread t; None = another thread holds the mutex *)
Definition woke_flag (pd : pending) (t : tid) (full : bool) : option bool :=
  match pd with
  | None => Some false
  | Some (t', f) => if (t' =? t) && Bool.eqb f full then Some true else None
  end.

Definition size_of_seq (s : state) (sq : N) : option N :=
  match extract iseq sq (items s) with Some (i, _) => Some (isize i) | None => None end.

(* the model events a log record stands for, and the new pending flag *)
Definition translate (s : state) (pd : pending) (l : logev) : option (list event * pending) :=
  match l with
  | LKF t =>
    match pd with
    | Some _ => None
    | None => if memk ftid t (kfull s) then Some ([], Some (t, true))
              else if memk ftid t (wfull s) then Some ([ESpurFull t], Some (t, true)) else None
    end
  | LKE t =>
    match pd with
    | Some _ => None
    | None => if memk idN t (kempty s) then Some ([], Some (t, false))
              else if memk idN t (wempty s) then Some ([ESpurEmpty t], Some (t, false)) else None
    end
  | LWF t p sz => obind (woke_flag pd t true) (fun w => Some ([EPushWait t p sz w], None))
  | LR t p sz => obind (woke_flag pd t true) (fun w => Some ([EPushRefuse t p sz w], None))
  | LA t p sq sz =>
    obind (woke_flag pd t true) (fun w =>
    if sq =? nseq s then Some ([EPushAdmit t p sz w (first_empty s)], None) else None)
  | LTR t p sz => match pd with None => Some ([ETryRefuse t p sz], None) | Some _ => None end
  | LTB t p sz => match pd with None => Some ([ETryBlock t p sz], None) | Some _ => None end
  | LTA t p sq sz =>
    match pd with
    | None => if sq =? nseq s then Some ([ETryAdmit t p sz (first_empty s)], None) else None
    | Some _ => None
    end
  | LWE t => obind (woke_flag pd t false) (fun w => Some ([EPullWait t w], None))
  | LN t => obind (woke_flag pd t false) (fun w => Some ([EPullNone t w], None))
  | LT t sq sz =>
    obind (woke_flag pd t false) (fun w =>
    match size_of_seq s sq with
    | Some sz' => if sz' =? sz then Some ([EPullTake t w sq (first_full s)], None) else None
    | None => None
    end)
  | LTN t => match pd with None => Some ([ETryNone t], None) | Some _ => None end
  | LTT t sq sz =>
    match pd with
    | None =>
      match size_of_seq s sq with
      | Some sz' => if sz' =? sz then Some ([ETryTake t sq (first_full s)], None) else None
      | None => None
      end
    | Some _ => None
    end
  | LC t => match pd with None => Some ([EClose t], None) | Some _ => None end
  end.

Definition replay_step (cap : N) (sp : state * pending) (l : logev) : option (state * pending) :=
  match translate (fst sp) (snd sp) l with
  | Some (es, pd') => match run cap (fst sp) es with Some s' => Some (s', pd') | None => None end
  | None => None
  end.

Fixpoint replay (cap : N) (sp : state * pending) (ls : list logev) : option (state * pending) :=
  match ls with
  | [] => Some sp
  | l :: r => obind (replay_step cap sp l) (fun sp' => replay cap sp' r)
  end.

(* nobody is inside a wait and nobody holds the mutex: what the log of a finished scenario must end in *)
Definition quiescent (sp : state * pending) : bool :=
  match snd sp with
  | Some _ => false
  | None =>
    match wfull (fst sp), kfull (fst sp), wempty (fst sp), kempty (fst sp) with
    | [], [], [], [] => true
    | _, _, _, _ => false
    end
  end.

(* priority of the queued item with a given seq (for the driver's cross-check of what a thread received) *)
Definition prio_of_seq (s : state) (sq : N) : option Z :=
  match extract iseq sq (items s) with Some (i, _) => Some (iprio i) | None => None end.
