(* SegCompress.v - transcription of ragc-core/src/segment_compression.rs
   (check_repetitiveness, compress_reference_segment, compress_segment, compress_segment_configured,
   compress_segment_plain, decompress_segment_with_marker, decompress_segment) and of the part-level
   "did compression help" convention around them:
     writer  agc_compressor.rs  `compressed.push(marker); if compressed.len() < raw.len() { (compressed, raw.len()) }
                                 else { (raw, 0) }`         (reference parts and delta packs, all sites identical)
     reader  decompressor.rs get_segment  `if metadata == 0 { data } else { if data.is_empty() { bail }
                                 marker = data.pop(); decompress_segment_with_marker(&data, marker) }`.
   Definitions only.

   zstd (zstd_pool.rs) is NOT modelled: it is the pair of section variables [zc] (compress at a level) and
   [zd] (decode_all; None = error).  After the section closes every function takes them as arguments.
   `compress_segment_pooled` can only fail if ZSTD_compressCCtx fails with a destination of
   ZSTD_compressBound(len) bytes; that is part of the trusted zstd oracle ([zc] is total).

   check_repetitiveness in exact rational arithmetic.  The Rust code computes `cnt as f64 / cur_size as f64`
   with i32 counters and keeps a running maximum `best_frac`, leaving the loop as soon as
   `best_frac >= 0.5`; the only use of the result is `repetitiveness < 0.5`.
   Agreement of the f64 computation with the rationals used here:
     * the counters are i32 (integer literals with no other constraint), so they are below 2^31 or the dev
       profile has already panicked ([rep_count] returns None there); every i32 is exactly representable in
       f64 and IEEE division is the correctly rounded quotient rnd(cnt/cur);
     * rnd is monotone and 0 and 1/2 are representable, so  cnt/cur >= 1/2 -> rnd(cnt/cur) >= 1/2 ;
       if cnt/cur < 1/2 then 2*cnt <= cur - 1, i.e. cnt/cur <= 1/2 - 1/(2*cur) with cur < 2^31, while the
       largest double below 1/2 is 1/2 - 2^-54 and rounding to 1/2 would need cnt/cur >= 1/2 - 2^-55: impossible.
       Hence  rnd(cnt/cur) < 1/2  <->  cnt/cur < 1/2  for every offset;
     * by induction over the offsets (Tuple/SegCompress_proofs.rep_decision_exact) `best_frac` stays below
       1/2 until the first offset whose fraction is >= 1/2, where the loop stops with best_frac >= 1/2.
       That argument uses only the two facts above (a fraction >= 1/2 is larger than a running maximum
       < 1/2), never a comparison between two rounded fractions that could round to the same double.
     So the marker decision of the f64 code and of this model coincide for every input (the value of
     best_frac itself, used only in a debug eprintln, may differ in the last bit and is not compared). *)
From Ragc Require Export Mach.
From Ragc Require Import Consts_tuple Tuple.
Open Scope N_scope.

Definition i32_lim : N := 2147483648.     (* i32::MAX + 1 *)

(* one offset of check_repetitiveness: walk j = 0.. while j + offset < len; [l] is data[j..],
   [s] is data[j+offset..].  cnt/cur are i32: `+= 1` traps at i32::MAX in the dev profile (None). *)
Fixpoint rep_count (l s : list N) (cnt cur : N) : option (N * N) :=
  match s, l with
  | b :: s', a :: l' =>
      let cnt' := if a =? b then cnt + 1 else cnt in
      let cur' := if a <? rep_base_limit then cur + 1 else cur in
      if (cnt' <? i32_lim) && (cur' <? i32_lim) then rep_count l' s' cnt' cur' else None
  | _, _ => Some (cnt, cur)
  end.

(* best_frac as a rational (num, den), den > 0; 0.0 = (0, 1) *)
Definition frac_gt (a b : N * N) : bool := fst b * snd a <? fst a * snd b.          (* a > b *)
Definition frac_ge_thr (a : N * N) : bool := rep_thr_num * snd a <=? fst a * rep_thr_den.   (* a >= 0.5 *)
Definition frac_lt_thr (a : N * N) : bool := fst a * rep_thr_den <? rep_thr_num * snd a.    (* a < 0.5 *)

(* `for offset in lo..hi`: [n] offsets still to visit starting at [off] *)
Fixpoint rep_loop (data : list N) (off : N) (n : nat) (best : N * N) : option (N * N) :=
  match n with
  | O => Some best
  | S n' =>
      match rep_count data (skipnN off data) 0 0 with
      | None => None
      | Some (cnt, cur) =>
          let frac := if 0 <? cur then (cnt, cur) else (0, 1) in
          if frac_gt frac best then
            (if frac_ge_thr frac then Some frac              (* break *)
             else rep_loop data (off + 1) n' frac)
          else rep_loop data (off + 1) n' best
      end
  end.

Definition check_repetitiveness (data : list N) : option (N * N) :=
  rep_loop data rep_off_lo (N.to_nat (rep_off_hi - rep_off_lo)) (0, 1).

(* ---- specification side: the decision as a plain statement about the offsets.
   [offset_reaches data off]: at this offset cur_size > 0 and cnt / cur_size >= threshold *)
Definition offset_reaches (data : list N) (off : N) : bool :=
  match rep_count data (skipnN off data) 0 0 with
  | Some (cnt, cur) => (0 <? cur) && (rep_thr_num * cur <=? cnt * rep_thr_den)
  | None => false
  end.
Definition offsets_from (lo : N) (n : nat) : list N := map (fun i => lo + N.of_nat i) (seq 0 n).
Definition rep_offsets : list N := offsets_from rep_off_lo (N.to_nat (rep_off_hi - rep_off_lo)).

Section Zstd.
  Variable zc : N -> list N -> list N.          (* compress_segment_pooled(data, level) *)
  Variable zd : list N -> option (list N).      (* decompress_segment_pooled = zstd::decode_all *)

  Definition compress_segment_plain (data : list N) (level : N) : list N := zc level data.
  Definition compress_segment_configured (data : list N) (level : N) : list N := compress_segment_plain data level.
  Definition compress_segment (data : list N) : list N := compress_segment_plain data sc_delta_level.

  (* Panic: an i32 counter of check_repetitiveness overflowed (dev profile) *)
  Definition compress_reference_segment (data : list N) : outcome (list N * N) :=
    match check_repetitiveness data with
    | None => Panic
    | Some rep =>
        if frac_lt_thr rep
        then Ok (zc sc_ref_tuples_level (bytes_to_tuples data), sc_marker_tuples)
        else Ok (zc sc_ref_plain_level data, sc_marker_plain)
    end.

  Definition zdo (c : list N) : outcome (list N) :=
    match zd c with Some x => Ok x | None => Err end.

  Definition decompress_segment_with_marker (compressed : list N) (marker : N) : outcome (list N) :=
    match compressed with
    | [] => Ok []
    | _ =>
        if marker =? sc_reader_plain_marker then zdo compressed
        else obnd (zdo compressed) tuples_to_bytes
    end.

  Definition decompress_segment (compressed : list N) : outcome (list N) := zdo compressed.

  (* ---- part level (agc_compressor.rs writer sites, decompressor.rs get_segment reader sites);
     a part is (data, metadata); metadata is `raw.len() as u64` (usize = u64: no truncation) *)
  Definition choose_part (compressed_with_marker raw : list N) : list N * N :=
    if lenN compressed_with_marker <? lenN raw then (compressed_with_marker, lenN raw)
    else (raw, w_raw_metadata).

  Definition store_ref_part (data : list N) : outcome (list N * N) :=
    obnd (compress_reference_segment data) (fun cm => Ok (choose_part (fst cm ++ [snd cm]) data)).

  Definition store_pack_part (level : N) (packed : list N) : list N * N :=
    choose_part (compress_segment_configured packed level ++ [w_pack_marker]) packed.

  Definition load_part (part : list N * N) : outcome (list N) :=
    let (data, metadata) := part in
    if metadata =? r_raw_metadata then Ok data
    else match data with
         | [] => Err                                     (* bail!("Empty compressed ... data") *)
         | _ => decompress_segment_with_marker (removelast data) (last data 0)
         end.
End Zstd.
