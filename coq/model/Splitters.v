(* Splitters.v — transcription of ragc-core/src/splitters.rs
     determine_splitters / determine_splitters_streaming / determine_splitters_streaming_first_sample
     (one body: the three Rust functions differ only in how the reference contigs reach them - a slice,
      a FASTA streamed twice, the records of the first sample of a PanSN FASTA streamed twice - and in
      logging; the streaming ones skip empty records, which contribute nothing here either),
     find_actual_splitters_in_contig (= find_actual_splitters_in_contig_named without the name),
     find_candidate_kmers_multi, is_splitter,
   and of ragc-core/src/kmer_extract.rs
     remove_non_singletons, remove_non_singletons_with_duplicates, find_candidate_kmers.
   External pieces: the sort (rdst radix_sort_unstable / sort_unstable) is the parameter [sort] of the
   [_gen] functions (theorems: for every [sort] returning a sorted permutation); the executable model plugs in
   the standard library's merge sort.  rayon's par_iter().map().collect() keeps the order of the contigs
   (hypothesis, see checks/c11.py) = [map].  AHashSet<u64> values are only ever filled by insert/collect and
   queried by contains, or handed back: a set is represented by its sorted duplicate-free list of members
   ([canon_set]), membership by [mem].  usize arithmetic: [current_len] starts at segment_size and grows by
   one per base; it cannot wrap as long as segment_size + contig length < 2^64 (domain of the model).
   eprintln! logging is dropped.  Definitions only (the one Theorem is the totality field the standard
   library's sorting functor asks for). *)
From Ragc Require Export Mach.
From Ragc Require Import Consts_kmer Kmer.
From Coq Require Import Orders Sorting.Mergesort.
Open Scope N_scope.

(* ---- the concrete sort of the executable model *)
Module NLeBool <: TotalLeBool.
  Definition t := N.
  Definition leb := N.leb.
  Theorem leb_total : forall a1 a2, is_true (leb a1 a2) \/ is_true (leb a2 a1).
  Proof.
    intros a1 a2. unfold is_true, leb. destruct (N.leb_spec a1 a2) as [H|H]; [left; reflexivity|].
    right. apply N.leb_le. apply N.lt_le_incl. exact H.
  Qed.
End NLeBool.
Module NSort := Sort NLeBool.

(* ---- kmer_extract.rs *)
(* inner loop  [let mut j = i + 1; while j < vec.len() && vec[i] == vec[j] { j += 1 }] : j - (i + 1) *)
Fixpoint run_len (x : N) (l : list N) : nat :=
  match l with
  | y :: l' => if x =? y then S (run_len x l') else O
  | [] => O
  end.

(* outer loop of remove_non_singletons_with_duplicates on vec[i..]: one iteration handles the run of equal
   values starting at i ([i + 1 == j] <-> the inner loop did not move); returns (kept, duplicated) in push order.
   Fuel = number of remaining elements (every iteration consumes at least one). *)
Fixpoint rns_loop (fuel : nat) (l : list N) : list N * list N :=
  match fuel with
  | O => ([], [])
  | S f =>
      match l with
      | [] => ([], [])
      | x :: l' =>
          let n := run_len x l' in
          let r := rns_loop f (skipn n l') in
          if Nat.eqb n 0 then (x :: fst r, snd r) else (fst r, x :: snd r)
      end
  end.

(* elements before virtual_begin are kept as they are (every caller in splitters.rs passes 0) *)
Definition remove_non_singletons_with_duplicates (vec : list N) (virtual_begin : nat) : list N * list N :=
  let r := rns_loop (length (skipn virtual_begin vec)) (skipn virtual_begin vec) in
  (firstn virtual_begin vec ++ fst r, snd r).
Definition remove_non_singletons (vec : list N) (virtual_begin : nat) : list N :=
  fst (remove_non_singletons_with_duplicates vec virtual_begin).

(* the "save duplicates" scan written out in determine_splitters*: same runs, count > 1 -> insert *)
Definition duplicates_scan (sorted : list N) : list N :=
  snd (rns_loop (length sorted) sorted).

Definition find_candidate_kmers_gen (sort : list N -> list N) (contig : list N) (k : N) : list N :=
  remove_non_singletons (sort (enumerate_kmers contig k)) 0.

(* ---- sets *)
Definition mem (set : list N) (v : N) : bool := existsb (N.eqb v) set.
Fixpoint dedup_adj (l : list N) : list N :=
  match l with
  | x :: l' => match l' with
               | y :: _ => if x =? y then dedup_adj l' else x :: dedup_adj l'
               | [] => [x]
               end
  | [] => []
  end.
(* the members of a hash set built from the list l, in increasing order *)
Definition canon_set (sort : list N -> list N) (l : list N) : list N := dedup_adj (sort l).

Definition is_splitter (kmer : N) (splitters : list N) : bool := mem splitters kmer.

(* ---- find_actual_splitters_in_contig: the pick loop.
   [recent_rev] is recent_kmers with the newest element first; returns used_splitters in push order. *)
Fixpoint end_pick (cand : N -> bool) (recent_rev : list N) : list N :=
  match recent_rev with
  | [] => []
  | v :: r => if cand v then [v] else end_pick cand r
  end.

Fixpoint sel_loop (cand : N -> bool) (segment_size : N) (rest : list N) (x : kmer)
         (current_len : N) (recent_rev : list N) : list N :=
  match rest with
  | [] => end_pick cand recent_rev                      (* "Try to add rightmost candidate k-mer" *)
  | base :: rest' =>
      if 3 <? base then
        sel_loop cand segment_size rest' (kmer_reset x) (current_len + 1) []
      else
        let x1 := insert_canonical x base in
        if is_full x1 then
          let kmer_value := data_canonical x1 in          (* kmer.data() in Canonical mode *)
          if (segment_size <=? current_len) && cand kmer_value then
            kmer_value :: sel_loop cand segment_size rest' (kmer_reset x1) (0 + 1) []
          else
            sel_loop cand segment_size rest' x1 (current_len + 1) (kmer_value :: recent_rev)
        else sel_loop cand segment_size rest' x1 (current_len + 1) recent_rev
  end.

Definition find_actual_splitters_in_contig (contig : list N) (cand : N -> bool) (k segment_size : N) : list N :=
  sel_loop cand segment_size contig (kmer_new k) segment_size [].

(* ---- determine_splitters: (splitters, candidates = singletons, duplicates) *)
Definition all_kmers (contigs : list (list N)) (k : N) : list N :=
  concat (map (fun c => enumerate_kmers c k) contigs).

Definition determine_splitters_gen (sort : list N -> list N) (contigs : list (list N)) (k segment_size : N)
  : list N * list N * list N :=
  let sorted := sort (all_kmers contigs k) in
  let duplicates := duplicates_scan sorted in
  let candidates := remove_non_singletons sorted 0 in
  let used := concat (map (fun c => find_actual_splitters_in_contig c (mem candidates) k segment_size) contigs) in
  (canon_set sort used, canon_set sort candidates, canon_set sort duplicates).

Definition find_candidate_kmers_multi_gen (sort : list N -> list N) (contigs : list (list N)) (k : N) : list N :=
  remove_non_singletons (sort (all_kmers contigs k)) 0.

(* the executable instances *)
Definition determine_splitters := determine_splitters_gen NSort.sort.
Definition find_candidate_kmers := find_candidate_kmers_gen NSort.sort.
Definition find_candidate_kmers_multi := find_candidate_kmers_multi_gen NSort.sort.
