(* Range.v — transcription of the contig-level readers of ragc-core/src/decompressor.rs:
     reconstruct_contig   (592-675)   the full extraction (get_contig is a lookup + this)
     get_contig_length    (262-275)   the part after the descriptor lookup
     get_contig_range     (310-402)   the part after the descriptor lookup
     reverse_complement_segment (577-589)
   Input of the model: per segment of the contig, the descriptor fields that are read (raw_length,
   is_rev_comp) and the bytes `self.get_segment(desc)?` returned for it (a decode error ends each function
   with Err before anything modelled here happens; it is not modelled).  k = self.kmer_length as usize.
   usize is 64 bits wide; every `+` / `-` on usize is the checked primitive of Mach.v (None = the dev profile
   panics with "attempt to subtract/add with overflow"); outcome = Ok v | Err (anyhow error) | Panic.
   The loops push/extend in the same order as the Rust; debug printing is dropped.  Definitions only. *)
From Ragc Require Export Mach.
Open Scope N_scope.

(* what the three functions read of one SegmentDesc, plus the decoded bytes of that segment *)
Record rseg := mkRSeg { rs_raw : N; rs_rc : bool; rs_data : list N }.

Definition isize_max : N := 9223372036854775807.

(* a.saturating_sub(b) *)
Definition sat_sub (a b : N) : N := if b <=? a then a - b else 0.

(* &v[a..b] (callers guard a < b <= len) *)
Definition vslice {A} (l : list A) (a b : N) : list A := firstnN (b - a) (skipnN a l).

(* if base < 4 { 3 - base } else { base } *)
Definition rev_comp_base (b : N) : N := if b <? 4 then 3 - b else b.
Definition reverse_complement_segment (l : list N) : list N := map rev_comp_base (rev l).

(* let mut segment_data = self.get_segment(desc)?; if desc.is_rev_comp { segment_data = rc(segment_data) } *)
Definition oriented (s : rseg) : list N :=
  if rs_rc s then reverse_complement_segment (rs_data s) else rs_data s.

(* ------------------------------------------------------------------ reconstruct_contig
   for (i, segment_desc) in segments.iter().enumerate()  -- [i] is the enumerate index *)
Fixpoint reconstruct_loop (k : N) (i : nat) (segs : list rseg) (contig : list N) : outcome (list N) :=
  match segs with
  | [] => Ok contig
  | sg :: rest =>
    let segment_data := oriented sg in
    if Nat.eqb i 0 then
      reconstruct_loop k (S i) rest (contig ++ segment_data)
    else
      let overlap := k in
      if lenN segment_data <? overlap then Err           (* bail!("Corrupted archive: segment too short") *)
      else reconstruct_loop k (S i) rest (contig ++ skipnN overlap segment_data)
  end.
Definition reconstruct_contig (k : N) (segs : list rseg) : outcome (list N) :=
  reconstruct_loop k 0 segs [].

(* ------------------------------------------------------------------ get_contig_length
   total_length += raw_length            (i == 0)
   total_length += raw_length - kmer_len (i > 0)     both checked *)
Fixpoint length_loop (k : N) (i : nat) (segs : list rseg) (total_length : N) : outcome N :=
  match segs with
  | [] => Ok total_length
  | sg :: rest =>
    if Nat.eqb i 0 then
      match add_u64 total_length (rs_raw sg) with
      | Some t => length_loop k (S i) rest t
      | None => Panic
      end
    else
      match sub_u64 (rs_raw sg) k with
      | None => Panic
      | Some c =>
        match add_u64 total_length c with
        | Some t => length_loop k (S i) rest t
        | None => Panic
        end
      end
  end.
Definition get_contig_length (k : N) (segs : list rseg) : outcome N := length_loop k 0 segs 0.

(* ------------------------------------------------------------------ get_contig_range
   first loop: segment_ranges.push((seg_start, seg_end, i)); returns the vector and contig_pos *)
Fixpoint segment_ranges_loop (k : N) (i : nat) (segs : list rseg) (contig_pos : N)
  : outcome (list (N * N * nat) * N) :=
  match segs with
  | [] => Ok ([], contig_pos)
  | sg :: rest =>
    let seg_len := rs_raw sg in
    match (if Nat.eqb i 0 then Some seg_len else sub_u64 seg_len k) with
    | None => Panic
    | Some contribution =>
      let seg_start := contig_pos in
      match add_u64 contig_pos contribution with
      | None => Panic
      | Some seg_end =>
        obnd (segment_ranges_loop k (S i) rest seg_end)
             (fun r => Ok ((seg_start, seg_end, i) :: fst r, snd r))
      end
    end
  end.

(* second loop: for (seg_start, seg_end, seg_idx) in segment_ranges { ... } ; [end_] is the clamped end *)
Fixpoint range_loop (k : N) (segs : list rseg) (start end_ : N) (ranges : list (N * N * nat))
         (result : list N) : outcome (list N) :=
  match ranges with
  | [] => Ok result
  | (seg_start, seg_end, seg_idx) :: ranges' =>
    if seg_end <=? start then range_loop k segs start end_ ranges' result          (* continue *)
    else if end_ <=? seg_start then Ok result                                      (* break *)
    else
      match nth_error segs seg_idx with
      | None => Panic                                                              (* segments[seg_idx] *)
      | Some segment_desc =>
        let segment_data := oriented segment_desc in
        let contribution_start_in_segment := if Nat.eqb seg_idx 0 then 0 else k in
        let range_start_in_contribution := sat_sub start seg_start in
        match sub_u64 end_ seg_start, sub_u64 seg_end seg_start with
        | Some a, Some b =>
          let range_end_in_contribution := N.min a b in
          match add_u64 contribution_start_in_segment range_start_in_contribution,
                add_u64 contribution_start_in_segment range_end_in_contribution with
          | Some data_start, Some data_end =>
            if (data_start <? data_end) && (data_end <=? lenN segment_data)
            then range_loop k segs start end_ ranges' (result ++ vslice segment_data data_start data_end)
            else range_loop k segs start end_ ranges' result
          | _, _ => Panic
          end
        | _, _ => Panic
        end
      end
  end.

Definition get_contig_range (k : N) (segs : list rseg) (start end_ : N) : outcome (list N) :=
  if end_ <=? start then Ok []                                    (* if start >= end *)
  else
    obnd (segment_ranges_loop k 0 segs 0) (fun r =>
      let segment_ranges := fst r in
      let contig_len := snd r in
      let end_ := N.min end_ contig_len in
      if end_ <=? start then Ok []
      else
        match sub_u64 end_ start with                             (* Vec::with_capacity(end - start) *)
        | None => Panic
        | Some cap =>
          if isize_max <? cap then Panic                          (* "capacity overflow" *)
          else range_loop k segs start end_ segment_ranges []
        end).

(* ------------------------------------------------------------------ vocabulary of the C07 statements
   wf: every descriptor's raw_length is the length of its decoded segment, and every segment after the
   first has at least k bases (what C10 later_len_ge_k gives for what the compressor stores). *)
Definition wf (k : N) (segs : list rseg) : Prop :=
  Forall (fun s => rs_raw s = lenN (rs_data s)) segs /\
  Forall (fun s => k <= lenN (rs_data s)) (tl segs).
Definition wfb (k : N) (segs : list rseg) : bool :=
  forallb (fun s => rs_raw s =? lenN (rs_data s)) segs &&
  forallb (fun s => k <=? lenN (rs_data s)) (tl segs).
(* first segment whole, later segments without their first k bases (the shape of C10's tiling) *)
Definition tiled (k : N) (segs : list rseg) : list N :=
  match segs with
  | [] => []
  | s0 :: rest => oriented s0 ++ concat (map (fun s => skipnN k (oriented s)) rest)
  end.
