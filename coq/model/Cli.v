(* Cli.v - C17: the argument dispatch of ragc-cli/src/main.rs over a file-system model.

   Transcribed (working tree of /repo):
     main.rs   parse_capacity 294-310, main 345-480 (Ok -> exit 0, Err -> exit 1, panic -> 101),
               create_archive 483-840 (decision part: which flag combinations bail before anything is written),
               getset_command 1107-1163, listset_command 1165-1187, listctg_command 1189-1219
     decompressor.rs  list_samples 166, list_contigs 186-229, get_sample 512-551, list_samples_with_prefix 965-970
                      (filter of list_samples = archive order, NOT sorted: get_samples_list(false)),
                      write_sample_fasta 1048-1073 (get_sample first, then GenomeWriter::create = File::create)
     genome_io.rs     GenomeWriter::save_contig_directly 235-253 (">id\n", 80-column lines), create 258-261

   Abstractions (definitions only; everything below extracts):
   - an archive is what Decompressor::open + get_sample + the CNV_NUM decode of write_sample_fasta give:
     samples in archive order, contigs in order, each with its ASCII letters, or None when
     reconstruct_contig returns Err / panics for that contig (corrupt data); a sample whose contig list cannot be
     loaded at all has None instead of a list.  C01/C08/C14 own that layer.
   - [decode : bytes of the archive file -> option archive] is a Section variable: None = Decompressor::open
     returns Err (missing footer, truncation, garbage).
   - the file system: path -> bytes (first binding wins), File::create truncates, a handle is (path, offset)
     and write_all writes at the offset (POSIX), read, remove_file; [nocreate] lists the paths whose
     File::create fails (missing directory, permissions).
   - a process outcome is (exit class, stdout bytes, resulting files); stderr is not modelled.
   - the compression pipeline behind `create` is a value [pipe_result] handed in (C01/C15 own it): the model
     decides only whether the dispatch reaches it and what the exit status is for each of its results.
   Strings are byte lists; argument strings are assumed ASCII (Rust's trim/to_uppercase are Unicode-aware). *)
From Ragc Require Export Mach.
Open Scope N_scope.

Definition str := list N.

Definition str_eqb (a b : str) : bool := list_eqb N.eqb a b.

(* str::starts_with *)
Fixpoint starts_with (s p : str) {struct p} : bool :=
  match p with
  | [] => true
  | x :: p' => match s with
               | [] => false
               | y :: s' => N.eqb x y && starts_with s' p'
               end
  end.

Fixpoint mem_str (p : str) (l : list str) : bool :=
  match l with [] => false | q :: l' => str_eqb q p || mem_str p l' end.

(* ------------------------------------------------------------------ abstract archive *)
Definition contig := (str * option str)%type.          (* name, letters (None = cannot be reconstructed) *)
(* a sample listed by list_samples whose contig metadata cannot be loaded (load_contig_batch returns Err on a
   damaged collection stream) has None: list_contigs and get_sample fail for it, listset still prints it *)
Definition sample := (str * option (list contig))%type.
Definition archive := list sample.

(* Decompressor::list_samples = collection.get_samples_list(false): archive order *)
Definition list_samples (ar : archive) : list str := map fst ar.

(* load the contig batches, then sample_ids.get(name): None = unknown sample or unloadable metadata *)
Definition find_sample (ar : archive) (name : str) : option (list contig) :=
  match find (fun s => str_eqb (fst s) name) ar with
  | Some s => snd s
  | None => None
  end.

(* the loop of get_sample: reconstruct_contig(..)? for every contig *)
Fixpoint all_contigs (cs : list contig) : option (list (str * str)) :=
  match cs with
  | [] => Some []
  | (n, Some d) :: r => match all_contigs r with Some l => Some ((n, d) :: l) | None => None end
  | (_, None) :: _ => None
  end.

(* Decompressor::get_sample: None = Err("Sample not found") or a reconstruction failure *)
Definition get_sample (ar : archive) (name : str) : option (list (str * str)) :=
  match find_sample ar name with
  | None => None
  | Some cs => all_contigs cs
  end.

(* Decompressor::list_contigs: needs the metadata only *)
Definition list_contigs (ar : archive) (name : str) : option (list str) :=
  match find_sample ar name with
  | None => None
  | Some cs => Some (map fst cs)
  end.

(* Decompressor::list_samples_with_prefix *)
Definition list_samples_with_prefix (ar : archive) (p : str) : list str :=
  filter (fun s => starts_with s p) (list_samples ar).

(* ------------------------------------------------------------------ FASTA text *)
Definition ch_nl : N := 10.
Definition ch_gt : N := 62.
Definition ch_tab : N := 9.

(* contig.chunks(80); the fuel is the length, which always suffices (each round removes >= 1 byte) *)
Fixpoint chunks_fuel (fuel : nat) (l : str) : list str :=
  match fuel with
  | O => []
  | S f => match l with
           | [] => []
           | _ :: _ => firstn 80 l :: chunks_fuel f (skipn 80 l)
           end
  end.
Definition chunks80 (l : str) : list str := chunks_fuel (length l) l.

(* GenomeWriter::save_contig_directly: the bytes it writes for one contig *)
Definition contig_bytes (c : str * str) : str :=
  (ch_gt :: fst c ++ [ch_nl]) ++ concat (map (fun line => line ++ [ch_nl]) (chunks80 (snd c))).

(* the bytes `getset` writes for one sample ([] for a sample that cannot be read) *)
Definition sample_fasta (ar : archive) (name : str) : str :=
  match get_sample ar name with
  | Some cs => concat (map contig_bytes cs)
  | None => []
  end.

(* ------------------------------------------------------------------ file system *)
Record fsys := { files : list (str * str); nocreate : list str }.

Fixpoint lookup (p : str) (l : list (str * str)) : option str :=
  match l with
  | [] => None
  | (q, v) :: l' => if str_eqb q p then Some v else lookup p l'
  end.

Definition fs_read (fs : fsys) (p : str) : option str := lookup p (files fs).
Definition fs_set (fs : fsys) (p : str) (v : str) : fsys :=
  {| files := (p, v) :: files fs; nocreate := nocreate fs |}.
Definition creatable (fs : fsys) (p : str) : bool := negb (mem_str p (nocreate fs)).
(* File::create: truncates or creates *)
Definition fs_create (fs : fsys) (p : str) : option fsys :=
  if creatable fs p then Some (fs_set fs p []) else None.
(* remove_file: Err when the file does not exist *)
Definition fs_remove (fs : fsys) (p : str) : option fsys :=
  match fs_read fs p with
  | None => None
  | Some _ => Some {| files := filter (fun e => negb (str_eqb (fst e) p)) (files fs); nocreate := nocreate fs |}
  end.

Record handle := { h_path : str; h_off : nat }.

(* pwrite semantics: overwrite from the offset on, zero-fill a hole *)
Definition write_at (content : str) (off : nat) (data : str) : str :=
  firstn off content ++ repeat 0 (off - length content) ++ data ++ skipn (off + length data) content.

(* write_all on an open handle (a file that was unlinked meanwhile receives the data invisibly) *)
Definition fs_write (fs : fsys) (h : handle) (data : str) : fsys * handle :=
  let h' := {| h_path := h_path h; h_off := (h_off h + length data)%nat |} in
  match fs_read fs (h_path h) with
  | None => (fs, h')
  | Some c => (fs_set fs (h_path h) (write_at c (h_off h) data), h')
  end.

Definition fs_write_all (fs : fsys) (h : handle) (pieces : list str) : fsys * handle :=
  fold_left (fun acc d => fs_write (fst acc) (snd acc) d) pieces (fs, h).

(* ------------------------------------------------------------------ process state and outcomes *)
Record pstate := { p_fs : fsys; p_stdout : str }.
Inductive exitc := Zero | NonZero.
Definition exitc_eqb (a b : exitc) : bool :=
  match a, b with Zero, Zero => true | NonZero, NonZero => true | _, _ => false end.

Definition with_fs (st : pstate) (fs : fsys) : pstate := {| p_fs := fs; p_stdout := p_stdout st |}.
Definition print (st : pstate) (d : str) : pstate := {| p_fs := p_fs st; p_stdout := p_stdout st ++ d |}.

(* Box<dyn Write>: io::stdout() or the -o file created once *)
Inductive sink := SinkStdout | SinkFile (h : handle).

Definition sink_write (st : pstate) (k : sink) (d : str) : pstate * sink :=
  match k with
  | SinkStdout => (print st d, SinkStdout)
  | SinkFile h => let r := fs_write (p_fs st) h d in (with_fs st (fst r), SinkFile (snd r))
  end.

Definition lines (l : list str) : str := concat (map (fun s => s ++ [ch_nl]) l).

Section CLI.
  (* Decompressor::open on the bytes of the archive file *)
  Variable decode : str -> option archive.

  Definition open_archive (fs : fsys) (path : str) : option archive :=
    match fs_read fs path with
    | None => None
    | Some b => decode b
    end.

  (* Decompressor::write_sample_fasta: get_sample first (an unknown sample fails before the file is touched),
     then File::create, then one save_contig_directly per contig on the same handle *)
  Definition write_sample_fasta (ar : archive) (name : str) (path : str) (fs : fsys) : option fsys :=
    match get_sample ar name with
    | None => None
    | Some cs =>
      match fs_create fs path with
      | None => None
      | Some fs1 => Some (fst (fs_write_all fs1 {| h_path := path; h_off := 0 |} (map contig_bytes cs)))
      end
    end.

  (* which samples getset extracts; None = one of the two bail! *)
  Definition requested (ar : archive) (samples : list str) (prefix : option str) : list str :=
    match prefix with
    | Some p => list_samples_with_prefix ar p
    | None => samples
    end.

  (* the for loop of getset_command; false = a `?` returned Err (the state is the one reached so far) *)
  Fixpoint getset_loop (ar : archive) (names : list str) (tmp : str) (st : pstate) (k : sink)
    : bool * pstate :=
    match names with
    | [] => (true, st)
    | n :: rest =>
      match write_sample_fasta ar n tmp (p_fs st) with
      | None => (false, st)
      | Some fs1 =>
        match fs_read fs1 tmp with
        | None => (false, with_fs st fs1)
        | Some contents =>
          let r := sink_write (with_fs st fs1) k contents in
          getset_loop ar rest tmp (fst r) (snd r)
        end
      end
    end.

  Definition getset_command (arc : str) (samples : list str) (prefix : option str) (output : option str)
             (tmp : str) (st : pstate) : exitc * pstate :=
    match open_archive (p_fs st) arc with
    | None => (NonZero, st)
    | Some ar =>
      match requested ar samples prefix with
      | [] => (NonZero, st)            (* "No samples found matching prefix" / "Must specify either ..." *)
      | names =>
        let opened :=
          match output with
          | None => Some (st, SinkStdout)
          | Some o => match fs_create (p_fs st) o with
                      | None => None
                      | Some fs1 => Some (with_fs st fs1, SinkFile {| h_path := o; h_off := 0 |})
                      end
          end in
        match opened with
        | None => (NonZero, st)
        | Some (st1, k) =>
          match getset_loop ar names tmp st1 k with
          | (false, st2) => (NonZero, st2)
          | (true, st2) =>
            (* out.flush() is a no-op on File and on the process-exit-flushed stdout; then remove_file(temp) *)
            match fs_remove (p_fs st2) tmp with
            | None => (NonZero, st2)
            | Some fs3 => (Zero, with_fs st2 fs3)       (* decompressor.close() = Ok for a reader *)
            end
          end
        end
      end
    end.

  (* writeln!(file, ..) / println!(..) of a list of lines *)
  Definition emit_lines (ls : list str) (output : option str) (st : pstate) : exitc * pstate :=
    match output with
    | Some o =>
      match fs_create (p_fs st) o with
      | None => (NonZero, st)
      | Some fs1 =>
        (Zero, with_fs st (fst (fs_write_all fs1 {| h_path := o; h_off := 0 |} (map (fun s => s ++ [ch_nl]) ls))))
      end
    | None => (Zero, print st (lines ls))
    end.

  Definition listset_command (arc : str) (output : option str) (st : pstate) : exitc * pstate :=
    match open_archive (p_fs st) arc with
    | None => (NonZero, st)
    | Some ar => emit_lines (list_samples ar) output st
    end.

  (* all lines are collected first: an unknown sample fails before anything is written *)
  Fixpoint listctg_lines (ar : archive) (samples : list str) : option (list str) :=
    match samples with
    | [] => Some []
    | s :: rest =>
      match list_contigs ar s with
      | None => None
      | Some cs =>
        match listctg_lines ar rest with
        | None => None
        | Some l => Some (map (fun c => s ++ [ch_tab] ++ c) cs ++ l)
        end
      end
    end.

  Definition listctg_command (arc : str) (samples : list str) (output : option str) (st : pstate)
    : exitc * pstate :=
    match open_archive (p_fs st) arc with
    | None => (NonZero, st)
    | Some ar =>
      match listctg_lines ar samples with
      | None => (NonZero, st)
      | Some ls => emit_lines ls output st
      end
    end.
End CLI.

(* ------------------------------------------------------------------ parse_capacity *)
Definition is_ws (c : N) : bool := ((9 <=? c) && (c <=? 13)) || (c =? 32).
Fixpoint trim_start (s : str) : str :=
  match s with
  | [] => []
  | c :: r => if is_ws c then trim_start r else s
  end.
Definition trim (s : str) : str := rev (trim_start (rev (trim_start s))).
Definition upper (c : N) : N := if (97 <=? c) && (c <=? 122) then c - 32 else c.
Definition strip_suffix (s : str) (c : N) : option str :=
  match rev s with
  | x :: r => if x =? c then Some (rev r) else None
  | [] => None
  end.
Definition is_digit (c : N) : bool := (48 <=? c) && (c <=? 57).

(* <usize as FromStr>::from_str, 64-bit: optional '+', at least one digit, digits only, no overflow *)
Fixpoint parse_digits (acc : N) (s : str) : option N :=
  match s with
  | [] => Some acc
  | c :: r => if is_digit c
              then (if acc * 10 + (c - 48) <? two64 then parse_digits (acc * 10 + (c - 48)) r else None)
              else None
  end.
Definition parse_usize (s : str) : option N :=
  match s with
  | [] => None
  | c :: r => if c =? 43 then (match r with [] => None | _ => parse_digits 0 r end)
              else parse_digits 0 s
  end.

(* `num x 1024 [x 1024 ..]`: with overflow checks (dev profile) an overflow panics, without it wraps *)
Definition mul_cap (checked : bool) (a : outcome N) (b : N) : outcome N :=
  match a with
  | Ok x => if x * b <? two64 then Ok (x * b) else if checked then Panic else Ok (wrap64 (x * b))
  | Err => Err
  | Panic => Panic
  end.
Definition parsed (o : option N) : outcome N := match o with Some v => Ok v | None => Err end.

Definition parse_capacity (checked : bool) (s0 : str) : outcome N :=
  let s := map upper (trim s0) in
  match strip_suffix s 75 with                                            (* 'K' *)
  | Some num => mul_cap checked (parsed (parse_usize num)) 1024
  | None =>
    match strip_suffix s 77 with                                          (* 'M' *)
    | Some num => mul_cap checked (mul_cap checked (parsed (parse_usize num)) 1024) 1024
    | None =>
      match strip_suffix s 71 with                                        (* 'G' *)
      | Some num => mul_cap checked (mul_cap checked (mul_cap checked (parsed (parse_usize num)) 1024) 1024) 1024
      | None => parsed (parse_usize s)
      end
    end
  end.

(* ------------------------------------------------------------------ create: the decision part *)
Record create_flags := {
  f_adaptive : bool; f_concatenated : bool; f_batch : bool; f_cpp_agc : bool;
  f_verbosity : N; f_threads : option N; f_qcap : str; f_ninputs : N;
  f_output_utf8 : bool;            (* output.to_str() is Some *)
  f_checked : bool;                (* built with overflow checks (dev profile) *)
  f_ncpus : N }.

Inductive create_err :=
| EBadCapacity | ECapacityPanic | ECppAgc | EAdaptiveConcat | EInvalidPath | ENoInputs | EBatch.

Inductive dispatch :=
| DErr (e : create_err)
| DProceed (capacity : N) (num_threads : N) (concatenated_genomes : bool).

Definition cap_err {A} (o : outcome N) (k : N -> A) (e : create_err -> A) : A :=
  match o with Ok v => k v | Err => e EBadCapacity | Panic => e ECapacityPanic end.

(* threads.filter(|&t| t > 0).unwrap_or_else(auto): `-t 0` means auto-detect (the compressor spawns exactly
   num_threads workers; before the fix 0 left nobody to compress: hang, or exit 0 with sequence-less contigs) *)
Definition auto_threads (ncpus : N) : N := if ncpus <? 8 then ncpus else ncpus - 1.
Definition num_threads_of (f : create_flags) : N :=
  match f_threads f with
  | Some t => if 0 <? t then t else auto_threads (f_ncpus f)
  | None => auto_threads (f_ncpus f)
  end.

(* create_archive up to the point where the compressor is built; built without the cpp_agc feature *)
Definition create_dispatch (f : create_flags) : dispatch :=
  let verbose_parse :=        (* `if verbosity > 0 { if !batch { let capacity = parse_capacity(..)?; ..` *)
    if (0 <? f_verbosity f) && negb (f_batch f)
    then cap_err (parse_capacity (f_checked f) (f_qcap f)) (fun _ => None) (fun e => Some e)
    else None in
  match verbose_parse with
  | Some e => DErr e
  | None =>
    if f_cpp_agc f then DErr ECppAgc
    else if negb (f_batch f) then
      if f_adaptive f || f_concatenated f then DErr EAdaptiveConcat
      else if negb (f_output_utf8 f) then DErr EInvalidPath
      else cap_err (parse_capacity (f_checked f) (f_qcap f))
             (fun cap => if f_ninputs f =? 0 then DErr ENoInputs
                         else DProceed cap (num_threads_of f) (f_concatenated f || (f_ninputs f =? 1)))
             (fun e => DErr e)
    else DErr EBatch
  end.

(* the queue capacity line of the verbose banner: printed (to stderr) when the first parse succeeds *)
Definition banner_capacity (f : create_flags) : option N :=
  if (0 <? f_verbosity f) && negb (f_batch f)
  then match parse_capacity (f_checked f) (f_qcap f) with Ok v => Some v | _ => None end
  else None.

(* what the library pipeline (splitters .. with_splitters .. push/drain .. finalize) did *)
Inductive pipe_result :=
| PipeFail (leftover : option str)   (* some `?` returned Err or a thread panicked; a partial file may remain *)
| PipeFinalized (bytes : str).       (* finalize() = Ok: these are the bytes of the archive file *)

Definition create_archive (f : create_flags) (output : str) (pr : pipe_result) (st : pstate)
  : exitc * pstate :=
  match create_dispatch f with
  | DErr _ => (NonZero, st)
  | DProceed _ _ _ =>
    match pr with
    | PipeFail None => (NonZero, st)
    | PipeFail (Some b) => (NonZero, with_fs st (fs_set (p_fs st) output b))
    | PipeFinalized b => (Zero, with_fs st (fs_set (p_fs st) output b))
    end
  end.

(* ------------------------------------------------------------------ main *)
Inductive command :=
| CmdCreate (f : create_flags) (output : str) (pr : pipe_result)
| CmdInfo (arc : str)                                   (* "not yet implemented": eprintln!, then bail! *)
| CmdGetset (arc : str) (samples : list str) (prefix : option str) (output : option str)
| CmdListset (arc : str) (output : option str)
| CmdListctg (arc : str) (samples : list str) (output : option str).

Definition run_main (decode : str -> option archive) (tmp : str) (c : command) (st : pstate)
  : exitc * pstate :=
  match c with
  | CmdCreate f o pr => create_archive f o pr st
  | CmdInfo _ => (NonZero, st)      (* the archive is not even opened; before the fix this was Ok(()) *)
  | CmdGetset a s p o => getset_command decode a s p o tmp st
  | CmdListset a o => listset_command decode a o st
  | CmdListctg a s o => listctg_command decode a s o st
  end.

(* specification value of a digit string (used by the parse_capacity theorems) *)
Definition dec_value (ds : str) : N := fold_left (fun a c => a * 10 + (c - 48)) ds 0.
