(* CliGrand.v - C17G: the CLI model (Cli.v, C17) joined with the whole-archive models.  Definitions only.

   Cli.v leaves two things abstract:
     [decode : bytes of the archive file -> option archive]   what Decompressor::open + get_sample + the output letters give
     [pr : pipe_result]                                       what the compression pipeline behind `create` did
   Here both are instantiated:
     cli_decode zd      bytes --AgcV3.decode zd (the format-rule decoder, C02B)--> catalogue (names, contigs, symbol codes)
                        --Fasta.out_letters (write_sample_fasta: code < 16 ? CNV_NUM[code] : 'N', C16)--> Cli.archive.
                        The decoder reads the WHOLE archive: cli_decode is None as soon as any contig does not decode.
                        The real reader is lazy (open loads the sample names only; a damaged contig fails only the
                        commands that touch it - C17 damaged_metadata_nonvacuous); the two coincide on the files the
                        theorems of props/C17G.v are about (every contig decodes: C01G grand_roundtrip).
     create_pipe        FASTA texts --Fasta.v reader, sample naming, catalogue grouping (C16/C19)--> sample set
                        --ModelCreate.model_create (C01G)--> PipeFinalized (file bytes);  PipeFail when the reader or the
                        catalogue rejects the input or model_create does not return Ok (what is left at the output path
                        in that case is a parameter, any value).
     create_pipe_io     the same with the output path of C15 (Sink.v): the Archive history of model_build up to finalize
                        is replayed on a fallible file (any acceptance policy, any BufWriter capacity), then
                        Sink.main_io (finalize; Drop; exit status): PipeFinalized (bytes on disk) iff exit status 0.
   and the answers are spelled out from the INPUT TEXT:
     input_contigs      per file the records (Fasta.records: split at the lines starting with '>') that have a name and at
                        least one base, with sample name (PanSN or file stem), contig name (trimmed header) and the
                        read-back of the sequence (Fasta.read_back = Fasta.norm on texts without the bytes [\]^_`{|}~DEL:
                        upper case, non-letters dropped, non-IUPAC letters -> N)
     input_samples      sample names in order of first appearance
     input_records s    (contig name, letters) of sample s in input order
     fasta_of           ">name\n" + 80-column lines per contig (Cli.contig_bytes = GenomeWriter::save_contig_directly) *)
From Ragc Require Export Mach.
From Ragc Require Cli Fasta Sink Container Pipeline GroupStore AgcV3 ModelCreate.
Open Scope N_scope.

(* ------------------------------------------------------------------ 1. the reader chain *)
Definition cli_contig (nc : list N * list N) : Cli.contig := (fst nc, Some (Fasta.out_letters (snd nc))).
Definition cli_sample (sc : list N * list (list N * list N)) : Cli.sample := (fst sc, Some (map cli_contig (snd sc))).
Definition cli_archive_of (cat : AgcV3.catalogue) : Cli.archive := map cli_sample cat.

Definition cli_decode (zd : list N -> option (list N)) (bytes : Cli.str) : option Cli.archive :=
  match AgcV3.decode zd bytes with
  | Ok cat => Some (cli_archive_of cat)
  | _ => None
  end.

(* ------------------------------------------------------------------ 2. the pipeline behind `create` *)
(* what create hands to the compressor: one input = single-file mode, several = one pass per file (Fasta.create_view
   without the output letters; the same definition as Grand_proofs.text_samples) *)
Definition cg_text_stream (files : list (list N * list N)) : outcome (list Fasta.contig3) :=
  match files with
  | [(fname, text)] => Fasta.stream_single fname text
  | _ => Fasta.stream_multi files
  end.
Definition cg_text_samples (files : list (list N * list N)) : outcome (list (list N * list (list N * list N))) :=
  obnd (cg_text_stream files) (Fasta.collect []).

(* the Archive history before finalize: model_build's history without its last call (flush_buffers) *)
Definition pre_finalize (b : ModelCreate.built) : list Container.wop := removelast (ModelCreate.b_wops b).

Section Create.
  Variable zc : N -> list N -> list N.                        (* zstd encode_all (level, data) *)
  Variable ecn : Pipeline.name -> Pipeline.name.
  Variables (k mml segsize level : N).
  Variable spl : N -> bool.                                   (* splitter set *)
  Variable dec : nat -> nat -> Pipeline.decision.             (* oracles of ModelCreate: decisions, *)
  Variable grp : nat -> nat -> N.                             (*   group assignment, *)
  Variable sched : list Pipeline.registration -> list Pipeline.registration.   (* arrival order of registrations, *)
  Variable gops : list GroupStore.op.                         (*   schedule of the group store *)
  Variable fti : Container.item.                              (* file_type_info part *)
  Variable leftover : option Cli.str.                         (* what a failed pipeline leaves at the output path (any value) *)

  Definition create_pipe (files : list (list N * list N)) : Cli.pipe_result :=
    match cg_text_samples files with
    | Ok arch =>
      match ModelCreate.model_create zc ecn k mml segsize level spl dec grp sched gops fti arch with
      | Ok bytes => Cli.PipeFinalized bytes
      | _ => Cli.PipeFail leftover
      end
    | _ => Cli.PipeFail leftover
    end.

  (* with the fallible output file of C15 *)
  Variable pol : Sink.policy.                                 (* behaviour of the file system, per write call *)
  Variable cap : N.                                           (* BufWriter capacity *)

  Definition create_pipe_io (files : list (list N * list N)) : Cli.pipe_result :=
    match cg_text_samples files with
    | Ok arch =>
      match ModelCreate.model_build zc ecn k mml segsize level spl dec grp sched gops fti arch with
      | Ok b =>
        let r := Sink.main_io Sink.code_sites (Sink.pipeline_state pol cap (pre_finalize b)) in
        match snd r with
        | Sink.ExitZero => Cli.PipeFinalized (Sink.ar_file (fst r))
        | Sink.ExitNonZero => Cli.PipeFail (Some (Sink.ar_file (fst r)))
        end
      | _ => Cli.PipeFail leftover
      end
    | _ => Cli.PipeFail leftover
    end.
End Create.

(* ------------------------------------------------------------------ 3. the answers, from the input text *)
Definition input_contigs_of_file (ft : list N * list N) : list Fasta.contig3 :=
  map (fun r => (Fasta.sample_for (fst ft) (Fasta.rec_name r), Fasta.rec_name r, Fasta.read_back (snd r)))
      (filter Fasta.has_named_base (Fasta.records (snd ft))).
Definition input_contigs (files : list (list N * list N)) : list Fasta.contig3 := flat_map input_contigs_of_file files.

(* order of first appearance; [acc] = the names met so far, in order *)
Fixpoint first_seen (acc : list (list N)) (l : list (list N)) : list (list N) :=
  match l with
  | [] => acc
  | x :: r => if existsb (fun y => Fasta.bytes_eqb y x) acc then first_seen acc r else first_seen (acc ++ [x]) r
  end.

Definition input_samples (files : list (list N * list N)) : list Cli.str :=
  first_seen [] (map (fun c => fst (fst c)) (input_contigs files)).
Definition input_records (files : list (list N * list N)) (s : Cli.str) : list (Cli.str * Cli.str) :=
  Fasta.of_sample s (input_contigs files).

Definition fasta_of (cs : list (Cli.str * Cli.str)) : Cli.str := concat (map Cli.contig_bytes cs).

Definition expected_getset (files : list (list N * list N)) (names : list Cli.str) : Cli.str :=
  concat (map (fun s => fasta_of (input_records files s)) names).
Definition expected_listset (files : list (list N * list N)) : Cli.str := Cli.lines (input_samples files).
Definition expected_listctg (files : list (list N * list N)) (names : list Cli.str) : Cli.str :=
  Cli.lines (flat_map (fun s => map (fun c => s ++ [Cli.ch_tab] ++ fst c) (input_records files s)) names).

Definition all_first_line_ok (files : list (list N * list N)) : Prop :=
  Forall (fun ft => Fasta.first_line_ok (snd ft) = true) files.
