(* ConcLinkR.v - vocabulary that links the two concurrency models (definitions only):
     Protocol.v    (C05): small-step model of producer / bounded queue / workers / Barrier, ghost field `rounds`
     Determinism.v (C04): event model of the same protocol (part A) whose theorem `rounds_as_intended` says which
                          contigs a sync round is made of.
   A Determinism script (list pact) is translated to the producer's operation list of Protocol; a queued task is
   identified by its admission number (Protocol's hook counter `iseq` = position in `tasks_of sc`); a Protocol
   worker is mapped to a Determinism worker state by looking at its own pc and round counter only. *)
From Ragc Require Export Mach.
From Ragc Require Protocol.
From Ragc Require Import Determinism.

(* ---------------------------------------------------------------------------- scripts *)
Definition ptask (t : task) : Protocol.task :=
  Protocol.mkTask (t_prio t) (t_cost t) (t_seq t) (t_cost t) (t_tok t).

Definition pop_of (a : pact) : list Protocol.pop :=
  match a with
  | PPush t => [Protocol.OPush (ptask t)]
  | PWaitEmpty => [Protocol.OPoll]
  | PClose => []
  end.
Definition pops (sc : list pact) : list Protocol.pop := flat_map pop_of sc.

(* sc is the Determinism script of the Protocol script: the same pushes and polls, then close *)
Definition script_match (n : nat) (script : list Protocol.cmd) (sc : list pact) : Prop :=
  exists body, sc = body ++ [PClose] /\ ~ In PClose body /\ Protocol.todo_of n script = pops body.

(* the task admitted as number sq (admissions happen in script order; tokens are counted too) *)
Definition dflt_task : task := mk_task true (0%N, 0%N) 0%N 0%Z 0%N 0%N 0%nat.
Definition task_at (sc : list pact) (sq : N) : task := nth (N.to_nat sq) (tasks_of sc) dflt_task.

(* ---------------------------------------------------------------------------- workers *)
Definition sync_pc (p : Protocol.wpc) : bool :=
  match p with
  | Protocol.WBar _ | Protocol.WBarW _ _ | Protocol.WPhase _ => true
  | _ => false
  end.
(* nr = number of rounds classified so far (length of Protocol's ghost `rounds`) *)
Definition dstate_of (nr : nat) (w : Protocol.worker) : wst :=
  match Protocol.pc w with
  | Protocol.WExited => WExit
  | p => if sync_pc p && Nat.eqb (Protocol.wrounds w) nr then WBar else WIdle
  end.
(* worker 0 has classified the round it is in *)
Definition past0 (p : Protocol.wpc) : bool :=
  match p with
  | Protocol.WBar k | Protocol.WBarW k _ | Protocol.WPhase k => Nat.leb 1 k
  | _ => false
  end.

(* ---------------------------------------------------------------------------- rounds *)
(* Protocol's rounds (seqs, newest first) as Determinism rounds: one raw buffer per round *)
Definition proto_rounds (sc : list pact) (s : Protocol.state) : list (list (list task)) :=
  map (fun seqs => [map (task_at sc) seqs]) (rev (Protocol.rounds s)).

(* ---------------------------------------------------------------------------- the API calls of multi-file mode *)
Definition push_call (inp : input) : Protocol.call := Protocol.CPush (fst (fst (fst inp))) (snd inp).
Definition mf_calls (first rest : list input) : list Protocol.call :=
  map push_call first ++ [Protocol.CDrain; Protocol.CSync] ++ map push_call rest.

(* ---------------------------------------------------------------------------- the API calls of single-file mode *)
(* one PanSN file: the reference sample, drain() once when the second sample starts, the other samples *)
Definition sf_calls (ref rest : list input) : list Protocol.call :=
  map push_call ref ++ (match rest with [] => [] | _ :: _ => [Protocol.CDrain] end) ++ map push_call rest.
