(* Segment.v — transcription of ragc-core/src/segment.rs:
     split_at_splitters_with_size  (the function the compressor calls)
     split_at_splitters            (the older public variant, same loop without
                                    the k-mer reset after a split)
   The splitter set is a boolean function on u64 values (the Rust uses an
   AHashSet<u64>, lookups only).  Positions are [nat] (contig indices), k-mer
   values are [N].  The Rust pushes onto a Vec while looping; here the loop
   returns the segments it pushes, in order (same sequence of pushes).
   Debug printing (eprintln! under env switches / cfg features) is dropped.
   Definitions only. *)
From Ragc Require Export Mach.
From Ragc Require Import Consts_kmer Consts_segment Kmer.
Open Scope N_scope.

(* struct Segment { data, front_kmer, back_kmer, front_kmer_is_dir, back_kmer_is_dir } *)
Record segment := mkSeg { sdata : list N; sfront : N; sback : N; sfdir : bool; sbdir : bool }.

(* contig[a..b].to_vec()  (a <= b <= len on every path that reaches it, see Segment_proofs) *)
Definition slice {A} (l : list A) (a b : nat) : list A := firstn (b - a) (skipn a l).

(* vec![Segment::new(contig.clone(), MISSING_KMER, MISSING_KMER, false, false)] *)
Definition whole_segment (contig : list N) : segment :=
  mkSeg contig MISSING_KMER MISSING_KMER false false.

(* "Add any remaining data as final segment" (segment.rs 237-297 / 432-455).
   [ws = true] : split_at_splitters_with_size, [ws = false] : split_at_splitters *)
Definition seg_final (ws : bool) (contig : list N) (segment_start : nat) (front_kmer : N)
           (front_kmer_is_dir : bool) : list segment :=
  if Nat.ltb segment_start (length contig) then
    let segment_data := skipn segment_start contig in
    match segment_data with
    | [] => []
    | _ :: _ =>
        if ws then
          if front_kmer =? MISSING_KMER
          then [mkSeg segment_data MISSING_KMER MISSING_KMER false false]
          else [mkSeg segment_data front_kmer MISSING_KMER front_kmer_is_dir false]
        else [mkSeg segment_data front_kmer MISSING_KMER front_kmer_is_dir false]
    end
  else [].

(* the main loop: for (pos, &base) in contig.iter().enumerate() { ... }, then the final segment.
   [rest] is the part of the contig not yet visited, [pos] the index of its head. *)
Fixpoint seg_loop (ws : bool) (splitters : N -> bool) (k : nat) (contig : list N)
         (rest : list N) (pos : nat) (kmer : kmer)
         (segment_start : nat) (front_kmer : N) (front_kmer_is_dir : bool) : list segment :=
  match rest with
  | [] => seg_final ws contig segment_start front_kmer front_kmer_is_dir
  | base :: rest' =>
      if 3 <? base then
        (* Non-ACGT base, reset k-mer *)
        seg_loop ws splitters k contig rest' (S pos) (kmer_reset kmer)
                 segment_start front_kmer front_kmer_is_dir
      else
        let kmer1 := insert_canonical kmer base in
        if is_full kmer1 then
          let kmer_value := data_canonical kmer1 in
          let is_dir := is_dir_oriented kmer1 in
          if splitters kmer_value then
            let segment_end := S pos in
            let segment_data := slice contig segment_start segment_end in
            let pushed :=
              match segment_data with
              | [] => []
              | _ :: _ =>
                  if ws then
                    if front_kmer =? MISSING_KMER
                    then [mkSeg segment_data MISSING_KMER kmer_value false is_dir]
                    else [mkSeg segment_data front_kmer kmer_value front_kmer_is_dir is_dir]
                  else [mkSeg segment_data front_kmer kmer_value front_kmer_is_dir is_dir]
              end in
            (* new_start = (pos + 1).saturating_sub(k); with_size also does kmer.reset() *)
            pushed ++ seg_loop ws splitters k contig rest' (S pos)
                               (if ws then kmer_reset kmer1 else kmer1)
                               (segment_end - k)%nat kmer_value is_dir
          else seg_loop ws splitters k contig rest' (S pos) kmer1
                        segment_start front_kmer front_kmer_is_dir
        else seg_loop ws splitters k contig rest' (S pos) kmer1
                      segment_start front_kmer front_kmer_is_dir
  end.

(* both functions: the short-contig early return, the loop, the "no segments were created" fallback *)
Definition split_gen (ws : bool) (contig : list N) (splitters : N -> bool) (k : N) : list segment :=
  if lenN contig <? k then [whole_segment contig]
  else
    let segments := seg_loop ws splitters (N.to_nat k) contig contig 0%nat (kmer_new k)
                             0%nat MISSING_KMER false in
    match segments with
    | [] => [whole_segment contig]
    | _ :: _ => segments
    end.

(* pub fn split_at_splitters_with_size(contig, splitters, k, _min_segment_size): the last argument is unused *)
Definition split_at_splitters_with_size (contig : list N) (splitters : N -> bool) (k : N)
           (min_segment_size : N) : list segment :=
  split_gen true contig splitters k.

(* pub fn split_at_splitters(contig, splitters, k) *)
Definition split_at_splitters (contig : list N) (splitters : N -> bool) (k : N) : list segment :=
  split_gen false contig splitters k.

(* a splitter set given as a list of values (what the drivers pass) *)
Definition set_of_list (l : list N) (v : N) : bool := existsb (N.eqb v) l.
