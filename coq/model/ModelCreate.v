(* ModelCreate.v - C01G: ONE model function from the inputs of `ragc create` to the bytes of the archive file,
   built from the layer models that C01 / C02 / C03 / C09 / C12 / C13 each tie to the code:

     Pipeline.create          split contigs at splitters, per-segment decisions (oracle), pieces, catalogue placement
     GroupStore.run/finalize  per-group buffers: reference part, delta packs, in-group ids           (schedule = oracle)
       with the codecs        LZ.encode (C09), SegCompress.compress_reference_segment / compress_segment_configured (C12)
     Collection.store_all     catalogue -> collection-samples / -contigs / -details parts            (C03)
     Container (Archive)      register_stream / add_part_buffered / flush_buffers / close            (C13)

   The Archive history follows agc_compressor.rs: with_splitters registers collection-samples, -contigs, -details
   (prepare_for_compression), file_type_info, params, splitters, segment-splitters; every new group registers
   x<id>d then x<id>r; all parts go through add_part_buffered (segment parts during the rounds and in finalize,
   then params, splitters, segment-splitters, the catalogue, file_type_info last), one flush_buffers, close.
   Stream names, params layout and metadata values come from the WRITER constants the translator reads from the
   Rust text (Consts_agcv3), not from spec/AgcV3.v.

   What is abstracted: the threads (the group store schedule [gops], the arrival order [sched] of the
   registrations and the decisions are oracles, any value allowed); the interleaving of the buffered segment parts
   of different streams (per stream the order is the group store's; flush_buffers sorts by stream id, so the
   interleaving does not reach the file); groups are registered in the order of their first non-empty op.
   Definitions only. *)
From Ragc Require Export Mach.
From Ragc Require Import Consts_agcv3.
From Ragc Require Import Varint Kmer Segment Pipeline SegReader GroupStore Tuple SegCompress LZ Details Collection Container.
Open Scope N_scope.

(* ------------------------------------------------------------------ codecs of the group store (C09, C12) *)
Definition mc_lz_enc (mml : N) (r t : list N) : list N := match LZ.encode mml r t with Ok e => e | _ => [] end.
Definition mc_cref (zc : N -> list N -> list N) (x : list N) : list N * N :=
  match compress_reference_segment zc x with Ok cm => cm | _ => ([], 0) end.
Definition mc_cpack (zc : N -> list N -> list N) (level : N) (x : list N) : list N := compress_segment_configured zc x level.

(* ------------------------------------------------------------------ pieces -> group store -> addresses *)
Definition mc_seg_of_piece (s c : Pipeline.name) (pc : piece) : seg_in :=
  {| s_sample := s; s_contig := c; s_part := N.of_nat (p_part pc); s_data := p_data pc; s_rc := p_rc pc |}.

Definition mc_seg_eqb (a b : seg_in) : bool :=
  list_eqb N.eqb (s_sample a) (s_sample b) && list_eqb N.eqb (s_contig a) (s_contig b) &&
  (s_part a =? s_part b) && list_eqb N.eqb (s_data a) (s_data b) && Bool.eqb (s_rc a) (s_rc b).

Section Front.
  Variables (k : N) (spl : N -> bool) (segsize : N) (dec : nat -> nat -> decision).
  Variable grp : nat -> nat -> N.              (* contig number, seg_part_no -> group id (the oracle's choice) *)

  Definition mc_pieces_of (i : nat) (data : list N) : outcome (list piece) :=
    contig_pieces (N.to_nat k) (split_at_splitters_with_size data spl k segsize) (dec i) 0 0.

  (* the address of piece (i, part): its group and the in_group_id the store registered for that segment *)
  Definition mc_store_addr (pushes : list push) (st : store) (i part : nat) : N * N :=
    (grp i part,
     match nth_error pushes i with
     | Some (s, c, data) =>
         match mc_pieces_of i data with
         | Ok ps =>
             match find (fun pc => Nat.eqb (p_part pc) part) ps with
             | Some pc =>
                 match find (fun x => mc_seg_eqb (fst x) (mc_seg_of_piece s c pc)) (regs_of st (grp i part)) with
                 | Some x => snd x
                 | None => 0
                 end
             | None => 0
             end
         | _ => 0
         end
     | None => 0
     end).
End Front.

(* ------------------------------------------------------------------ Pipeline's catalogue -> Collection's records *)
Definition mc_cat_seg (d : Pipeline.seg_desc) : Details.seg :=
  Details.mkSeg (Pipeline.d_group d) (Pipeline.d_id d) (Pipeline.d_rc d) (Pipeline.d_len d).
Definition mc_cat_of (c : Pipeline.collection) : list Collection.sample :=
  map (fun s => Collection.mkSample (fst s)
                  (map (fun ct => Collection.mkContig (fst ct) (map mc_cat_seg (snd ct))) (snd s))) c.
(* collection.set_config(segment_size, k, None) *)
Definition mc_coll (segsize k : N) (c : Pipeline.collection) : Collection.coll := mkColl (mc_cat_of c) [] segsize k 0 0.

(* ------------------------------------------------------------------ stream names (ragc-common: stream_ref_name / stream_delta_name) *)
Fixpoint w_b64_digits (fuel : nat) (n : N) : list N :=
  match fuel with
  | O => []
  | S f =>
    nth (N.to_nat (N.land n NM_BASE64_MASK)) NM_BASE64_DIGITS 0
    :: (if n / NM_BASE64_RADIX =? 0 then [] else w_b64_digits f (n / NM_BASE64_RADIX))
  end.
Definition w_ref_name (g : N) : list N := NM_REF_PREFIX ++ w_b64_digits 6 g ++ NM_REF_SUFFIX.
Definition w_delta_name (g : N) : list N := NM_DELTA_PREFIX ++ w_b64_digits 6 g ++ NM_DELTA_SUFFIX.

(* params: k, min_match_len, pack_cardinality, segment_size as u32 LE *)
Definition w_params (k mml segsize : N) : list N :=
  le_bytes 4 k ++ le_bytes 4 mml ++ le_bytes 4 W_PARAMS_PACK_CARDINALITY ++ le_bytes 4 segsize.

(* ------------------------------------------------------------------ the Archive history *)
(* a plan = the streams in registration order, each with the parts it receives, in order *)
Definition plan : Type := list (list N * list Container.item).

Definition unswap_part (p : SegReader.part) : Container.item := (snd p, fst p).
Definition opt_items (o : option (list SegReader.part)) : list Container.item :=
  match o with Some l => map unswap_part l | None => [] end.

(* stream ids 0..6 *)
Definition fixed_plan (k mml segsize : N) (a : arch) (fti : Container.item) : plan :=
  [ (W_NAME_COLL_0, a_samples a); (W_NAME_COLL_1, a_contigs a); (W_NAME_COLL_2, a_details a);
    (W_NAME_FIXED_0, [fti]);
    (W_NAME_FIXED_1, [(w_params k mml segsize, W_PARAMS_METADATA)]);
    (W_NAME_FIXED_2, [([], 0)]);
    (W_NAME_FIXED_3, [([], 0)]) ].
(* the order of the deferred add_part_buffered calls of finalize: params, splitters, segment-splitters,
   collection-samples, -contigs, -details, file_type_info *)
Definition fixed_order : list nat := [4; 5; 6; 0; 1; 2; 3]%nat.

(* per group: x<id>d, then x<id>r, holding the parts of the finalized group store *)
Definition group_plan (fin : store) (groups : list N) : plan :=
  flat_map (fun g => [ (w_delta_name g, opt_items (gv_delta (view_of fin g)));
                       (w_ref_name g, opt_items (gv_ref (view_of fin g))) ]) groups.

Definition tagged (sid : nat) (ps : list Container.item) : list (N * Container.item) :=
  map (fun it => (N.of_nat sid, it)) ps.
Fixpoint all_tagged (base : nat) (p : plan) : list (N * Container.item) :=
  match p with
  | [] => []
  | e :: r => tagged base (snd e) ++ all_tagged (S base) r
  end.
Definition parts_at (p : plan) (i : nat) : list Container.item :=
  match nth_error p i with Some e => snd e | None => [] end.

(* the add_part_buffered calls, in call order: (stream id, part) *)
Definition model_buffered (fp gp : plan) : list (N * Container.item) :=
  all_tagged (length fp) gp ++ flat_map (fun i => tagged i (parts_at fp i)) fixed_order.

Definition addbuf (x : N * Container.item) : wop := WAddBuf (fst x) (fst (snd x)) (snd (snd x)).

Definition model_wops (fp gp : plan) : list wop :=
  map (fun e => WRegister (fst e)) (fp ++ gp) ++ map addbuf (model_buffered fp gp) ++ [WFlush].

(* groups in the order of their first non-empty op *)
Fixpoint dedupN (l seen : list N) : list N :=
  match l with
  | [] => []
  | x :: r => if existsb (N.eqb x) seen then dedupN r seen else x :: dedupN r (x :: seen)
  end.
Definition groups_of (gops : list op) : list N :=
  dedupN (map fst (filter (fun o : op => negb (is_nil (snd o))) gops)) [].

(* ------------------------------------------------------------------ the whole thing *)
Record built := mkBuilt {
  b_store : store;                                  (* the group store after the last round (before finalize) *)
  b_coll : Pipeline.collection;                     (* the catalogue create built *)
  b_stored : list (Pipeline.seg_desc * list N);     (* descriptor registered / bytes handed to the store *)
  b_arch : arch;                                    (* the catalogue parts *)
  b_wops : list wop;                                (* the Archive history *)
  b_file : list N }.                                (* the bytes of the .agc file *)

Section Create.
  Variable zc : N -> list N -> list N.                        (* zstd encode_all (level, data) *)
  Variable ecn : Pipeline.name -> Pipeline.name.              (* extract_contig_name (only for an empty sample name) *)
  Variables (k mml segsize level : N).
  Variable spl : N -> bool.                                   (* the splitter set *)
  Variable dec : nat -> nat -> decision.                      (* decisions oracle *)
  Variable grp : nat -> nat -> N.                             (* group assignment oracle *)
  Variable sched : list registration -> list registration.   (* arrival order of the registrations *)
  Variable gops : list op.                                    (* schedule of the group store *)
  Variable fti : Container.item.                              (* file_type_info part (data, metadata) *)

  Definition model_build (samples : list (Pipeline.name * list (Pipeline.name * list N))) : outcome built :=
    let pushes := pushes_of samples in
    obnd (run (mc_lz_enc mml) (mc_cref zc) (mc_cpack zc level) gops) (fun st =>
    obnd (create ecn k spl segsize dec (mc_store_addr k spl segsize dec grp pushes st) sched pushes) (fun cs =>
    obnd (store_all zc W_CATALOGUE_BATCH (mc_coll segsize k (fst cs)) arch_empty) (fun ca =>
      let fin := finalize (mc_cpack zc level) st in
      let fp := fixed_plan k mml segsize (snd ca) fti in
      let gp := group_plan fin (groups_of gops) in
      let wops := model_wops fp gp in
      Ok (mkBuilt st (fst cs) (snd cs) (snd ca) wops (close (fst (wrun w_init wops))))))).

  Definition model_create (samples : list (Pipeline.name * list (Pipeline.name * list N))) : outcome (list N) :=
    obnd (model_build samples) (fun b => Ok (b_file b)).
End Create.
