(* ReaderGrand.v - C08G: the ABSTRACT archive of the C08 reader model (ReaderState.archive) that the reader sees when
   it opens given FILE BYTES, assembled from the component models the whole-archive decoder spec/AgcV3.v is made of:

     directory        AgcV3.open_archive           = Container.deserialize                              (C13)
     ar_k             AgcV3.read_params            (kmer_length; segment size and min_match_len feed the decoders below)
     ar_names         Collection.unz + Names.deser_sample_names on part a_cur of collection-samples  (C03; what
                      Collection.load_batch_sample_names reads)
     ar_batches       one entry per part of collection-contigs (Decompressor: `for batch_id in 0..num_batches`):
                      Collection.unz + Names.deser_names on part i of collection-contigs, the 10-varint prefix + five zstd
                      frames + Details.deser_details on part i of collection-details (the steps of
                      Collection.load_contig_batch, WITHOUT the cursor), joined by position with
                      Collection.put_contig_segs ([zip_samples]); None when a step fails
     ar_ref g         part R_REF_PART of the stream x<g>r (AgcV3.group_view_of), as stored: (metadata, bytes)
     ar_lz g i r      the delta path of SegReader.get_segment ([lz_delta]; [get_segment_split] in the proofs file shows
                      SegReader.get_segment = load_reference ; lz_delta) over the stream x<g>d, with
                      SegCompress.decompress_segment_with_marker zd and LZ.decode_full min_match_len
     ar_raw g i       SegReader.get_segment on a raw group (< 16): no reference, everything in x<g>d
     ar_streams       the directory as get_compression_stats shows it: (name, raw size, packed size, number of parts);
                      Stream.packed_size is only accumulated by the writer and stays 0 on an opened archive
   The abstract decoding variable of ReaderState's Section (dz) is instantiated with [file_dz zd] =
   SegCompress.decompress_segment_with_marker zd (= AgcV3.dwm zd); zd = zstd decode_all is the only oracle.

   Not representable in ReaderState.archive (and therefore mapped): a container-level Err / Panic while reading the
   part of a group stream becomes "no reference" (ar_ref = None) resp. the Err / Panic outcome of ar_lz / ar_raw.
   [deser_names] gets an availability bound that never triggers (lenN data + 2 > number of iterations): in the C08 model
   the index-out-of-bounds of the loader is [ReaderState.put], not a property of the batch.
   Definitions only. *)
From Ragc Require Export Mach.
From Ragc Require Import Consts_groupstore.
From Ragc Require Import Varint Container CVarint Zigzag Names Details Collection Tuple SegCompress LZ SegReader Range AgcV3.
From Ragc Require ReaderState.
Open Scope N_scope.

(* ------------------------------------------------------------------ catalogue records -> reader-model records *)
Definition conv_seg (x : Details.seg) : ReaderState.desc := ReaderState.mkDesc (sg x) (si x) (src x) (sl x).
Definition conv_contig (ct : Collection.contig) : ReaderState.contig := (cname ct, map conv_seg (csegs ct)).
Definition conv_row (cs : list Collection.contig) : list ReaderState.contig := map conv_contig cs.

(* the contigs of one sample of a batch: names joined with descriptor tables exactly as the second pass of
   deserialize_contig_details does on freshly named contigs (missing rows keep no segments, an extra row = None) *)
Definition zip_contigs (ns : list Names.name) (ds : list (list seg)) : option (list Collection.contig) :=
  put_contig_segs (map (fun n => mkContig n []) ns) ds.

(* rows of the details table beyond the names of the batch fall on samples that have no contigs: accepted iff empty *)
Fixpoint zip_samples (nt : list (list Names.name)) (dt : list (list (list seg))) : option (list (list Collection.contig)) :=
  match nt with
  | [] => if forallb (fun r : list (list seg) => is_nil r) dt then Some [] else None
  | ns :: nt' =>
    match dt with
    | [] => match zip_samples nt' [] with
            | Some b => Some (map (fun n => mkContig n []) ns :: b)
            | None => None
            end
    | d :: dt' =>
      match zip_contigs ns d, zip_samples nt' dt' with
      | Some r, Some b => Some (r :: b)
      | _, _ => None
      end
    end
  end.

Section File.
  Variable zd : list N -> option (list N).          (* zstd decode_all *)

  (* ReaderState's Section variable dz *)
  Definition file_dz : list N -> N -> outcome (list N) := decompress_segment_with_marker zd.

  (* ---------------------------------------------------------------- catalogue *)
  Definition file_names (a : arch) : outcome (list Names.name) :=
    match nthN (a_samples a) (a_cur a) with
    | None => Err
    | Some p => let p := read_part p in obnd (unz zd (fst p) (snd p)) deser_sample_names
    end.

  Definition batch_names (p : Collection.part) : outcome (N * list (list Names.name)) :=
    let p := read_part p in
    obnd (unz zd (fst p) (snd p)) (fun vn => deser_names (lenN vn + 2) vn).

  Definition batch_details (ss k : N) (q : Collection.part) : outcome (list (list (list seg))) :=
    let q := read_part q in
    obnd (cv_decode_n 10 (fst q)) (fun sr =>
      let sizes := pairs (fst sr) in
      obnd (take5 sizes (snd sr)) (fun comp =>
      obnd (unz5 zd sizes comp) (fun raw =>
        match raw with
        | [s0; s1; s2; s3; s4] => deser_details ss k (s0, s1, s2, s3, s4)
        | _ => Panic
        end))).

  Definition batch_rows (ss k : N) (a : arch) (i : N) : outcome (list (list Collection.contig)) :=
    match nthN (a_contigs a) i with
    | None => Err
    | Some p =>
      obnd (batch_names p) (fun r =>
        match nthN (a_details a) i with
        | None => Err
        | Some q =>
          obnd (batch_details ss k q) (fun t =>
            match zip_samples (snd r) t with Some b => Ok b | None => Panic end)
        end)
    end.

  Definition file_batch (ss k : N) (a : arch) (i : nat) : option ReaderState.batch :=
    match batch_rows ss k a (N.of_nat i) with
    | Ok b => Some (map conv_row b)
    | _ => None
    end.

  Definition file_batches (ss k : N) (a : arch) : list (option ReaderState.batch) :=
    map (file_batch ss k a) (seq 0 (length (a_contigs a))).

  (* ---------------------------------------------------------------- segments *)
  (* get_segment, LZ group, after the reference: delta stream lookup, pack decompression, unpack_contig, LZ decode *)
  Definition lz_delta (dwm : list N -> N -> outcome (list N)) (lz_dec : list N -> list N -> outcome (list N))
      (gv : group_view) (id : N) (reference : list N) : outcome (list N) :=
    let delta_position := id - R_DELTA_ID_OFFSET in
    let pack_id := delta_position / R_PACK_CARDINALITY in
    let position_in_pack := delta_position mod R_PACK_CARDINALITY in
    match gv_delta gv with
    | None => Err
    | Some dparts =>
        if lenN dparts <=? pack_id then Err
        else
          obnd (SegReader.get_part dparts pack_id) (fun p =>
          obnd (SegReader.load_part dwm p) (fun pack =>
          obnd (unpack_contig pack position_in_pack) (fun enc =>
            if is_nil enc then Ok reference else lz_dec reference enc)))
    end.

  Definition file_ref (rd : reader) (g : N) : option (N * list N) :=
    match group_view_of rd g with
    | Ok gv => match gv_ref gv with Some parts => nthN parts R_REF_PART | None => None end
    | _ => None
    end.

  Definition file_lz (rd : reader) (mml : N) (g i : N) (reference : list N) : outcome (list N) :=
    obnd (group_view_of rd g) (fun gv => lz_delta file_dz (decode_full mml) gv i reference).

  Definition file_raw (rd : reader) (mml : N) (g i : N) : outcome (list N) :=
    obnd (group_view_of rd g) (fun gv =>
      SegReader.get_segment file_dz (decode_full mml) (fun _ => gv)
                            {| SegReader.d_group := g; d_id := i; SegReader.d_rc := false; SegReader.d_len := 0 |}).

  Definition file_streams (rd : reader) : list (list N * N * N * N) :=
    map (fun s => (Container.rs_name s, Container.rs_raw s, 0, lenN (Container.rs_parts s))) (r_streams rd).

  (* ---------------------------------------------------------------- the archive *)
  Definition archive_of_file (file : list N) : outcome ReaderState.archive :=
    obnd (open_archive file) (fun rd =>
    obnd (read_params rd) (fun p =>
    obnd (coll_arch rd) (fun a =>
    obnd (file_names a) (fun ns =>
      Ok (ReaderState.mkAr (p_k p) ns (file_batches (p_segsize p) (p_k p) a)
                           (file_ref rd) (file_lz rd (p_mml p)) (file_raw rd (p_mml p)) (file_streams rd)))))).
End File.

(* ------------------------------------------------------------------ the answers computed from a sample set
   (what a user-level query must return on an archive that holds exactly [samples]); None = the query is about the
   writer's internals (descriptors, groups, stream directory) and has no input-level specification *)
Definition samples_t : Type := list (list N * list (list N * list N)).

(* HashMap semantics of sample_ids: the LAST sample of that name *)
Fixpoint find_sample (samples : samples_t) (s : list N) : option (list (list N * list N)) :=
  match samples with
  | [] => None
  | x :: r => match find_sample r s with
              | Some c => Some c
              | None => if ReaderState.name_eqb (fst x) s then Some (snd x) else None
              end
  end.
(* iter().find: the FIRST contig of that name *)
Definition find_contig (cs : list (list N * list N)) (c : list N) : option (list N) :=
  option_map snd (find (fun x => ReaderState.name_eqb (fst x) c) cs).

Definition input_answer (samples : samples_t) (q : ReaderState.query) : option (outcome ReaderState.value) :=
  match q with
  | ReaderState.QListSamples => Some (Ok (ReaderState.VNames (map fst samples)))
  | ReaderState.QPrefix p =>
      Some (Ok (ReaderState.VNames (filter (fun s => ReaderState.starts_with s p) (map fst samples))))
  | ReaderState.QListContigs s =>
      Some (match find_sample samples s with Some cs => Ok (ReaderState.VNames (map fst cs)) | None => Err end)
  | ReaderState.QSample s =>
      Some (match find_sample samples s with Some cs => Ok (ReaderState.VSample cs) | None => Err end)
  | ReaderState.QContig s c =>
      Some (match find_sample samples s with
            | Some cs => match find_contig cs c with Some sq => Ok (ReaderState.VSeq sq) | None => Err end
            | None => Err
            end)
  | ReaderState.QContigLength s c =>
      Some (match find_sample samples s with
            | Some cs => match find_contig cs c with Some sq => Ok (ReaderState.VNum (lenN sq)) | None => Err end
            | None => Err
            end)
  | ReaderState.QContigRange s c a b =>
      Some (if b <=? a then Ok (ReaderState.VSeq [])
            else match find_sample samples s with
                 | Some cs => match find_contig cs c with
                              | Some sq => Ok (ReaderState.VSeq (firstnN (N.min b (lenN sq) - a) (skipnN a sq)))
                              | None => Err
                              end
                 | None => Err
                 end)
  | _ => None
  end.
