(* ReaderGrand_range.v - C08G: get_contig_length / get_contig_range of the C08 model (ReaderState.total_len, seg_ranges,
   range_spec - unchecked usize arithmetic, descriptors by value) against the C07 model (Range.get_contig_length /
   get_contig_range - checked arithmetic, descriptors by index): whenever the C07 function returns Ok, the C08
   specification returns the same value.  With C07's length_correct / range_correct this gives the length and the
   slices of the decoded contig. *)
From Coq Require Import Lia ZifyBool ZifyN ZifyNat.
From Ragc Require Import Mach Consts_groupstore Container Details Collection SegCompress LZ SegReader Range AgcV3.
From Ragc Require Import ReaderGrand ReaderGrand_cat ReaderGrand_seg ReaderGrand_proofs.
From Ragc Require ReaderState ReaderState_proofs Range_proofs.
Open Scope N_scope.
Arguments N.add : simpl never.
Arguments N.sub : simpl never.
Arguments N.mul : simpl never.
Arguments N.min : simpl never.
Arguments N.leb : simpl never.
Arguments N.ltb : simpl never.
Arguments N.eqb : simpl never.

Lemma add_u64_some : forall a b t, add_u64 a b = Some t -> t = a + b.
Proof. intros a b t H. unfold add_u64 in H. destruct (a + b <? two64); inversion H; reflexivity. Qed.
Lemma sub_u64_some : forall a b t, sub_u64 a b = Some t -> t = a - b.
Proof. intros a b t H. unfold sub_u64 in H. destruct (b <=? a); inversion H; reflexivity. Qed.
Lemma sat_sub_eq : forall a b, sat_sub a b = a - b.
Proof. intros a b. unfold sat_sub. destruct (N.leb_spec b a); lia. Qed.

Definition dseg_rel (zd : list N -> option (list N)) (rd : reader) (mml : N) (x : seg) (r : rseg) : Prop :=
  exists data, get_seg zd rd mml (desc_of_seg x) = Ok data /\ r = mkRSeg (sl x) (src x) data.

Lemma mapM_dseg : forall zd rd mml segs rs, mapM (decode_seg zd rd mml) segs = Ok rs ->
  Forall2 (dseg_rel zd rd mml) segs rs.
Proof.
  intros zd rd mml. induction segs as [|x segs IH]; intros rs H.
  - cbn [mapM] in H. inversion H. constructor.
  - apply mapM_cons_inv in H. destruct H as (r & rs' & Er & Ers & ->).
    constructor; [exact (decode_seg_inv zd rd mml _ _ Er)|exact (IH _ Ers)].
Qed.

Lemma length_sim : forall zd rd mml k segs rs, Forall2 (dseg_rel zd rd mml) segs rs -> forall i tot n,
  length_loop k i rs tot = Ok n -> RS.total_len k (map conv_seg segs) (Nat.eqb i 0) tot = Ok n.
Proof.
  intros zd rd mml k segs rs HF.
  induction HF as [|x r segs rs (data & _ & ->) _ IH]; intros i tot n H; cbn [length_loop] in H; cbn [map RS.total_len].
  - exact H.
  - cbn [rs_raw] in H. change (RS.d_len (conv_seg x)) with (sl x). destruct (Nat.eqb i 0).
    + destruct (add_u64 tot (sl x)) as [t|] eqn:Ea; [|discriminate]. apply add_u64_some in Ea. subst t.
      exact (IH (S i) _ _ H).
    + destruct (sub_u64 (sl x) k) as [c|] eqn:Es; [|discriminate].
      destruct (add_u64 tot c) as [t|] eqn:Ea; [|discriminate]. apply add_u64_some in Ea. subst t.
      exact (IH (S i) _ _ H).
Qed.

Definition dflt_seg : seg := mkSeg 0 0 false 0.
Definition conv_range (all : list seg) (r : N * N * nat) : N * N * RS.desc * bool :=
  (fst (fst r), snd (fst r), conv_seg (nth (snd r) all dflt_seg), Nat.eqb (snd r) 0).

Lemma ranges_sim : forall zd rd mml k suf rsuf, Forall2 (dseg_rel zd rd mml) suf rsuf -> forall pre pos rr clen,
  segment_ranges_loop k (length pre) rsuf pos = Ok (rr, clen) ->
  RS.seg_ranges k (map conv_seg suf) (Nat.eqb (length pre) 0) pos = Ok (map (conv_range (pre ++ suf)) rr, clen).
Proof.
  intros zd rd mml k suf rsuf HF.
  induction HF as [|x r suf rsuf (data & _ & ->) _ IH]; intros pre pos rr clen H; cbn [segment_ranges_loop] in H;
    cbn [map RS.seg_ranges].
  - inversion H; subst. reflexivity.
  - cbn [rs_raw] in H. change (RS.d_len (conv_seg x)) with (sl x).
    destruct (if Nat.eqb (length pre) 0 then Some (sl x) else sub_u64 (sl x) k) as [c|] eqn:Ec; [|discriminate].
    destruct (add_u64 pos c) as [e|] eqn:Ee; [|discriminate]. apply add_u64_some in Ee. subst e.
    apply obnd_ok_inv in H. destruct H as ([rr' clen'] & Er & H). cbn [fst snd] in H. inversion H; subst rr clen; clear H.
    specialize (IH (pre ++ [x]) (pos + c) rr' clen').
    rewrite app_length in IH. cbn [length] in IH. rewrite Nat.add_1_r in IH. specialize (IH Er).
    cbn [Nat.eqb] in IH. rewrite IH. cbn [obnd fst snd map]. rewrite <- app_assoc. cbn [app].
    assert (Eh : conv_range (pre ++ x :: suf) (pos, pos + c, length pre) =
                 (pos, pos + c, conv_seg x, Nat.eqb (length pre) 0)).
    { unfold conv_range. cbn [fst snd]. rewrite nth_middle. reflexivity. }
    rewrite Eh. reflexivity.
Qed.

Lemma range_loop_sim : forall zd rd mml k ar,
  RS.ar_k ar = k -> RS.ar_ref ar = file_ref rd -> RS.ar_lz ar = file_lz zd rd mml -> RS.ar_raw ar = file_raw zd rd mml ->
  forall all rsall, Forall2 (dseg_rel zd rd mml) all rsall -> forall s e rr res out,
  Range.range_loop k rsall s e rr res = Ok out ->
  RS.range_spec (file_dz zd) ar (map (conv_range all) rr) s e res = Ok out.
Proof.
  intros zd rd mml k ar Hk Href Hlz Hraw all rsall HF s e.
  induction rr as [|[[s0 e0] idx] rr IH]; intros res out H; cbn [Range.range_loop] in H; cbn [map RS.range_spec].
  - exact H.
  - unfold conv_range at 1. cbn [fst snd].
    destruct (e0 <=? s). { exact (IH _ _ H). }
    destruct (e <=? s0). { exact H. }
    destruct (nth_error rsall idx) as [rsd|] eqn:En; [|discriminate].
    destruct (Forall2_nth_error_r _ _ _ HF idx rsd En) as (x & Ex & (data & Hget & ->)).
    rewrite (nth_error_nth _ _ dflt_seg Ex).
    assert (Hs : RS.seg_spec (file_dz zd) ar (conv_seg x) = Ok data) by (eapply seg_agree; eassumption).
    rewrite Hs. cbn [obnd]. rewrite Hk. cbv zeta in H. cbv zeta.
    destruct (sub_u64 e s0) as [a|] eqn:Ea; [|destruct (sub_u64 e0 s0); discriminate].
    destruct (sub_u64 e0 s0) as [b0|] eqn:Eb; [|discriminate].
    apply sub_u64_some in Ea, Eb. subst a b0. rewrite sat_sub_eq in H.
    match type of H with
    | match ?X with _ => _ end = _ => destruct X as [ds|] eqn:Eds
    end.
    2: { first [discriminate
               | match type of H with match ?Y with _ => _ end = _ => destruct Y end; discriminate]. }
    match type of H with
    | match ?X with _ => _ end = _ => destruct X as [de|] eqn:Ede; [|discriminate]
    end.
    apply add_u64_some in Eds, Ede. subst ds de.
    match type of H with
    | (if ?C then _ else _) = _ => destruct C eqn:EC
    end.
    + match goal with
      | |- context [if ?C' then _ else _] => replace C' with true by (rewrite <- EC; reflexivity)
      end.
      apply IH. exact H.
    + match goal with
      | |- context [if ?C' then _ else _] => replace C' with false by (rewrite <- EC; reflexivity)
      end.
      apply IH. exact H.
Qed.

Lemma range_sim : forall zd rd mml k ar,
  RS.ar_k ar = k -> RS.ar_ref ar = file_ref rd -> RS.ar_lz ar = file_lz zd rd mml -> RS.ar_raw ar = file_raw zd rd mml ->
  forall segs rs, Forall2 (dseg_rel zd rd mml) segs rs -> forall a b out, (b <=? a) = false ->
  Range.get_contig_range k rs a b = Ok out ->
  match RS.seg_ranges k (map conv_seg segs) true 0 with
  | Panic => Panic
  | Err => Err
  | Ok (rr, clen) =>
    let e := N.min b clen in
    if e <=? a then Ok (RS.VSeq []) else RS.omap RS.VSeq (RS.range_spec (file_dz zd) ar rr a e [])
  end = Ok (RS.VSeq out).
Proof.
  intros zd rd mml k ar Hk Href Hlz Hraw segs rs HF a b out Hab H.
  unfold Range.get_contig_range in H. rewrite Hab in H.
  apply obnd_ok_inv in H. destruct H as ([rr clen] & Er & H). cbn [fst snd] in H.
  pose proof (ranges_sim zd rd mml k segs rs HF [] 0 rr clen Er) as Hr. cbn [length Nat.eqb app] in Hr.
  rewrite Hr. cbv zeta.
  destruct (N.min b clen <=? a). { inversion H. reflexivity. }
  destruct (sub_u64 (N.min b clen) a) as [cap|]; [|discriminate]. destruct (isize_max <? cap); [discriminate|].
  rewrite (range_loop_sim zd rd mml k ar Hk Href Hlz Hraw segs rs HF a _ rr [] out H). reflexivity.
Qed.

(* ------------------------------------------------------------------ all user-level answers of a decodable file *)
Section Answers2.
  Variable zd : list N -> option (list N).
  Variables (file : list N) (cat : catalogue) (ar : RS.archive) (rd : reader) (p : params) (c : coll).
  Hypothesis FV : file_view zd file cat ar rd p c.
  Hypothesis Hk32 : p_k p < two32.
  Hypothesis Hwf : forall smp ct rs, In smp (samples c) -> In ct (scontigs smp) ->
    mapM (decode_seg zd rd (p_mml p)) (csegs ct) = Ok rs -> Range.wf (p_k p) rs.
  Hypothesis Hsz : forall x y, In x cat -> In y (snd x) -> lenN (snd y) <= isize_max.

  Theorem answer_user : forall q v, user_query q -> input_answer cat q = Some v -> RS.answer (file_dz zd) ar q = v.
  Proof.
    intros q v Hq Hv.
    destruct q; cbn [user_query] in Hq; try contradiction;
      try (apply (answer_basic zd file cat ar rd p c FV); [exact I|exact Hv]).
    - (* get_contig_length *)
      cbn [input_answer] in Hv. inversion Hv; subst v; clear Hv. cbn [RS.answer]. unfold RS.get_contig_desc.
      pose proof (lookup_sample zd file cat ar rd p c FV s) as L. destruct (RS.sid ar s) as [id|].
      + destruct L as (smp & x & Hsmp & Hx & -> & -> & Hcs).
        pose proof (find_contig_rel zd rd (p_k p) (p_mml p) ar _ _ c0 Hcs) as F.
        destruct (find (fun y => RS.name_eqb (fst y) c0) (conv_row (scontigs smp))) as [d|]; cbn [option_map].
        * destruct F as (ct & sq & Hct & Hy & -> & -> & (_ & _ & rs & Em & Erc)). cbn [conv_contig snd] in *.
          rewrite (fv_k _ _ _ _ _ _ _ FV).
          pose proof (Range_proofs.length_correct_proof (p_k p) rs sq (Hwf smp ct rs Hsmp Hct Em) Erc
                        (Hsz x (c0, sq) Hx Hy)) as HL.
          unfold get_contig_length in HL.
          pose proof (length_sim zd rd (p_mml p) (p_k p) _ _ (mapM_dseg _ _ _ _ _ Em) 0%nat 0 _ HL) as HS.
          cbn [Nat.eqb] in HS. rewrite HS. reflexivity.
        * rewrite F. reflexivity.
      + rewrite L. reflexivity.
    - (* get_contig_range *)
      cbn [input_answer] in Hv. inversion Hv; subst v; clear Hv. cbn [RS.answer].
      destruct (b <=? a) eqn:Hab; [reflexivity|]. unfold RS.get_contig_desc.
      pose proof (lookup_sample zd file cat ar rd p c FV s) as L. destruct (RS.sid ar s) as [id|].
      + destruct L as (smp & x & Hsmp & Hx & -> & -> & Hcs).
        pose proof (find_contig_rel zd rd (p_k p) (p_mml p) ar _ _ c0 Hcs) as F.
        destruct (find (fun y => RS.name_eqb (fst y) c0) (conv_row (scontigs smp))) as [d|]; cbn [option_map].
        * destruct F as (ct & sq & Hct & Hy & -> & -> & (_ & _ & rs & Em & Erc)). cbn [conv_contig snd] in *.
          rewrite (fv_k _ _ _ _ _ _ _ FV).
          pose proof (Range_proofs.range_correct_proof (p_k p) rs sq a b (Hwf smp ct rs Hsmp Hct Em) Hk32 Erc
                        (Hsz x (c0, sq) Hx Hy)) as HR.
          exact (range_sim zd rd (p_mml p) (p_k p) ar (fv_k _ _ _ _ _ _ _ FV) (fv_ref _ _ _ _ _ _ _ FV)
                   (fv_lz _ _ _ _ _ _ _ FV) (fv_raw _ _ _ _ _ _ _ FV) _ _ (mapM_dseg _ _ _ _ _ Em) a b _ Hab HR).
        * rewrite F. reflexivity.
      + rewrite L. reflexivity.
  Qed.
End Answers2.

Theorem answer_is_decode_ranges_proof : forall (zd : list N -> option (list N)) (file : list N) (cat : catalogue),
  decode zd file = Ok cat ->
  (forall rd p a c, open_archive file = Ok rd -> read_params rd = Ok p -> coll_arch rd = Ok a ->
     load_all zd (p_segsize p) (p_k p) a = Ok c ->
     p_k p < two32 /\
     forall smp ct rs, In smp (samples c) -> In ct (scontigs smp) ->
       mapM (decode_seg zd rd (p_mml p)) (csegs ct) = Ok rs -> Range.wf (p_k p) rs) ->
  (forall x y, In x cat -> In y (snd x) -> lenN (snd y) <= isize_max) ->
  exists ar : RS.archive, archive_of_file zd file = Ok ar /\
    forall q v, user_query q -> input_answer cat q = Some v -> RS.answer (file_dz zd) ar q = v.
Proof.
  intros zd file cat H Hwf Hsz. destruct (file_view_of_decode zd file cat H) as (ar & rd & p & c & FV).
  exists ar. split; [exact (fv_archive _ _ _ _ _ _ _ FV)|].
  destruct (fv_load _ _ _ _ _ _ _ FV) as (a & Ea & El).
  destruct (Hwf rd p a c (fv_open _ _ _ _ _ _ _ FV) (fv_params _ _ _ _ _ _ _ FV) Ea El) as [Hk32 Hw].
  exact (answer_user zd file cat ar rd p c FV Hk32 Hw Hsz).
Qed.
