(* CliGz_proofs.v - C19G: create over input FILE BYTES (CliGz.v) = C17G's create over the decompressed texts.
   1. the stream over files is the stream over the decompressed texts; a failing decoder fails the pipeline
   2. create depends on an input file only through Fasta.input_stream; gzip presentations are transparent
   3. the C17G statements restated over file bytes
   4. refusal: a *.gz input the decoder rejects
   5. the toy gzip of the non-vacuity examples meets C19's oracle hypothesis *)
From Coq Require Import Lia ZifyBool ZifyN ZifyNat Permutation.
From Ragc Require Import Mach.
From Ragc Require Cli Fasta Sink Container Pipeline GroupStore AgcV3 ModelCreate.
From Ragc Require Cli_proofs Fasta_proofs.
From Ragc Require Import CliGrand CliGz.
From Ragc Require Consts_agcv3 Kmer Segment SegReader Collection Pipeline_proofs Compose_codecs Compose_proofs AgcV3_compose Grand_proofs.
From Ragc Require C17G.
From Coq Require Import Setoid Morphisms.
Open Scope N_scope.

(* ================================================================ 1. files -> texts *)
Lemma input_stream_text : forall gunzip n d t, Fasta.file_bytes gunzip n d = Some t ->
  Fasta.input_stream gunzip n d = Fasta.contig_stream n t.
Proof. intros gunzip n d t H. unfold Fasta.input_stream. rewrite H. reflexivity. Qed.

Lemma input_stream_fail : forall gunzip n d, Fasta.file_bytes gunzip n d = None -> Fasta.input_stream gunzip n d = Err.
Proof. intros gunzip n d H. unfold Fasta.input_stream. rewrite H. reflexivity. Qed.

Lemma file_bytes_none : forall gunzip n d, Fasta.file_bytes gunzip n d = None <-> (Fasta.is_gz_name n = true /\ gunzip d = None).
Proof.
  intros gunzip n d. unfold Fasta.file_bytes. destruct (Fasta.is_gz_name n).
  - split; [intro H; split; [reflexivity|exact H]|intros [_ H]; exact H].
  - split; [discriminate|intros [H _]; discriminate].
Qed.

Lemma fb_multi_texts : forall gunzip files texts, file_texts gunzip files = Some texts ->
  fb_stream_multi gunzip files = Fasta.stream_multi texts.
Proof.
  intros gunzip. induction files as [|[n d] fs IH]; intros texts H; cbn [file_texts] in H.
  - injection H as <-. reflexivity.
  - destruct (Fasta.file_bytes gunzip n d) as [t|] eqn:E; [|discriminate].
    destruct (file_texts gunzip fs) as [ts|]; [|discriminate]. injection H as <-.
    cbn [fb_stream_multi Fasta.stream_multi]. rewrite (input_stream_text _ _ _ _ E), (IH ts eq_refl). reflexivity.
Qed.

Lemma fb_stream_texts : forall gunzip files texts, file_texts gunzip files = Some texts ->
  fb_stream gunzip files = cg_text_stream texts.
Proof.
  intros gunzip files texts H. pose proof (fb_multi_texts gunzip files texts H) as M.
  destruct files as [|[n d] [|f2 fs]].
  - cbn [file_texts] in H. injection H as <-. reflexivity.
  - cbn [file_texts] in H. destruct (Fasta.file_bytes gunzip n d) as [t|] eqn:E; [|discriminate]. injection H as <-.
    unfold fb_stream, cg_text_stream, fb_stream_single, Fasta.stream_single. rewrite (input_stream_text _ _ _ _ E). reflexivity.
  - unfold fb_stream. rewrite M. clear M. cbn [file_texts] in H.
    destruct (Fasta.file_bytes gunzip n d) as [t|]; [|discriminate]. destruct f2 as [n2 d2].
    destruct (Fasta.file_bytes gunzip n2 d2) as [t2|]; [|discriminate].
    destruct (file_texts gunzip fs) as [ts|]; [|discriminate]. injection H as <-. reflexivity.
Qed.

Lemma fb_samples_texts : forall gunzip files texts, file_texts gunzip files = Some texts ->
  fb_samples gunzip files = cg_text_samples texts.
Proof. intros gunzip files texts H. unfold fb_samples, cg_text_samples. rewrite (fb_stream_texts _ _ _ H). reflexivity. Qed.

Theorem create_pipe_files_texts_proof :
  forall zc ecn k mml segsize level spl dec grp sched gops fti leftover gunzip files texts,
  file_texts gunzip files = Some texts ->
  create_pipe_files zc ecn k mml segsize level spl dec grp sched gops fti leftover gunzip files =
  create_pipe zc ecn k mml segsize level spl dec grp sched gops fti leftover texts.
Proof. intros. unfold create_pipe_files, create_pipe. rewrite (fb_samples_texts _ _ _ H). reflexivity. Qed.

Theorem create_pipe_files_io_texts_proof :
  forall zc ecn k mml segsize level spl dec grp sched gops fti leftover gunzip pol cap files texts,
  file_texts gunzip files = Some texts ->
  create_pipe_files_io zc ecn k mml segsize level spl dec grp sched gops fti leftover gunzip pol cap files =
  create_pipe_io zc ecn k mml segsize level spl dec grp sched gops fti leftover pol cap texts.
Proof. intros. unfold create_pipe_files_io, create_pipe_io. rewrite (fb_samples_texts _ _ _ H). reflexivity. Qed.

(* files without a *.gz name are their own texts, whatever the decoder *)
Lemma file_texts_plain : forall gunzip files, Forall (fun f => Fasta.is_gz_name (fst f) = false) files ->
  file_texts gunzip files = Some files.
Proof.
  intros gunzip. induction files as [|[n d] fs IH]; intro H; [reflexivity|].
  inversion H as [|x l H1 H2]; subst. cbn [fst] in H1. cbn [file_texts]. unfold Fasta.file_bytes. rewrite H1, (IH H2). reflexivity.
Qed.

Lemma file_texts_app : forall gunzip a b ta tb, file_texts gunzip a = Some ta -> file_texts gunzip b = Some tb ->
  file_texts gunzip (a ++ b) = Some (ta ++ tb).
Proof.
  intros gunzip. induction a as [|[n d] a IH]; intros b ta tb Ha Hb; cbn [file_texts app] in *.
  - injection Ha as <-. exact Hb.
  - destruct (Fasta.file_bytes gunzip n d) as [t|]; [|discriminate].
    destruct (file_texts gunzip a) as [ts|] eqn:E; [|discriminate]. injection Ha as <-.
    rewrite (IH b ts tb eq_refl Hb). reflexivity.
Qed.

Theorem create_pipe_files_plain_proof :
  forall zc ecn k mml segsize level spl dec grp sched gops fti leftover gunzip files,
  Forall (fun f => Fasta.is_gz_name (fst f) = false) files ->
  create_pipe_files zc ecn k mml segsize level spl dec grp sched gops fti leftover gunzip files =
  create_pipe zc ecn k mml segsize level spl dec grp sched gops fti leftover files.
Proof. intros. apply create_pipe_files_texts_proof. apply file_texts_plain. assumption. Qed.

(* ---------------------------------------------------------------- a failing decoder *)
Lemma oapp_ok {A} : forall (a b : outcome (list A)) z, Fasta.oapp a b = Ok z -> exists x y, a = Ok x /\ b = Ok y.
Proof. intros a b z H. destruct a, b; try discriminate. eauto. Qed.

Lemma fb_multi_fail : forall gunzip files n d, In (n, d) files -> Fasta.input_stream gunzip n d = Err ->
  forall cs, fb_stream_multi gunzip files <> Ok cs.
Proof.
  intros gunzip. induction files as [|[n0 d0] fs IH]; intros n d Hin He cs H; [destruct Hin|].
  cbn [fb_stream_multi] in H. apply oapp_ok in H. destruct H as (x & y & Hx & Hy).
  destruct Hin as [E|Hin].
  - injection E as -> ->. rewrite He in Hx. discriminate.
  - exact (IH n d Hin He y Hy).
Qed.

Lemma fb_stream_fail : forall gunzip files n d, In (n, d) files -> Fasta.input_stream gunzip n d = Err ->
  forall cs, fb_stream gunzip files <> Ok cs.
Proof.
  intros gunzip files n d Hin He cs H.
  destruct files as [|[n0 d0] [|f2 fs]].
  - destruct Hin.
  - destruct Hin as [E|[]]. injection E as -> ->. unfold fb_stream, fb_stream_single in H. rewrite He in H. discriminate.
  - exact (fb_multi_fail gunzip _ n d Hin He cs H).
Qed.

Lemma fb_samples_fail : forall gunzip files n d, In (n, d) files -> Fasta.input_stream gunzip n d = Err ->
  forall a, fb_samples gunzip files <> Ok a.
Proof.
  intros gunzip files n d Hin He a H. unfold fb_samples in H.
  destruct (fb_stream gunzip files) as [cs| |] eqn:E; try discriminate.
  exact (fb_stream_fail gunzip files n d Hin He cs E).
Qed.

Lemma file_texts_none : forall gunzip files, file_texts gunzip files = None ->
  exists n d, In (n, d) files /\ Fasta.is_gz_name n = true /\ gunzip d = None.
Proof.
  intros gunzip. induction files as [|[n d] fs IH]; intro H; cbn [file_texts] in H; [discriminate|].
  destruct (Fasta.file_bytes gunzip n d) as [t|] eqn:E.
  - destruct (file_texts gunzip fs) as [ts|]; [discriminate|].
    destruct (IH eq_refl) as (n1 & d1 & Hin & Hg). exists n1, d1. split; [right; exact Hin|exact Hg].
  - apply file_bytes_none in E. exists n, d. split; [left; reflexivity|exact E].
Qed.

(* ================================================================ 2. presentations *)
Lemma contig_stream_name : forall n1 n2 t, Fasta.sample_name_of_file n1 = Fasta.sample_name_of_file n2 ->
  Fasta.contig_stream n1 t = Fasta.contig_stream n2 t.
Proof. intros n1 n2 t H. unfold Fasta.contig_stream, Fasta.sample_for. rewrite H. reflexivity. Qed.

Definition same_view (gunzip : list N -> option (list N)) (f f' : list N * list N) : Prop :=
  Fasta.input_stream gunzip (fst f) (snd f) = Fasta.input_stream gunzip (fst f') (snd f').

Lemma fb_multi_ext : forall gunzip fs fs', Forall2 (same_view gunzip) fs fs' ->
  fb_stream_multi gunzip fs = fb_stream_multi gunzip fs'.
Proof.
  intros gunzip fs fs' H. induction H as [|[n d] [n' d'] l l' H1 H2 IH]; [reflexivity|].
  cbn [fb_stream_multi]. unfold same_view in H1. cbn [fst snd] in H1. rewrite H1, IH. reflexivity.
Qed.

Lemma fb_stream_ext : forall gunzip fs fs', Forall2 (same_view gunzip) fs fs' -> fb_stream gunzip fs = fb_stream gunzip fs'.
Proof.
  intros gunzip fs fs' H. pose proof (fb_multi_ext gunzip fs fs' H) as M.
  destruct H as [|[n d] [n' d'] l l' H1 H2]; [reflexivity|].
  destruct H2 as [|f2 f2' l l' H3 H4].
  - unfold fb_stream, fb_stream_single. unfold same_view in H1. cbn [fst snd] in H1. rewrite H1. reflexivity.
  - exact M.
Qed.

Theorem create_depends_on_input_stream_proof :
  forall zc ecn k mml segsize level spl dec grp sched gops fti leftover gunzip pol cap fs fs',
  Forall2 (fun f f' => Fasta.input_stream gunzip (fst f) (snd f) = Fasta.input_stream gunzip (fst f') (snd f')) fs fs' ->
  create_pipe_files zc ecn k mml segsize level spl dec grp sched gops fti leftover gunzip fs =
  create_pipe_files zc ecn k mml segsize level spl dec grp sched gops fti leftover gunzip fs' /\
  create_pipe_files_io zc ecn k mml segsize level spl dec grp sched gops fti leftover gunzip pol cap fs =
  create_pipe_files_io zc ecn k mml segsize level spl dec grp sched gops fti leftover gunzip pol cap fs'.
Proof.
  intros. unfold create_pipe_files, create_pipe_files_io, fb_samples.
  rewrite (fb_stream_ext gunzip fs fs' H). split; reflexivity.
Qed.

Section Gz.
  Variable gzip : list N -> list N.
  Variable gunzip : list N -> option (list N).
  Hypothesis gunzip_members : forall xs, xs <> [] -> gunzip (concat (map gzip xs)) = Some (concat xs).

  Lemma gz_file_bytes : forall n xs, xs <> [] -> Fasta.is_gz_name n = true ->
    Fasta.file_bytes gunzip n (concat (map gzip xs)) = Some (concat xs).
  Proof. intros n xs Hx Hn. unfold Fasta.file_bytes. rewrite Hn. apply gunzip_members. exact Hx. Qed.

  Lemma plain_file_bytes : forall n t, Fasta.is_gz_name n = false -> Fasta.file_bytes gunzip n t = Some t.
  Proof. intros n t Hn. unfold Fasta.file_bytes. rewrite Hn. reflexivity. Qed.

  Lemma same_input_view : forall f f', same_input gzip f f' -> same_view gunzip f f'.
  Proof.
    intros f f' H. unfold same_view. destruct H as [f|ngz nplain xs Hx Hg Hp Hs|ngz nplain xs Hx Hg Hp Hs|n1 n2 xs ys Hx Hy Hc H1 H2 Hs];
      cbn [fst snd].
    - reflexivity.
    - rewrite (input_stream_text _ _ _ _ (gz_file_bytes ngz xs Hx Hg)), (input_stream_text _ _ _ _ (plain_file_bytes nplain _ Hp)).
      apply contig_stream_name. exact Hs.
    - rewrite (input_stream_text _ _ _ _ (gz_file_bytes ngz xs Hx Hg)), (input_stream_text _ _ _ _ (plain_file_bytes nplain _ Hp)).
      symmetry. apply contig_stream_name. exact Hs.
    - rewrite (input_stream_text _ _ _ _ (gz_file_bytes n1 xs Hx H1)), (input_stream_text _ _ _ _ (gz_file_bytes n2 ys Hy H2)).
      rewrite Hc. apply contig_stream_name. exact Hs.
  Qed.

  Lemma same_view_refl : forall l, Forall2 (same_view gunzip) l l.
  Proof. induction l; constructor; [reflexivity|assumption]. Qed.

  Theorem gz_transparent_all_proof :
    forall zc ecn k mml segsize level spl dec grp sched gops fti leftover pol cap fs fs',
    Forall2 (same_input gzip) fs fs' ->
    create_pipe_files zc ecn k mml segsize level spl dec grp sched gops fti leftover gunzip fs =
    create_pipe_files zc ecn k mml segsize level spl dec grp sched gops fti leftover gunzip fs' /\
    create_pipe_files_io zc ecn k mml segsize level spl dec grp sched gops fti leftover gunzip pol cap fs =
    create_pipe_files_io zc ecn k mml segsize level spl dec grp sched gops fti leftover gunzip pol cap fs'.
  Proof.
    intros. apply create_depends_on_input_stream_proof.
    induction H as [|f f' l l' H1 H2 IH]; constructor; [|exact IH]. exact (same_input_view f f' H1).
  Qed.

  Theorem gz_transparent_proof :
    forall zc ecn k mml segsize level spl dec grp sched gops fti leftover pre post ngz nplain xs,
    xs <> [] -> Fasta.is_gz_name ngz = true -> Fasta.is_gz_name nplain = false ->
    Fasta.sample_name_of_file ngz = Fasta.sample_name_of_file nplain ->
    let gzfiles := pre ++ (ngz, concat (map gzip xs)) :: post in
    let plfiles := pre ++ (nplain, concat xs) :: post in
    let cpf := create_pipe_files zc ecn k mml segsize level spl dec grp sched gops fti leftover gunzip in
    cpf gzfiles = cpf plfiles /\
    (forall tpre tpost, file_texts gunzip pre = Some tpre -> file_texts gunzip post = Some tpost ->
       cpf gzfiles = create_pipe zc ecn k mml segsize level spl dec grp sched gops fti leftover
                       (tpre ++ (nplain, concat xs) :: tpost)) /\
    (Forall (fun f => Fasta.is_gz_name (fst f) = false) (pre ++ post) ->
       cpf gzfiles = create_pipe zc ecn k mml segsize level spl dec grp sched gops fti leftover plfiles) /\
    (forall zd tmp f output st,
       Cli.run_main (cli_decode zd) tmp (Cli.CmdCreate f output (cpf gzfiles)) st =
       Cli.run_main (cli_decode zd) tmp (Cli.CmdCreate f output (cpf plfiles)) st).
  Proof.
    intros zc ecn k mml segsize level spl dec grp sched gops fti leftover pre post ngz nplain xs Hx Hg Hp Hs gzfiles plfiles cpf.
    assert (E : cpf gzfiles = cpf plfiles).
    { subst cpf gzfiles plfiles. unfold create_pipe_files, fb_samples.
      rewrite (fb_stream_ext gunzip (pre ++ (ngz, concat (map gzip xs)) :: post) (pre ++ (nplain, concat xs) :: post)); [reflexivity|].
      apply Forall2_app; [apply same_view_refl|]. constructor; [|apply same_view_refl].
      apply same_input_view. constructor; assumption. }
    assert (P : forall tpre tpost, file_texts gunzip pre = Some tpre -> file_texts gunzip post = Some tpost ->
                file_texts gunzip plfiles = Some (tpre ++ (nplain, concat xs) :: tpost)).
    { intros tpre tpost Hpre Hpost. subst plfiles. apply file_texts_app; [exact Hpre|].
      cbn [file_texts]. rewrite (plain_file_bytes nplain _ Hp), Hpost. reflexivity. }
    split; [exact E|]. split; [|split].
    - intros tpre tpost Hpre Hpost. rewrite E. subst cpf. apply create_pipe_files_texts_proof. exact (P tpre tpost Hpre Hpost).
    - intro Hall. rewrite E. subst cpf. apply create_pipe_files_plain_proof. subst plfiles.
      apply Forall_app in Hall. destruct Hall as [H1 H2]. apply Forall_app. split; [exact H1|]. constructor; [exact Hp|exact H2].
    - intros. rewrite E. reflexivity.
  Qed.
End Gz.

(* ================================================================ 3. the C17G statements over file bytes *)
Module Restated.
Import Consts_agcv3 Kmer Segment Pipeline SegReader GroupStore Collection Container AgcV3 ModelCreate.
Import Pipeline_proofs Compose_codecs Compose_proofs AgcV3_compose Grand_proofs.

Theorem cli_create_files_then_getset_proof :
  forall (zc : N -> list N -> list N) (zd : list N -> option (list N)),
  (forall l x, zd (zc l x) = Some x) -> (forall l x, zc l x <> []) ->
  forall ecn k mml segsize level spl dec grp sched gops fti leftover gunzip files texts arch,
  file_texts gunzip files = Some texts ->
  1 <= k <= 32 -> 4 <= mml -> mml < two32 -> segsize < two32 -> segsize + k <= 2147483648%N ->
  all_first_line_ok texts ->
  text_samples texts = Ok arch ->
  Forall (fun s => fst s <> []) arch ->
  (forall s c data, In (s, c, data) (pushes_of arch) -> 2 * lenN data + mml < 2147483648%N) ->
  (forall i s c data j sg, nth_error (pushes_of arch) i = Some (s, c, data) ->
     nth_error (split_at_splitters_with_size data spl k segsize) j = Some sg ->
     decision_okb (N.to_nat k) sg (dec i j) = true) ->
  (forall i part, grp i part < two32) ->
  (forall l, Permutation l (sched l)) ->
  ops_carry (all_emit k spl segsize dec grp 0 (pushes_of arch)) gops ->
  forall b : built,
  model_build zc ecn k mml segsize level spl dec grp sched gops fti arch = Ok b ->
  catalogue_in_dom zc segsize k (mc_cat_of (b_coll b)) ->
  parts_meta_u64 (b_wops b) ->
  lenN (b_file b) <= spec_max_off ->
  forall (f : Cli.create_flags) (output tmp : Cli.str) (st st' : Cli.pstate),
  Cli.run_main (cli_decode zd) tmp
    (Cli.CmdCreate f output (create_pipe_files zc ecn k mml segsize level spl dec grp sched gops fti leftover gunzip files)) st
    = (Cli.Zero, st') ->
  forall names : list Cli.str,
  names <> [] -> Forall (fun n => In n (input_samples texts)) names ->
  Cli.creatable (Cli.p_fs st) tmp = true -> tmp <> output ->
  exists st'', Cli.run_main (cli_decode zd) tmp (Cli.CmdGetset output names None None) st' = (Cli.Zero, st'') /\
    Cli.p_stdout st'' = Cli.p_stdout st ++ expected_getset texts names /\
    Cli.fs_read (Cli.p_fs st'') tmp = None /\
    (forall q, q <> tmp -> Cli.fs_read (Cli.p_fs st'') q = Cli.fs_read (Cli.p_fs st') q).
Proof.
  intros zc zd Hzd Hzc ecn k mml segsize level spl dec grp sched gops fti leftover gunzip files texts arch Ht.
  rewrite ?(create_pipe_files_texts_proof zc ecn k mml segsize level spl dec grp sched gops fti leftover gunzip files texts Ht).
  exact (C17G.cli_create_then_getset zc zd Hzd Hzc ecn k mml segsize level spl dec grp sched gops fti leftover texts arch).
Qed.

Theorem cli_create_files_then_getset_file_proof :
  forall (zc : N -> list N -> list N) (zd : list N -> option (list N)),
  (forall l x, zd (zc l x) = Some x) -> (forall l x, zc l x <> []) ->
  forall ecn k mml segsize level spl dec grp sched gops fti leftover gunzip files texts arch,
  file_texts gunzip files = Some texts ->
  1 <= k <= 32 -> 4 <= mml -> mml < two32 -> segsize < two32 -> segsize + k <= 2147483648%N ->
  all_first_line_ok texts ->
  text_samples texts = Ok arch ->
  Forall (fun s => fst s <> []) arch ->
  (forall s c data, In (s, c, data) (pushes_of arch) -> 2 * lenN data + mml < 2147483648%N) ->
  (forall i s c data j sg, nth_error (pushes_of arch) i = Some (s, c, data) ->
     nth_error (split_at_splitters_with_size data spl k segsize) j = Some sg ->
     decision_okb (N.to_nat k) sg (dec i j) = true) ->
  (forall i part, grp i part < two32) ->
  (forall l, Permutation l (sched l)) ->
  ops_carry (all_emit k spl segsize dec grp 0 (pushes_of arch)) gops ->
  forall b : built,
  model_build zc ecn k mml segsize level spl dec grp sched gops fti arch = Ok b ->
  catalogue_in_dom zc segsize k (mc_cat_of (b_coll b)) ->
  parts_meta_u64 (b_wops b) ->
  lenN (b_file b) <= spec_max_off ->
  forall (f : Cli.create_flags) (output tmp : Cli.str) (st st' : Cli.pstate),
  Cli.run_main (cli_decode zd) tmp
    (Cli.CmdCreate f output (create_pipe_files zc ecn k mml segsize level spl dec grp sched gops fti leftover gunzip files)) st
    = (Cli.Zero, st') ->
  forall (names : list Cli.str) (out : Cli.str),
  names <> [] -> Forall (fun n => In n (input_samples texts)) names ->
  Cli.creatable (Cli.p_fs st) tmp = true -> Cli.creatable (Cli.p_fs st) out = true ->
  out <> tmp -> tmp <> output -> out <> output ->
  exists st'', Cli.run_main (cli_decode zd) tmp (Cli.CmdGetset output names None (Some out)) st' = (Cli.Zero, st'') /\
    Cli.fs_read (Cli.p_fs st'') out = Some (expected_getset texts names) /\
    Cli.p_stdout st'' = Cli.p_stdout st /\
    Cli.fs_read (Cli.p_fs st'') tmp = None /\
    (forall q, q <> tmp -> q <> out -> Cli.fs_read (Cli.p_fs st'') q = Cli.fs_read (Cli.p_fs st') q).
Proof.
  intros zc zd Hzd Hzc ecn k mml segsize level spl dec grp sched gops fti leftover gunzip files texts arch Ht.
  rewrite ?(create_pipe_files_texts_proof zc ecn k mml segsize level spl dec grp sched gops fti leftover gunzip files texts Ht).
  exact (C17G.cli_create_then_getset_file zc zd Hzd Hzc ecn k mml segsize level spl dec grp sched gops fti leftover texts arch).
Qed.

Theorem cli_files_getset_zero_iff_proof :
  forall (zc : N -> list N -> list N) (zd : list N -> option (list N)),
  (forall l x, zd (zc l x) = Some x) -> (forall l x, zc l x <> []) ->
  forall ecn k mml segsize level spl dec grp sched gops fti leftover gunzip files texts arch,
  file_texts gunzip files = Some texts ->
  1 <= k <= 32 -> 4 <= mml -> mml < two32 -> segsize < two32 -> segsize + k <= 2147483648%N ->
  all_first_line_ok texts ->
  text_samples texts = Ok arch ->
  Forall (fun s => fst s <> []) arch ->
  (forall s c data, In (s, c, data) (pushes_of arch) -> 2 * lenN data + mml < 2147483648%N) ->
  (forall i s c data j sg, nth_error (pushes_of arch) i = Some (s, c, data) ->
     nth_error (split_at_splitters_with_size data spl k segsize) j = Some sg ->
     decision_okb (N.to_nat k) sg (dec i j) = true) ->
  (forall i part, grp i part < two32) ->
  (forall l, Permutation l (sched l)) ->
  ops_carry (all_emit k spl segsize dec grp 0 (pushes_of arch)) gops ->
  forall b : built,
  model_build zc ecn k mml segsize level spl dec grp sched gops fti arch = Ok b ->
  catalogue_in_dom zc segsize k (mc_cat_of (b_coll b)) ->
  parts_meta_u64 (b_wops b) ->
  lenN (b_file b) <= spec_max_off ->
  forall (f : Cli.create_flags) (output tmp : Cli.str) (st st' : Cli.pstate),
  Cli.run_main (cli_decode zd) tmp
    (Cli.CmdCreate f output (create_pipe_files zc ecn k mml segsize level spl dec grp sched gops fti leftover gunzip files)) st
    = (Cli.Zero, st') ->
  forall names : list Cli.str,
  names <> [] -> Cli.creatable (Cli.p_fs st) tmp = true -> tmp <> output ->
  (fst (Cli.run_main (cli_decode zd) tmp (Cli.CmdGetset output names None None) st') = Cli.Zero <->
   Forall (fun n => In n (input_samples texts)) names).
Proof.
  intros zc zd Hzd Hzc ecn k mml segsize level spl dec grp sched gops fti leftover gunzip files texts arch Ht.
  rewrite ?(create_pipe_files_texts_proof zc ecn k mml segsize level spl dec grp sched gops fti leftover gunzip files texts Ht).
  exact (C17G.cli_getset_zero_iff zc zd Hzd Hzc ecn k mml segsize level spl dec grp sched gops fti leftover texts arch).
Qed.

Theorem cli_files_listset_after_create_proof :
  forall (zc : N -> list N -> list N) (zd : list N -> option (list N)),
  (forall l x, zd (zc l x) = Some x) -> (forall l x, zc l x <> []) ->
  forall ecn k mml segsize level spl dec grp sched gops fti leftover gunzip files texts arch,
  file_texts gunzip files = Some texts ->
  1 <= k <= 32 -> 4 <= mml -> mml < two32 -> segsize < two32 -> segsize + k <= 2147483648%N ->
  all_first_line_ok texts ->
  text_samples texts = Ok arch ->
  Forall (fun s => fst s <> []) arch ->
  (forall s c data, In (s, c, data) (pushes_of arch) -> 2 * lenN data + mml < 2147483648%N) ->
  (forall i s c data j sg, nth_error (pushes_of arch) i = Some (s, c, data) ->
     nth_error (split_at_splitters_with_size data spl k segsize) j = Some sg ->
     decision_okb (N.to_nat k) sg (dec i j) = true) ->
  (forall i part, grp i part < two32) ->
  (forall l, Permutation l (sched l)) ->
  ops_carry (all_emit k spl segsize dec grp 0 (pushes_of arch)) gops ->
  forall b : built,
  model_build zc ecn k mml segsize level spl dec grp sched gops fti arch = Ok b ->
  catalogue_in_dom zc segsize k (mc_cat_of (b_coll b)) ->
  parts_meta_u64 (b_wops b) ->
  lenN (b_file b) <= spec_max_off ->
  forall (f : Cli.create_flags) (output tmp : Cli.str) (st st' : Cli.pstate),
  Cli.run_main (cli_decode zd) tmp
    (Cli.CmdCreate f output (create_pipe_files zc ecn k mml segsize level spl dec grp sched gops fti leftover gunzip files)) st
    = (Cli.Zero, st') ->
  forall o : option Cli.str,
  (forall p, o = Some p -> Cli.creatable (Cli.p_fs st) p = true /\ p <> output) ->
  exists st'', Cli.run_main (cli_decode zd) tmp (Cli.CmdListset output o) st' = (Cli.Zero, st'') /\
    match o with
    | None => Cli.p_stdout st'' = Cli.p_stdout st ++ expected_listset texts /\ Cli.p_fs st'' = Cli.p_fs st'
    | Some p => Cli.fs_read (Cli.p_fs st'') p = Some (expected_listset texts) /\ Cli.p_stdout st'' = Cli.p_stdout st /\
                (forall q, p <> q -> Cli.fs_read (Cli.p_fs st'') q = Cli.fs_read (Cli.p_fs st') q)
    end.
Proof.
  intros zc zd Hzd Hzc ecn k mml segsize level spl dec grp sched gops fti leftover gunzip files texts arch Ht.
  rewrite ?(create_pipe_files_texts_proof zc ecn k mml segsize level spl dec grp sched gops fti leftover gunzip files texts Ht).
  exact (C17G.cli_listset_after_create zc zd Hzd Hzc ecn k mml segsize level spl dec grp sched gops fti leftover texts arch).
Qed.

Theorem cli_files_listctg_after_create_proof :
  forall (zc : N -> list N -> list N) (zd : list N -> option (list N)),
  (forall l x, zd (zc l x) = Some x) -> (forall l x, zc l x <> []) ->
  forall ecn k mml segsize level spl dec grp sched gops fti leftover gunzip files texts arch,
  file_texts gunzip files = Some texts ->
  1 <= k <= 32 -> 4 <= mml -> mml < two32 -> segsize < two32 -> segsize + k <= 2147483648%N ->
  all_first_line_ok texts ->
  text_samples texts = Ok arch ->
  Forall (fun s => fst s <> []) arch ->
  (forall s c data, In (s, c, data) (pushes_of arch) -> 2 * lenN data + mml < 2147483648%N) ->
  (forall i s c data j sg, nth_error (pushes_of arch) i = Some (s, c, data) ->
     nth_error (split_at_splitters_with_size data spl k segsize) j = Some sg ->
     decision_okb (N.to_nat k) sg (dec i j) = true) ->
  (forall i part, grp i part < two32) ->
  (forall l, Permutation l (sched l)) ->
  ops_carry (all_emit k spl segsize dec grp 0 (pushes_of arch)) gops ->
  forall b : built,
  model_build zc ecn k mml segsize level spl dec grp sched gops fti arch = Ok b ->
  catalogue_in_dom zc segsize k (mc_cat_of (b_coll b)) ->
  parts_meta_u64 (b_wops b) ->
  lenN (b_file b) <= spec_max_off ->
  forall (f : Cli.create_flags) (output tmp : Cli.str) (st st' : Cli.pstate),
  Cli.run_main (cli_decode zd) tmp
    (Cli.CmdCreate f output (create_pipe_files zc ecn k mml segsize level spl dec grp sched gops fti leftover gunzip files)) st
    = (Cli.Zero, st') ->
  forall (names : list Cli.str) (o : option Cli.str),
  Forall (fun n => In n (input_samples texts)) names ->
  (forall p, o = Some p -> Cli.creatable (Cli.p_fs st) p = true /\ p <> output) ->
  exists st'', Cli.run_main (cli_decode zd) tmp (Cli.CmdListctg output names o) st' = (Cli.Zero, st'') /\
    match o with
    | None => Cli.p_stdout st'' = Cli.p_stdout st ++ expected_listctg texts names /\ Cli.p_fs st'' = Cli.p_fs st'
    | Some p => Cli.fs_read (Cli.p_fs st'') p = Some (expected_listctg texts names) /\ Cli.p_stdout st'' = Cli.p_stdout st /\
                (forall q, p <> q -> Cli.fs_read (Cli.p_fs st'') q = Cli.fs_read (Cli.p_fs st') q)
    end.
Proof.
  intros zc zd Hzd Hzc ecn k mml segsize level spl dec grp sched gops fti leftover gunzip files texts arch Ht.
  rewrite ?(create_pipe_files_texts_proof zc ecn k mml segsize level spl dec grp sched gops fti leftover gunzip files texts Ht).
  exact (C17G.cli_listctg_after_create zc zd Hzd Hzc ecn k mml segsize level spl dec grp sched gops fti leftover texts arch).
Qed.

Theorem cli_create_files_fault_or_roundtrip_proof :
  forall (zc : N -> list N -> list N) (zd : list N -> option (list N)),
  (forall l x, zd (zc l x) = Some x) -> (forall l x, zc l x <> []) ->
  forall ecn k mml segsize level spl dec grp sched gops fti leftover gunzip files texts arch,
  file_texts gunzip files = Some texts ->
  1 <= k <= 32 -> 4 <= mml -> mml < two32 -> segsize < two32 -> segsize + k <= 2147483648%N ->
  text_samples texts = Ok arch ->
  Forall (fun s => fst s <> []) arch ->
  (forall s c data, In (s, c, data) (pushes_of arch) -> 2 * lenN data + mml < 2147483648%N) ->
  (forall i s c data j sg, nth_error (pushes_of arch) i = Some (s, c, data) ->
     nth_error (split_at_splitters_with_size data spl k segsize) j = Some sg ->
     decision_okb (N.to_nat k) sg (dec i j) = true) ->
  (forall i part, grp i part < two32) ->
  (forall l, Permutation l (sched l)) ->
  ops_carry (all_emit k spl segsize dec grp 0 (pushes_of arch)) gops ->
  forall b : built,
  model_build zc ecn k mml segsize level spl dec grp sched gops fti arch = Ok b ->
  catalogue_in_dom zc segsize k (mc_cat_of (b_coll b)) ->
  parts_meta_u64 (b_wops b) ->
  lenN (b_file b) <= spec_max_off ->
  forall (cap : N) (f : Cli.create_flags) (output tmp : Cli.str) (st : Cli.pstate),
  (forall pol st',
     Cli.run_main (cli_decode zd) tmp
       (Cli.CmdCreate f output (create_pipe_files_io zc ecn k mml segsize level spl dec grp sched gops fti leftover gunzip pol cap files)) st
       = (Cli.Zero, st') ->
     create_pipe_files_io zc ecn k mml segsize level spl dec grp sched gops fti leftover gunzip pol cap files =
       create_pipe_files zc ecn k mml segsize level spl dec grp sched gops fti leftover gunzip files /\
     Cli.fs_read (Cli.p_fs st') output = Some (b_file b) /\ Cli.p_stdout st' = Cli.p_stdout st /\
     decode zd (b_file b) = Ok arch) /\
  (forall partial limit, limit < lenN (b_file b) ->
     exists st',
       Cli.run_main (cli_decode zd) tmp
         (Cli.CmdCreate f output (create_pipe_files_io zc ecn k mml segsize level spl dec grp sched gops fti leftover gunzip
                                                 (Sink.limit_policy partial limit) cap files)) st
       = (Cli.NonZero, st') /\
       Cli.p_stdout st' = Cli.p_stdout st /\
       (forall q, q <> output -> Cli.fs_read (Cli.p_fs st') q = Cli.fs_read (Cli.p_fs st) q) /\
       ((forall c nt cg, Cli.create_dispatch f <> Cli.DProceed c nt cg) -> st' = st) /\
       (forall c nt cg, Cli.create_dispatch f = Cli.DProceed c nt cg ->
          exists lo, Cli.fs_read (Cli.p_fs st') output = Some lo /\ lenN lo <= limit)).
Proof.
  intros zc zd Hzd Hzc ecn k mml segsize level spl dec grp sched gops fti leftover gunzip files texts arch Ht.
  setoid_rewrite (fun pol cap => create_pipe_files_io_texts_proof zc ecn k mml segsize level spl dec grp sched gops fti leftover gunzip pol cap files texts Ht).
  rewrite ?(create_pipe_files_texts_proof zc ecn k mml segsize level spl dec grp sched gops fti leftover gunzip files texts Ht).
  exact (C17G.cli_create_fault_or_roundtrip zc zd Hzd Hzc ecn k mml segsize level spl dec grp sched gops fti leftover texts arch).
Qed.

Theorem cli_create_files_io_then_getset_proof :
  forall (zc : N -> list N -> list N) (zd : list N -> option (list N)),
  (forall l x, zd (zc l x) = Some x) -> (forall l x, zc l x <> []) ->
  forall ecn k mml segsize level spl dec grp sched gops fti leftover gunzip files texts arch,
  file_texts gunzip files = Some texts ->
  1 <= k <= 32 -> 4 <= mml -> mml < two32 -> segsize < two32 -> segsize + k <= 2147483648%N ->
  all_first_line_ok texts ->
  text_samples texts = Ok arch ->
  Forall (fun s => fst s <> []) arch ->
  (forall s c data, In (s, c, data) (pushes_of arch) -> 2 * lenN data + mml < 2147483648%N) ->
  (forall i s c data j sg, nth_error (pushes_of arch) i = Some (s, c, data) ->
     nth_error (split_at_splitters_with_size data spl k segsize) j = Some sg ->
     decision_okb (N.to_nat k) sg (dec i j) = true) ->
  (forall i part, grp i part < two32) ->
  (forall l, Permutation l (sched l)) ->
  ops_carry (all_emit k spl segsize dec grp 0 (pushes_of arch)) gops ->
  forall b : built,
  model_build zc ecn k mml segsize level spl dec grp sched gops fti arch = Ok b ->
  catalogue_in_dom zc segsize k (mc_cat_of (b_coll b)) ->
  parts_meta_u64 (b_wops b) ->
  lenN (b_file b) <= spec_max_off ->
  forall (pol : Sink.policy) (cap : N) (f : Cli.create_flags) (output tmp : Cli.str) (st st' : Cli.pstate)
         (names : list Cli.str),
  Cli.run_main (cli_decode zd) tmp
    (Cli.CmdCreate f output (create_pipe_files_io zc ecn k mml segsize level spl dec grp sched gops fti leftover gunzip pol cap files)) st
    = (Cli.Zero, st') ->
  names <> [] -> Forall (fun n => In n (input_samples texts)) names ->
  Cli.creatable (Cli.p_fs st) tmp = true -> tmp <> output ->
  exists st'', Cli.run_main (cli_decode zd) tmp (Cli.CmdGetset output names None None) st' = (Cli.Zero, st'') /\
    Cli.p_stdout st'' = Cli.p_stdout st ++ expected_getset texts names /\
    Cli.fs_read (Cli.p_fs st'') tmp = None /\
    (forall q, q <> tmp -> Cli.fs_read (Cli.p_fs st'') q = Cli.fs_read (Cli.p_fs st') q).
Proof.
  intros zc zd Hzd Hzc ecn k mml segsize level spl dec grp sched gops fti leftover gunzip files texts arch Ht.
  setoid_rewrite (fun pol cap => create_pipe_files_io_texts_proof zc ecn k mml segsize level spl dec grp sched gops fti leftover gunzip pol cap files texts Ht).
  rewrite ?(create_pipe_files_texts_proof zc ecn k mml segsize level spl dec grp sched gops fti leftover gunzip files texts Ht).
  exact (C17G.cli_create_io_then_getset zc zd Hzd Hzc ecn k mml segsize level spl dec grp sched gops fti leftover texts arch).
Qed.

End Restated.

(* ================================================================ 4. refusal: a *.gz input the decoder rejects *)
Lemma gz_fail_stream : forall gunzip n d, Fasta.is_gz_name n = true -> gunzip d = None -> Fasta.input_stream gunzip n d = Err.
Proof. intros gunzip n d Hn Hd. apply input_stream_fail. apply file_bytes_none. split; assumption. Qed.

Lemma pipe_fail_run : forall zd tmp f output st leftover,
  exists st', Cli.run_main (cli_decode zd) tmp (Cli.CmdCreate f output (Cli.PipeFail leftover)) st = (Cli.NonZero, st') /\
    Cli.p_stdout st' = Cli.p_stdout st /\
    (forall q, q <> output -> Cli.fs_read (Cli.p_fs st') q = Cli.fs_read (Cli.p_fs st) q) /\
    (leftover = None -> st' = st) /\
    ((forall c nt cg, Cli.create_dispatch f <> Cli.DProceed c nt cg) -> st' = st) /\
    (forall lo c nt cg, leftover = Some lo -> Cli.create_dispatch f = Cli.DProceed c nt cg ->
       Cli.fs_read (Cli.p_fs st') output = Some lo).
Proof.
  intros zd tmp f output st leftover. cbn [Cli.run_main]. unfold Cli.create_archive.
  destruct (Cli.create_dispatch f) as [e|c nt cg] eqn:D.
  - exists st. repeat split; try reflexivity. intros lo c nt cg _ H. discriminate.
  - destruct leftover as [bs|].
    + eexists. split; [reflexivity|]. cbn [Cli.with_fs Cli.p_fs Cli.p_stdout].
      split; [reflexivity|]. split; [|split; [|split]].
      * intros q Hq. apply Cli_proofs.fs_read_set_other. intro E. apply Hq. symmetry. exact E.
      * discriminate.
      * intro H. exfalso. exact (H c nt cg eq_refl).
      * intros lo c' nt' cg' E _. injection E as <-. apply Cli_proofs.fs_read_set_same.
    + exists st. repeat split; try reflexivity. intros lo c' nt' cg' H. discriminate.
Qed.

Theorem gz_refusal_proof :
  forall zc ecn k mml segsize level spl dec grp sched gops fti leftover gunzip files n d,
  In (n, d) files -> Fasta.is_gz_name n = true -> gunzip d = None ->
  create_pipe_files zc ecn k mml segsize level spl dec grp sched gops fti leftover gunzip files = Cli.PipeFail leftover /\
  (forall pol cap,
     create_pipe_files_io zc ecn k mml segsize level spl dec grp sched gops fti leftover gunzip pol cap files = Cli.PipeFail leftover) /\
  (forall zd tmp f output st,
     exists st', Cli.run_main (cli_decode zd) tmp
                   (Cli.CmdCreate f output
                      (create_pipe_files zc ecn k mml segsize level spl dec grp sched gops fti leftover gunzip files)) st
                 = (Cli.NonZero, st') /\
       Cli.p_stdout st' = Cli.p_stdout st /\
       (forall q, q <> output -> Cli.fs_read (Cli.p_fs st') q = Cli.fs_read (Cli.p_fs st) q) /\
       (leftover = None -> st' = st) /\
       ((forall c nt cg, Cli.create_dispatch f <> Cli.DProceed c nt cg) -> st' = st) /\
       (forall lo c nt cg, leftover = Some lo -> Cli.create_dispatch f = Cli.DProceed c nt cg ->
          Cli.fs_read (Cli.p_fs st') output = Some lo)).
Proof.
  intros zc ecn k mml segsize level spl dec grp sched gops fti leftover gunzip files n d Hin Hn Hd.
  pose proof (gz_fail_stream gunzip n d Hn Hd) as He.
  assert (F : forall a, fb_samples gunzip files <> Ok a) by exact (fb_samples_fail gunzip files n d Hin He).
  assert (E1 : create_pipe_files zc ecn k mml segsize level spl dec grp sched gops fti leftover gunzip files = Cli.PipeFail leftover).
  { unfold create_pipe_files. destruct (fb_samples gunzip files) as [a| |]; [exfalso; exact (F a eq_refl)|reflexivity|reflexivity]. }
  split; [exact E1|]. split.
  - intros pol cap. unfold create_pipe_files_io.
    destruct (fb_samples gunzip files) as [a| |]; [exfalso; exact (F a eq_refl)|reflexivity|reflexivity].
  - intros zd tmp f output st. rewrite E1. apply pipe_fail_run.
Qed.

(* conversely: exit Zero means every *.gz input went through the decoder, so the decompressed texts exist *)
Theorem create_zero_decompressed_proof :
  forall zc ecn k mml segsize level spl dec grp sched gops fti leftover gunzip files zd tmp f output st st',
  Cli.run_main (cli_decode zd) tmp
    (Cli.CmdCreate f output (create_pipe_files zc ecn k mml segsize level spl dec grp sched gops fti leftover gunzip files)) st
    = (Cli.Zero, st') ->
  exists texts, file_texts gunzip files = Some texts /\
    Forall2 (fun f t => fst t = fst f /\ Fasta.file_bytes gunzip (fst f) (snd f) = Some (snd t)) files texts.
Proof.
  intros zc ecn k mml segsize level spl dec grp sched gops fti leftover gunzip files zd tmp f output st st' H.
  destruct (file_texts gunzip files) as [texts|] eqn:E.
  - exists texts. split; [reflexivity|]. clear H. revert texts E.
    induction files as [|[n d] fs IH]; intros texts E; cbn [file_texts] in E.
    + injection E as <-. constructor.
    + destruct (Fasta.file_bytes gunzip n d) as [t|] eqn:B; [|discriminate].
      destruct (file_texts gunzip fs) as [ts|]; [|discriminate]. injection E as <-.
      constructor; [split; [reflexivity|exact B]|exact (IH ts eq_refl)].
  - exfalso. destruct (file_texts_none gunzip files E) as (n & d & Hin & Hn & Hd).
    destruct (gz_refusal_proof zc ecn k mml segsize level spl dec grp sched gops fti leftover gunzip files n d Hin Hn Hd)
      as (_ & _ & R).
    destruct (R zd tmp f output st) as (st2 & R2 & _). rewrite R2 in H. discriminate.
Qed.

(* ================================================================ 5. the toy gzip meets C19's oracle hypothesis *)
Lemma toy_go_member : forall x rest,
  toy_gunzip_go true (flat_map (fun c => [1; c]) x ++ 0 :: rest) =
  match toy_gunzip_go false rest with Some t => Some (x ++ t) | None => None end.
Proof.
  induction x as [|c x IH]; intro rest.
  - cbn [flat_map app toy_gunzip_go]. change (0 =? 0) with true. cbv iota.
    destruct (toy_gunzip_go false rest); reflexivity.
  - cbn [flat_map app toy_gunzip_go]. change (1 =? 0) with false. change (1 =? 1) with true. cbv iota.
    rewrite IH. destruct (toy_gunzip_go false rest); reflexivity.
Qed.

Lemma toy_go_members : forall xs, toy_gunzip_go false (concat (map toy_gzip xs)) = Some (concat xs).
Proof.
  induction xs as [|x xs IH]; [reflexivity|].
  cbn [map concat]. unfold toy_gzip at 1. cbn [app]. rewrite <- app_assoc. cbn [app].
  cbn [toy_gunzip_go]. change (31 =? 31) with true. change (139 =? 139) with true. cbv iota.
  rewrite toy_go_member, IH. reflexivity.
Qed.

Theorem toy_gunzip_members : forall xs, xs <> [] -> toy_gunzip (concat (map toy_gzip xs)) = Some (concat xs).
Proof.
  intros xs Hx. rewrite <- toy_go_members. destruct xs as [|x xs]; [contradiction|].
  cbn [map concat]. unfold toy_gzip at 1 3. cbn [app]. reflexivity.
Qed.

(* ================================================================ 6. S.fa.gz versus S.fa *)
Theorem gz_transparent_fa_proof :
  forall (gzip : list N -> list N) (gunzip : list N -> option (list N)),
  (forall xs, xs <> [] -> gunzip (concat (map gzip xs)) = Some (concat xs)) ->
  forall zc ecn k mml segsize level spl dec grp sched gops fti leftover pre post s xs,
  xs <> [] ->
  let gzfiles := pre ++ (s ++ Fasta.ext_fa_gz, concat (map gzip xs)) :: post in
  let plfiles := pre ++ (s ++ Fasta.ext_fa, concat xs) :: post in
  create_pipe_files zc ecn k mml segsize level spl dec grp sched gops fti leftover gunzip gzfiles =
  create_pipe_files zc ecn k mml segsize level spl dec grp sched gops fti leftover gunzip plfiles /\
  (Forall (fun f => Fasta.is_gz_name (fst f) = false) (pre ++ post) ->
   create_pipe_files zc ecn k mml segsize level spl dec grp sched gops fti leftover gunzip gzfiles =
   create_pipe zc ecn k mml segsize level spl dec grp sched gops fti leftover plfiles).
Proof.
  intros gzip gunzip Hm zc ecn k mml segsize level spl dec grp sched gops fti leftover pre post s xs Hx gzfiles plfiles.
  destruct (Fasta_proofs.sample_name_gz_lemma s) as (N1 & N2 & N3).
  destruct (gz_transparent_proof gzip gunzip Hm zc ecn k mml segsize level spl dec grp sched gops fti leftover pre post
              (s ++ Fasta.ext_fa_gz) (s ++ Fasta.ext_fa) xs Hx N2 N3 N1) as (A & _ & C & _).
  split; [exact A|exact C].
Qed.
