(* Fasta_proofs.v - lemmas for C16 / C19: the fuelled reader of Fasta.v against the structural specification
   (groups / records / deliver), the symbol table by exhaustive computation over the 128 entries, rendering,
   file naming, concatenation of files. *)
From Coq Require Import Lia ZifyBool ZifyN ZifyNat.
From Ragc Require Import Mach Consts_fasta Fasta.
Open Scope N_scope.
Arguments N.add : simpl never.
Arguments N.sub : simpl never.
Arguments N.mul : simpl never.

(* ================================================================== generic list facts *)
Lemma is_nil_true : forall {A} (l : list A), is_nil l = true <-> l = [].
Proof. intros A [|x l]; simpl; split; intro H; auto; discriminate. Qed.
Lemma is_nil_false : forall {A} (l : list A), is_nil l = false <-> l <> [].
Proof. intros A [|x l]; simpl; split; intro H; auto; try discriminate; congruence. Qed.

Lemma drop_while_split : forall p l, exists pre, l = pre ++ drop_while p l /\ forallb p pre = true.
Proof.
  intros p l. induction l as [|c l IH]; simpl.
  - exists []. auto.
  - destruct (p c) eqn:E.
    + destruct IH as [pre [H1 H2]]. exists (c :: pre). simpl. rewrite E, H2. split; [congruence | auto].
    + exists []. auto.
Qed.

Lemma drop_while_nil : forall p l, drop_while p l = [] <-> forallb p l = true.
Proof.
  intros p l. induction l as [|c l IH]; simpl; [tauto|].
  destruct (p c); simpl; [exact IH | split; discriminate].
Qed.

Lemma drop_while_id : forall p c l, p c = false -> drop_while p (c :: l) = c :: l.
Proof. intros. simpl. rewrite H. reflexivity. Qed.

Lemma forallb_rev : forall {A} (p : A -> bool) l, forallb p (rev l) = forallb p l.
Proof.
  intros A p l. induction l as [|x l IH]; simpl; auto.
  rewrite forallb_app, IH. simpl. rewrite andb_true_r. apply andb_comm.
Qed.

Lemma filter_all : forall {A} (p : A -> bool) l, forallb p l = true -> filter p l = l.
Proof.
  intros A p l. induction l as [|x l IH]; simpl; auto.
  intro H. apply andb_prop in H. destruct H as [H1 H2]. rewrite H1, IH; auto.
Qed.

Lemma filter_none : forall {A} (p : A -> bool) l, forallb (fun x => negb (p x)) l = true -> filter p l = [].
Proof.
  intros A p l. induction l as [|x l IH]; simpl; auto.
  intro H. apply andb_prop in H. destruct H as [H1 H2]. destruct (p x); [discriminate | auto].
Qed.

Lemma list_eqb_eq : forall a b, bytes_eqb a b = true <-> a = b.
Proof.
  unfold bytes_eqb. induction a as [|x a IH]; destruct b as [|y b]; simpl; split; intro H;
    try reflexivity; try discriminate.
  - apply andb_prop in H. destruct H as [H1 H2]. apply N.eqb_eq in H1. apply IH in H2. congruence.
  - inversion H; subst. rewrite N.eqb_refl. simpl. apply IH. reflexivity.
Qed.

Lemma bytes_eqb_refl : forall a, bytes_eqb a a = true.
Proof. intro a. apply list_eqb_eq. reflexivity. Qed.

Lemma bytes_eqb_neq : forall a b, a <> b -> bytes_eqb a b = false.
Proof.
  intros a b H. destruct (bytes_eqb a b) eqn:E; auto. apply list_eqb_eq in E. contradiction.
Qed.

(* ================================================================== the symbol table, byte by byte *)
Definition upto128 : list N := map N.of_nat (seq 0 128).

Lemma all_lt128 : forall (P : N -> bool), forallb P upto128 = true -> forall c, c < 128 -> P c = true.
Proof.
  intros P H c Hc. rewrite forallb_forall in H. apply H.
  unfold upto128. replace c with (N.of_nat (N.to_nat c)) by apply N2Nat.id.
  apply in_map. apply in_seq. lia.
Qed.

Lemma keep_lt128 : forall c, keep c = true -> c < 128.
Proof. intros c H. unfold keep in H. apply andb_prop in H. destruct H as [_ H]. apply N.ltb_lt in H. exact H. Qed.

Lemma keep_ge128 : forall c, 128 <= c -> keep c = false.
Proof.
  intros c H. unfold keep. replace (c <? cnv_num_len) with false. apply andb_false_r.
  symmetry. apply N.ltb_ge. exact H.
Qed.

Lemma letter_lt128 : forall c, is_letter c = true -> c < 128.
Proof. intros c H. unfold is_letter, is_upper, is_lower in H. lia. Qed.

(* every code the reader can produce: 0..15 or 30 *)
Lemma code_range_byte : forall c, keep c = true -> cnv c <= 15 \/ cnv c = 30.
Proof.
  intros c H. pose proof (keep_lt128 c H) as Hc.
  assert (E : (negb (keep c) || (cnv c <=? 15) || (cnv c =? 30)) = true).
  { apply (all_lt128 (fun c => negb (keep c) || (cnv c <=? 15) || (cnv c =? 30))); [vm_compute; reflexivity | exact Hc]. }
  rewrite H in E. simpl in E.
  apply orb_prop in E. destruct E as [E|E]; [left; apply N.leb_le; exact E | right; apply N.eqb_eq; exact E].
Qed.

Lemma letter_keep : forall c, is_letter c = true -> keep c = true.
Proof.
  intros c H. pose proof (letter_lt128 c H) as Hc.
  assert (E : (negb (is_letter c) || keep c) = true).
  { apply (all_lt128 (fun c => negb (is_letter c) || keep c)); [vm_compute; reflexivity | exact Hc]. }
  rewrite H in E. exact E.
Qed.

(* the read-back letter of a kept byte: the normalised letter for letters, N for the other kept bytes *)
Lemma out_cnv_letter : forall c, is_letter c = true -> out_letter (cnv c) = norm_letter c.
Proof.
  intros c H. pose proof (letter_lt128 c H) as Hc.
  assert (E : (negb (is_letter c) || (out_letter (cnv c) =? norm_letter c)) = true).
  { apply (all_lt128 (fun c => negb (is_letter c) || (out_letter (cnv c) =? norm_letter c))); [vm_compute; reflexivity | exact Hc]. }
  rewrite H in E. apply N.eqb_eq. exact E.
Qed.

Lemma out_cnv_odd : forall c, odd_byte c = true -> out_letter (cnv c) = 78.
Proof.
  intros c H. assert (Hc : c < 128).
  { unfold odd_byte in H. apply andb_prop in H. destruct H as [H _]. apply keep_lt128. exact H. }
  assert (E : (negb (odd_byte c) || (out_letter (cnv c) =? 78)) = true).
  { apply (all_lt128 (fun c => negb (odd_byte c) || (out_letter (cnv c) =? 78))); [vm_compute; reflexivity | exact Hc]. }
  rewrite H in E. apply N.eqb_eq. exact E.
Qed.

Lemma odd_byte_iff : forall c, odd_byte c = true <-> (91 <= c <= 96 \/ 123 <= c <= 127).
Proof.
  intro c. unfold odd_byte, keep, is_letter, is_upper, is_lower, keep_lower_bound, cnv_num_len. lia.
Qed.

(* case does not matter to the table *)
Lemma cnv_case : forall c, cnv (upcase c) = cnv c /\ cnv (downcase c) = cnv c /\
                           keep (upcase c) = keep c /\ keep (downcase c) = keep c.
Proof.
  intro c. destruct (N.lt_ge_cases c 128) as [Hc|Hc].
  - assert (E : ((cnv (upcase c) =? cnv c) && (cnv (downcase c) =? cnv c) &&
                 Bool.eqb (keep (upcase c)) (keep c) && Bool.eqb (keep (downcase c)) (keep c)) = true).
    { apply (all_lt128 (fun c => (cnv (upcase c) =? cnv c) && (cnv (downcase c) =? cnv c) &&
                 Bool.eqb (keep (upcase c)) (keep c) && Bool.eqb (keep (downcase c)) (keep c)));
        [vm_compute; reflexivity | exact Hc]. }
    apply andb_prop in E. destruct E as [E E4]. apply andb_prop in E. destruct E as [E E3].
    apply andb_prop in E. destruct E as [E1 E2].
    apply N.eqb_eq in E1. apply N.eqb_eq in E2. apply eqb_prop in E3. apply eqb_prop in E4. auto.
  - assert (U : upcase c = c). { unfold upcase, is_lower. replace (c <=? 122) with false by lia. rewrite andb_false_r. reflexivity. }
    assert (D : downcase c = c). { unfold downcase, is_upper. replace (c <=? 90) with false by lia. rewrite andb_false_r. reflexivity. }
    rewrite U, D. auto.
Qed.

Lemma marker_not_kept : forall c, is_marker c = true -> keep c = false.
Proof. intros c H. unfold is_marker, record_marker_byte in H. apply N.eqb_eq in H. subst. reflexivity. Qed.
Lemma ws_not_kept : forall c, is_ws c = true -> keep c = false.
Proof. intros c H. unfold is_ws in H. unfold keep, keep_lower_bound. replace (64 <? c) with false by lia. reflexivity. Qed.
Lemma eol_not_kept : forall c, is_eol c = true -> keep c = false.
Proof. intros c H. unfold is_eol, line_end_byte in H. apply N.eqb_eq in H. subst. reflexivity. Qed.
Lemma kept_not_marker : forall c, keep c = true -> is_marker c = false.
Proof. intros c H. destruct (is_marker c) eqn:E; auto. apply marker_not_kept in E. congruence. Qed.

(* ================================================================== convert / out_letters *)
Lemma convert_app : forall a b, convert (a ++ b) = convert a ++ convert b.
Proof. intros. unfold convert. rewrite filter_app, map_app. reflexivity. Qed.

Lemma convert_nil_iff : forall s, is_nil (convert s) = negb (existsb keep s).
Proof.
  induction s as [|c s IH]; simpl; auto. unfold convert in *. simpl.
  destruct (keep c); simpl; auto.
Qed.

Lemma convert_drops : forall a c b, keep c = false -> convert (a ++ c :: b) = convert (a ++ b).
Proof. intros. rewrite !convert_app. unfold convert at 2. simpl. rewrite H. reflexivity. Qed.

Lemma code_range_convert : forall s c, In c (convert s) -> c <= 15 \/ c = 30.
Proof.
  intros s c H. unfold convert in H. apply in_map_iff in H. destruct H as [b [Hb Hin]].
  apply filter_In in Hin. destruct Hin as [Hin Hk]. subst c. apply code_range_byte; auto.
Qed.

(* what extraction shows for a stretch of sequence bytes, on the whole byte range *)

Lemma out_convert_read_back : forall s, out_letters (convert s) = read_back s.
Proof.
  intro s. unfold out_letters, convert, read_back. rewrite map_map.
  induction s as [|c s IH]; simpl; auto.
  destruct (keep c) eqn:K; simpl; auto. rewrite IH. f_equal.
  destruct (is_letter c) eqn:L.
  - apply out_cnv_letter. exact L.
  - apply out_cnv_odd. unfold odd_byte. rewrite K, L. reflexivity.
Qed.

Lemma normal_form : forall s, (forall c, In c s -> odd_byte c = false) -> out_letters (convert s) = norm s.
Proof.
  intros s H. rewrite out_convert_read_back. unfold read_back, norm.
  induction s as [|c s IH]; simpl; auto.
  assert (Hc : odd_byte c = false) by (apply H; left; reflexivity).
  assert (IH' : map (fun c => if is_letter c then norm_letter c else 78) (filter keep s) = map norm_letter (filter is_letter s)).
  { apply IH. intros x Hx. apply H. right. exact Hx. }
  destruct (is_letter c) eqn:L.
  - rewrite (letter_keep c L). simpl. rewrite L, IH'. reflexivity.
  - unfold odd_byte in Hc. rewrite L in Hc. simpl in Hc. rewrite andb_true_r in Hc. rewrite Hc. exact IH'.
Qed.

(* ================================================================== lines *)
Lemma lines_concat : forall t, concat (lines t) = t.
Proof.
  induction t as [|c t IH]; simpl; auto.
  destruct (is_eol c).
  - simpl. rewrite IH. reflexivity.
  - destruct (lines t) as [|l ls] eqn:E; simpl in *.
    + rewrite <- IH. reflexivity.
    + rewrite <- IH. reflexivity.
Qed.

Lemma lines_nil_iff : forall t, lines t = [] <-> t = [].
Proof.
  intros [|c t]; simpl; split; intro H; auto; try discriminate.
  destruct (is_eol c); [discriminate|]. destruct (lines t); discriminate.
Qed.

Lemma lines_no_eol : forall x, existsb is_eol x = false -> x <> [] -> lines x = [x].
Proof.
  induction x as [|c x IH]; intros H Hn; [congruence|].
  simpl in H. apply orb_false_elim in H. destruct H as [H1 H2]. simpl. rewrite H1.
  destruct x as [|d x].
  - reflexivity.
  - rewrite IH; auto. discriminate.
Qed.

(* a complete line followed by anything *)
Lemma lines_line : forall x c t, existsb is_eol x = false -> is_eol c = true -> lines (x ++ c :: t) = (x ++ [c]) :: lines t.
Proof.
  induction x as [|d x IH]; intros c t H Hc; simpl.
  - rewrite Hc. reflexivity.
  - simpl in H. apply orb_false_elim in H. destruct H as [H1 H2]. rewrite H1.
    rewrite IH; auto.
Qed.


Lemma lines_app : forall a b, ends_lf a -> lines (a ++ b) = lines a ++ lines b.
Proof.
  intros a b [->|[a0 [c [-> Hc]]]]; [reflexivity|].
  revert b. induction a0 as [|d a0 IH]; intro b; simpl.
  - rewrite Hc. reflexivity.
  - destruct (is_eol d).
    + simpl. rewrite IH. reflexivity.
    + rewrite IH. destruct (lines (a0 ++ [c])) as [|l ls] eqn:E.
      * apply lines_nil_iff in E. destruct a0; discriminate.
      * reflexivity.
Qed.

Lemma lines_in_bytes : forall t l c, In l (lines t) -> In c l -> In c t.
Proof.
  intros t l c Hl Hc. rewrite <- (lines_concat t). apply in_concat. exists l. auto.
Qed.

Lemma lines_nonempty : forall t l, In l (lines t) -> l <> [].
Proof.
  induction t as [|c t IH]; simpl; intros l H; [contradiction|].
  destruct (is_eol c).
  - destruct H as [<-|H]; [discriminate | apply IH; exact H].
  - destruct (lines t) as [|l0 ls] eqn:E.
    + destruct H as [<-|[]]. discriminate.
    + destruct H as [<-|H]; [discriminate|]. apply IH. right. exact H.
Qed.

Lemma lines_no_marker : forall x, existsb is_marker x = false -> Forall (fun l => starts_marker l = false) (lines x).
Proof.
  intros x H. apply Forall_forall. intros l Hl. destruct l as [|c l]; [reflexivity|]. simpl.
  destruct (is_marker c) eqn:E; auto.
  assert (In c x) by (eapply lines_in_bytes; [exact Hl | left; reflexivity]).
  assert (existsb is_marker x = true) by (apply existsb_exists; exists c; auto). congruence.
Qed.

(* ================================================================== reader = deliver (groups ..) *)
Definition pend (st : rstate) : list (list N) :=
  match fst st with Some h => h :: snd st | None => snd st end.

Lemma read_seq_acc : forall ls acc, read_seq ls acc = (acc ++ fst (read_seq ls []), snd (read_seq ls [])).
Proof.
  induction ls as [|l ls IH]; intro acc; simpl.
  - rewrite app_nil_r. reflexivity.
  - destruct (starts_marker l); simpl.
    + rewrite app_nil_r. reflexivity.
    + rewrite (IH (acc ++ l)), (IH l). simpl. rewrite app_assoc. reflexivity.
Qed.

Lemma read_seq_len : forall ls acc, (length (pend (snd (read_seq ls acc))) <= length ls)%nat.
Proof.
  induction ls as [|l ls IH]; intro acc; simpl; auto.
  destruct (starts_marker l); simpl; [lia|]. specialize (IH (acc ++ l)). lia.
Qed.

Lemma groups_read_seq : forall ls h,
  groups (h :: ls) = (h, fst (read_seq ls [])) :: groups (pend (snd (read_seq ls []))).
Proof.
  induction ls as [|l ls IH]; intro h.
  - reflexivity.
  - change (groups (h :: l :: ls)) with
      (match groups (l :: ls) with
       | [] => [(h, [])]
       | (h', c) :: rs => if starts_marker h' then (h, []) :: (h', c) :: rs else (h, h' ++ c) :: rs
       end).
    rewrite (IH l). simpl read_seq. destruct (starts_marker l) eqn:E.
    + unfold pend. cbn [fst snd]. rewrite (IH l). reflexivity.
    + rewrite (read_seq_acc ls l). cbn [fst snd]. reflexivity.
Qed.

Lemma groups_head : forall l ls, exists c rs, groups (l :: ls) = (l, c) :: rs.
Proof. intros. rewrite groups_read_seq. eauto. Qed.

(* the next record the outer loop of read_contig_raw settles on, in terms of groups *)
Fixpoint next_rec (gs : list (list N * list N)) : outcome (option (list N * list N)) * list (list N * list N) :=
  match gs with
  | [] => (Ok None, [])
  | (h, c) :: gs' =>
    if is_nil (header_id h) then
      if existsb keep c then (Err, gs') else next_rec gs'
    else if is_nil c then next_rec gs'
    else (Ok (Some (header_id h, c)), gs')
  end.

Lemma raw_spec : forall fuel st, (length (pend st) < fuel)%nat ->
  fst (read_contig_raw fuel st) = fst (next_rec (groups (pend st))) /\
  (forall x, fst (next_rec (groups (pend st))) = Ok (Some x) ->
     groups (pend (snd (read_contig_raw fuel st))) = snd (next_rec (groups (pend st))) /\
     (length (pend (snd (read_contig_raw fuel st))) < length (pend st))%nat).
Proof.
  induction fuel as [|f IH]; intros st Hf; [lia|].
  destruct st as [nh ls].
  assert (CASE : forall hl ls1, pend (nh, ls) = hl :: ls1 ->
     (match nh with Some h => Some (h, ls) | None => match ls with [] => None | l :: ls' => Some (l, ls') end end) = Some (hl, ls1)).
  { intros hl ls1 E. unfold pend in E. simpl in E. destruct nh; [inversion E; reflexivity|].
    destruct ls; inversion E; reflexivity. }
  destruct (pend (nh, ls)) as [|hl ls1] eqn:P.
  - unfold pend in P. simpl in P. destruct nh; [discriminate|]. subst ls. simpl. split; [reflexivity | intros x H; discriminate].
  - specialize (CASE hl ls1 eq_refl).
    cbn [read_contig_raw]. rewrite CASE.
    rewrite groups_read_seq.
    destruct (read_seq ls1 []) as [contig st'] eqn:RS.
    assert (L : (length (pend st') <= length ls1)%nat).
    { pose proof (read_seq_len ls1 []) as L. rewrite RS in L. exact L. }
    cbn [fst snd next_rec].
    simpl in Hf.
    destruct (is_nil (header_id hl)) eqn:N1.
    + destruct (existsb keep contig) eqn:K.
      * simpl. split; [reflexivity | intros x H; discriminate].
      * destruct (IH st') as [I1 I2]; [lia|]. split; [exact I1|].
        intros x Hx. destruct (I2 x Hx) as [J1 J2]. split; [exact J1 | simpl; lia].
    + destruct (is_nil contig) eqn:N2.
      * destruct (IH st') as [I1 I2]; [lia|]. split; [exact I1|].
        intros x Hx. destruct (I2 x Hx) as [J1 J2]. split; [exact J1 | simpl; lia].
      * simpl. split; [reflexivity|]. intros x _. split; [reflexivity | lia].
Qed.

Lemma deliver_next : forall gs,
  deliver gs = match next_rec gs with
               | (Ok None, _) => Ok []
               | (Ok (Some (id, raw)), gs') => obnd (deliver gs') (fun rs => Ok ((id, convert raw) :: rs))
               | (Err, _) => Err
               | (Panic, _) => Panic
               end.
Proof.
  induction gs as [|[h c] gs IH]; [reflexivity|].
  cbn [deliver next_rec]. unfold rec_name, rec_has_base. cbn [fst snd].
  destruct (is_nil (header_id h)).
  - destruct (existsb keep c); [reflexivity | exact IH].
  - destruct (is_nil c); [exact IH | reflexivity].
Qed.

Lemma all_spec : forall fo fi st, (length (pend st) < fo)%nat -> (length (pend st) < fi)%nat ->
  read_all fo fi st = deliver (groups (pend st)).
Proof.
  induction fo as [|f IH]; intros fi st Ho Hi; [lia|].
  cbn [read_all]. unfold read_contig_converted.
  destruct (raw_spec fi st Hi) as [R1 R2].
  rewrite deliver_next.
  destruct (read_contig_raw fi st) as [r st'] eqn:RR. cbn [fst snd] in *.
  destruct (next_rec (groups (pend st))) as [n gs'] eqn:NR. cbn [fst snd] in *. subst r.
  destruct n as [[[id raw]|]| |]; try reflexivity.
  destruct (R2 (id, raw) eq_refl) as [J1 J2].
  rewrite IH; [|lia|lia]. rewrite J1. reflexivity.
Qed.

Theorem parse_exact : forall text, parse text = deliver (groups (lines text)).
Proof.
  intro text. unfold parse. rewrite all_spec; simpl; auto.
Qed.

(* ------------------------------------------------------------------ deliver, characterised *)

Lemma deliver_ok : forall gs, existsb nameless_with_bases gs = false ->
  deliver gs = Ok (map as_contig (filter wanted gs)).
Proof.
  induction gs as [|r gs IH]; intro H; [reflexivity|].
  simpl in H. apply orb_false_elim in H. destruct H as [H1 H2]. specialize (IH H2).
  cbn [deliver filter]. unfold wanted, nameless_with_bases in *.
  destruct (is_nil (rec_name r)) eqn:N1; simpl in *.
  - rewrite H1. exact IH.
  - destruct (is_nil (snd r)); simpl; [exact IH|]. rewrite IH. reflexivity.
Qed.

Lemma deliver_err : forall gs, existsb nameless_with_bases gs = true -> deliver gs = Err.
Proof.
  induction gs as [|r gs IH]; intro H; [discriminate|].
  simpl in H. cbn [deliver]. unfold nameless_with_bases in H at 1.
  destruct (is_nil (rec_name r)) eqn:N1; simpl in H.
  - destruct (rec_has_base r); [reflexivity | apply IH; exact H].
  - destruct (is_nil (snd r)); [apply IH; exact H|]. rewrite (IH H). reflexivity.
Qed.

Lemma deliver_not_panic : forall gs, deliver gs <> Panic.
Proof.
  intro gs. destruct (existsb nameless_with_bases gs) eqn:E.
  - rewrite deliver_err; [discriminate | exact E].
  - rewrite deliver_ok; [discriminate | exact E].
Qed.

(* ------------------------------------------------------------------ records vs groups *)
Lemma header_id_nil_not_kept : forall l, header_id l = [] -> existsb keep l = false.
Proof.
  intros l H. unfold header_id, trim_ws in H.
  destruct (drop_while_split is_marker l) as [pre [E1 E2]].
  set (m := drop_while is_marker l) in *.
  assert (M : forallb is_ws m = true).
  { destruct (drop_while_split is_ws m) as [pre2 [F1 F2]].
    assert (R : drop_while is_ws (rev (drop_while is_ws m)) = []).
    { destruct (drop_while is_ws (rev (drop_while is_ws m))); [reflexivity | simpl in H; destruct (rev l0); discriminate]. }
    apply drop_while_nil in R. rewrite forallb_rev in R.
    rewrite F1, forallb_app, F2, R. reflexivity. }
  rewrite E1. rewrite existsb_app. apply orb_false_intro.
  - clear -E2. induction pre as [|c pre IH]; simpl; auto. simpl in E2. apply andb_prop in E2. destruct E2 as [A B].
    rewrite (marker_not_kept c A). apply IH. exact B.
  - clear -M. induction m as [|c m IH]; simpl; auto. simpl in M. apply andb_prop in M. destruct M as [A B].
    rewrite (ws_not_kept c A). apply IH. exact B.
Qed.

Lemma header_id_empty : header_id [] = [].
Proof. reflexivity. Qed.

Lemma deliver_records : forall text, first_line_ok text = true ->
  deliver (records text) = deliver (groups (lines text)).
Proof.
  intros text H. unfold records, first_line_ok in *.
  destruct (lines text) as [|l ls]; [reflexivity|].
  destruct (starts_marker l) eqn:S; [reflexivity|]. simpl in H. apply is_nil_true in H.
  change (groups ([] :: l :: ls)) with
    (match groups (l :: ls) with
     | [] => [([], [])]
     | (h', c) :: rs => if starts_marker h' then ([], []) :: (h', c) :: rs else ([], h' ++ c) :: rs
     end).
  destruct (groups_head l ls) as [c [rs E]]. rewrite E, S.
  cbn [deliver]. unfold rec_name, rec_has_base. cbn [fst snd]. rewrite H. simpl is_nil.
  rewrite existsb_app, (header_id_nil_not_kept l H). reflexivity.
Qed.

Theorem parse_records : forall text, first_line_ok text = true -> parse text = deliver (records text).
Proof. intros. rewrite parse_exact, deliver_records; auto. Qed.

(* ================================================================== what create pushes *)

Lemma nonempty_wanted : forall gs,
  nonempty_contigs (map as_contig (filter wanted gs)) = map as_contig (filter has_named_base gs).
Proof.
  induction gs as [|r gs IH]; [reflexivity|].
  cbn [filter]. unfold wanted, has_named_base, rec_has_base in *.
  destruct (is_nil (rec_name r)) eqn:N1; simpl; [exact IH|].
  destruct (snd r) as [|b s] eqn:S; simpl; [exact IH|].
  unfold nonempty_contigs in *. cbn [map filter as_contig snd]. rewrite S.
  rewrite convert_nil_iff, negb_involutive. simpl existsb.
  destruct (keep b || existsb keep s); simpl; rewrite IH; reflexivity.
Qed.

Theorem pushed_ok : forall text, first_line_ok text = true ->
  existsb nameless_with_bases (records text) = false ->
  pushed text = Ok (map as_contig (filter has_named_base (records text))).
Proof.
  intros text F H. unfold pushed. rewrite parse_records, deliver_ok; auto. simpl. rewrite nonempty_wanted. reflexivity.
Qed.

Theorem pushed_err : forall text, first_line_ok text = true ->
  existsb nameless_with_bases (records text) = true -> pushed text = Err.
Proof. intros text F H. unfold pushed. rewrite parse_records, deliver_err; auto. Qed.

Theorem no_record_lost : forall text r, first_line_ok text = true ->
  In r (records text) -> rec_has_base r = true ->
  pushed text = Err \/ exists rs, pushed text = Ok rs /\ In (as_contig r) rs.
Proof.
  intros text r F Hin Hb. destruct (existsb nameless_with_bases (records text)) eqn:E.
  - left. apply pushed_err; auto.
  - right. eexists. split; [apply pushed_ok; auto|].
    apply in_map. apply filter_In. split; [exact Hin|]. unfold has_named_base. rewrite Hb, andb_true_r.
    destruct (is_nil (rec_name r)) eqn:N1; auto.
    assert (X : existsb nameless_with_bases (records text) = true).
    { apply existsb_exists. exists r. split; auto. unfold nameless_with_bases. rewrite N1, Hb. reflexivity. }
    congruence.
Qed.

(* every byte of every group comes from the text *)
Lemma groups_concat : forall ls, concat (map (fun g => fst g ++ snd g) (groups ls)) = concat ls.
Proof.
  induction ls as [|l ls IH]; [reflexivity|].
  change (groups (l :: ls)) with
    (match groups ls with
     | [] => [(l, [])]
     | (h', c) :: rs => if starts_marker h' then (l, []) :: (h', c) :: rs else (l, h' ++ c) :: rs
     end).
  destruct (groups ls) as [|[h c] rs] eqn:E.
  - simpl in *. rewrite <- IH. rewrite !app_nil_r. reflexivity.
  - destruct (starts_marker h); simpl in *; rewrite <- IH; rewrite ?app_nil_r, ?app_assoc; reflexivity.
Qed.

Lemma groups_bytes : forall text h s x, In (h, s) (groups (lines text)) -> In x s -> In x text.
Proof.
  intros text h s x Hg Hx. rewrite <- (lines_concat text), <- groups_concat.
  apply in_concat. exists (h ++ s). split; [|apply in_or_app; right; exact Hx].
  apply (in_map (fun g => fst g ++ snd g) _ (h, s)). exact Hg.
Qed.

Theorem code_range_parse : forall text rs id codes c,
  parse text = Ok rs -> In (id, codes) rs -> In c codes -> c <= 15 \/ c = 30.
Proof.
  intros text rs id codes c P Hin Hc. rewrite parse_exact in P.
  destruct (existsb nameless_with_bases (groups (lines text))) eqn:E.
  - rewrite deliver_err in P; [discriminate | exact E].
  - rewrite deliver_ok in P; [|exact E]. inversion P; subst rs. clear P.
    apply in_map_iff in Hin. destruct Hin as [[h s] [Eq Hin]].
    unfold as_contig in Eq. inversion Eq; subst. cbn [snd] in Hc.
    apply (code_range_convert s). exact Hc.
Qed.

(* ================================================================== rendering *)

Lemma wrap_go_filter : forall w eol, forallb (fun c => negb (keep c)) eol = true ->
  forall s col, filter keep (wrap_go w col eol s) = filter keep s.
Proof.
  intros w eol He. pose proof (filter_none keep eol He) as F.
  induction s as [|c s IH]; intro col; simpl.
  - destruct col; [reflexivity | exact F].
  - destruct (Nat.eqb col w).
    + rewrite filter_app, F. simpl. rewrite IH. reflexivity.
    + simpl. rewrite IH. reflexivity.
Qed.

Lemma wrap_go_no_marker : forall w eol, existsb is_marker eol = false ->
  forall s col, existsb is_marker s = false -> existsb is_marker (wrap_go w col eol s) = false.
Proof.
  intros w eol He. induction s as [|c s IH]; intros col H; simpl.
  - destruct col; [reflexivity | exact He].
  - simpl in H. apply orb_false_elim in H. destruct H as [H1 H2].
    destruct (Nat.eqb col w).
    + rewrite existsb_app, He. simpl. rewrite H1. simpl. apply IH. exact H2.
    + simpl. rewrite H1. simpl. apply IH. exact H2.
Qed.

Lemma wrap_go_tail : forall w eol s col, (col <> 0%nat \/ s <> []) -> exists x, wrap_go w col eol s = x ++ eol.
Proof.
  intros w eol. induction s as [|c s IH]; intros col H; simpl.
  - destruct col; [destruct H; congruence | exists []; reflexivity].
  - destruct (Nat.eqb col w).
    + destruct (IH 1%nat) as [x Hx]; [left; discriminate|]. rewrite Hx. exists (eol ++ c :: x).
      rewrite <- app_assoc. reflexivity.
    + destruct (IH (S col)) as [x Hx]; [left; discriminate|]. rewrite Hx. exists (c :: x). reflexivity.
Qed.

Lemma wrap_ends_lf : forall w eol s, eol_ok eol -> ends_lf (wrap w eol s).
Proof.
  intros w eol s He. destruct s as [|c s]; [left; reflexivity|]. right.
  destruct (wrap_go_tail w eol (c :: s) 0%nat) as [x Hx]; [right; discriminate|].
  unfold wrap. rewrite Hx. destruct He as [->| ->].
  - exists x, 10. split; reflexivity.
  - exists (x ++ [13]), 10. split; [rewrite <- app_assoc; reflexivity | reflexivity].
Qed.

Lemma wrap_nonempty : forall w eol s, eol_ok eol -> s <> [] -> wrap w eol s <> [].
Proof.
  intros w eol s He Hs. destruct (wrap_go_tail w eol s 0%nat) as [x Hx]; [right; exact Hs|].
  unfold wrap. rewrite Hx. destruct He as [->| ->]; destruct x; discriminate.
Qed.

Lemma set_case_keep : forall mask s i, forallb keep s = true -> forallb keep (set_case mask i s) = true.
Proof.
  intros mask. induction s as [|c s IH]; intros i H; simpl; auto.
  simpl in H. apply andb_prop in H. destruct H as [H1 H2]. rewrite IH; auto. rewrite andb_true_r.
  destruct (cnv_case c) as [_ [_ [K1 K2]]]. destruct (mask i); congruence.
Qed.

Lemma set_case_cnv : forall mask s i, map cnv (set_case mask i s) = map cnv s.
Proof.
  intros mask. induction s as [|c s IH]; intro i; simpl; auto.
  rewrite IH. f_equal. destruct (cnv_case c) as [C1 [C2 _]]. destruct (mask i); congruence.
Qed.

Lemma set_case_nil : forall mask s i, s <> [] -> set_case mask i s <> [].
Proof. intros mask [|c s] i H; [congruence | discriminate]. Qed.

Lemma kept_no_marker : forall s, forallb keep s = true -> existsb is_marker s = false.
Proof.
  induction s as [|c s IH]; simpl; auto. intro H. apply andb_prop in H. destruct H as [H1 H2].
  rewrite (kept_not_marker c H1). simpl. apply IH. exact H2.
Qed.

Lemma header_id_render : forall n eol, good_name n = true -> eol_ok eol ->
  header_id (record_marker_byte :: n ++ eol) = n.
Proof.
  intros n eol G He. unfold good_name in G.
  apply andb_prop in G. destruct G as [G G4]. apply andb_prop in G. destruct G as [G G3].
  apply andb_prop in G. destruct G as [G1 G2].
  destruct n as [|c n]; [discriminate|]. apply andb_prop in G3. destruct G3 as [M W].
  apply negb_true_iff in M. apply negb_true_iff in W.
  unfold header_id. cbn [drop_while]. replace (is_marker record_marker_byte) with true by reflexivity.
  change ((c :: n) ++ eol) with (c :: (n ++ eol)). rewrite (drop_while_id is_marker c _ M).
  unfold trim_ws. rewrite (drop_while_id is_ws c _ W).
  change (c :: n ++ eol) with ((c :: n) ++ eol). rewrite rev_app_distr.
  destruct (rev (c :: n)) as [|d m] eqn:R; [discriminate|]. apply negb_true_iff in G4.
  assert (X : drop_while is_ws (rev eol ++ d :: m) = d :: m).
  { destruct He as [->| ->]; simpl; rewrite G4; reflexivity. }
  rewrite X, <- R. apply rev_involutive.
Qed.

Lemma read_seq_body : forall body rest acc,
  Forall (fun l => starts_marker l = false) body ->
  (rest = [] \/ exists m r, rest = m :: r /\ starts_marker m = true) ->
  fst (read_seq (body ++ rest) acc) = acc ++ concat body /\ pend (snd (read_seq (body ++ rest) acc)) = rest.
Proof.
  induction body as [|l body IH]; intros rest acc Hb Hr.
  - simpl. rewrite app_nil_r. destruct Hr as [->|[m [r [-> Hm]]]]; simpl; [auto|]. rewrite Hm. auto.
  - inversion Hb; subst. simpl. rewrite H1. destruct (IH rest (acc ++ l) H2 Hr) as [A B].
    rewrite A, B. rewrite <- app_assoc. auto.
Qed.

Definition rendered_group (w : nat) (eol : list N) (mask : nat -> bool) (r : list N * list N) : list N * list N :=
  (record_marker_byte :: fst r ++ eol, wrap w eol (set_case mask 0 (snd r))).

Lemma eol_split : forall eol, eol_ok eol -> exists pre, eol = pre ++ [10] /\ existsb is_eol pre = false /\
  existsb is_marker eol = false /\ forallb (fun c => negb (keep c)) eol = true.
Proof.
  intros eol [->| ->]; [exists [] | exists [13]]; repeat split; reflexivity.
Qed.

Lemma lines_render : forall w eol mask rs, eol_ok eol -> forallb good_rec rs = true ->
  groups (lines (render w eol mask rs)) = map (rendered_group w eol mask) rs /\
  (lines (render w eol mask rs) = [] \/ exists m r, lines (render w eol mask rs) = m :: r /\ starts_marker m = true).
Proof.
  intros w eol mask rs He. destruct (eol_split eol He) as [pre [Ep [Epre [Em Ek]]]].
  induction rs as [|r rs IH]; intro G.
  - simpl. auto.
  - simpl in G. apply andb_prop in G. destruct G as [Gr G]. destruct (IH G) as [IH1 IH2]. clear IH.
    unfold good_rec in Gr. apply andb_prop in Gr. destruct Gr as [Gr K]. apply andb_prop in Gr. destruct Gr as [Gn Gs].
    assert (NoEol : existsb is_eol (record_marker_byte :: fst r ++ pre) = false).
    { unfold good_name in Gn. apply andb_prop in Gn. destruct Gn as [Gn _]. apply andb_prop in Gn. destruct Gn as [Gn _].
      apply andb_prop in Gn. destruct Gn as [_ Gn]. apply negb_true_iff in Gn.
      simpl. rewrite existsb_app, Gn, Epre. reflexivity. }
    set (W := wrap w eol (set_case mask 0 (snd r))).
    assert (L : lines (render w eol mask (r :: rs)) =
                (record_marker_byte :: fst r ++ eol) :: lines W ++ lines (render w eol mask rs)).
    { unfold render. cbn [map concat]. fold (render w eol mask rs). unfold render_rec. fold W.
      set (R := render w eol mask rs).
      replace (([record_marker_byte] ++ fst r ++ eol ++ W) ++ R)
        with ((record_marker_byte :: fst r ++ pre) ++ 10 :: (W ++ R)).
      2:{ rewrite Ep. simpl. rewrite <- !app_assoc. simpl. reflexivity. }
      rewrite lines_line; [|exact NoEol | reflexivity].
      rewrite lines_app; [|apply wrap_ends_lf; exact He].
      f_equal. rewrite Ep. simpl. rewrite <- app_assoc. reflexivity. }
    split.
    + rewrite L, groups_read_seq.
      assert (NM : Forall (fun l => starts_marker l = false) (lines W)).
      { apply lines_no_marker. apply wrap_go_no_marker; [exact Em|]. apply kept_no_marker. apply set_case_keep. exact K. }
      destruct (read_seq_body (lines W) (lines (render w eol mask rs)) [] NM IH2) as [A B].
      rewrite A, B, IH1. simpl. rewrite lines_concat. reflexivity.
    + right. rewrite L. eexists. eexists. split; reflexivity.
Qed.

Theorem parse_render_lemma : forall w eol mask rs, eol_ok eol -> forallb good_rec rs = true ->
  parse (render w eol mask rs) = Ok (map (fun r => (fst r, map cnv (snd r))) rs).
Proof.
  intros w eol mask rs He G. rewrite parse_exact.
  destruct (lines_render w eol mask rs He G) as [L _]. rewrite L. clear L.
  destruct (eol_split eol He) as [pre [Ep [Epre [Em Ek]]]].
  induction rs as [|r rs IH]; [reflexivity|].
  simpl in G. apply andb_prop in G. destruct G as [Gr G]. specialize (IH G).
  unfold good_rec in Gr. apply andb_prop in Gr. destruct Gr as [Gr K]. apply andb_prop in Gr. destruct Gr as [Gn Gs].
  cbn [map deliver]. unfold rec_name.
  change (rendered_group w eol mask r) with (record_marker_byte :: fst r ++ eol, wrap w eol (set_case mask 0 (snd r))).
  cbn [fst snd].
  rewrite (header_id_render (fst r) eol Gn He).
  assert (N1 : is_nil (fst r) = false).
  { unfold good_name in Gn. destruct (fst r); [discriminate | reflexivity]. }
  rewrite N1.
  assert (N2 : is_nil (wrap w eol (set_case mask 0 (snd r))) = false).
  { apply is_nil_false. apply wrap_nonempty; [exact He|]. apply set_case_nil. apply negb_true_iff in Gs.
    apply is_nil_false. exact Gs. }
  rewrite N2, IH. simpl. f_equal. f_equal. f_equal.
  unfold convert, wrap. rewrite (wrap_go_filter w eol Ek).
  rewrite filter_all; [|apply set_case_keep; exact K]. apply set_case_cnv.
Qed.

(* ================================================================== concatenation of files *)
Definition starts_rec (B : list (list N)) : Prop := B = [] \/ exists m r, B = m :: r /\ starts_marker m = true.

Lemma groups_app : forall A B, starts_rec B -> groups (A ++ B) = groups A ++ groups B.
Proof.
  induction A as [|l A IH]; intros B HB; [reflexivity|].
  change (groups ((l :: A) ++ B)) with
    (match groups (A ++ B) with
     | [] => [(l, [])]
     | (h', c) :: rs => if starts_marker h' then (l, []) :: (h', c) :: rs else (l, h' ++ c) :: rs
     end).
  rewrite (IH B HB). destruct A as [|a A].
  - simpl app at 1. destruct HB as [->|[m [r [-> Hm]]]]; [reflexivity|].
    destruct (groups_head m r) as [c [rs E]]. rewrite E, Hm. reflexivity.
  - change (groups (l :: a :: A)) with
      (match groups (a :: A) with
       | [] => [(l, [])]
       | (h', c) :: rs => if starts_marker h' then (l, []) :: (h', c) :: rs else (l, h' ++ c) :: rs
       end).
    destruct (groups_head a A) as [c [rs E]]. rewrite E. cbn [app]. destruct (starts_marker a) eqn:SM; cbn [app]; reflexivity.
Qed.

Lemma oapp_nil_r : forall {A} (a : outcome (list A)), oapp a (Ok []) = a.
Proof. intros A [x| |]; simpl; auto. rewrite app_nil_r. reflexivity. Qed.

Lemma oapp_obnd_map : forall {A B} (g : list A -> list B) (a b : outcome (list A)),
  (forall x y, g (x ++ y) = g x ++ g y) ->
  obnd (oapp a b) (fun x => Ok (g x)) = oapp (obnd a (fun x => Ok (g x))) (obnd b (fun x => Ok (g x))).
Proof. intros A B g [x| |] [y| |] H; simpl; auto. rewrite H. reflexivity. Qed.

Lemma deliver_app : forall G1 G2, deliver (G1 ++ G2) = oapp (deliver G1) (deliver G2).
Proof.
  induction G1 as [|r G1 IH]; intro G2.
  - simpl. destruct (deliver G2); reflexivity.
  - cbn [app deliver]. pose proof (deliver_not_panic G2) as NP.
    destruct (is_nil (rec_name r)).
    + destruct (rec_has_base r); [|apply IH]. destruct (deliver G2); simpl; auto. congruence.
    + destruct (is_nil (snd r)); [apply IH|]. rewrite IH.
      destruct (deliver G1) as [x| |]; destruct (deliver G2) as [y| |]; simpl; auto.
Qed.


Lemma lines_starts_rec : forall t, starts_gt t -> starts_rec (lines t).
Proof.
  intros t [->|[t' ->]]; [left; reflexivity|]. right. simpl.
  replace (is_eol record_marker_byte) with false by reflexivity.
  destruct (lines t') as [|l ls]; eexists; eexists; split; reflexivity.
Qed.

Theorem parse_app : forall t1 t2, ends_lf t1 -> starts_gt t2 -> parse (t1 ++ t2) = oapp (parse t1) (parse t2).
Proof.
  intros t1 t2 H1 H2. rewrite !parse_exact, lines_app, groups_app, deliver_app; auto.
  apply lines_starts_rec. exact H2.
Qed.

Lemma pushed_app : forall t1 t2, ends_lf t1 -> starts_gt t2 -> pushed (t1 ++ t2) = oapp (pushed t1) (pushed t2).
Proof.
  intros. unfold pushed. rewrite parse_app; auto. apply oapp_obnd_map.
  intros. unfold nonempty_contigs. apply filter_app.
Qed.

Lemma contig_stream_app : forall fn t1 t2, ends_lf t1 -> starts_gt t2 ->
  contig_stream fn (t1 ++ t2) = oapp (contig_stream fn t1) (contig_stream fn t2).
Proof.
  intros. unfold contig_stream. rewrite pushed_app; auto.
  apply (oapp_obnd_map (map (fun r : list N * list N => (sample_for fn (fst r), fst r, snd r)))).
  intros. apply map_app.
Qed.

(* PanSN headers: the sample name does not depend on the file name *)

Lemma sample_for_pansn_indep : forall fn fn' id, is_pansn id = true -> sample_for fn id = sample_for fn' id.
Proof.
  intros fn fn' id H. unfold sample_for, parse_sample_from_header. unfold is_pansn in H. rewrite H. cbn [fst].
  set (s := nth 0 (split_on pansn_sep_byte id) [] ++ pansn_sep_byte :: nth 1 (split_on pansn_sep_byte id) []).
  assert (E : bytes_eqb s multifile_unknown = false).
  { apply bytes_eqb_neq. intro X. assert (I : In pansn_sep_byte s) by (apply in_or_app; right; left; reflexivity).
    rewrite X in I. vm_compute in I. repeat (destruct I as [I|I]; [discriminate|]). exact I. }
  rewrite E. reflexivity.
Qed.


Lemma contig_stream_indep : forall fn fn' t, all_pansn t -> contig_stream fn t = contig_stream fn' t.
Proof.
  intros fn fn' t H. unfold contig_stream. destruct (pushed t) as [rs| |] eqn:E; auto. simpl. f_equal.
  apply map_ext_in. intros r Hr. specialize (H rs E). rewrite Forall_forall in H.
  rewrite (sample_for_pansn_indep fn fn' (fst r) (H r Hr)). reflexivity.
Qed.


Lemma concat_starts_gt : forall ts, Forall starts_gt ts -> starts_gt (concat ts).
Proof.
  induction ts as [|t ts IH]; intro H; [left; reflexivity|]. inversion H; subst. simpl.
  destruct H2 as [->|[t' ->]]; [simpl; apply IH; exact H3|]. right. eexists. reflexivity.
Qed.

Theorem stream_multi_concat : forall fn files,
  Forall (fun ft => file_ok (snd ft) /\ all_pansn (snd ft)) files ->
  stream_multi files = contig_stream fn (concat (map snd files)).
Proof.
  intros fn files. induction files as [|[f t] fs IH]; intro H.
  - reflexivity.
  - inversion H; subst. cbn [snd] in H2. destruct H2 as [[E S] P]. cbn [stream_multi map concat snd].
    rewrite contig_stream_app; auto.
    + rewrite (IH H3), (contig_stream_indep f fn t P). reflexivity.
    + apply concat_starts_gt. clear -H3. induction fs as [|[f' t'] fs IH]; [constructor|].
      inversion H3; subst. constructor; [apply H1 | apply IH; exact H2].
Qed.

Theorem pansn_vs_files_lemma : forall fn files,
  Forall (fun ft => file_ok (snd ft) /\ all_pansn (snd ft)) files ->
  (forall cs, stream_multi files = Ok cs -> sorted_go None [] cs = true) ->
  create_view [(fn, concat (map snd files))] = create_view files.
Proof.
  intros fn files H S. unfold create_view.
  assert (L : stream_single fn (concat (map snd files)) = stream_multi files).
  { unfold stream_single. rewrite <- (stream_multi_concat fn files H).
    destruct (stream_multi files) as [cs| |] eqn:E; auto. simpl. rewrite (S cs eq_refl). reflexivity. }
  rewrite L. f_equal.
  destruct files as [|[f t] [|ft2 fs]]; auto.
  unfold stream_single. simpl stream_multi in *. rewrite oapp_nil_r in *.
  destruct (contig_stream f t) as [cs| |] eqn:E; auto. simpl. rewrite (S cs eq_refl). reflexivity.
Qed.

(* the naming rule, for the comparison with per-sample files that carry plain headers *)
Lemma split_on_app : forall sep a rest, ~ In sep a -> split_on sep (a ++ sep :: rest) = a :: split_on sep rest.
Proof.
  intros sep. induction a as [|c a IH]; intros rest H; simpl.
  - rewrite N.eqb_refl. reflexivity.
  - destruct (c =? sep) eqn:E; [apply N.eqb_eq in E; subst; exfalso; apply H; left; reflexivity|].
    rewrite IH; [reflexivity|]. intro X. apply H. right. exact X.
Qed.

Lemma split_on_nonempty : forall sep l, split_on sep l <> [].
Proof.
  intros sep l. induction l as [|c l IH]; simpl; [discriminate|].
  destruct (c =? sep); [discriminate|]. destruct (split_on sep l); [congruence | discriminate].
Qed.

Theorem sample_for_pansn : forall fn a b c, ~ In pansn_sep_byte a -> ~ In pansn_sep_byte b ->
  sample_for fn (a ++ pansn_sep_byte :: b ++ pansn_sep_byte :: c) = a ++ pansn_sep_byte :: b.
Proof.
  intros fn a b c Ha Hb.
  assert (P : is_pansn (a ++ pansn_sep_byte :: b ++ pansn_sep_byte :: c) = true).
  { unfold is_pansn. rewrite split_on_app, split_on_app; auto.
    destruct (split_on pansn_sep_byte c) eqn:E; [exfalso; eapply split_on_nonempty; eauto|].
    unfold lenN. simpl length. unfold pansn_min_parts. lia. }
  rewrite (sample_for_pansn_indep fn [] _ P).
  unfold sample_for, parse_sample_from_header. unfold is_pansn in P. rewrite P. cbn [fst].
  rewrite split_on_app, split_on_app; auto. cbn [nth].
  set (s := a ++ pansn_sep_byte :: b).
  assert (E : bytes_eqb s multifile_unknown = false).
  { apply bytes_eqb_neq. intro X. assert (I : In pansn_sep_byte s) by (apply in_or_app; right; left; reflexivity).
    rewrite X in I. vm_compute in I. repeat (destruct I as [I|I]; [discriminate|]). exact I. }
  rewrite E. reflexivity.
Qed.

Theorem sample_for_plain : forall fn id, is_pansn id = false -> sample_for fn id = sample_name_of_file fn.
Proof.
  intros fn id H. unfold sample_for, parse_sample_from_header. unfold is_pansn in H. rewrite H. reflexivity.
Qed.

(* ================================================================== gzip as an oracle *)
Section GzOracle.
  Variable gzip : list N -> list N.
  Variable gunzip : list N -> option (list N).
  (* flate2::read::MultiGzDecoder on a concatenation of gzip members yields the concatenation of the members *)
  Hypothesis gunzip_members : forall xs, xs <> [] -> gunzip (concat (map gzip xs)) = Some (concat xs).

  Theorem gz_invariant_lemma : forall ngz nplain xs, xs <> [] ->
    is_gz_name ngz = true -> is_gz_name nplain = false ->
    file_bytes gunzip ngz (concat (map gzip xs)) = file_bytes gunzip nplain (concat xs).
  Proof.
    intros ngz nplain xs Hx Hg Hp. unfold file_bytes. rewrite Hg, Hp. apply gunzip_members. exact Hx.
  Qed.

  Theorem gz_boundaries_lemma : forall ngz xs ys, xs <> [] -> ys <> [] -> concat xs = concat ys ->
    is_gz_name ngz = true ->
    file_bytes gunzip ngz (concat (map gzip xs)) = file_bytes gunzip ngz (concat (map gzip ys)).
  Proof.
    intros ngz xs ys Hx Hy E Hg. unfold file_bytes. rewrite Hg, !gunzip_members; auto. rewrite E. reflexivity.
  Qed.
End GzOracle.

(* ------------------------------------------------------------------ file names *)
Lemma rsplit_dot_none : forall e, ~ In 46 e -> rsplit_dot e = None.
Proof.
  induction e as [|c e IH]; intro H; [reflexivity|]. simpl.
  rewrite IH; [|intro X; apply H; right; exact X].
  destruct (c =? 46) eqn:E; [apply N.eqb_eq in E; subst; exfalso; apply H; left; reflexivity | reflexivity].
Qed.

Lemma rsplit_dot_last : forall x e, ~ In 46 e -> rsplit_dot (x ++ 46 :: e) = Some (x, e).
Proof.
  induction x as [|c x IH]; intros e H; simpl.
  - rewrite rsplit_dot_none; auto.
  - rewrite IH; auto.
Qed.

Lemma not_dotdot : forall x e, (2 < length (x ++ 46%N :: e))%nat -> bytes_eqb (x ++ 46 :: e) [46; 46] = false.
Proof.
  intros x e H. apply bytes_eqb_neq. intro X. rewrite X in H. simpl in H. lia.
Qed.

Lemma stem_ext : forall x e, x <> [] -> ~ In 46 e -> (2 < length (x ++ 46%N :: e))%nat ->
  file_stem (x ++ 46 :: e) = x /\ file_extension (x ++ 46 :: e) = Some e.
Proof.
  intros x e Hx He Hl. unfold file_stem, file_extension. rewrite not_dotdot, rsplit_dot_last; auto.
  destruct x; [congruence|]. simpl. auto.
Qed.

Lemma ends_with_app : forall s suf, ends_with suf (s ++ suf) = true.
Proof.
  intros s suf. unfold ends_with. rewrite app_length.
  replace (length s + length suf - length suf)%nat with (length s + 0)%nat by lia.
  rewrite skipn_app. rewrite skipn_all2 by lia. replace (length s + 0 - length s)%nat with 0%nat by lia.
  simpl. rewrite bytes_eqb_refl, andb_true_r. apply Nat.leb_le. lia.
Qed.

Lemma trim_fuel : forall suf f1 f2 l, suf <> [] -> (length l <= f1)%nat -> (length l <= f2)%nat ->
  trim_end_matches f1 suf l = trim_end_matches f2 suf l.
Proof.
  intros suf. induction f1 as [|f1 IH]; intros f2 l Hs H1 H2.
  - destruct l; [|simpl in H1; lia]. destruct f2; [reflexivity|]. simpl.
    unfold ends_with. destruct suf; [congruence|]. simpl. reflexivity.
  - destruct f2.
    + destruct l; [|simpl in H2; lia]. simpl. unfold ends_with. destruct suf; [congruence|]. simpl.
      reflexivity.
    + simpl. destruct (negb (is_nil suf) && ends_with suf l) eqn:C; [|reflexivity].
      apply andb_prop in C. destruct C as [_ C]. unfold ends_with in C. apply andb_prop in C. destruct C as [C _].
      apply Nat.leb_le in C. assert (0 < length suf)%nat by (destruct suf; [congruence | simpl; lia]).
      apply IH; auto; rewrite firstn_length; lia.
Qed.

Lemma trim_app_once : forall suf s f, suf <> [] -> (length s <= f)%nat ->
  trim_end_matches (S f) suf (s ++ suf) = trim_end_matches (length s) suf s.
Proof.
  intros suf s f Hs Hf. simpl. rewrite ends_with_app.
  replace (negb (is_nil suf)) with true by (destruct suf; [congruence | reflexivity]). simpl.
  rewrite app_length. replace (length s + length suf - length suf)%nat with (length s + 0)%nat by lia.
  rewrite firstn_app. rewrite firstn_all2 by lia. replace (length s + 0 - length s)%nat with 0%nat by lia.
  simpl. rewrite app_nil_r. apply trim_fuel; auto.
Qed.

Theorem sample_name_gz_lemma : forall s,
  sample_name_of_file (s ++ [46; 102; 97; 46; 103; 122]) = sample_name_of_file (s ++ [46; 102; 97]) /\
  is_gz_name (s ++ [46; 102; 97; 46; 103; 122]) = true /\ is_gz_name (s ++ [46; 102; 97]) = false.
Proof.
  intro s.
  assert (G : file_stem ((s ++ [46; 102; 97]) ++ 46 :: [103; 122]) = s ++ [46; 102; 97] /\
              file_extension ((s ++ [46; 102; 97]) ++ 46 :: [103; 122]) = Some [103; 122]).
  { apply stem_ext.
    - destruct s; discriminate.
    - simpl. intros [X|[X|[]]]; discriminate.
    - rewrite !app_length. simpl. lia. }
  rewrite <- app_assoc in G. simpl app in G. destruct G as [G1 G2].
  assert (T1 : trim_end_matches (length (s ++ [46; 102; 97])) stem_trim_first (s ++ [46; 102; 97])
               = trim_end_matches (length s) stem_trim_first s).
  { rewrite app_length. simpl length. replace (length s + 3)%nat with (S (length s + 2)) by lia.
    apply (trim_app_once stem_trim_first s); [discriminate | lia]. }
  split; [|split].
  - unfold sample_name_of_file. rewrite G1, T1.
    destruct s as [|c s].
    + reflexivity.
    + assert (P : file_stem ((c :: s) ++ 46 :: [102; 97]) = c :: s).
      { apply stem_ext; [discriminate | simpl; intros [X|[X|[]]]; discriminate | rewrite app_length; simpl; lia]. }
      rewrite P. reflexivity.
  - unfold is_gz_name. rewrite G2. reflexivity.
  - unfold is_gz_name, file_extension.
    destruct s as [|c s]; [reflexivity|].
    rewrite not_dotdot by (rewrite app_length; simpl; lia).
    rewrite rsplit_dot_last by (simpl; intros [X|[X|[]]]; discriminate). reflexivity.
Qed.

(* ================================================================== a missing final newline changes nothing *)
Lemma lines_cons : forall c t,
  lines (c :: t) = if is_eol c then [c] :: lines t
                   else match lines t with [] => [[c]] | l :: ls => (c :: l) :: ls end.
Proof. reflexivity. Qed.

Lemma lines_add_lf : forall t, t <> [] -> last t 0 <> 10 ->
  exists init x, x <> [] /\ lines t = init ++ [x] /\ lines (t ++ [10]) = init ++ [x ++ [10]].
Proof.
  induction t as [|c t IH]; intros Hn Hl; [congruence|].
  destruct t as [|d t].
  - simpl in Hl. exists [], [c]. simpl. replace (is_eol c) with false.
    + repeat split; try discriminate. 
    + symmetry. unfold is_eol, line_end_byte. apply N.eqb_neq. exact Hl.
  - assert (Hl' : last (d :: t) 0 <> 10) by exact Hl.
    destruct (IH ltac:(discriminate) Hl') as [init [x [Hx [L1 L2]]]].
    change ((c :: d :: t) ++ [10]) with (c :: ((d :: t) ++ [10])).
    rewrite (lines_cons c (d :: t)), (lines_cons c ((d :: t) ++ [10])). rewrite L1, L2. destruct (is_eol c).
    + exists ([c] :: init), x. repeat split; auto.
    + destruct init as [|i init]; simpl.
      * exists [], (c :: x). repeat split; auto. discriminate.
      * exists ((c :: i) :: init), x. repeat split; auto.
Qed.

Lemma starts_marker_snoc : forall h, starts_marker (h ++ [10]) = starts_marker h.
Proof. intros [|c h]; reflexivity. Qed.

Lemma groups_snoc_lf : forall init x, x <> [] -> Forall (fun l => l <> []) init ->
  exists G h c, groups (init ++ [x]) = G ++ [(h, c)] /\
    ((c = [] /\ groups (init ++ [x ++ [10]]) = G ++ [(h ++ [10], [])]) \/
     (c <> [] /\ groups (init ++ [x ++ [10]]) = G ++ [(h, c ++ [10])])).
Proof.
  induction init as [|l init IH]; intros x Hx Hne.
  - exists [], x, []. simpl. split; [reflexivity|]. left. split; reflexivity.
  - inversion Hne; subst. destruct (IH x Hx H2) as [G [h [c [E1 E2]]]].
    change (groups ((l :: init) ++ [x])) with
      (match groups (init ++ [x]) with
       | [] => [(l, [])]
       | (h', c') :: rs => if starts_marker h' then (l, []) :: (h', c') :: rs else (l, h' ++ c') :: rs
       end).
    change (groups ((l :: init) ++ [x ++ [10]])) with
      (match groups (init ++ [x ++ [10]]) with
       | [] => [(l, [])]
       | (h', c') :: rs => if starts_marker h' then (l, []) :: (h', c') :: rs else (l, h' ++ c') :: rs
       end).
    rewrite E1. destruct G as [|[gh gc] G].
    + (* the last group is the only one of the tail: h is the first line of init ++ [x], hence non-empty *)
      assert (Hh : h <> []).
      { destruct init as [|i init]; simpl in E1.
        - inversion E1; subst. exact Hx.
        - destruct (groups_head i (init ++ [x])) as [c0 [rs0 E0]]. simpl in E0. rewrite E0 in E1.
          inversion E1; subst. inversion H2; subst. assumption. }
      cbn [app]. destruct E2 as [[-> E2]|[Hc E2]]; rewrite E2; cbn [app].
      * rewrite starts_marker_snoc. destruct (starts_marker h).
        -- exists [(l, [])], h, []. split; [reflexivity|]. left. split; reflexivity.
        -- exists [], l, (h ++ []). split; [reflexivity|]. right. rewrite !app_nil_r. split; [exact Hh | reflexivity].
      * destruct (starts_marker h).
        -- exists [(l, [])], h, c. split; [reflexivity|]. right. split; [exact Hc | reflexivity].
        -- exists [], l, (h ++ c). split; [reflexivity|]. right. split.
           ++ destruct h; [congruence | discriminate].
           ++ rewrite app_assoc. reflexivity.
    + cbn [app]. destruct E2 as [[-> E2]|[Hc E2]]; rewrite E2; cbn [app]; destruct (starts_marker gh).
      * exists ((l, []) :: (gh, gc) :: G), h, []. split; [reflexivity|]. left. split; reflexivity.
      * exists ((l, gh ++ gc) :: G), h, []. split; [reflexivity|]. left. split; reflexivity.
      * exists ((l, []) :: (gh, gc) :: G), h, c. split; [reflexivity|]. right. split; [exact Hc | reflexivity].
      * exists ((l, gh ++ gc) :: G), h, c. split; [reflexivity|]. right. split; [exact Hc | reflexivity].
Qed.

Theorem final_newline_lemma : forall t, t <> [] -> last t 0 <> 10 -> parse (t ++ [10]) = parse t.
Proof.
  intros t Hn Hl. rewrite !parse_exact.
  destruct (lines_add_lf t Hn Hl) as [init [x [Hx [L1 L2]]]]. rewrite L1, L2.
  assert (Hne : Forall (fun l => l <> []) init).
  { apply Forall_forall. intros l Hin. apply (lines_nonempty t). rewrite L1. apply in_or_app. left. exact Hin. }
  destruct (groups_snoc_lf init x Hx Hne) as [G [h [c [E1 [[-> E2]|[Hc E2]]]]]]; rewrite E1, E2, !deliver_app; f_equal.
  - cbn [deliver]. unfold rec_name, rec_has_base. cbn [fst snd existsb is_nil].
    destruct (is_nil (header_id (h ++ [10]))); destruct (is_nil (header_id h)); reflexivity.
  - cbn [deliver]. unfold rec_name, rec_has_base. cbn [fst snd].
    rewrite existsb_app, convert_app. simpl existsb. replace (keep 10) with false by reflexivity. rewrite !orb_false_r.
    replace (is_nil (c ++ [10])) with (is_nil c) by (destruct c; [congruence | reflexivity]).
    replace (convert [10]) with (@nil N) by reflexivity. rewrite app_nil_r. reflexivity.
Qed.

(* ================================================================== the catalogue built by create *)

Lemma bytes_eqb_sym : forall a b, bytes_eqb a b = bytes_eqb b a.
Proof.
  intros a b. destruct (bytes_eqb a b) eqn:E.
  - apply list_eqb_eq in E. subst. symmetry. apply bytes_eqb_refl.
  - symmetry. apply bytes_eqb_neq. intro X. subst. rewrite bytes_eqb_refl in E. discriminate.
Qed.

Lemma add_contig_spec : forall arch s n c a, add_contig arch (s, n, c) = Some a ->
  has_contig arch s n = false /\
  contigs_of a s = contigs_of arch s ++ [(n, c)] /\
  (forall s', bytes_eqb s' s = false -> contigs_of a s' = contigs_of arch s').
Proof.
  induction arch as [|[s0 cs0] arch IH]; intros s n c a H.
  - simpl in H. inversion H; subst. unfold has_contig. simpl. rewrite bytes_eqb_refl.
    split; [reflexivity|]. split; [reflexivity|]. intros s' E. rewrite bytes_eqb_sym, E. reflexivity.
  - cbn [add_contig] in H. unfold has_contig. cbn [contigs_of]. destruct (bytes_eqb s0 s) eqn:E0.
    + destruct (existsb (fun x => bytes_eqb (fst x) n) cs0) eqn:X; [discriminate|]. inversion H; subst.
      cbn [contigs_of]. rewrite E0. split; [reflexivity|]. split; [reflexivity|].
      intros s' E. apply list_eqb_eq in E0. subst s0.
      rewrite (bytes_eqb_sym s s'), E. reflexivity.
    + destruct (add_contig arch (s, n, c)) as [a'|] eqn:A; [|discriminate]. inversion H; subst.
      destruct (IH s n c a' A) as [I1 [I2 I3]]. cbn [contigs_of]. rewrite E0.
      split; [exact I1|]. split; [exact I2|]. intros s' E. destruct (bytes_eqb s0 s'); [reflexivity | apply I3; exact E].
Qed.

Lemma add_contig_none : forall arch s n c, has_contig arch s n = true -> add_contig arch (s, n, c) = None.
Proof.
  induction arch as [|[s0 cs0] arch IH]; intros s n c H.
  - discriminate.
  - unfold has_contig in H. cbn [contigs_of] in H. cbn [add_contig]. destruct (bytes_eqb s0 s).
    + rewrite H. reflexivity.
    + rewrite IH; [reflexivity | exact H].
Qed.

Lemma add_contig_some : forall arch s n c, has_contig arch s n = false -> exists a, add_contig arch (s, n, c) = Some a.
Proof.
  induction arch as [|[s0 cs0] arch IH]; intros s n c H.
  - eexists. reflexivity.
  - unfold has_contig in H. cbn [contigs_of] in H. cbn [add_contig]. destruct (bytes_eqb s0 s).
    + rewrite H. eexists. reflexivity.
    + destruct (IH s n c H) as [a E]. rewrite E. eexists. reflexivity.
Qed.

Lemma has_contig_mono : forall arch s n s' n' c a, has_contig arch s n = true ->
  add_contig arch (s', n', c) = Some a -> has_contig a s n = true.
Proof.
  intros arch s n s' n' c a H A. destruct (add_contig_spec arch s' n' c a A) as [_ [S2 S3]].
  unfold has_contig in *. destruct (bytes_eqb s s') eqn:E.
  - apply list_eqb_eq in E. subst s'. rewrite S2, existsb_app, H. reflexivity.
  - rewrite (S3 s E). exact H.
Qed.

(* a second record with the same (sample, name) makes create fail *)
Lemma collect_dup : forall cs2 arch s n c2 cs3, has_contig arch s n = true ->
  collect arch (cs2 ++ (s, n, c2) :: cs3) = Err.
Proof.
  induction cs2 as [|[[s' n'] c'] cs2 IH]; intros arch s n c2 cs3 H.
  - simpl app. cbn [collect]. rewrite add_contig_none; auto.
  - simpl app. cbn [collect]. destruct (add_contig arch (s', n', c')) as [a|] eqn:A; [|reflexivity].
    apply IH. eapply has_contig_mono; eauto.
Qed.

Theorem duplicate_rejected_lemma : forall cs1 s n c1 cs2 c2 cs3,
  collect [] (cs1 ++ (s, n, c1) :: cs2 ++ (s, n, c2) :: cs3) = Err.
Proof.
  intros cs1 s n c1 cs2 c2 cs3. generalize (@nil (list N * list (list N * list N))). 
  induction cs1 as [|[[s' n'] c'] cs1 IH]; intro arch.
  - simpl app. cbn [collect]. destruct (add_contig arch (s, n, c1)) as [a|] eqn:A; [|reflexivity].
    apply collect_dup. destruct (add_contig_spec arch s n c1 a A) as [_ [S2 _]].
    unfold has_contig. rewrite S2, existsb_app. simpl. rewrite bytes_eqb_refl. simpl. apply orb_true_r.
  - simpl app. cbn [collect]. destruct (add_contig arch (s', n', c')); [apply IH | reflexivity].
Qed.


(* nothing is lost or reordered: each sample holds exactly its contigs, in order of arrival *)
Lemma collect_contigs : forall cs arch a, collect arch cs = Ok a ->
  forall s, contigs_of a s = contigs_of arch s ++ of_sample s cs.
Proof.
  induction cs as [|[[s' n'] c'] cs IH]; intros arch a H s.
  - simpl in H. inversion H; subst. unfold of_sample. simpl. rewrite app_nil_r. reflexivity.
  - cbn [collect] in H. destruct (add_contig arch (s', n', c')) as [a'|] eqn:A; [|discriminate].
    rewrite (IH a' a H s). destruct (add_contig_spec arch s' n' c' a' A) as [_ [S2 S3]].
    unfold of_sample. cbn [filter fst snd]. destruct (bytes_eqb s' s) eqn:E.
    + apply list_eqb_eq in E. subst s'. rewrite S2. cbn [map fst snd]. rewrite <- app_assoc. reflexivity.
    + rewrite (S3 s); [reflexivity|]. rewrite bytes_eqb_sym. exact E.
Qed.

Theorem collect_per_sample_lemma : forall cs a, collect [] cs = Ok a -> forall s, contigs_of a s = of_sample s cs.
Proof. intros cs a H s. rewrite (collect_contigs cs [] a H s). reflexivity. Qed.

(* create fails at the catalogue only because of a duplicate *)
Lemma collect_err_dup : forall cs arch, collect arch cs = Err ->
  exists cs1 s n c cs2, cs = cs1 ++ (s, n, c) :: cs2 /\
    (has_contig arch s n = true \/ existsb (fun x => bytes_eqb (fst (fst x)) s && bytes_eqb (snd (fst x)) n) cs1 = true).
Proof.
  induction cs as [|[[s' n'] c'] cs IH]; intros arch H; [discriminate|].
  cbn [collect] in H. destruct (add_contig arch (s', n', c')) as [a|] eqn:A.
  - destruct (IH a H) as [cs1 [s [n [c [cs2 [E D]]]]]]. exists ((s', n', c') :: cs1), s, n, c, cs2.
    split; [rewrite E; reflexivity|].
    destruct (add_contig_spec arch s' n' c' a A) as [_ [S2 S3]].
    destruct D as [D|D]; [|right; simpl; rewrite D; apply orb_true_r].
    unfold has_contig in D. destruct (bytes_eqb s s') eqn:Es.
    + apply list_eqb_eq in Es. subst s'. rewrite S2, existsb_app in D. apply orb_prop in D. destruct D as [D|D].
      * left. exact D.
      * right. simpl in D. rewrite orb_false_r in D. simpl. rewrite bytes_eqb_refl, D. reflexivity.
    + left. rewrite (S3 s Es) in D. exact D.
  - exists [], s', n', c', cs. split; [reflexivity|]. left.
    destruct (has_contig arch s' n') eqn:X; auto.
    destruct (add_contig_some arch s' n' c' X) as [a E]. congruence.
Qed.

(* ================================================================== statements in the shape pinned in props/C16.v *)
Lemma parser_complete_lemma : forall text, first_line_ok text = true ->
  (existsb nameless_with_bases (records text) = true /\ parse text = Err) \/
  (existsb nameless_with_bases (records text) = false /\
   parse text = Ok (map (fun r => (rec_name r, convert (snd r)))
                        (filter (fun r => negb (is_nil (rec_name r)) && negb (is_nil (snd r))) (records text)))).
Proof.
  intros text F. destruct (existsb nameless_with_bases (records text)) eqn:E; [left | right]; split; auto.
  - rewrite parse_records, deliver_err; auto.
  - rewrite parse_records, deliver_ok; auto.
Qed.

Lemma pushed_complete_lemma : forall text, first_line_ok text = true ->
  (existsb nameless_with_bases (records text) = true /\ pushed text = Err) \/
  (existsb nameless_with_bases (records text) = false /\
   pushed text = Ok (map (fun r => (rec_name r, convert (snd r)))
                         (filter (fun r => negb (is_nil (rec_name r)) && rec_has_base r) (records text)))).
Proof.
  intros text F. destruct (existsb nameless_with_bases (records text)) eqn:E; [left | right]; split; auto.
  - apply pushed_err; auto.
  - apply pushed_ok; auto.
Qed.

Lemma odd_bytes_lemma :
  (forall c, odd_byte c = true <-> (91 <= c <= 96 \/ 123 <= c <= 127)) /\
  (forall s, out_letters (convert s) = map (fun c => if is_letter c then norm_letter c else 78) (filter keep s)).
Proof. split; [exact odd_byte_iff | exact out_convert_read_back]. Qed.

Lemma collect_fails_lemma : forall cs, collect [] cs = Err ->
  exists cs1 s n c cs2, cs = cs1 ++ (s, n, c) :: cs2 /\
    existsb (fun x => bytes_eqb (fst (fst x)) s && bytes_eqb (snd (fst x)) n) cs1 = true.
Proof.
  intros cs H. destruct (collect_err_dup cs [] H) as [cs1 [s [n [c [cs2 [E [D|D]]]]]]].
  - discriminate.
  - exists cs1, s, n, c, cs2. auto.
Qed.

Lemma first_line_refuted_lemma : exists text,
  first_line_ok text = false /\ parse text <> deliver (records text) /\ parse text = Ok [([97], [2; 2])].
Proof. exists [65;67;71;84;10;62;97;10;71;71;10]. vm_compute. repeat split; try reflexivity. discriminate. Qed.

(* ================================================================== statements in the shape pinned in props/C19.v *)
Lemma contig_stream_name : forall f f' t, sample_name_of_file f = sample_name_of_file f' ->
  contig_stream f t = contig_stream f' t.
Proof.
  intros f f' t H. unfold contig_stream. destruct (pushed t); auto. simpl. f_equal. apply map_ext.
  intro r. unfold sample_for. rewrite H. reflexivity.
Qed.

Lemma presentation_invariant_lemma : forall fn w eol mask w' eol' mask' rs,
  eol_ok eol -> eol_ok eol' -> forallb good_rec rs = true ->
  contig_stream fn (render w eol mask rs) = contig_stream fn (render w' eol' mask' rs).
Proof.
  intros. unfold contig_stream, pushed. rewrite !parse_render_lemma; auto.
Qed.

Lemma letters_read_back_lemma : forall s, forallb is_letter s = true -> out_letters (map cnv s) = norm s.
Proof.
  intros s H. rewrite <- normal_form.
  - unfold convert. rewrite filter_all; [reflexivity|]. rewrite forallb_forall in *. intros c Hc. apply letter_keep. apply H. exact Hc.
  - intros c Hc. rewrite forallb_forall in H. unfold odd_byte. rewrite (H c Hc). apply andb_false_r.
Qed.

Section GzCreate.
  Variable gzip : list N -> list N.
  Variable gunzip : list N -> option (list N).
  Hypothesis gunzip_members : forall xs, xs <> [] -> gunzip (concat (map gzip xs)) = Some (concat xs).

  Lemma create_input_invariant_lemma : forall s xs w eol mask w' eol' mask' rs,
    xs <> [] -> concat xs = render w' eol' mask' rs ->
    eol_ok eol -> eol_ok eol' -> forallb good_rec rs = true ->
    input_stream gunzip (s ++ ext_fa_gz) (concat (map gzip xs)) = input_stream gunzip (s ++ ext_fa) (render w eol mask rs).
  Proof.
    intros s xs w eol mask w' eol' mask' rs Hx Hc He He' G.
    destruct (sample_name_gz_lemma s) as [N1 [N2 N3]]. unfold ext_fa_gz, ext_fa, input_stream, file_bytes.
    rewrite N2, N3, (gunzip_members xs Hx), Hc.
    rewrite (contig_stream_name _ _ _ N1). apply presentation_invariant_lemma; auto.
  Qed.
End GzCreate.

(* ================================================================== C16 end to end, in model terms *)
Lemma stream_multi_incl : forall files cs f t, stream_multi files = Ok cs -> In (f, t) files ->
  exists rs, contig_stream f t = Ok rs /\ incl rs cs.
Proof.
  induction files as [|[f0 t0] fs IH]; intros cs f t H Hin; [destruct Hin|].
  cbn [stream_multi] in H.
  destruct (contig_stream f0 t0) as [x| |] eqn:E0; destruct (stream_multi fs) as [y| |] eqn:E1; simpl in H; try discriminate.
  inversion H; subst cs. destruct Hin as [Hin|Hin].
  - inversion Hin; subst. exists x. split; [exact E0 | apply incl_appl, incl_refl].
  - destruct (IH y f t eq_refl Hin) as [rs [A B]]. exists rs. split; [exact A | apply incl_appr; exact B].
Qed.

Lemma contigs_of_in_arch : forall arch s x, In x (contigs_of arch s) -> In (s, contigs_of arch s) arch.
Proof.
  induction arch as [|[s' cs] arch IH]; intros s x H; [destruct H|].
  cbn [contigs_of] in *. destruct (bytes_eqb s' s) eqn:E.
  - apply list_eqb_eq in E. subst. left. reflexivity.
  - right. eapply IH. exact H.
Qed.

Theorem create_view_complete_lemma : forall files v fname text r,
  create_view files = Ok v -> In (fname, text) files -> first_line_ok text = true ->
  In r (records text) -> rec_has_base r = true ->
  exists contigs, In (sample_for fname (rec_name r), contigs) v /\ In (rec_name r, read_back (snd r)) contigs.
Proof.
  intros files v fname text r H Hin F Hr Hb. unfold create_view in H.
  set (strm := match files with [(fname0, text0)] => stream_single fname0 text0 | _ => stream_multi files end) in H.
  destruct strm as [cs| |] eqn:S; simpl in H; try discriminate.
  destruct (collect [] cs) as [arch| |] eqn:C; simpl in H; try discriminate.
  inversion H; subst v. clear H.
  assert (X : exists rs, contig_stream fname text = Ok rs /\ incl rs cs).
  { subst strm. destruct files as [|[f t] [|ft2 fs]].
    - destruct Hin.
    - destruct Hin as [Hin|[]]. inversion Hin; subst. unfold stream_single in S.
      destruct (contig_stream fname text) as [cs'| |]; simpl in S; try discriminate.
      destruct (sorted_go None [] cs'); [|discriminate]. inversion S; subst. exists cs. split; [reflexivity | apply incl_refl].
    - eapply stream_multi_incl; eauto. }
  destruct X as [rs [CS Incl]].
  unfold contig_stream in CS.
  destruct (no_record_lost text r F Hr Hb) as [E|[ps [P Pin]]]; [rewrite E in CS; discriminate|].
  rewrite P in CS. simpl in CS. inversion CS; subst rs. clear CS.
  set (s := sample_for fname (rec_name r)).
  assert (I1 : In (s, rec_name r, convert (snd r)) cs).
  { apply Incl. apply (in_map (fun r0 : list N * list N => (sample_for fname (fst r0), fst r0, snd r0)) ps (as_contig r)). exact Pin. }
  assert (I2 : In (rec_name r, convert (snd r)) (contigs_of arch s)).
  { rewrite (collect_per_sample_lemma cs arch C s). unfold of_sample.
    apply (in_map (fun x : contig3 => (snd (fst x), snd x)) _ (s, rec_name r, convert (snd r))).
    apply filter_In. split; [exact I1 | apply bytes_eqb_refl]. }
  exists (map (fun nc : list N * list N => (fst nc, out_letters (snd nc))) (contigs_of arch s)). split.
  - apply (in_map (fun sc : list N * list (list N * list N) => (fst sc, map (fun nc : list N * list N => (fst nc, out_letters (snd nc))) (snd sc)))
                  arch (s, contigs_of arch s)).
    eapply contigs_of_in_arch. exact I2.
  - rewrite <- out_convert_read_back.
    apply (in_map (fun nc : list N * list N => (fst nc, out_letters (snd nc))) _ (rec_name r, convert (snd r))). exact I2.
Qed.
