(* LZ_prep.v - LZDiff::new / prepare never trap for sensible sizes and establish wf_st *)
From Coq Require Import Lia ZifyBool ZifyN ZifyNat.
From Ragc Require Import LZ_base LZ_match.

Lemma lz_new_ok m : 4 <= m ->
  exists st0, lz_new m = Ok st0 /\ mml st0 = m /\ key_len st0 = m - 3.
Proof.
  intros H. unfold lz_new, sub_u32. consts. destruct (4 <=? m) eqn:E; [|lia].
  eexists. split; [reflexivity|]. cbn. split; auto. lia.
Qed.

Lemma lz_new_small m : m < 4 -> lz_new m = Panic.
Proof. intros H. unfold lz_new, sub_u32. consts. destruct (4 <=? m) eqn:E; auto. lia. Qed.

Lemma count_go_ok kl klm l : forall npv cm hs, npv + lenN l < 4294967296 ->
  exists c, count_go kl klm l npv cm hs = Ok c.
Proof.
  induction l as [|c l IH]; intros npv cm hs H; cbn [count_go]; eauto.
  rewrite lenN_cons in H. destruct (c <? index_valid_below).
  - unfold add_u32, two32. destruct (npv + 1 <? 4294967296) eqn:E; [|lia]. apply IH. lia.
  - apply IH. lia.
Qed.

Lemma ht_size_ge count : min_ht_size <= ht_size_of count.
Proof. unfold ht_size_of. cbv zeta. destruct (_ <? min_ht_size) eqn:E; lia. Qed.

Lemma set_nth_length {A} (l : list A) : forall n v, length (set_nth l n v) = length l.
Proof. induction l; intros [|n] v; cbn; auto. Qed.

Lemma insert_probe_ok n : forall j base mask t v, mask < lenN t ->
  exists t', insert_probe n j base mask t v = Ok t' /\ lenN t' = lenN t.
Proof.
  induction n; intros; cbn [insert_probe]; eauto.
  destruct (nthN_lt t (N.land (base + j) mask)) as (s & ->).
  { assert (L := land_le_r (base + j) mask). lia. }
  destruct (s =? empty_slot); eauto.
  eexists. split; eauto. unfold lenN. now rewrite set_nth_length.
Qed.

Section Build.
  Variable hash : N -> N.
  Variables (rf : list N) (kl mask : N).
  Hypothesis Hkl : 1 <= kl.
  Let rp := rf ++ repeat pad_byte (N.to_nat kl).

  Lemma build_go_ok fuel : forall i suf t, suf = skipnN i rp -> mask < lenN t ->
    (N.to_nat (lenN rp - i) < fuel)%nat ->
    exists t', build_go hash kl (lenN rp) mask fuel i suf t = Ok t' /\ lenN t' = lenN t.
  Proof.
    induction fuel; intros i suf t Hs Hm Hf; [lia|]. cbn [build_go].
    destruct (i + kl <? lenN rp) eqn:E; eauto.
    destruct (get_code_go (N.to_nat kl) suf 0) as [[code|]| |] eqn:Eg.
    - destruct (insert_probe_ok (N.to_nat max_no_tries) 0 (N.land (hash code) mask) mask t
                  (wrap32 (i / hashing_step)) Hm) as (t' & -> & Hl).
      cbn [obnd]. destruct (IHfuel (i + hashing_step) (skipnN hashing_step suf) t') as (t2 & E2 & L2).
      + subst suf. rewrite skipnN_skipnN. f_equal. lia.
      + lia.
      + consts. lia.
      + rewrite E2. eexists; split; eauto. congruence.
    - apply IHfuel; auto. { subst suf. rewrite skipnN_skipnN. f_equal. lia. } consts. lia.
    - exfalso. revert Eg. apply get_code_go_not_err.
    - exfalso. revert Eg. subst suf. apply get_code_go_padded; auto. unfold rp in *. apply N.ltb_lt in E. revert E. generalize (lenN (rf ++ repeat pad_byte (N.to_nat kl))). intros. lia.
  Qed.
End Build.

Lemma lz_prepare_ok hash st0 rf : 1 <= key_len st0 -> key_len st0 + 3 = mml st0 ->
  lenN rf + key_len st0 < 4294967296 ->
  exists st, lz_prepare hash st0 rf = Ok st /\ wf_st st rf /\ mml st = mml st0 /\ key_len st = key_len st0.
Proof.
  intros Hk Hm Hs. unfold lz_prepare. cbv zeta.
  set (rp := rf ++ repeat pad_byte (N.to_nat (key_len st0))).
  assert (Lr : lenN rp = lenN rf + key_len st0) by (unfold rp; rewrite lenN_app, lenN_repeat; lia).
  destruct (count_go_ok (key_len st0) (key_len st0 mod hashing_step) rp 0 0 0 ltac:(lia)) as (cnt & ->).
  cbn [obnd]. assert (G : 8 <= ht_size_of cnt) by exact (ht_size_ge cnt).
  destruct (build_go_ok hash rf (key_len st0) (ht_size_of cnt - 1) Hk (S (length rp)) 0 rp
              (repeat empty_slot (N.to_nat (ht_size_of cnt)))) as (t & Et & Lt).
  - reflexivity.
  - rewrite lenN_repeat. lia.
  - fold rp. unfold lenN. rewrite N.sub_0_r, Nat2N.id. lia.
  - fold rp in Et. rewrite Et. cbn [obnd]. eexists. split; [reflexivity|].
    split; [|split; reflexivity]. unfold wf_st. cbn. repeat split; auto.
    right. rewrite Lt, lenN_repeat. lia.
Qed.
