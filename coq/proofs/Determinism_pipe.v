(* Determinism_pipe.v — C04 part B: from the raw buffers of the rounds to the parts of the file, for any
   distribution of a round's contigs over any number of worker buffers, any phase-3 interleaving, any completion
   order of the finalize compression. *)
From Coq Require Import List Permutation Sorted Lia Bool Arith NArith ZArith.
From Ragc Require Import Determinism Determinism_base.
Import ListNotations.
Local Open Scope N_scope.

Lemma NoDup_app_intro : forall (A : Type) (l1 l2 : list A),
  NoDup l1 -> NoDup l2 -> (forall x, In x l1 -> In x l2 -> False) -> NoDup (l1 ++ l2).
Proof.
  intros A l1. induction l1 as [|a l1 IH]; intros l2 H1 H2 Hd; [exact H2|].
  cbn [app]. inversion H1; subst. constructor.
  - intro Hin. apply in_app_or in Hin. destruct Hin as [Hin|Hin]; [contradiction|].
    apply (Hd a); [left; reflexivity|exact Hin].
  - apply IH; try assumption. intros x Hx1 Hx2. apply (Hd x); [right; exact Hx1|exact Hx2].
Qed.

Lemma NoDup_map_inj_in : forall (A B : Type) (f : A -> B) (l : list A),
  (forall x y, In x l -> In y l -> f x = f y -> x = y) -> NoDup l -> NoDup (map f l).
Proof.
  intros A B f l. induction l as [|a l IH]; intros Hinj Hn; [constructor|].
  inversion Hn; subst. cbn [map]. constructor.
  - intro Hin. apply in_map_iff in Hin. destruct Hin as [y [E Hy]].
    assert (y = a) by (apply Hinj; [right; exact Hy|left; reflexivity|exact E]). subst. contradiction.
  - apply IH; [|assumption]. intros x y Hx Hy. apply Hinj; right; assumption.
Qed.

Lemma map_fst_combine : forall (A B C : Type) (f : A -> C) (a : list A) (b : list B),
  length a = length b -> map (fun ip => f (fst ip)) (combine a b) = map f a.
Proof.
  intros A B C f a. induction a as [|x a IH]; intros b H; [reflexivity|].
  destruct b as [|y b]; [discriminate|]. cbn [combine map fst]. f_equal. apply IH. cbn in H. lia.
Qed.

Section PipelineProofs.
  Variables G Buf Res Part : Type.
  Variable segment : contig -> list N.
  Variable classify : G -> list (skey * N) -> G * list Buf.
  Variable flushf : Buf -> Buf * list (N * Part) * Res.
  Variable res_gid : Res -> N.
  Variable commit : G -> list Res -> list Buf -> G.
  Variable fin_seq : G -> G * list (N * Part).
  Variable fin_packs : G -> list (N * Part).
  Variable meta_parts : G -> list (N * Part).

  Notation segs_of := (segs_of segment).
  Notation raw_of := (raw_of segment).

  (* distinct buffers of one round write to distinct streams (each group registers its own two streams) *)
  Definition streams_disjoint (outs : list (Buf * list (N * Part) * Res)) : Prop :=
    forall i j oi oj sp sq, i <> j -> nth_error outs i = Some oi -> nth_error outs j = Some oj ->
      In sp (snd (fst oi)) -> In sq (snd (fst oj)) -> fst sp <> fst sq.

  Hypothesis classify_streams_disjoint : forall g l, streams_disjoint (map flushf (snd (classify g l))).
  (* one partial pack per group, every group has its own delta stream *)
  Hypothesis fin_packs_distinct_streams : forall g, NoDup (map fst (fin_packs g)).

  (* ---- the raw segments of a round *)
  Lemma raw_of_flat_map : forall bufs, raw_of bufs = flat_map segs_of (concat bufs).
  Proof.
    induction bufs as [|b bufs IH]; [reflexivity|].
    unfold Determinism.raw_of in *. cbn [map concat]. rewrite flat_map_app. rewrite IH.
    f_equal. rewrite flat_map_concat_map. reflexivity.
  Qed.

  Lemma segs_of_keys : forall c,
    map fst (segs_of c) = map (fun i => (fst c, N.of_nat i)) (seq 0 (length (segment c))).
  Proof.
    intros c. unfold Determinism.segs_of. rewrite map_map. cbn [fst].
    apply (map_fst_combine _ _ _ (fun i => (fst c, N.of_nat i))). apply seq_length.
  Qed.

  Lemma segs_of_key_contig : forall c x, In x (map fst (segs_of c)) -> fst x = fst c.
  Proof.
    intros c x H. rewrite segs_of_keys in H. apply in_map_iff in H. destruct H as [i [E _]]. subst. reflexivity.
  Qed.

  Lemma raw_keys_nodup : forall l : list contig,
    NoDup (map fst l) -> NoDup (map fst (flat_map segs_of l)).
  Proof.
    induction l as [|c l IH]; intros Hn; [constructor|].
    cbn [map] in Hn. inversion Hn as [|? ? Hni Hn']; subst.
    cbn [flat_map]. rewrite map_app. apply NoDup_app_intro.
    - rewrite segs_of_keys. apply NoDup_map_inj_in; [|apply seq_NoDup].
      intros x y _ _ E. inversion E. lia.
    - apply IH. exact Hn'.
    - intros x H1 H2. apply segs_of_key_contig in H1.
      apply in_map_iff in H2. destruct H2 as [y [Ey Hy]]. apply in_flat_map in Hy.
      destruct Hy as [c' [Hc' Hy]].
      assert (fst x = fst c') by (apply segs_of_key_contig; subst x; apply in_map; exact Hy).
      apply Hni. rewrite <- H1, H. apply in_map. exact Hc'.
  Qed.

  Lemma sort_raw_same : forall bufs bufs',
    Permutation (concat bufs) (concat bufs') -> NoDup (map fst (concat bufs)) ->
    sort_raw (raw_of bufs) = sort_raw (raw_of bufs').
  Proof.
    intros bufs bufs' Hp Hn. unfold sort_raw. rewrite !raw_of_flat_map.
    apply isort_perm_eq.
    - intros x y. apply skey_leb_total.
    - intros x y z. apply skey_leb_trans.
    - apply Permutation_flat_map. exact Hp.
    - intros x y Hx Hy H1 H2. eapply nodup_key_inj.
      + apply raw_keys_nodup. exact Hn.
      + exact Hx.
      + exact Hy.
      + apply skey_leb_antisym; assumption.
  Qed.

  (* ---- phase 3: the claim / completion order does not matter *)
  Notation act := (act Res Part).
  Notation p3_apply := (@p3_apply Res Part).

  Definition good_of (outs : list (Buf * list (N * Part) * Res)) (x : nat * act) : Prop :=
    exists o, nth_error outs (fst x) = Some o /\ In (snd x) (acts_of Buf Res Part o).

  Lemma p3_indep : forall outs x y,
    streams_disjoint outs -> good_of outs x -> good_of outs y -> fst x <> fst y -> indep _ _ p3_apply x y.
  Proof.
    intros outs [i a] [j b] Hd [oi [Hi Ha]] [oj [Hj Hb]] Hne st. cbn [fst snd] in *.
    unfold Determinism.p3_apply. cbn [fst snd].
    destruct a as [sp|r]; destruct b as [sq|r']; cbn [fst snd]; try reflexivity.
    - f_equal. apply bt_push_comm.
      unfold acts_of in Ha, Hb. apply in_app_or in Ha. apply in_app_or in Hb.
      destruct Ha as [Ha|[Ha|[]]]; [|discriminate]. destruct Hb as [Hb|[Hb|[]]]; [|discriminate].
      apply in_map_iff in Ha. destruct Ha as [sp' [E1 Ha]]. inversion E1; subst sp'.
      apply in_map_iff in Hb. destruct Hb as [sq' [E2 Hb]]. inversion E2; subst sq'.
      intro E. eapply (Hd j i oj oi sq sp); eauto.
    - f_equal. apply upd_nth_comm. intro E. apply Hne. symmetry. exact E.
  Qed.

  Lemma tag_from_good : forall (outs : list (Buf * list (N * Part) * Res)) k pre,
    (forall i o, nth_error outs i = Some o -> nth_error (pre ++ outs) (k + i) = Some o) ->
    Forall (good_of (pre ++ outs)) (tag_from k (map (acts_of Buf Res Part) outs)).
  Proof.
    induction outs as [|o outs IH]; intros k pre H; [constructor|].
    cbn [map tag_from]. apply Forall_app. split.
    - apply Forall_forall. intros x Hx. apply in_map_iff in Hx. destruct Hx as [a [E Ha]]. subst x.
      exists o. cbn [fst snd]. split; [|exact Ha].
      specialize (H 0%nat o eq_refl). rewrite Nat.add_0_r in H. exact H.
    - replace (pre ++ o :: outs) with ((pre ++ [o]) ++ outs) by (rewrite <- app_assoc; reflexivity).
      apply IH. intros i o' Hi. rewrite <- app_assoc. cbn [app].
      specialize (H (Datatypes.S i) o' Hi). replace (Datatypes.S k + i)%nat with (k + Datatypes.S i)%nat by lia. exact H.
  Qed.

  Lemma phase3_any_claims : forall claims outs,
    streams_disjoint outs -> phase3 Buf Res Part claims outs = phase3 Buf Res Part [] outs.
  Proof.
    intros claims outs Hd. unfold phase3. cbn [interleave].
    apply (fold_interleave _ _ p3_apply (good_of outs)).
    - intros x y Hx Hy. apply (p3_indep outs); assumption.
    - apply (tag_from_good outs 0%nat []). intros i o Hi. exact Hi.
  Qed.

  (* ---- one round *)
  Definition same_round (r r' : rsched) : Prop :=
    Permutation (concat (rs_bufs r)) (concat (rs_bufs r')) /\ NoDup (map fst (concat (rs_bufs r))).

  Notation round_step := (round_step G Buf Res Part segment classify flushf res_gid commit).

  Lemma round_step_same : forall st r r', same_round r r' -> round_step st r = round_step st r'.
  Proof.
    intros st r r' [Hp Hn]. unfold Determinism.round_step.
    rewrite (sort_raw_same _ _ Hp Hn).
    set (gb := classify (fst st) (sort_raw (raw_of (rs_bufs r')))).
    rewrite (phase3_any_claims (rs_claims r)) by apply classify_streams_disjoint.
    rewrite (phase3_any_claims (rs_claims r')) by apply classify_streams_disjoint.
    reflexivity.
  Qed.

  Lemma rounds_same : forall rounds rounds' st,
    Forall2 same_round rounds rounds' -> fold_left round_step rounds st = fold_left round_step rounds' st.
  Proof.
    intros rounds rounds' st H. revert st. induction H as [|r r' l l' Hr _ IH]; intros st; [reflexivity|].
    cbn [fold_left]. rewrite (round_step_same st r r' Hr). apply IH.
  Qed.

  Notation finalize := (finalize G Part fin_seq fin_packs meta_parts).

  Lemma finalize_any_order : forall st s3 s3', finalize st s3 = finalize st s3'.
  Proof.
    intros st s3 s3'. unfold Determinism.finalize.
    assert (E : forall s, sort_by_key fst (permute s (fin_packs (fst (fin_seq (fst st)))))
                        = sort_by_key fst (fin_packs (fst (fin_seq (fst st))))).
    { intros s. apply sort_by_key_perm_eq.
      - apply permute_perm.
      - eapply Permutation_NoDup; [|apply fin_packs_distinct_streams].
        apply Permutation_map. apply Permutation_sym. apply permute_perm. }
    rewrite (E s3), (E s3'). reflexivity.
  Qed.

  Theorem schedule_independent_proof : forall g0 rounds rounds' s3 s3',
    Forall2 same_round rounds rounds' ->
    output G Buf Res Part segment classify flushf res_gid commit fin_seq fin_packs meta_parts g0 rounds s3
    = output G Buf Res Part segment classify flushf res_gid commit fin_seq fin_packs meta_parts g0 rounds' s3'.
  Proof.
    intros g0 rounds rounds' s3 s3' H. unfold output.
    rewrite (rounds_same rounds rounds' _ H). apply finalize_any_order.
  Qed.
End PipelineProofs.
