(* GroupStore_inv.v - the group-store invariant (DESIGN.md A.2) and its preservation by every op.

   Ghost state of a group: [ents] = every delta entry ever appended (in id order: entry k has id k+1),
   [packs] = the emitted packs as lists of slots (a slot = one separator-terminated piece of a pack; for a raw
   group slot 0 of pack 0 is the placeholder).  The invariant is purely structural (no codec hypothesis). *)
From Coq Require Import Lia ZifyBool ZifyN ZifyNat Permutation.
From Ragc Require Import Mach Consts_groupstore SegReader GroupStore GroupStore_base.
Open Scope N_scope.
Arguments N.add : simpl never.
Arguments N.sub : simpl never.
Arguments N.mul : simpl never.
Arguments N.div : simpl never.
Arguments N.modulo : simpl never.
Arguments N.max : simpl never.
Arguments N.of_nat : simpl never.
Arguments N.to_nat : simpl never.

Definition PH : N := W_PLACEHOLDER_STEP.
Definition MK : N := W_PACK_MARKER_STEP.

Section Inv.
  Variable lz_enc : list N -> list N -> list N.
  Variable compress_ref : list N -> list N * N.
  Variable compress_pack : list N -> list N.

  Definition mkpart (c : list (list N)) : part :=
    store_part (compress_pack (flat c) ++ [MK]) (flat c).
  Definition ref_part (r : list N) : part :=
    store_part (fst (compress_ref r) ++ [snd (compress_ref r)]) r.

  (* what a segment contributes as a pack entry, given the group's kind and reference *)
  Definition entry_of (lz : bool) (rf : option (list N)) (s : seg_in) : list N :=
    match rf with
    | Some r => if lz then lz_enc r (s_data s) else s_data s
    | None => s_data s
    end.

  Definition reg_ok (lz : bool) (rf : option (list N)) (ents : list (list N)) (x : seg_in * N) : Prop :=
    let '(s, id) := x in
    if lz then
      match rf with
      | None => False
      | Some r =>
          (id = 0 /\ (s_data s = r \/ lz_enc r (s_data s) = [])) \/
          (1 <= id /\ nth_error ents (N.to_nat (id - 1)) = Some (lz_enc r (s_data s)) /\ lz_enc r (s_data s) <> [])
      end
    else 1 <= id /\ nth_error ents (N.to_nat (id - 1)) = Some (s_data s).

  Definition open_of (lz : bool) (buf : gbuf) : list (list N) :=
    (if negb lz && negb (b_placeholder buf) then [[PH]] else []) ++ b_pending buf.
  Definition slots_of (lz : bool) (ents : list (list N)) : list (list N) :=
    (if lz then [] else [[PH]]) ++ ents.

  Record Inv (lz : bool) (buf : gbuf) (rparts dparts : list part) (regs : list (seg_in * N))
             (packs : list (list (list N))) (ents : list (list N)) : Prop := {
    inv_slots : slots_of lz ents = concat packs ++ open_of lz buf;
    inv_full : Forall (fun c => length c = 50%nat) packs;
    inv_open : (length (open_of lz buf) < 50)%nat;
    inv_delta : dparts = map mkpart packs;
    inv_ph : lz = false -> b_placeholder buf = false -> packs = [];
    inv_suffix : exists pre, ents = pre ++ b_pending buf /\
                 b_pending_ids buf = map N.of_nat (seq (S (length pre)) (length (b_pending buf)));
    inv_written : N.max (b_written buf) 1 = lenN ents + 1;
    inv_regs : Forall (reg_ok lz (b_reference buf) ents) regs;
    inv_ents : forall e, In e ents -> exists s id, In (s, id) regs /\ e = entry_of lz (b_reference buf) s;
    inv_count : (length ents <= length regs)%nat;
    inv_ref : if lz then
                match b_reference buf with
                | Some r => b_ref_written buf = true /\ rparts = [ref_part r] /\
                            exists s0, In (s0, 0) regs /\ s_data s0 = r
                | None => b_ref_written buf = false /\ rparts = [] /\ regs = [] /\ ents = []
                end
              else b_reference buf = None /\ b_ref_written buf = false /\ rparts = []
  }.

  Lemma inv_new : forall lz, Inv lz gbuf_new [] [] [] [] [].
  Proof.
    intro lz. constructor; cbn; try reflexivity; try (intros; reflexivity); try constructor.
    - unfold slots_of, open_of. cbn. destruct lz; reflexivity.
    - unfold open_of. cbn. destruct lz; cbn; lia.
    - exists []. split; reflexivity.
    - intros e [].
    - destruct lz; repeat split.
  Qed.

  Lemma reg_ok_grow : forall lz rf ents e x, reg_ok lz rf ents x -> reg_ok lz rf (ents ++ [e]) x.
  Proof.
    intros lz rf ents e [s id] H. unfold reg_ok in *. destruct lz.
    - destruct rf as [r|]; [|exact H]. destruct H as [H|[H1 [H2 H3]]]; [left; exact H|right].
      split; [exact H1|]. split; [|exact H3].
      rewrite nth_error_app1; [exact H2|]. apply nth_error_Some. congruence.
    - destruct H as [H1 H2]. split; [exact H1|].
      rewrite nth_error_app1; [exact H2|]. apply nth_error_Some. congruence.
  Qed.

  (* ---- one segment *)
  Lemma add_one_inv : forall lz buf rparts dparts regs packs ents s buf' ps id,
    Inv lz buf rparts dparts regs packs ents ->
    (lz = true -> b_reference buf <> None) ->
    add_one lz_enc compress_pack lz buf s = Ok (buf', ps, id) ->
    b_reference buf' = b_reference buf /\ b_ref_written buf' = b_ref_written buf /\
    exists packs' ents', Inv lz buf' rparts (dparts ++ ps) (regs ++ [(s, id)]) packs' ents'.
  Proof.
    intros lz buf rparts dparts regs packs ents s buf' ps id HI Href H.
    unfold add_one in H.
    fold (entry_of lz (b_reference buf) s) in H.
    set (cd := entry_of lz (b_reference buf) s) in *.
    destruct (lz && is_nil cd) eqn:Enil.
    { (* empty LZ encoding: id 0 *)
      inversion H; subst buf' ps id. clear H. split; [reflexivity|]. split; [reflexivity|].
      apply andb_true_iff in Enil. destruct Enil as [Hlz Hcd]. apply is_nil_true in Hcd. subst lz.
      exists packs, ents. rewrite app_nil_r.
      destruct HI. constructor; try assumption.
      - apply Forall_app. split; [assumption|]. constructor; [|constructor].
        unfold reg_ok. destruct (b_reference buf) as [r|] eqn:Er; [|exfalso; apply Href; reflexivity].
        left. split; [reflexivity|]. right. unfold cd, entry_of in Hcd. exact Hcd.
      - intros e He. destruct (inv_ents0 e He) as [s1 [id1 [Hin Heq]]]. exists s1, id1. split; [|exact Heq].
        apply in_or_app. left. exact Hin.
      - rewrite app_length. cbn. lia.
      - destruct (b_reference buf) as [r|] eqn:Er; [|exfalso; apply Href; reflexivity].
        destruct inv_ref0 as [Ha [Hb [s0 [Hc Hd]]]]. split; [exact Ha|]. split; [exact Hb|].
        exists s0. split; [apply in_or_app; left; exact Hc|exact Hd]. }
    destruct (position cd (b_pending buf) 0) as [idx|] eqn:Epos.
    { (* de-duplicated against a pending delta *)
      destruct (nthN (b_pending_ids buf) idx) as [id0|] eqn:Eid; [|discriminate].
      inversion H; subst buf' ps id. clear H. split; [reflexivity|]. split; [reflexivity|].
      exists packs, ents. rewrite app_nil_r.
      apply position_some in Epos. destruct Epos as [k [Hidx Hk]].
      destruct HI. destruct inv_suffix0 as [pre [Hents Hids]].
      assert (Hklt : (k < length (b_pending buf))%nat) by (apply nth_error_Some; congruence).
      assert (Hid0 : id0 = N.of_nat (S (length pre) + k)).
      { unfold nthN in Eid. rewrite Hids in Eid. replace (N.to_nat idx) with k in Eid by lia.
        rewrite nth_error_map in Eid.
        rewrite (nth_error_nth' _ O) in Eid by (rewrite seq_length; exact Hklt).
        rewrite seq_nth in Eid by exact Hklt. cbn in Eid. inversion Eid. reflexivity. }
      assert (Hnth : nth_error ents (N.to_nat (id0 - 1)) = Some cd).
      { rewrite Hents. replace (N.to_nat (id0 - 1)) with (length pre + k)%nat by lia.
        rewrite nth_error_app2 by lia. replace (length pre + k - length pre)%nat with k by lia. exact Hk. }
      constructor; try assumption.
      - exists pre. split; assumption.
      - apply Forall_app. split; [assumption|]. constructor; [|constructor].
        unfold reg_ok. destruct lz.
        + destruct (b_reference buf) as [r|] eqn:Er; [|exfalso; apply Href; reflexivity].
          right. split; [lia|]. unfold cd, entry_of in Hnth. split; [exact Hnth|].
          cbn in Enil. apply is_nil_false in Enil. exact Enil.
        + split; [lia|]. unfold cd, entry_of in Hnth. destruct (b_reference buf); exact Hnth.
      - intros e He. destruct (inv_ents0 e He) as [s1 [id1 [Hin Heq]]]. exists s1, id1. split; [|exact Heq].
        apply in_or_app. left. exact Hin.
      - rewrite app_length. cbn. lia.
      - destruct lz; [|exact inv_ref0].
        destruct (b_reference buf) as [r|] eqn:Er; [|exfalso; apply Href; reflexivity].
        destruct inv_ref0 as [Ha [Hb [s0 [Hc Hd]]]]. split; [exact Ha|]. split; [exact Hb|].
        exists s0. split; [apply in_or_app; left; exact Hc|exact Hd]. }
    (* a new entry *)
    rewrite w_first_id_1 in H.
    set (w := N.max (b_written buf) 1) in *.
    destruct (add_u32 w 1) as [w'|] eqn:Ew; [|discriminate].
    unfold add_u32 in Ew. destruct (w + 1 <? two32); [|discriminate]. inversion Ew; subst w'. clear Ew.
    rewrite w_first_raw_49, w_pack_50 in H.
    set (first_raw := negb lz && negb (b_placeholder buf)) in *.
    destruct HI. destruct inv_suffix0 as [pre [Hents Hids]].
    assert (Hw : w = lenN ents + 1) by exact inv_written0.
    assert (Hopen : open_of lz buf = (if first_raw then [[PH]] else []) ++ b_pending buf) by reflexivity.
    assert (Hregs' : Forall (reg_ok lz (b_reference buf) (ents ++ [cd])) (regs ++ [(s, w)])).
    { apply Forall_app. split.
      - eapply Forall_impl; [|exact inv_regs0]. intros x Hx. apply reg_ok_grow. exact Hx.
      - constructor; [|constructor]. unfold reg_ok.
        assert (Hn : nth_error (ents ++ [cd]) (N.to_nat (w - 1)) = Some cd).
        { replace (N.to_nat (w - 1)) with (length ents) by (unfold lenN in Hw; lia).
          rewrite nth_error_app2 by lia. rewrite Nat.sub_diag. reflexivity. }
        destruct lz.
        + destruct (b_reference buf) as [r|] eqn:Er; [|exfalso; apply Href; reflexivity].
          right. split; [lia|]. unfold cd, entry_of in Hn. split; [exact Hn|].
          cbn in Enil. apply is_nil_false in Enil. exact Enil.
        + split; [lia|]. unfold cd, entry_of in Hn. destruct (b_reference buf); exact Hn. }
    assert (Hents' : forall e, In e (ents ++ [cd]) ->
              exists s1 id1, In (s1, id1) (regs ++ [(s, w)]) /\ e = entry_of lz (b_reference buf) s1).
    { intros e He. apply in_app_or in He. destruct He as [He|[He|[]]].
      - destruct (inv_ents0 e He) as [s1 [id1 [Hin Heq]]]. exists s1, id1. split; [|exact Heq].
        apply in_or_app. left. exact Hin.
      - exists s, w. split; [apply in_or_app; right; left; reflexivity|]. subst e. reflexivity. }
    assert (Hcount' : (length (ents ++ [cd]) <= length (regs ++ [(s, w)]))%nat).
    { rewrite !app_length. cbn. lia. }
    assert (Href' : if lz then
                match b_reference buf with
                | Some r => b_ref_written buf = true /\ rparts = [ref_part r] /\
                            exists s0, In (s0, 0) (regs ++ [(s, w)]) /\ s_data s0 = r
                | None => b_ref_written buf = false /\ rparts = [] /\ regs ++ [(s, w)] = [] /\ ents ++ [cd] = []
                end
              else b_reference buf = None /\ b_ref_written buf = false /\ rparts = []).
    { destruct lz; [|exact inv_ref0].
      destruct (b_reference buf) as [r|] eqn:Er; [|exfalso; apply Href; reflexivity].
      destruct inv_ref0 as [Ha [Hb [s0 [Hc Hd]]]]. split; [exact Ha|]. split; [exact Hb|].
      exists s0. split; [apply in_or_app; left; exact Hc|exact Hd]. }
    assert (Hwr' : N.max (w + 1) 1 = lenN (ents ++ [cd]) + 1).
    { rewrite lenN_app. unfold lenN at 2. cbn [length]. lia. }
    assert (Hslots' : slots_of lz (ents ++ [cd]) = concat packs ++ (open_of lz buf ++ [cd])).
    { unfold slots_of in *. rewrite app_assoc. rewrite inv_slots0. rewrite <- app_assoc. reflexivity. }
    destruct (lenN (b_pending buf ++ [cd]) =? (if first_raw then 49 else 50)) eqn:Eth.
    - (* the pack is full: emit it *)
      inversion H; subst buf' ps id. clear H. cbn [b_reference b_ref_written].
      split; [reflexivity|]. split; [reflexivity|].
      apply N.eqb_eq in Eth.
      assert (Hlen50 : length (open_of lz buf ++ [cd]) = 50%nat).
      { rewrite Hopen. rewrite lenN_app in Eth. unfold lenN in Eth. cbn [length] in Eth.
        rewrite !app_length. cbn [length]. destruct first_raw; cbn [length]; lia. }
      exists (packs ++ [open_of lz buf ++ [cd]]), (ents ++ [cd]).
      constructor; cbn [b_reference b_ref_written b_written b_pending b_pending_ids b_placeholder].
      + rewrite Hslots'. rewrite concat_app. cbn [concat]. rewrite app_nil_r.
        unfold open_of. cbn [b_placeholder b_pending]. rewrite andb_false_r. cbn [app]. rewrite app_nil_r. reflexivity.
      + apply Forall_app. split; [assumption|]. constructor; [exact Hlen50|constructor].
      + unfold open_of. cbn [b_placeholder b_pending]. rewrite andb_false_r. cbn. lia.
      + rewrite map_app. cbn [map]. rewrite <- inv_delta0. f_equal. f_equal.
        unfold pack_part, mkpart. rewrite pack_bytes_flat. rewrite Hopen. rewrite <- app_assoc.
        fold PH. fold MK. reflexivity.
      + intros _ Hc. discriminate.
      + exists (ents ++ [cd]). split; [rewrite app_nil_r; reflexivity|reflexivity].
      + exact Hwr'.
      + exact Hregs'.
      + exact Hents'.
      + exact Hcount'.
      + exact Href'.
    - (* stays pending *)
      inversion H; subst buf' ps id. clear H. cbn [b_reference b_ref_written].
      split; [reflexivity|]. split; [reflexivity|].
      apply N.eqb_neq in Eth. rewrite app_nil_r.
      assert (Hopen2 : open_of lz {| b_ref_written := b_ref_written buf; b_reference := b_reference buf;
                  b_written := w + 1; b_pending := b_pending buf ++ [cd];
                  b_pending_ids := b_pending_ids buf ++ [w]; b_placeholder := b_placeholder buf |}
               = open_of lz buf ++ [cd]).
      { unfold open_of. cbn [b_placeholder b_pending]. rewrite app_assoc. reflexivity. }
      exists packs, (ents ++ [cd]).
      constructor; cbn [b_reference b_ref_written b_written b_pending b_pending_ids b_placeholder].
      + rewrite Hopen2. exact Hslots'.
      + assumption.
      + rewrite Hopen2. rewrite Hopen in *. rewrite lenN_app in Eth. unfold lenN in Eth. cbn [length] in Eth.
        rewrite !app_length in *. cbn [length] in *. destruct first_raw; cbn [length] in *; lia.
      + assumption.
      + exact inv_ph0.
      + exists pre. split; [rewrite Hents; rewrite <- app_assoc; reflexivity|].
        rewrite Hids. rewrite app_length. cbn [length]. rewrite Nat.add_1_r. rewrite seq_S. rewrite map_app.
        cbn [map]. f_equal. f_equal. rewrite Hw. rewrite Hents. unfold lenN. rewrite app_length. lia.
      + exact Hwr'.
      + exact Hregs'.
      + exact Hents'.
      + exact Hcount'.
      + exact Href'.
  Qed.

  (* ---- the loop over the (sorted) segments of a round *)
  Lemma add_all_inv : forall lz segs buf rparts dparts regs packs ents buf' ps rs,
    Inv lz buf rparts dparts regs packs ents ->
    (lz = true -> b_reference buf <> None) ->
    add_all lz_enc compress_pack lz buf segs = Ok (buf', ps, rs) ->
    map fst rs = segs /\ b_reference buf' = b_reference buf /\ b_ref_written buf' = b_ref_written buf /\
    exists packs' ents', Inv lz buf' rparts (dparts ++ ps) (regs ++ rs) packs' ents'.
  Proof.
    intros lz segs. induction segs as [|s tl IH]; intros buf rparts dparts regs packs ents buf' ps rs HI Href H.
    - cbn in H. inversion H; subst. rewrite !app_nil_r. repeat split; try reflexivity. exists packs, ents. exact HI.
    - cbn [add_all] in H.
      destruct (add_one lz_enc compress_pack lz buf s) as [[[b1 p1] id]| |] eqn:E1; cbn [obnd] in H; try discriminate.
      destruct (add_all lz_enc compress_pack lz b1 tl) as [[[b2 p2] regs2]| |] eqn:E2; cbn [obnd] in H; try discriminate.
      inversion H; subst buf' ps rs. clear H.
      destruct (add_one_inv _ _ _ _ _ _ _ _ _ _ _ HI Href E1) as [Hr1 [Hw1 [packs1 [ents1 HI1]]]].
      assert (Href1 : lz = true -> b_reference b1 <> None) by (rewrite Hr1; exact Href).
      destruct (IH _ _ _ _ _ _ _ _ _ HI1 Href1 E2) as [Hm [Hr2 [Hw2 [packs2 [ents2 HI2]]]]].
      split; [cbn; rewrite Hm; reflexivity|].
      split; [congruence|]. split; [congruence|].
      exists packs2, ents2. rewrite <- !app_assoc in HI2. cbn [app] in HI2. exact HI2.
  Qed.

  (* ---- one round of one group, after sorting *)
  Lemma process_inv : forall g buf rparts dparts regs packs ents sorted o,
    let lz := W_NO_RAW_GROUPS <=? g in
    Inv lz buf rparts dparts regs packs ents ->
    process lz_enc compress_ref compress_pack g buf sorted = Ok o ->
    map fst (o_regs o) = sorted /\
    exists packs' ents',
      Inv lz (o_buf o) (rparts ++ o_ref_parts o) (dparts ++ o_delta_parts o) (regs ++ o_regs o) packs' ents'.
  Proof.
    intros g buf rparts dparts regs packs ents sorted o lz HI H.
    unfold process in H. fold lz in H.
    destruct (is_nil sorted && b_ref_written buf) eqn:Eearly.
    { inversion H; subst o. cbn. apply andb_true_iff in Eearly. destruct Eearly as [Hn _].
      apply is_nil_true in Hn. subst sorted. split; [reflexivity|]. rewrite !app_nil_r. exists packs, ents. exact HI. }
    destruct sorted as [|r rest].
    { cbn [obnd add_all] in H. inversion H; subst o. cbn. split; [reflexivity|]. rewrite !app_nil_r.
      exists packs, ents. exact HI. }
    destruct (lz && negb (b_ref_written buf)) eqn:Enew.
    - (* the first segment becomes the reference *)
      apply andb_true_iff in Enew. destruct Enew as [Hlz Hnw]. apply negb_true_iff in Hnw.
      destruct (compress_ref (s_data r)) as [c m] eqn:Ecr.
      set (buf1 := {| b_ref_written := true; b_reference := Some (s_data r); b_written := b_written buf;
                      b_pending := b_pending buf; b_pending_ids := b_pending_ids buf;
                      b_placeholder := b_placeholder buf |}) in *.
      destruct (add_all lz_enc compress_pack lz buf1 rest) as [[[b2 p2] regs2]| |] eqn:E2; cbn [obnd] in H; try discriminate.
      inversion H; subst o. clear H. cbn [o_buf o_ref_parts o_delta_parts o_regs].
      assert (HI1 : Inv lz buf1 (rparts ++ [store_part (c ++ [m]) (s_data r)]) dparts (regs ++ [(r, 0)]) packs ents).
      { destruct HI. rewrite Hlz in *. rewrite Hnw in *.
        destruct (b_reference buf) as [r0|] eqn:Er0.
        { destruct inv_ref0 as [Hc _]. discriminate. }
        destruct inv_ref0 as [_ [Hrp [Hrg He]]]. subst rparts regs ents.
        constructor; try assumption; unfold buf1;
          cbn [b_reference b_ref_written b_written b_pending b_pending_ids b_placeholder app].
        - constructor; [|constructor]. unfold reg_ok. left. split; [reflexivity|left; reflexivity].
        - intros e [].
        - cbn. lia.
        - split; [reflexivity|]. split.
          + cbn [app]. unfold ref_part. rewrite Ecr. reflexivity.
          + exists r. split; [left; reflexivity|reflexivity]. }
      assert (Href1 : lz = true -> b_reference buf1 <> None) by (intros _; discriminate).
      destruct (add_all_inv _ _ _ _ _ _ _ _ _ _ _ HI1 Href1 E2) as [Hm [_ [_ [packs2 [ents2 HI2]]]]].
      split; [cbn; rewrite Hm; reflexivity|].
      exists packs2, ents2. rewrite <- app_assoc in HI2. exact HI2.
    - (* no new reference *)
      destruct (add_all lz_enc compress_pack lz buf (r :: rest)) as [[[b2 p2] regs2]| |] eqn:E2; cbn [obnd] in H; try discriminate.
      inversion H; subst o. clear H. cbn [o_buf o_ref_parts o_delta_parts o_regs app].
      assert (Href0 : lz = true -> b_reference buf <> None).
      { intros Hlz. rewrite Hlz in Enew. cbn in Enew. apply negb_false_iff in Enew.
        destruct HI. rewrite Hlz in inv_ref0. destruct (b_reference buf); [discriminate|].
        destruct inv_ref0 as [Hc _]. congruence. }
      destruct (add_all_inv _ _ _ _ _ _ _ _ _ _ _ HI Href0 E2) as [Hm [_ [_ [packs2 [ents2 HI2]]]]].
      split; [exact Hm|]. rewrite app_nil_r. exists packs2, ents2. exact HI2.
  Qed.

  (* finalize Phase 1 / flush_batch on the live path: the step on an empty `segments` does nothing *)
  Lemma process_nil_noop : forall g buf,
    process lz_enc compress_ref compress_pack g buf [] =
    Ok {| o_buf := buf; o_ref_parts := []; o_delta_parts := []; o_regs := [] |}.
  Proof.
    intros g buf. unfold process. cbn [is_nil andb]. destruct (b_ref_written buf); reflexivity.
  Qed.
End Inv.
