(* Determinism_proofs.v — C04: assembly.  Round composition is schedule independent for well formed scripts;
   together with the pipeline theorem the parts of the file are; the scripts of multi-file mode and of single-file
   mode (current pack-boundary rule) are well formed; the rule before commit 445c73a is refuted by a witness. *)
From Coq Require Import List Permutation Sorted Lia Bool Arith NArith ZArith.
From Ragc Require Import Determinism Determinism_base Determinism_pipe Determinism_proto Determinism_gen.
Import ListNotations.

Definition same_comp (rd rd' : list (list task)) : Prop := Permutation (concat rd) (concat rd').

Lemma forall2_join : forall (P : list (list task) -> nat -> Prop) (exp : nat -> list task),
  (forall rd k, P rd k -> Permutation (concat rd) (exp k)) ->
  forall ks l l', Forall2 P l ks -> Forall2 P l' ks -> Forall2 same_comp l l'.
Proof.
  intros P exp HP ks. induction ks as [|k ks IH]; intros l l' H H'.
  - inversion H; inversion H'; subst. constructor.
  - inversion H; inversion H'; subst. constructor.
    + unfold same_comp. eapply Permutation_trans; [apply HP; eassumption|apply Permutation_sym; apply HP; eassumption].
    + apply IH; assumption.
Qed.

Lemma forall2_impl : forall (A B : Type) (P Q : A -> B -> Prop) l l',
  (forall a b, P a b -> Q a b) -> Forall2 P l l' -> Forall2 Q l l'.
Proof. intros A B P Q l l' H F. induction F; constructor; auto. Qed.

(* ---- rounds: for any two complete schedules (any capacities) of one well formed script *)
Theorem rounds_schedule_independent_proof : forall n R sc cap cap' sg sg',
  wf_script n R sc ->
  completeb (run cap sg (init n sc)) = true -> completeb (run cap' sg' (init n sc)) = true ->
  Forall2 same_comp (s_rounds (run cap sg (init n sc))) (s_rounds (run cap' sg' (init n sc))) /\
  Forall2 (fun rd k => Permutation (concat rd) (expected_round sc k)) (s_rounds (run cap sg (init n sc))) (seq 0 R).
Proof.
  intros n R sc cap cap' sg sg' WF C C'.
  pose proof (rounds_as_intended n R sc cap WF sg) as H. cbv zeta in H.
  pose proof (rounds_as_intended n R sc cap' WF sg') as H'. cbv zeta in H'.
  rewrite (complete_all_rounds n R sc cap WF sg C) in H.
  rewrite (complete_all_rounds n R sc cap' WF sg' C') in H'.
  split; [|exact H].
  eapply (forall2_join _ (expected_round sc)); [|exact H|exact H']. intros rd k HH. exact HH.
Qed.

(* the same for two scripts that intend the same contigs for every round (e.g. two thread counts) *)
Theorem rounds_two_scripts : forall n n' R sc sc' cap cap' sg sg',
  wf_script n R sc -> wf_script n' R sc' ->
  (forall k, expected_round sc k = expected_round sc' k) ->
  completeb (run cap sg (init n sc)) = true -> completeb (run cap' sg' (init n' sc')) = true ->
  Forall2 same_comp (s_rounds (run cap sg (init n sc))) (s_rounds (run cap' sg' (init n' sc'))).
Proof.
  intros n n' R sc sc' cap cap' sg sg' WF WF' HE C C'.
  pose proof (rounds_as_intended n R sc cap WF sg) as H. cbv zeta in H.
  pose proof (rounds_as_intended n' R sc' cap' WF' sg') as H'. cbv zeta in H'.
  rewrite (complete_all_rounds n R sc cap WF sg C) in H.
  rewrite (complete_all_rounds n' R sc' cap' WF' sg' C') in H'.
  eapply (forall2_join (fun rd k => Permutation (concat rd) (expected_round sc k)) (expected_round sc)); [|exact H|].
  - intros rd k HH. exact HH.
  - eapply forall2_impl; [|exact H']. intros rd k HH. cbn beta. rewrite HE. exact HH.
Qed.

(* ---- from rounds to bytes *)
Lemma nodup_map_filter : forall (A B : Type) (f : A -> B) (p : A -> bool) l, NoDup (map f l) -> NoDup (map f (filter p l)).
Proof.
  intros A B f p l. induction l as [|a l IH]; intros H; [constructor|].
  cbn [map] in H. inversion H; subst. cbn [filter]. destruct (p a); [|apply IH; assumption].
  cbn [map]. constructor; [|apply IH; assumption].
  intro Hin. apply in_map_iff in Hin. destruct Hin as [x [E Hx]]. apply filter_In in Hx. destruct Hx as [Hx _].
  apply H2. rewrite <- E. apply in_map. exact Hx.
Qed.

Lemma expected_round_ctg : forall sc k,
  expected_round sc k = filter (fun t => Nat.eqb (t_round t) k) (ctg (tasks_of sc)).
Proof.
  intros sc k. unfold expected_round, ctg. induction (tasks_of sc) as [|a l IH]; [reflexivity|].
  cbn [filter]. unfold in_round at 1, is_ctg at 1. destruct (t_tok a); cbn [negb andb filter]; [exact IH|].
  destruct (Nat.eqb (t_round a) k); [f_equal|]; exact IH.
Qed.

Lemma concat_bufs_of : forall rd, concat (bufs_of rd) = map contig_of (concat rd).
Proof.
  induction rd as [|b rd IH]; [reflexivity|]. unfold bufs_of in *. cbn [map concat]. rewrite map_app, IH. reflexivity.
Qed.

Section Full.
  Variables G Buf Res Part : Type.
  Variable segment : contig -> list N.
  Variable classify : G -> list (skey * N) -> G * list Buf.
  Variable flushf : Buf -> Buf * list (N * Part) * Res.
  Variable res_gid : Res -> N.
  Variable commit : G -> list Res -> list Buf -> G.
  Variable fin_seq : G -> G * list (N * Part).
  Variable fin_packs : G -> list (N * Part).
  Variable meta_parts : G -> list (N * Part).
  Hypothesis classify_streams_disjoint :
    forall g l, streams_disjoint Buf Res Part (map flushf (snd (classify g l))).
  Hypothesis fin_packs_distinct_streams : forall g, NoDup (map fst (fin_packs g)).

  Notation out := (output G Buf Res Part segment classify flushf res_gid commit fin_seq fin_packs meta_parts).

  Lemma attach_same : forall rounds rounds' cs cs',
    Forall2 (fun rd rd' => same_comp rd rd' /\ NoDup (map t_key (concat rd))) rounds rounds' ->
    (length rounds <= length cs)%nat -> (length rounds' <= length cs')%nat ->
    Forall2 same_round
      (map (fun rc => {| rs_bufs := bufs_of (fst rc); rs_claims := snd rc |}) (combine rounds cs))
      (map (fun rc => {| rs_bufs := bufs_of (fst rc); rs_claims := snd rc |}) (combine rounds' cs')).
  Proof.
    intros rounds rounds' cs cs' H. revert cs cs'. induction H as [|rd rd' l l' [Hp Hn] _ IH]; intros cs cs' L L'.
    - constructor.
    - destruct cs as [|c cs]; [cbn in L; lia|]. destruct cs' as [|c' cs']; [cbn in L'; lia|].
      cbn [combine map fst snd]. constructor.
      + unfold same_round. cbn [rs_bufs]. rewrite !concat_bufs_of. split.
        * apply Permutation_map. exact Hp.
        * rewrite map_map. cbn [contig_of fst]. exact Hn.
      + apply IH; cbn [length] in *; lia.
  Qed.

  Theorem output_deterministic : forall n n' R sc sc' cap cap' sg sg' cl cl' s3 s3' g0,
    wf_script n R sc -> wf_script n' R sc' ->
    (forall k, expected_round sc k = expected_round sc' k) ->
    NoDup (map t_key (ctg (tasks_of sc))) ->
    completeb (run cap sg (init n sc)) = true -> completeb (run cap' sg' (init n' sc')) = true ->
    out g0 (attach (s_rounds (run cap sg (init n sc))) cl) s3
    = out g0 (attach (s_rounds (run cap' sg' (init n' sc'))) cl') s3'.
  Proof.
    intros n n' R sc sc' cap cap' sg sg' cl cl' s3 s3' g0 WF WF' HE HN C C'.
    apply schedule_independent_proof; [exact classify_streams_disjoint|exact fin_packs_distinct_streams|].
    unfold attach. apply attach_same.
    - pose proof (rounds_two_scripts _ _ _ _ _ _ _ _ _ WF WF' HE C C') as H.
      pose proof (rounds_as_intended n R sc cap WF sg) as HI. cbv zeta in HI.
      set (rs := s_rounds (run cap sg (init n sc))) in *. set (rs' := s_rounds (run cap' sg' (init n' sc'))) in *.
      clearbody rs rs'. revert HI. generalize 0%nat. induction H as [|rd rd' l l' Hp _ IH]; intros m HI; [constructor|].
      cbn [length seq] in HI. inversion HI; subst. constructor; [|eapply IH; eassumption].
      split; [exact Hp|].
      eapply Permutation_NoDup; [apply Permutation_map; apply Permutation_sym; eassumption|].
      rewrite expected_round_ctg. apply nodup_map_filter. exact HN.
    - rewrite app_length, repeat_length. lia.
    - rewrite app_length, repeat_length. lia.
  Qed.
End Full.

(* ---- the generated scripts: contigs do not depend on the number of threads *)
Lemma ctg_repeat_tok : forall t m, t_tok t = true -> ctg (repeat t m) = [].
Proof. intros t m H. induction m; [reflexivity|]. cbn [repeat]. rewrite ctg_cons_tok by exact H. exact IHm. Qed.

Lemma push_one_indep_n : forall R single pack n n' st inp,
  fst (push_one R single pack n st inp) = fst (push_one R single pack n' st inp) /\
  ctg (tasks_of (snd (push_one R single pack n st inp))) = ctg (tasks_of (snd (push_one R single pack n' st inp))) /\
  map t_key (ctg (tasks_of (snd (push_one R single pack n st inp)))) = [fst (fst inp)].
Proof.
  intros R single pack n n' st inp. unfold push_one.
  destruct (single && ((ps_count st + 1) mod pack =? 0)%N); cbn [fst snd].
  - rewrite !tasks_of_app, !tasks_of_repeat_push, !ctg_app, !ctg_repeat_tok by reflexivity.
    cbn [tasks_of app]. rewrite ctg_cons_ctg by reflexivity. split; [reflexivity|]. split; reflexivity.
  - cbn [tasks_of]. rewrite ctg_cons_ctg by reflexivity. split; [reflexivity|]. split; reflexivity.
Qed.

Lemma push_all_indep_n : forall R single pack n n' l st,
  fst (push_all R single pack n st l) = fst (push_all R single pack n' st l) /\
  ctg (tasks_of (snd (push_all R single pack n st l))) = ctg (tasks_of (snd (push_all R single pack n' st l))) /\
  map t_key (ctg (tasks_of (snd (push_all R single pack n st l)))) = map (fun inp : input => fst (fst inp)) l.
Proof.
  intros R single pack n n' l. induction l as [|inp l IH]; intros st; [repeat split; reflexivity|].
  cbn [push_all fst snd map]. destruct (push_one_indep_n R single pack n n' st inp) as [E1 [E2 E3]].
  destruct (IH (fst (push_one R single pack n st inp))) as [F1 [F2 F3]].
  split; [|split].
  - rewrite <- E1. exact F1.
  - rewrite !tasks_of_app, !ctg_app. rewrite <- E1. rewrite E2, F2. reflexivity.
  - rewrite tasks_of_app, ctg_app, map_app, E3, F3. reflexivity.
Qed.

Definition key_of (inp : input) : ckey := fst (fst inp).

Lemma singlefile_ctg : forall R n pack ref rest,
  ctg (tasks_of (singlefile_script R n pack ref rest))
  = ctg (tasks_of (snd (push_all R true pack n pstate0 ref)))
    ++ ctg (tasks_of (snd (push_all R true pack n (fst (push_all R true pack n pstate0 ref)) rest))).
Proof.
  intros. unfold singlefile_script, final_block. rewrite !tasks_of_app, !ctg_app, tasks_of_repeat_push.
  rewrite ctg_repeat_tok by reflexivity. cbn [tasks_of]. unfold ctg at 5. cbn [filter]. rewrite !app_nil_r.
  destruct rest; cbn [tasks_of]; unfold ctg at 2; cbn [filter app]; reflexivity.
Qed.

Lemma multifile_ctg : forall R n first rest,
  ctg (tasks_of (multifile_script R n first rest))
  = ctg (tasks_of (snd (push_all R false 1 n pstate0 first)))
    ++ ctg (tasks_of (snd (push_all R false 1 n (fst (flush_block n (fst (push_all R false 1 n pstate0 first)))) rest))).
Proof.
  intros. unfold multifile_script, final_block, flush_block. cbn [fst snd].
  rewrite !tasks_of_app, !ctg_app, !tasks_of_repeat_push, !ctg_repeat_tok by reflexivity.
  cbn [tasks_of]. unfold ctg at 2 3 5. cbn [filter app]. rewrite !app_nil_r. reflexivity.
Qed.

Lemma singlefile_ctg_indep : forall R n n' pack ref rest,
  ctg (tasks_of (singlefile_script R n pack ref rest)) = ctg (tasks_of (singlefile_script R n' pack ref rest)) /\
  map t_key (ctg (tasks_of (singlefile_script R n pack ref rest))) = map key_of (ref ++ rest).
Proof.
  intros. rewrite !singlefile_ctg.
  destruct (push_all_indep_n R true pack n n' ref pstate0) as [E1 [E2 E3]]. rewrite <- E1.
  destruct (push_all_indep_n R true pack n n' rest (fst (push_all R true pack n pstate0 ref))) as [F1 [F2 F3]].
  rewrite E2, F2. split; [reflexivity|]. rewrite <- E2, <- F2, !map_app, E3, F3. reflexivity.
Qed.

Lemma multifile_ctg_indep : forall R n n' first rest,
  ctg (tasks_of (multifile_script R n first rest)) = ctg (tasks_of (multifile_script R n' first rest)) /\
  map t_key (ctg (tasks_of (multifile_script R n first rest))) = map key_of (first ++ rest).
Proof.
  intros. rewrite !multifile_ctg.
  destruct (push_all_indep_n R false 1 n n' first pstate0) as [E1 [E2 E3]]. rewrite <- E1.
  assert (EB : fst (flush_block n' (fst (push_all R false 1 n pstate0 first)))
               = fst (flush_block n (fst (push_all R false 1 n pstate0 first)))) by reflexivity.
  rewrite EB.
  destruct (push_all_indep_n R false 1 n n' rest (fst (flush_block n (fst (push_all R false 1 n pstate0 first))))) as [F1 [F2 F3]].
  rewrite E2, F2. split; [reflexivity|]. rewrite <- E2, <- F2, !map_app, E3, F3. reflexivity.
Qed.

Lemma expected_round_same_ctg : forall sc sc', ctg (tasks_of sc) = ctg (tasks_of sc') ->
  forall k, expected_round sc k = expected_round sc' k.
Proof. intros sc sc' H k. rewrite !expected_round_ctg, H. reflexivity. Qed.

(* the number of rounds of single-file mode does not depend on n *)
Lemma sf_rounds_indep : forall n n' pack ref rest, sf_rounds n pack ref rest = sf_rounds n' pack ref rest.
Proof.
  intros. unfold sf_rounds.
  destruct (push_all_indep_n current_rule true pack n n' ref pstate0) as [E1 _].
  rewrite <- E1.
  destruct (push_all_indep_n current_rule true pack n n' rest (fst (push_all current_rule true pack n pstate0 ref))) as [F1 _].
  rewrite F1. reflexivity.
Qed.

(* ---- the pack-boundary rule before commit 445c73a (next_priority not lowered): refuted *)
Definition old_rule : prule := mk_prule 0 0 false.
Definition wit_ref : list input := [((0, 0), 100, 7)%N].
Definition wit_rest : list input :=
  [((1, 0), 110, 5); ((1, 1), 111, 5); ((1, 2), 112, 5); ((1, 3), 113, 5); ((1, 4), 114, 5);
   ((2, 0), 120, 5); ((2, 1), 121, 5)]%N.
Definition sweep : list ev := [EPull 0 0; EPull 0 1; EPull 0 2; EPull 0 3; EPull 0 4; EPull 0 5; EPull 0 6;
                               EPull 0 7; EPull 0 8; EPull 0 9; EPull 0 10; EPull 0 11; EPull 0 12; EPull 0 13; EFire].
(* worker as fast as the producer: every task is pulled as soon as it is queued *)
Definition wit_eager : list ev := concat (repeat [EProd; EPull 0 0; EFire] 20) ++ [ENone 0].
(* producer first: after the drain that follows the reference sample everything is queued, then the worker runs *)
Definition wit_lazy : list ev :=
  [EProd; EPull 0 0; EProd] ++ repeat EProd 20 ++ concat (repeat sweep 16) ++ [ENone 0].
Definition comp_keys (s : sys) : list (list ckey) := map (fun rd => map t_key (concat rd)) (s_rounds s).

Lemma singlefile_old_rule_refuted_proof :
  let sc := singlefile_script old_rule 1 2 wit_ref wit_rest in
  contiguous [] (wit_ref ++ wit_rest) /\
  completeb (run 1000 wit_eager (init 1 sc)) = true /\ completeb (run 1000 wit_lazy (init 1 sc)) = true /\
  comp_keys (run 1000 wit_eager (init 1 sc)) = [[(0,0)]; [(1,0); (1,1)]; [(1,2); (1,3)]; [(1,4); (2,0)]; [(2,1)]]%N /\
  comp_keys (run 1000 wit_lazy (init 1 sc)) = [[(0,0)]; [(1,0); (1,1); (2,0)]; []; [(1,2); (1,3); (2,1)]; [(1,4)]]%N.
Proof.
  cbv zeta. split.
  - cbn. repeat split; try (left; reflexivity); try (right; intros [H|H]; try discriminate; try contradiction;
      repeat (destruct H as [H|H]; try discriminate; try contradiction)).
  - vm_compute. repeat split; reflexivity.
Qed.

(* ---- the two modes, end to end: any thread counts, capacities, protocol schedules, buffer distributions,
        claim orders and finalize completion orders give the same parts in the same file order *)
Section Modes.
  Variables G Buf Res Part : Type.
  Variable segment : contig -> list N.
  Variable classify : G -> list (skey * N) -> G * list Buf.
  Variable flushf : Buf -> Buf * list (N * Part) * Res.
  Variable res_gid : Res -> N.
  Variable commit : G -> list Res -> list Buf -> G.
  Variable fin_seq : G -> G * list (N * Part).
  Variable fin_packs : G -> list (N * Part).
  Variable meta_parts : G -> list (N * Part).
  Hypothesis classify_streams_disjoint :
    forall g l, streams_disjoint Buf Res Part (map flushf (snd (classify g l))).
  Hypothesis fin_packs_distinct_streams : forall g, NoDup (map fst (fin_packs g)).
  Notation out := (output G Buf Res Part segment classify flushf res_gid commit fin_seq fin_packs meta_parts).

  Theorem multifile_deterministic_proof : forall n n' first rest cap cap' sg sg' cl cl' s3 s3' g0,
    (0 < n)%nat -> (0 < n')%nat ->
    (2 * Z.of_nat (length (first ++ rest)) + 4 < det_prio_start - 1000000)%Z ->
    NoDup (map key_of (first ++ rest)) ->
    let sc := multifile_script current_rule n first rest in
    let sc' := multifile_script current_rule n' first rest in
    completeb (run cap sg (init n sc)) = true -> completeb (run cap' sg' (init n' sc')) = true ->
    out g0 (attach (s_rounds (run cap sg (init n sc))) cl) s3
    = out g0 (attach (s_rounds (run cap' sg' (init n' sc'))) cl') s3'.
  Proof.
    intros n n' first rest cap cap' sg sg' cl cl' s3 s3' g0 Hn Hn' Hb Hk sc sc' C C'.
    destruct (multifile_ctg_indep current_rule n n' first rest) as [E1 E2].
    eapply (output_deterministic G Buf Res Part segment classify flushf res_gid commit fin_seq fin_packs meta_parts
              classify_streams_disjoint fin_packs_distinct_streams n n' 2 sc sc').
    - apply multifile_wf; assumption.
    - apply multifile_wf; assumption.
    - apply expected_round_same_ctg. exact E1.
    - unfold sc. rewrite E2. exact Hk.
    - exact C.
    - exact C'.
  Qed.

  Theorem singlefile_deterministic_proof : forall n n' pack ref rest cap cap' sg sg' cl cl' s3 s3' g0,
    (0 < n)%nat -> (0 < n')%nat ->
    contiguous [] (ref ++ rest) ->
    (2 * Z.of_nat (length (ref ++ rest)) + 4 < det_prio_start - 1000000)%Z ->
    NoDup (map key_of (ref ++ rest)) ->
    let sc := singlefile_script current_rule n pack ref rest in
    let sc' := singlefile_script current_rule n' pack ref rest in
    completeb (run cap sg (init n sc)) = true -> completeb (run cap' sg' (init n' sc')) = true ->
    out g0 (attach (s_rounds (run cap sg (init n sc))) cl) s3
    = out g0 (attach (s_rounds (run cap' sg' (init n' sc'))) cl') s3'.
  Proof.
    intros n n' pack ref rest cap cap' sg sg' cl cl' s3 s3' g0 Hn Hn' Hc Hb Hk sc sc' C C'.
    destruct (singlefile_ctg_indep current_rule n n' pack ref rest) as [E1 E2].
    eapply (output_deterministic G Buf Res Part segment classify flushf res_gid commit fin_seq fin_packs meta_parts
              classify_streams_disjoint fin_packs_distinct_streams n n' (sf_rounds n pack ref rest) sc sc').
    - apply singlefile_wf; assumption.
    - rewrite (sf_rounds_indep n n'). apply singlefile_wf; assumption.
    - apply expected_round_same_ctg. exact E1.
    - unfold sc. rewrite E2. exact Hk.
    - exact C.
    - exact C'.
  Qed.
End Modes.

(* round composition alone, per mode *)
Theorem multifile_rounds_proof : forall n n' first rest cap cap' sg sg',
  (0 < n)%nat -> (0 < n')%nat ->
  (2 * Z.of_nat (length (first ++ rest)) + 4 < det_prio_start - 1000000)%Z ->
  let sc := multifile_script current_rule n first rest in
  let sc' := multifile_script current_rule n' first rest in
  completeb (run cap sg (init n sc)) = true -> completeb (run cap' sg' (init n' sc')) = true ->
  Forall2 same_comp (s_rounds (run cap sg (init n sc))) (s_rounds (run cap' sg' (init n' sc'))) /\
  length (s_rounds (run cap sg (init n sc))) = 2%nat.
Proof.
  intros n n' first rest cap cap' sg sg' Hn Hn' Hb sc sc' C C'.
  destruct (multifile_ctg_indep current_rule n n' first rest) as [E1 _].
  split.
  - eapply rounds_two_scripts; try eassumption; try (apply multifile_wf; assumption).
    apply expected_round_same_ctg. exact E1.
  - eapply complete_all_rounds; [apply multifile_wf; assumption|exact C].
Qed.

Theorem singlefile_rounds_proof : forall n n' pack ref rest cap cap' sg sg',
  (0 < n)%nat -> (0 < n')%nat -> contiguous [] (ref ++ rest) ->
  (2 * Z.of_nat (length (ref ++ rest)) + 4 < det_prio_start - 1000000)%Z ->
  let sc := singlefile_script current_rule n pack ref rest in
  let sc' := singlefile_script current_rule n' pack ref rest in
  completeb (run cap sg (init n sc)) = true -> completeb (run cap' sg' (init n' sc')) = true ->
  Forall2 same_comp (s_rounds (run cap sg (init n sc))) (s_rounds (run cap' sg' (init n' sc'))).
Proof.
  intros n n' pack ref rest cap cap' sg sg' Hn Hn' Hc Hb sc sc' C C'.
  destruct (singlefile_ctg_indep current_rule n n' pack ref rest) as [E1 _].
  eapply (rounds_two_scripts n n' (sf_rounds n pack ref rest)); try eassumption.
  - apply singlefile_wf; assumption.
  - rewrite (sf_rounds_indep n n'). apply singlefile_wf; assumption.
  - apply expected_round_same_ctg. exact E1.
Qed.

(* ---- the quiescent discipline: the round is the phase, whatever the priorities are *)
Theorem rounds_deterministic_quiescent_proof : forall n (phs : list qphase) cap sg,
  (0 < n)%nat -> tagged 0 phs ->
  let s := run cap sg (init n (quiescent_script n phs)) in
  completeb s = true ->
  Forall2 (fun rd ph => Permutation (concat rd) (fst ph)) (s_rounds s) phs.
Proof.
  intros n phs cap sg Hn T s C.
  pose proof (quiescent_wf n phs Hn T) as WF.
  pose proof (Determinism_proto.rounds_as_intended n _ _ cap WF sg) as H. cbv zeta in H. fold s in H.
  pose proof (complete_all_rounds n _ _ cap WF sg C) as L. fold s in L. rewrite L in H.
  assert (G : forall (rs : list (list (list task))) (ps : list qphase) i,
             (i + length ps = length phs)%nat -> ps = skipn i phs ->
             Forall2 (fun rd k => Permutation (concat rd) (expected_round (quiescent_script n phs) k)) rs (seq i (length ps)) ->
             Forall2 (fun rd ph => Permutation (concat rd) (fst ph)) rs ps).
  { intros rs ps. revert rs. induction ps as [|p ps IH]; intros rs i Hl Hs F.
    - inversion F. constructor.
    - cbn [length seq] in F. inversion F as [|rd k rs' ks Hp F']; subst. constructor.
      + pose proof (quiescent_expected n phs 0 i T) as QE. cbn [plus] in QE. rewrite QE in Hp by (cbn [length] in Hl; lia).
        assert (EN : nth i phs ([], mk_task false (0%N, 0%N) 0 0 0 0 0) = p).
        { clear - Hs. revert phs Hs. induction i as [|i IHi]; intros phs Hs.
          - destruct phs; cbn [skipn] in Hs; [discriminate|]. inversion Hs. reflexivity.
          - destruct phs; cbn [skipn] in Hs; [discriminate|]. cbn [nth]. apply IHi. exact Hs. }
        rewrite EN in Hp. exact Hp.
      + apply (IH rs' (S i)); [cbn [length] in Hl; lia| |exact F'].
        clear - Hs. revert phs Hs. induction i as [|i IHi]; intros phs Hs.
        * destruct phs; cbn [skipn] in Hs; [discriminate|]. inversion Hs. reflexivity.
        * destruct phs; cbn [skipn] in Hs; [discriminate|]. cbn [skipn]. apply IHi. exact Hs. }
  apply (G (s_rounds s) phs 0%nat); [reflexivity|reflexivity|exact H].
Qed.
