(* LZ_match.v - find_best_match_lp: whatever the table contains, a returned triple satisfies the
   direct-comparison post-condition; with the padded reference the probe loop cannot panic *)
From Coq Require Import Lia ZifyBool ZifyN ZifyNat.
From Ragc Require Import LZ_base.

Lemma land_le_r a b : N.land a b <= b.
Proof.
  assert (H1 := N.lor_ldiff_and b a).
  assert (H0 : N.land (N.ldiff b a) (N.land b a) = 0).
  { rewrite (N.land_comm b a), N.land_assoc, N.land_ldiff. apply N.land_0_l. }
  rewrite <- (N.lxor_lor _ _ H0), <- (N.add_nocarry_lxor _ _ H0) in H1.
  rewrite (N.land_comm a b). lia.
Qed.

Lemma firstnN_cons {A} n (x : A) l : firstnN (n + 1) (x :: l) = x :: firstnN n l.
Proof. unfold firstnN. replace (N.to_nat (n + 1)) with (S (N.to_nat n)) by lia. reflexivity. Qed.

(* ---------------- matching_length *)
Lemma matching_length_go_spec s1 : forall s2 m len, len <= m ->
  let r := matching_length_go s1 s2 m len in
  len <= r /\ r <= m /\ r - len <= lenN s1 /\ r - len <= lenN s2 /\
  firstnN (r - len) s1 = firstnN (r - len) s2.
Proof.
  induction s1 as [|a s1 IH]; intros s2 m len Hl; cbn [matching_length_go].
  - replace (len - len) with 0 by lia. cbn. repeat split; try lia.
  - destruct s2 as [|b s2].
    + replace (len - len) with 0 by lia. repeat split; try lia.
    + destruct ((len <? m) && (a =? b)) eqn:E.
      * assert (len + 1 <= m) by lia. destruct (IH s2 m (len + 1) H) as (A1 & A2 & A3 & A4 & A5).
        set (r := matching_length_go s1 s2 m (len + 1)) in *.
        rewrite !lenN_cons. repeat split; try lia.
        replace (r - len) with (r - (len + 1) + 1) by lia. rewrite !firstnN_cons, A5.
        f_equal. lia.
      * replace (len - len) with 0 by lia. repeat split; try lia.
Qed.

Lemma matching_length_spec s1 s2 m :
  let r := matching_length s1 s2 m in
  r <= m /\ r <= lenN s1 /\ r <= lenN s2 /\ firstnN r s1 = firstnN r s2.
Proof.
  unfold matching_length. destruct (matching_length_go_spec s1 s2 m 0 ltac:(lia)) as (_ & A2 & A3 & A4 & A5).
  rewrite N.sub_0_r in *. auto.
Qed.

(* ---------------- backward extension *)
Definition back_eq (tgt rp : list N) (tp hp b : N) : Prop :=
  firstnN b (skipnN (tp - b) tgt) = firstnN b (skipnN (hp - b) rp).

Lemma back_go_spec tgt rp tp hp mb : mb <= tp -> mb <= hp ->
  forall fuel b, b <= mb -> back_eq tgt rp tp hp b ->
  let r := back_go fuel tgt rp tp hp mb b in
  b <= r /\ r <= mb /\ back_eq tgt rp tp hp r.
Proof.
  intros H1 H2. induction fuel; intros b Hb He; cbn [back_go]. { repeat split; auto; lia. }
  destruct (b <? mb) eqn:E; [|repeat split; auto; lia].
  destruct (nthN tgt (tp - b - 1)) as [x|] eqn:Ex; [|repeat split; auto; lia].
  destruct (nthN rp (hp - b - 1)) as [y|] eqn:Ey; [|repeat split; auto; lia].
  destruct (x =? y) eqn:Exy; [|repeat split; auto; lia].
  assert (x = y) by lia. subst y.
  destruct (IHfuel (b + 1)) as (A1 & A2 & A3); [lia| |repeat split; auto; lia].
  unfold back_eq in *.
  replace (tp - (b + 1)) with (tp - b - 1) by lia. replace (hp - (b + 1)) with (hp - b - 1) by lia.
  rewrite (skipnN_cons_nth _ _ _ Ex), (skipnN_cons_nth _ _ _ Ey), !firstnN_cons.
  replace (tp - b - 1 + 1) with (tp - b) by lia. replace (hp - b - 1 + 1) with (hp - b) by lia.
  now rewrite He.
Qed.

(* ---------------- get_code on the padded reference *)
Lemma get_code_go_panic n : forall seq code, get_code_go n seq code = Panic ->
  Forall (fun c => c <= max_valid_sym) seq /\ (length seq < n)%nat.
Proof.
  induction n; intros seq code H; cbn [get_code_go] in H; [discriminate|].
  destruct seq as [|c s]. { split; [constructor|cbn; lia]. }
  destruct (max_valid_sym <? c) eqn:E; [discriminate|].
  destruct (IHn _ _ H). split; [constructor; auto; lia|cbn [length]; lia].
Qed.
Lemma get_code_go_not_err n : forall seq code, get_code_go n seq code <> Err.
Proof.
  induction n; intros seq code; cbn [get_code_go]; [discriminate|].
  destruct seq; [discriminate|]. destruct (_ <? _); [discriminate|apply IHn].
Qed.

Lemma nthN_repeat {A} (x : A) n i : i < N.of_nat n -> nthN (repeat x n) i = Some x.
Proof.
  unfold nthN. intros H. assert (H' : (N.to_nat i < n)%nat) by lia. revert H'. generalize (N.to_nat i).
  clear. induction n; intros; [lia|]. destruct n0; cbn; auto. apply IHn. lia.
Qed.

Lemma get_code_go_padded (rf : list N) kl h n code :
  1 <= kl -> h < lenN (rf ++ repeat pad_byte (N.to_nat kl)) ->
  get_code_go n (skipnN h (rf ++ repeat pad_byte (N.to_nat kl))) code <> Panic.
Proof.
  intros Hk Hh Hp. apply get_code_go_panic in Hp. destruct Hp as (Hf & _).
  set (rp := rf ++ repeat pad_byte (N.to_nat kl)) in *.
  assert (Hl : lenN rp = lenN rf + kl). { unfold rp. rewrite lenN_app, lenN_repeat. lia. }
  assert (Hn : nthN (skipnN h rp) (lenN rp - 1 - h) = Some pad_byte).
  { rewrite nthN_skipnN. unfold rp at 1. rewrite nthN_app_r by lia. apply nthN_repeat. lia. }
  unfold nthN in Hn. apply nth_error_In in Hn. rewrite Forall_forall in Hf. apply Hf in Hn.
  revert Hn. consts. lia.
Qed.

(* ---------------- the probe loop *)
Definition match_post (st : lzst) (tgt : list N) (i npl mp lb lf : N) : Prop :=
  mp < lenN (refp st) /\ i + lf <= lenN tgt /\ mp + lf <= lenN (refp st) /\
  firstnN lf (skipnN i tgt) = firstnN lf (skipnN mp (refp st)) /\
  lb <= npl /\ lb <= mp /\ lb <= i /\ back_eq tgt (refp st) i mp lb /\ key_len st <= lf.

Definition probe_inv st tgt i npl (b : N * N * N) : Prop :=
  let '(bp, bb, bf) := b in (bp = 0 /\ bb = 0 /\ bf = 0) \/ match_post st tgt i npl bp bb bf.

Lemma wrap32_small x : x < 4294967296 -> wrap32 x = x.
Proof. unfold wrap32, two32. intros. now apply N.mod_small. Qed.

Section ProbeProofs.
  Variables (st : lzst) (code : N) (tgt tsuf : list N) (tp max_len npl ht_pos : N).
  Hypothesis Hts : tsuf = skipnN tp tgt.
  Hypothesis Hrpl : refp_len st = lenN (refp st).
  Hypothesis Hrl : lenN (refp st) < 4294967296.
  Hypothesis Htl : lenN tgt < 4294967296.
  Hypothesis Htp : tp <= lenN tgt.

  Lemma probe_sound n : forall j bp bb bf mtu res,
    probe st code tgt tsuf tp max_len npl ht_pos n j bp bb bf mtu = Ok res ->
    probe_inv st tgt tp npl (bp, bb, bf) -> probe_inv st tgt tp npl res.
  Proof.
    induction n; intros j bp bb bf mtu res H Hi; cbn [probe] in H. { now inversion H; subst. }
    destruct (nthN (ht st) _) as [slot|]; [|discriminate].
    destruct (slot =? empty_slot). { now inversion H; subst. }
    rewrite Hrpl in H.
    destruct (lenN (refp st) <=? slot * hashing_step) eqn:Eh. { eapply IHn; eauto. }
    destruct (get_code st _) as [[rc|]| |]; try discriminate; [|eapply IHn; eauto].
    destruct (negb (rc =? code)). { eapply IHn; eauto. }
    set (hp := slot * hashing_step) in *.
    destruct (matching_length_spec tsuf (skipnN hp (refp st)) max_len) as (M1 & M2 & M3 & M4).
    set (fl := matching_length tsuf (skipnN hp (refp st)) max_len) in *.
    rewrite Hts in M2, M4.
    destruct (key_len st <=? fl) eqn:Ek; [|eapply IHn; eauto].
    set (mb := N.min (N.min npl hp) tp) in *.
    destruct (back_go_spec tgt (refp st) tp hp mb ltac:(lia) ltac:(lia) (N.to_nat mb) 0 ltac:(lia) eq_refl)
      as (_ & B2 & B3).
    set (bl := back_go (N.to_nat mb) tgt (refp st) tp hp mb 0) in *.
    destruct (mtu <? bl + fl); [|eapply IHn; eauto].
    eapply IHn; eauto. rewrite !lenN_skipnN in *.
    rewrite !wrap32_small by lia. right. unfold match_post. repeat split; auto; lia.
  Qed.

  Hypothesis Hpad : exists rf, refp st = rf ++ repeat pad_byte (N.to_nat (key_len st)).
  Hypothesis Hkl : 1 <= key_len st.
  Hypothesis Hmask : ht_mask st < lenN (ht st).

  Lemma probe_ok n : forall j bp bb bf mtu, exists res,
    probe st code tgt tsuf tp max_len npl ht_pos n j bp bb bf mtu = Ok res.
  Proof.
    induction n; intros; cbn [probe]; eauto.
    destruct (nthN_lt (ht st) (N.land (ht_pos + j) (ht_mask st))) as (slot & Es).
    { assert (L := land_le_r (ht_pos + j) (ht_mask st)). lia. }
    rewrite Es. destruct (slot =? empty_slot); eauto.
    rewrite Hrpl. destruct (lenN (refp st) <=? slot * hashing_step) eqn:Eh; eauto.
    destruct (get_code st _) as [[rc|]| |] eqn:Eg; eauto.
    - destruct (negb (rc =? code)); eauto. destruct (key_len st <=? _); eauto.
      destruct (mtu <? _); eauto.
    - exfalso. revert Eg. apply get_code_go_not_err.
    - exfalso. destruct Hpad as (rf & Hp). revert Eg. unfold get_code. rewrite Hp.
      apply get_code_go_padded; auto. rewrite <- Hp. lia.
  Qed.
End ProbeProofs.

Definition st_sizes (st : lzst) (tgt : list N) : Prop :=
  lenN (refp st) < 4294967296 /\ lenN tgt < 4294967296.

Theorem find_best_match_lp_sound_proof : forall st code hash tgt tp max_len npl mp lb lf,
  st_sizes st tgt -> refp_len st = lenN (refp st) -> tp <= lenN tgt -> 1 <= mml st ->
  find_best_match_lp st code hash tgt (skipnN tp tgt) tp max_len npl = Ok (Some (mp, lb, lf)) ->
  match_post st tgt tp npl mp lb lf /\ mml st <= lb + lf.
Proof.
  intros st code hash tgt tp max_len npl mp lb lf (S1 & S2) Hrp Htp Hm H.
  unfold find_best_match_lp in H. destruct (ht st); [discriminate|].
  destruct (probe _ _ _ _ _ _ _ _ _ _ _ _ _) as [[[bp bb] bf]| |] eqn:Ep; try discriminate.
  unfold add_u32 in H. destruct (bb + bf <? two32); [|discriminate].
  destruct (mml st <=? bb + bf) eqn:E; [|discriminate]. inversion H; subst bp bb bf.
  apply probe_sound in Ep; auto.
  - destruct Ep as [(-> & -> & ->)|Hp]; [lia|]. split; auto. lia.
  - left. auto.
Qed.

(* well-formed state: what prepare establishes and the encoder relies on *)
Definition wf_st (st : lzst) (rf : list N) : Prop :=
  refp st = rf ++ repeat pad_byte (N.to_nat (key_len st)) /\ ref_len st = lenN rf /\
  1 <= key_len st /\ key_len st + 3 = mml st /\ (ht st = [] \/ ht_mask st < lenN (ht st)) /\
  refp_len st = lenN (refp st).

Lemma find_best_match_lp_total st rf code hash tgt tp max_len npl :
  wf_st st rf -> st_sizes st tgt -> tp <= lenN tgt ->
  find_best_match_lp st code hash tgt (skipnN tp tgt) tp max_len npl = Ok None \/
  exists mp lb lf, find_best_match_lp st code hash tgt (skipnN tp tgt) tp max_len npl = Ok (Some (mp, lb, lf)) /\
    match_post st tgt tp npl mp lb lf /\ mml st <= lb + lf.
Proof.
  intros (W1 & W2 & W3 & W4 & W5 & W6) (S1 & S2) Htp.
  destruct (find_best_match_lp st code hash tgt (skipnN tp tgt) tp max_len npl) as [[[[mp lb] lf]|]| |] eqn:E; auto.
  - right. exists mp, lb, lf. split; auto. eapply find_best_match_lp_sound_proof; eauto. { split; auto. } lia.
  - exfalso. unfold find_best_match_lp in E. destruct (ht st) eqn:Eh; [discriminate|].
    destruct W5 as [W5|W5]; [discriminate|].
    assert (PO : exists res, probe st code tgt (skipnN tp tgt) tp max_len npl (N.land hash (ht_mask st))
                                 (N.to_nat max_no_tries) 0 0 0 0 (mml st) = Ok res).
    { apply probe_ok; eauto. rewrite Eh. exact W5. }
    destruct PO as (res & Er).
    rewrite Er in E. destruct res as [[bp bb] bf].
    destruct (add_u32 bb bf); [|discriminate]. destruct (_ <=? _); discriminate.
  - exfalso. unfold find_best_match_lp in E. destruct (ht st) eqn:Eh; [discriminate|].
    destruct W5 as [W5|W5]; [discriminate|].
    assert (PO : exists res, probe st code tgt (skipnN tp tgt) tp max_len npl (N.land hash (ht_mask st))
                                 (N.to_nat max_no_tries) 0 0 0 0 (mml st) = Ok res).
    { apply probe_ok; eauto. rewrite Eh. exact W5. }
    destruct PO as (res & Er).
    rewrite Er in E. destruct res as [[bp bb] bf].
    assert (Hi : probe_inv st tgt tp npl (bp, bb, bf)).
    { eapply probe_sound; eauto. left; auto. }
    unfold add_u32 in E. destruct (bb + bf <? two32) eqn:E2.
    + destruct (_ <=? _); discriminate.
    + unfold two32 in E2. destruct Hi as [(-> & -> & ->)|Hp]; [lia|]. unfold match_post in Hp. lia.
Qed.
