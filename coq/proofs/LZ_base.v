(* LZ_base.v - shared set-up and list lemmas for the C09 proofs *)
From Coq Require Import Lia ZifyBool ZifyN ZifyNat.
From Ragc Require Export LZ.
Global Arguments N.add : simpl never.
Global Arguments N.sub : simpl never.
Global Arguments N.mul : simpl never.
Global Arguments N.div : simpl never.
Global Arguments N.modulo : simpl never.
Global Arguments N.shiftl : simpl never.
Global Arguments N.shiftr : simpl never.
Global Arguments N.land : simpl never.
Global Arguments N.lor : simpl never.
Global Arguments N.pow : simpl never.
Global Arguments N.ltb : simpl never.
Global Arguments N.leb : simpl never.
Global Arguments N.eqb : simpl never.
Global Arguments N.min : simpl never.
Global Arguments N.to_nat : simpl never.
Global Arguments N.of_nat : simpl never.
Global Arguments Z.add : simpl never.
Global Arguments Z.sub : simpl never.
Global Arguments Z.mul : simpl never.
Global Arguments Z.modulo : simpl never.
Global Arguments Z.ltb : simpl never.
Global Arguments Z.leb : simpl never.
Global Arguments Z.eqb : simpl never.
Global Arguments Z.of_N : simpl never.
Global Arguments Z.to_N : simpl never.
Global Arguments Z.abs_N : simpl never.

Ltac consts :=
  cbv [n_code n_run_starter_code min_nrun_len max_no_tries hashing_step key_len_add key_mask_full_from
       key_bits_per_sym pad_byte max_valid_sym max_valid_sym_skip1 index_valid_below code_shift load_num
       load_den min_ht_size empty_slot lit_base lit_span bang_byte scan_lo scan_hi scan_base scan_bang
       digit0 digit9 radix minus_byte comma_byte period_byte to_end_len] in *.

Ltac dtest :=
  match goal with
  | |- context [if ?b then _ else _] => let E := fresh "E" in destruct b eqn:E
  end.

(* ---------- N-indexed list helpers *)
Lemma lenN_app {A} (a b : list A) : lenN (a ++ b) = lenN a + lenN b.
Proof. unfold lenN. rewrite app_length. lia. Qed.
Lemma lenN_cons {A} (x : A) l : lenN (x :: l) = lenN l + 1.
Proof. unfold lenN. cbn [length]. lia. Qed.
Lemma lenN_nil {A} : lenN (@nil A) = 0.
Proof. reflexivity. Qed.
Lemma lenN_rev {A} (l : list A) : lenN (rev l) = lenN l.
Proof. unfold lenN. now rewrite rev_length. Qed.
Lemma lenN_map {A B} (f : A -> B) l : lenN (map f l) = lenN l.
Proof. unfold lenN. now rewrite map_length. Qed.
Lemma lenN_repeat {A} (x : A) n : lenN (repeat x n) = N.of_nat n.
Proof. unfold lenN. now rewrite repeat_length. Qed.
Lemma lenN_firstnN {A} n (l : list A) : n <= lenN l -> lenN (firstnN n l) = n.
Proof. unfold lenN, firstnN. intros. rewrite firstn_length. lia. Qed.
Lemma lenN_skipnN {A} n (l : list A) : lenN (skipnN n l) = lenN l - n.
Proof. unfold lenN, skipnN. rewrite skipn_length. lia. Qed.

Lemma skipnN_0 {A} (l : list A) : skipnN 0 l = l.
Proof. reflexivity. Qed.
Lemma skipnN_skipnN {A} a b (l : list A) : skipnN a (skipnN b l) = skipnN (a + b) l.
Proof.
  unfold skipnN. replace (N.to_nat (a + b)) with (N.to_nat b + N.to_nat a)%nat by lia.
  revert l. induction (N.to_nat b); intros; cbn [Nat.add skipn]; auto. destruct l; auto. now destruct (N.to_nat a).
Qed.
Lemma skipnN_all {A} n (l : list A) : lenN l <= n -> skipnN n l = [].
Proof. unfold lenN, skipnN. intros. apply skipn_all2. lia. Qed.
Lemma firstnN_skipnN {A} n (l : list A) : firstnN n l ++ skipnN n l = l.
Proof. apply firstn_skipn. Qed.
Lemma skipnN_app_l {A} (a b : list A) : skipnN (lenN a) (a ++ b) = b.
Proof.
  unfold skipnN, lenN. rewrite Nat2N.id. rewrite skipn_app, skipn_all, Nat.sub_diag. reflexivity.
Qed.
Lemma skipnN_cons_nth {A} i (l : list A) x : nthN l i = Some x -> skipnN i l = x :: skipnN (i + 1) l.
Proof.
  unfold nthN, skipnN. replace (N.to_nat (i + 1)) with (S (N.to_nat i)) by lia.
  generalize (N.to_nat i). intros n. revert l. induction n; destruct l; cbn; intros; try discriminate.
  - now inversion H.
  - now apply IHn.
Qed.
Lemma nthN_lt {A} (l : list A) i : i < lenN l -> exists x, nthN l i = Some x.
Proof.
  unfold nthN, lenN. intros. destruct (nth_error l (N.to_nat i)) eqn:E; eauto.
  apply nth_error_None in E. lia.
Qed.
Lemma nthN_some_lt {A} (l : list A) i x : nthN l i = Some x -> i < lenN l.
Proof.
  unfold nthN, lenN. intros. assert (nth_error l (N.to_nat i) <> None) by congruence.
  apply nth_error_Some in H0. lia.
Qed.
Lemma nthN_skipnN {A} (l : list A) i j : nthN (skipnN i l) j = nthN l (i + j).
Proof.
  unfold nthN, skipnN. replace (N.to_nat (i + j)) with (N.to_nat i + N.to_nat j)%nat by lia.
  generalize (N.to_nat i). intros n. revert l. induction n; intros; cbn; auto.
  destruct l; cbn; auto. now destruct (N.to_nat j).
Qed.
Lemma nthN_app_l {A} (a b : list A) i : i < lenN a -> nthN (a ++ b) i = nthN a i.
Proof. unfold nthN, lenN. intros. apply nth_error_app1. lia. Qed.
Lemma nthN_app_r {A} (a b : list A) i : lenN a <= i -> nthN (a ++ b) i = nthN b (i - lenN a).
Proof.
  unfold nthN, lenN. intros. rewrite nth_error_app2 by lia. f_equal. lia.
Qed.
Lemma nthN_firstnN {A} (l : list A) n i : i < n -> nthN (firstnN n l) i = nthN l i.
Proof.
  unfold nthN, firstnN. intros. assert (H' : (N.to_nat i < N.to_nat n)%nat) by lia.
  revert H'. generalize (N.to_nat i) (N.to_nat n). clear. intros a b. revert a l.
  induction b; intros; [lia|]. destruct l; destruct a; cbn; auto. apply IHb. lia.
Qed.
Lemma skipnN_nil_inv {A} (l : list A) i : skipnN i l = [] -> lenN l <= i.
Proof.
  intros H. assert (L := lenN_skipnN i l). rewrite H in L. unfold lenN in *. cbn [length] in L. lia.
Qed.
Lemma firstnN_succ {A} (l : list A) i x : nthN l i = Some x -> firstnN (i + 1) l = firstnN i l ++ [x].
Proof.
  unfold nthN, firstnN. replace (N.to_nat (i + 1)) with (S (N.to_nat i)) by lia.
  generalize (N.to_nat i). intros n. revert l. induction n; destruct l; cbn; intros; try discriminate.
  - now inversion H.
  - f_equal. now apply IHn.
Qed.
Lemma firstnN_all {A} (l : list A) n : lenN l <= n -> firstnN n l = l.
Proof. unfold firstnN, lenN. intros. apply firstn_all2. lia. Qed.
Lemma firstnN_add {A} (l : list A) a b : firstnN (a + b) l = firstnN a l ++ firstnN b (skipnN a l).
Proof.
  unfold firstnN, skipnN. replace (N.to_nat (a + b)) with (N.to_nat a + N.to_nat b)%nat by lia.
  generalize (N.to_nat a) (N.to_nat b). clear. intros a b. revert l.
  induction a; intros; cbn; auto. destruct l; cbn. { now destruct b. } f_equal. apply IHa.
Qed.
Lemma firstnN_0 {A} (l : list A) : firstnN 0 l = [].
Proof. reflexivity. Qed.
Lemma firstnN_app_l {A} (a b : list A) n : n <= lenN a -> firstnN n (a ++ b) = firstnN n a.
Proof.
  unfold firstnN, lenN. intros. rewrite firstn_app. replace (N.to_nat n - length a)%nat with O by lia.
  cbn. apply app_nil_r.
Qed.
Lemma Forall_skipnN {A} (P : A -> Prop) n l : Forall P l -> Forall P (skipnN n l).
Proof.
  unfold skipnN. intros. rewrite <- (firstn_skipn (N.to_nat n) l) in H. apply Forall_app in H. tauto.
Qed.
Lemma Forall_firstnN {A} (P : A -> Prop) n l : Forall P l -> Forall P (firstnN n l).
Proof.
  unfold firstnN. intros. rewrite <- (firstn_skipn (N.to_nat n) l) in H. apply Forall_app in H. tauto.
Qed.
Lemma rev_append_rev' {A} (a b : list A) : rev_append a b = rev a ++ b.
Proof. apply rev_append_rev. Qed.
