(* ReaderGrand_build.v - C08G: the file the model writer produces (ModelCreate.model_build) meets hypothesis (A) of C08:
   on every reference stream of the file, get_segment's and get_reference_segment's reference decoders agree, because a
   compressed reference part carries its decoded length as metadata and holds at least 3 bases
   (compressed + marker is shorter than raw, and the compressed bytes are not empty). *)
From Coq Require Import Lia ZifyBool ZifyN ZifyNat Permutation.
From Ragc Require Import Mach Consts_kmer Consts_segment Consts_pipeline Consts_groupstore Consts_agcv3.
From Ragc Require Import Varint Kmer Segment Pipeline SegReader GroupStore Tuple SegCompress LZ Details Collection Container
  Range AgcV3 ModelCreate.
From Ragc Require Import Segment_proofs Pipeline_proofs GroupStore_proofs Compose_codecs Compose_proofs.
From Ragc Require GroupStore_rules GroupStore_inv Collection_proofs Container_proofs Range_proofs AgcV3_proofs.
From Ragc Require Import AgcV3_compose Grand_proofs.
From Ragc Require Import ReaderGrand ReaderGrand_cat ReaderGrand_seg ReaderGrand_proofs ReaderGrand_range.
From Ragc Require ReaderState ReaderState_proofs.
Open Scope N_scope.
Arguments N.add : simpl never.
Arguments N.sub : simpl never.
Arguments N.mul : simpl never.
Arguments N.div : simpl never.
Arguments N.modulo : simpl never.
Arguments N.land : simpl never.
Arguments N.pow : simpl never.
Arguments N.of_nat : simpl never.
Arguments N.to_nat : simpl never.

(* ------------------------------------------------------------------ a name that was never registered has no stream *)
Lemma history_state_none : forall names buffered nm, NoDup names ->
  Forall (fun x => fst x < lenN names) buffered -> ~ In nm names ->
  sp_parts (fst (sp_run sp_init (map WRegister names ++ map addbuf buffered ++ [WFlush]))) nm = None.
Proof.
  intros names buffered nm ND Hb Hni.
  rewrite sp_run_app, sp_run_registers by exact ND. cbn [sp_init sp_streams sp_pending app].
  rewrite sp_run_app, sp_run_addbufs. cbn [sp_streams sp_pending app]. rewrite sp_run_cons.
  cbn [sp_run fst sp_step sp_streams sp_pending].
  set (st0 := map (fun nm0 => mkSS nm0 0 []) names).
  assert (Hb' : Forall (fun x => fst x < lenN st0) (sort_by_sid buffered)).
  { apply Container_proofs.Forall_sort_by_sid. unfold st0, lenN. rewrite map_length. exact Hb. }
  destruct (commit_all_spec _ st0 Hb') as (st' & Hc & Hn & Hp). rewrite Hc. cbn [fst].
  unfold sp_parts, sp_stream. cbn [sp_streams]. rewrite Container_proofs.sp_find_idx, Hn.
  assert (En : map ss_name st0 = names).
  { unfold st0. rewrite map_map. cbn [ss_name]. apply map_id. }
  rewrite En. rewrite (proj2 (Container_proofs.find_idx_none nm names 0) Hni). reflexivity.
Qed.

Lemma model_stream_inv : forall fp gp : plan, length fp = 7%nat -> NoDup (map fst (fp ++ gp)) ->
  forall nm items, sp_parts (fst (sp_run sp_init (model_wops fp gp))) nm = Some items ->
  exists e, In e (fp ++ gp) /\ fst e = nm /\ snd e = items.
Proof.
  intros fp gp Hl ND nm items H.
  destruct (in_dec (list_eq_dec N.eq_dec) nm (map fst (fp ++ gp))) as [Hin|Hni].
  - apply in_map_iff in Hin. destruct Hin as (e & <- & He). exists e.
    rewrite (model_stream_state fp gp Hl ND e He) in H. inversion H. auto.
  - exfalso. unfold model_wops in H. rewrite <- (map_map fst WRegister) in H.
    rewrite (history_state_none (map fst (fp ++ gp)) (model_buffered fp gp) nm ND (model_buffered_sids fp gp Hl) Hni) in H.
    discriminate.
Qed.

(* ------------------------------------------------------------------ reference stream names, for EVERY id *)
Lemma ref_name_not_fixed : forall g, ~ In (stream_ref_name g) SPEC_FIXED_NAMES.
Proof.
  intros g H. unfold SPEC_FIXED_NAMES in H. cbn [In] in H. unfold stream_ref_name, SPEC_STREAM_PREFIX in H.
  cbn [app] in H. repeat (destruct H as [H|H]; [discriminate H|]). exact H.
Qed.

Lemma ref_name_not_delta : forall g g', stream_ref_name g <> stream_delta_name g'.
Proof.
  intros g g' H. apply (f_equal (fun l => last l 0)) in H. unfold stream_ref_name, stream_delta_name in H.
  rewrite !app_assoc in H. unfold SPEC_REF_SUFFIX, SPEC_DELTA_SUFFIX in H. rewrite !last_last in H. discriminate H.
Qed.

(* ------------------------------------------------------------------ the reference parts of the finalized store *)
Section RefParts.
  Variable zc : N -> list N -> list N.
  Variable zd : list N -> option (list N).
  Hypothesis Hzd : forall l x, zd (zc l x) = Some x.
  Hypothesis Hzc : forall l x, zc l x <> [].
  Variable mml level : N.
  Hypothesis Hmml : 4 <= mml.
  Variable gops : list op.
  Variable st : store.
  Hypothesis Hrun : run (m_lz_enc mml) (m_cref zc) (m_cpack zc level) gops = Ok st.
  Hypothesis Hops : GroupStore_proofs.ops_ok ref_dom (lz_dom mml) gops.

  Lemma fin_ref_parts : forall g parts,
    gv_ref (view_of (finalize (m_cpack zc level) st) g) = Some parts ->
    parts = [] \/ exists r, parts = [GroupStore_inv.ref_part (m_cref zc) r] /\ ref_dom r.
  Proof.
    intros g parts H. destruct (GroupStore_proofs.run_inv _ _ _ gops st Hrun) as [HG HP].
    unfold view_of, finalize in H. destruct (st g) as [gs|] eqn:Eg; [|discriminate].
    cbn [gv_ref] in H. inversion H; subst parts; clear H.
    destruct (HG g gs Eg) as (packs & ents & HI).
    rewrite (proj1 (proj2 (GroupStore_proofs.fin_delta _ _ _ g gs packs ents HI))).
    pose proof (GroupStore_inv.inv_ref _ _ _ _ _ _ _ _ _ _ HI) as Hr.
    destruct (is_lz g) eqn:Elz.
    - destruct (b_reference (g_buf gs)) as [r|].
      + destruct Hr as (_ & Hparts & s0 & Hs0 & Hdata). right. exists r. split; [exact Hparts|].
        assert (Hin : In s0 (GroupStore.segs_of gops g)).
        { apply (Permutation_in _ (HP g)). apply in_map_iff. exists (s0, 0). split; [reflexivity|].
          unfold regs_of, get_group. rewrite Eg. exact Hs0. }
        destruct (Hops g s0 Hin) as (_ & _ & H16). unfold is_lz in Elz. apply N.leb_le in Elz.
        rewrite <- Hdata. exact (proj1 (H16 Elz)).
      + destruct Hr as (_ & Hparts & _). left. exact Hparts.
    - destruct Hr as (_ & _ & Hparts). left. exact Hparts.
  Qed.

  Lemma pop_last_snoc : forall (c : list N) m, ReaderState.pop_last (c ++ [m]) = Some (c, m).
  Proof.
    intros c m. rewrite pop_last_spec by (destruct c; discriminate). rewrite removelast_last, last_last. reflexivity.
  Qed.

  (* the sizes condition of C08's decoders_agree_when_sizes_ok on one stored reference part, as the container hands
     it back (an empty part as ([], 0)) *)
  Lemma ref_part_sizes : forall r body mk x, ref_dom r ->
    let p := swap_item (sp_view (unswap (GroupStore_inv.ref_part (m_cref zc) r))) in
    fst (ReaderState.get_part p) <> 0 ->
    ReaderState.pop_last (snd (ReaderState.get_part p)) = Some (body, mk) ->
    file_dz zd body mk = Ok x ->
    lenN x = fst (ReaderState.get_part p) /\ 3 <= lenN x.
  Proof.
    intros r body mk x Hdom p Hne Hpop Hdz.
    destruct (proj1 (codecs_instance_proof zc zd Hzd Hzc mml level Hmml) r Hdom) as [Hdec Hnonempty].
    unfold p, GroupStore_inv.ref_part, store_part in *. clear p.
    set (c := fst (m_cref zc r)) in *. set (m := snd (m_cref zc r)) in *.
    destruct (lenN (c ++ [m]) <? lenN r) eqn:Elt.
    - assert (Ev : sp_view (unswap (lenN r, c ++ [m])) = (c ++ [m], lenN r)).
      { unfold unswap, sp_view. cbn [fst snd]. destruct (c ++ [m]) eqn:E; [destruct c; discriminate|reflexivity]. }
      rewrite Ev in *. unfold swap_item in *. cbn [fst snd] in *.
      assert (Eg : ReaderState.get_part (lenN r, c ++ [m]) = (lenN r, c ++ [m])).
      { unfold ReaderState.get_part. cbn [snd]. destruct (c ++ [m]) eqn:E; [destruct c; discriminate|reflexivity]. }
      rewrite Eg in *. cbn [fst snd] in *. rewrite pop_last_snoc in Hpop. inversion Hpop; subst body mk.
      change (file_dz zd c m) with (dwm zd c m) in Hdz. rewrite Hdec in Hdz. inversion Hdz; subst x.
      split; [reflexivity|]. apply N.ltb_lt in Elt. unfold lenN in *. rewrite app_length in Elt. cbn [length] in Elt.
      destruct c; [contradiction|]. cbn [length] in Elt. lia.
    - exfalso. apply Hne. unfold unswap, sp_view, swap_item, ReaderState.get_part. cbn [fst snd].
      destruct r; reflexivity.
  Qed.
End RefParts.

(* ------------------------------------------------------------------ Range.wf on the written file
   (the hypotheses of AgcV3_compose.writer_conforms_proof; the conclusion is about every way the reader can have opened
   the file, so that it plugs into ReaderGrand_range.answer_user) *)
Section WriterWf.
  Variable zc : N -> list N -> list N.
  Variable zd : list N -> option (list N).
  Hypothesis Hzd : forall l x, zd (zc l x) = Some x.
  Hypothesis Hzc : forall l x, zc l x <> [].
  Variable k mml ss level : N.
  Hypothesis Hmml : 4 <= mml.
  Hypothesis Hk32 : k < two32.
  Hypothesis Hm32 : mml < two32.
  Hypothesis Hs32 : ss < two32.
  Hypothesis Hssk : ss + k <= 2147483648.
  Variable gops : list op.
  Variable st : store.
  Hypothesis Hrun : run (m_lz_enc mml) (m_cref zc) (m_cpack zc level) gops = Ok st.
  Hypothesis Hops : GroupStore_proofs.ops_ok ref_dom (lz_dom mml) gops.
  Variable L : layout.
  Variable c cw : coll.
  Variable a : arch.
  Hypothesis Hsamples : samples c = samples_of L.
  Hypothesis Hss : segment_size c = ss.
  Hypothesis Hkk : kmer_length c = k.
  Hypothesis Hn : lenN (samples c) < 4294967296.
  Hypothesis Hnames : Forall (fun s => Forall (fun b => 1 <= b < 128) (sname s)) (samples c).
  Hypothesis Hbatches : Forall (Collection_proofs.batch_ok zc ss k)
                               (Collection_proofs.chunks (length (samples c)) (N.to_nat SPEC_CATALOGUE_BATCH) (samples c)).
  Hypothesis Hstore : store_all zc SPEC_CATALOGUE_BATCH c arch_empty = Ok (cw, a).
  Hypothesis Hplaced : forall p, placed_in L p -> In (pl_seg p, pl_id p) (regs_of st (pl_group p)).
  Hypothesis Hoverlap : forall sm ct, In sm L -> In ct (snd sm) ->
                        Forall (fun p => k <= lenN (s_data (pl_seg p))) (tl (snd ct)).
  Variable ops : list wop.
  Hypothesis Hwf : Forall wop_wf ops.
  Let w := fst (wrun w_init ops).
  Let s := fst (sp_run sp_init ops).
  Hypothesis Hlen : lenN (close w) <= spec_max_off.
  Hypothesis Hparams : sp_parts s SPEC_NAME_PARAMS = Some [(encode_params k mml ss, SPEC_PARAMS_METADATA)].
  Hypothesis Hsam : sp_parts s SPEC_NAME_SAMPLES = Some (a_samples a).
  Hypothesis Hcon : sp_parts s SPEC_NAME_CONTIGS = Some (a_contigs a).
  Hypothesis Hdet : sp_parts s SPEC_NAME_DETAILS = Some (a_details a).
  Hypothesis Hgroups : forall p, placed_in L p ->
    sp_parts s (stream_ref_name (pl_group p)) =
      option_map (map unswap) (gv_ref (view_of (finalize (m_cpack zc level) st) (pl_group p))) /\
    sp_parts s (stream_delta_name (pl_group p)) =
      option_map (map unswap) (gv_delta (view_of (finalize (m_cpack zc level) st) (pl_group p))).

  Lemma writer_wf_proof : forall rd p a' c',
    open_archive (close w) = Ok rd -> read_params rd = Ok p -> coll_arch rd = Ok a' ->
    load_all zd (p_segsize p) (p_k p) a' = Ok c' ->
    p_k p < two32 /\
    forall smp ct rs, In smp (samples c') -> In ct (scontigs smp) ->
      mapM (decode_seg zd rd (p_mml p)) (csegs ct) = Ok rs -> Range.wf (p_k p) rs.
  Proof.
    intros rd p a' c' Ho Hp Ha Hl.
    destruct (catalogue_half_proof zc zd Hzd Hzc ss k Hssk c cw a Hss Hkk Hn Hnames Hbatches Hstore ops Hwf Hlen
                Hsam Hcon Hdet) as [rd2 [cr [Hopen [Hitems [Hcoll [Hload [Hsm _]]]]]]].
    fold w in Hopen. fold s in Hitems. rewrite Ho in Hopen. inversion Hopen; subst rd2; clear Hopen.
    assert (Hp' : read_params rd = Ok (mkParams k mml SPEC_PACK_CARDINALITY ss None 16)).
    { unfold read_params. rewrite Hitems. cbn [obnd]. rewrite sp_items_parts, Hparams. cbn [option_map map].
      assert (E : sp_view (encode_params k mml ss, SPEC_PARAMS_METADATA) = (encode_params k mml ss, SPEC_PARAMS_METADATA))
        by (unfold encode_params; cbn [le_bytes app]; reflexivity).
      rewrite E. cbn [fst]. apply decode_encode_params; assumption. }
    rewrite Hp in Hp'. inversion Hp'; subst p; clear Hp'. cbn [p_k p_mml p_segsize] in *.
    rewrite Ha in Hcoll. inversion Hcoll; subst a'; clear Hcoll.
    rewrite Hl in Hload. inversion Hload; subst c'; clear Hload.
    split; [exact Hk32|]. intros smp ct rs Hsmp Hct Hm. rewrite Hsm, Hsamples in Hsmp.
    unfold samples_of in Hsmp. apply in_map_iff in Hsmp. destruct Hsmp as (sm & <- & Hsmin).
    cbn [scontigs] in Hct. apply in_map_iff in Hct. destruct Hct as (ct0 & <- & Hctin). cbn [csegs] in Hm.
    assert (Hrs : mapM (decode_seg zd rd mml) (map pl_desc (snd ct0)) = Ok (map pl_rseg (snd ct0))).
    { apply mapM_map_ok. intros p Hpin. assert (Hpl : placed_in L p) by (exists sm, ct0; auto).
      destruct (Hgroups p Hpl) as [Hr Hd].
      destruct (segment_half_proof zc zd Hzd Hzc mml level Hmml gops st Hrun Hops ops rd Hitems (pl_group p) Hr Hd
                  (pl_seg p) (pl_id p) (Hplaced p Hpl)) as [Hg _].
      unfold decode_seg.
      change (desc_of_seg (pl_desc p)) with (desc_of (pl_group p) (pl_seg p) (pl_id p)).
      rewrite Hg. reflexivity. }
    rewrite Hrs in Hm. inversion Hm; subst rs; clear Hm.
    split.
    - apply Forall_forall. intros r Hr. apply in_map_iff in Hr. destruct Hr as [p [<- Hpin]].
      assert (Hpl : placed_in L p) by (exists sm, ct0; auto).
      destruct (Hgroups p Hpl) as [Hr Hd].
      destruct (segment_half_proof zc zd Hzd Hzc mml level Hmml gops st Hrun Hops ops rd Hitems (pl_group p) Hr Hd
                  (pl_seg p) (pl_id p) (Hplaced p Hpl)) as [_ Hlen'].
      cbn [pl_rseg Range.rs_raw rs_data]. exact Hlen'.
    - rewrite tl_map. apply Forall_forall. intros r Hr. apply in_map_iff in Hr. destruct Hr as [p [<- Hpin]].
      pose proof (Hoverlap sm ct0 Hsmin Hctin) as Ho'. rewrite Forall_forall in Ho'. cbn [pl_rseg rs_data]. apply Ho'. exact Hpin.
  Qed.
End WriterWf.

(* ------------------------------------------------------------------ the file of model_build *)
Section Build.
  Variable zc : N -> list N -> list N.
  Variable zd : list N -> option (list N).
  Hypothesis Hzd : forall l x, zd (zc l x) = Some x.
  Hypothesis Hzc : forall l x, zc l x <> [].
  Variable ecn : Pipeline.name -> Pipeline.name.
  Variables (k mml segsize level : N).
  Variable spl : N -> bool.
  Variable dec : nat -> nat -> decision.
  Variable grp : nat -> nat -> N.
  Variable sched : list registration -> list registration.
  Variable gops : list op.
  Variable fti : Container.item.
  Variable samples : list (Pipeline.name * list (Pipeline.name * list N)).
  Hypothesis Hk : 1 <= k <= 32.
  Hypothesis Hmml : 4 <= mml.
  Hypothesis Hm32 : mml < two32.
  Hypothesis Hs32 : segsize < two32.
  Hypothesis Hssk : segsize + k <= 2147483648.
  Hypothesis Hin : inputs_ok samples.
  Hypothesis Hdom : inputs_in_dom mml (pushes_of samples).
  Hypothesis Hdec : decisions_ok k spl segsize dec (pushes_of samples).
  Hypothesis Hlz : lz_contigs_nonempty (pushes_of samples) grp.
  Hypothesis Hgrp : forall i part, grp i part < two32.
  Hypothesis Hsched : forall l, Permutation l (sched l).
  Hypothesis Hcarry : ops_carry (all_emit k spl segsize dec grp 0 (pushes_of samples)) gops.
  Variable b : built.
  Hypothesis Hb : model_build zc ecn k mml segsize level spl dec grp sched gops fti samples = Ok b.
  Hypothesis Hcat : catalogue_in_dom zc segsize k (mc_cat_of (b_coll b)).
  Hypothesis Hmeta : parts_meta_u64 (b_wops b).
  Hypothesis Hfile : lenN (b_file b) <= spec_max_off.

  Let Hz : zstd_ok zc zd := conj Hzd (fun l x _ => Hzc l x).

  (* what the reader finds under the name of ANY reference stream of the file *)
  Lemma build_ref_streams : forall rd, open_archive (b_file b) = Ok rd ->
    forall g p, file_ref rd g = Some p ->
    exists r, ref_dom r /\ p = swap_item (sp_view (unswap (GroupStore_inv.ref_part (m_cref zc) r))).
  Proof.
    intros rd Hopen g p Hp.
    pose proof (history_wf_proof _ _ _ _ _ _ _ _ _ _ _ _ _ _ Hb Hmeta) as Hwf.
    pose proof Hb as Hb'. unfold model_build, obnd in Hb'.
    destruct (run (mc_lz_enc mml) (mc_cref zc) (mc_cpack zc level) gops) as [st| |] eqn:Hrun; try discriminate.
    destruct (create ecn k spl segsize dec (mc_store_addr k spl segsize dec grp (pushes_of samples) st) sched (pushes_of samples))
      as [[coll stored]| |] eqn:Hc; try discriminate.
    change (fst (coll, stored)) with coll in Hb'. change (snd (coll, stored)) with stored in Hb'.
    destruct (store_all zc W_CATALOGUE_BATCH (mc_coll segsize k coll) arch_empty) as [[cw a]| |] eqn:Hst; try discriminate.
    change (snd (cw, a)) with a in Hb'. cbv zeta in Hb'.
    apply ok_inj in Hb'. subst b. unfold b_wops in Hwf. unfold b_file in Hfile, Hopen.
    set (fin := finalize (mc_cpack zc level) st) in *.
    set (fp := fixed_plan k mml segsize a fti) in *.
    set (gp := group_plan fin (groups_of gops)) in *.
    assert (Hrel : store_fed_by stored gops /\ addresses_from_store stored st /\ pieces_in_dom mml stored).
    { pose proof Hc as Hc'. unfold create in Hc'.
      destruct (register_all ecn [] (pushes_of samples)) as [coll0| |]; cbn [obnd] in Hc'; try discriminate.
      destruct (all_regs k spl segsize dec _ 0 (pushes_of samples)) as [regs| |] eqn:Ea; cbn [obnd] in Hc'; try discriminate.
      inversion Hc'; subst coll stored; clear Hc'.
      destruct (store_addr_consistent_proof k spl segsize dec grp _ _ _ (pushes_of samples) gops st regs
                  ltac:(lia) Hdec Hcarry Hrun Ea) as [Hf Ha].
      split; [exact Hf|]. split; [exact Ha|].
      apply (pieces_in_dom_from_inputs_proof k spl segsize dec (store_addr k spl segsize dec grp (pushes_of samples) st)
               (pushes_of samples) regs mml Hk Hmml Hdec Hdom); [exact Hlz|exact Ea]. }
    destruct Hrel as (Hfed & Haddr & Hpdom).
    pose proof (fed_in_dom mml stored gops Hfed Hpdom) as Hcops.
    pose proof (ops_ok_weaken mml gops Hcops) as Hops.
    assert (Hgroups_nd : NoDup (groups_of gops)) by (exact (proj1 (dedupN_spec _ []))).
    assert (Hgroups_b : Forall (fun g => g < two32) (groups_of gops)).
    { apply Forall_forall. intros g0 Hg. apply groups_of_in in Hg. destruct Hg as (o & Ho & Eo & Hne).
      destruct (snd o) as [|sg rest] eqn:Es; [contradiction|].
      assert (Hsg : In sg (GroupStore.segs_of gops g0)).
      { apply segs_of_in. exists o. rewrite Es. split; [exact Ho|]. split; [exact Eo|]. left. reflexivity. }
      apply (Permutation_in _ (Hcarry g0)) in Hsg. apply in_map_iff in Hsg. destruct Hsg as ([g' sg'] & _ & Hf).
      apply filter_In in Hf. destruct Hf as [Hem Eg]. cbn [fst] in Eg. apply N.eqb_eq in Eg. subst g'.
      apply all_emit_in in Hem. destruct Hem as (i & s & c & pc & _ & E). inversion E. apply Hgrp. }
    assert (Hfpl : length fp = 7%nat) by reflexivity.
    assert (Hnd : NoDup (map fst (fp ++ gp))) by (exact (plan_names_nodup k mml segsize a fti fin (groups_of gops) Hgroups_nd Hgroups_b)).
    (* the container *)
    destruct (open_ok (model_wops fp gp) Hwf Hfile) as (rd' & Hopen' & Hitems).
    rewrite Hopen in Hopen'. inversion Hopen'; subst rd'; clear Hopen'.
    unfold file_ref, group_view_of in Hp. rewrite !Hitems in Hp. cbn [obnd gv_ref] in Hp.
    rewrite sp_items_parts in Hp.
    destruct (sp_parts (fst (sp_run sp_init (model_wops fp gp))) (stream_ref_name g)) as [items|] eqn:Ei; [|discriminate].
    cbn [option_map] in Hp.
    destruct (model_stream_inv fp gp Hfpl Hnd _ _ Ei) as (e & He & Ename & Eitems).
    apply in_app_or in He. destruct He as [He|He].
    - exfalso. apply (ref_name_not_fixed g). rewrite <- Ename.
      change SPEC_FIXED_NAMES with (map fst fp). apply in_map. exact He.
    - unfold gp, group_plan in He. apply in_flat_map in He. destruct He as (g' & Hg' & He).
      cbn [In] in He. destruct He as [<-|[<-|[]]]; cbn [fst snd] in *.
      + exfalso. exact (ref_name_not_delta g g' (eq_sym Ename)).
      + subst items. destruct (gv_ref (view_of fin g')) as [parts|] eqn:Ev; cbn [opt_items map] in Hp.
        * destruct (fin_ref_parts zc mml level gops st Hrun Hops g' parts Ev) as [->|(r & -> & Hr)].
          -- cbn [map] in Hp. discriminate.
          -- cbn [map] in Hp. exists r. split; [exact Hr|]. unfold nthN in Hp. cbn in Hp. inversion Hp. reflexivity.
        * cbn [map] in Hp. discriminate.
  Qed.

  (* hypothesis (A) of C08 on the archive of the written file *)
  Lemma build_agree : forall rd ar, open_archive (b_file b) = Ok rd -> ReaderState.ar_ref ar = file_ref rd ->
    forall g p, 16 <= g -> ReaderState.ar_ref ar g = Some p ->
    ReaderState.ref_via_segment (file_dz zd) (ReaderState.get_part p) =
    ReaderState.ref_via_query (file_dz zd) (ReaderState.get_part p).
  Proof.
    intros rd ar Hopen Href.
    apply (ReaderState_proofs.decoders_agree_pin (file_dz zd) ar).
    intros g p body mk r Hg Hp Hne Hpop Hdz. rewrite Href in Hp.
    destruct (build_ref_streams rd Hopen g p Hp) as (r0 & Hr0 & ->).
    exact (ref_part_sizes zc zd Hzd Hzc mml level Hmml r0 body mk r Hr0 Hne Hpop Hdz).
  Qed.

  (* Range.wf for every contig of the written file, however the reader opened it *)
  Lemma build_wf : forall rd p a' c', open_archive (b_file b) = Ok rd -> read_params rd = Ok p -> coll_arch rd = Ok a' ->
    load_all zd (p_segsize p) (p_k p) a' = Ok c' ->
    p_k p < two32 /\
    forall smp ct rs, In smp (Collection.samples c') -> In ct (scontigs smp) ->
      mapM (decode_seg zd rd (p_mml p)) (csegs ct) = Ok rs -> Range.wf (p_k p) rs.
  Proof.
    pose proof (history_wf_proof _ _ _ _ _ _ _ _ _ _ _ _ _ _ Hb Hmeta) as Hwf.
    pose proof Hb as Hb'. unfold model_build, obnd in Hb'.
    destruct (run (mc_lz_enc mml) (mc_cref zc) (mc_cpack zc level) gops) as [st| |] eqn:Hrun; try discriminate.
    destruct (create ecn k spl segsize dec (mc_store_addr k spl segsize dec grp (pushes_of samples) st) sched (pushes_of samples))
      as [[coll stored]| |] eqn:Hc; try discriminate.
    change (fst (coll, stored)) with coll in Hb'. change (snd (coll, stored)) with stored in Hb'.
    destruct (store_all zc W_CATALOGUE_BATCH (mc_coll segsize k coll) arch_empty) as [[cw a]| |] eqn:Hst; try discriminate.
    change (snd (cw, a)) with a in Hb'. cbv zeta in Hb'.
    apply ok_inj in Hb'. subst b. unfold b_coll in Hcat. unfold b_wops in Hwf. unfold b_file in Hfile. unfold b_file.
    set (fin := finalize (mc_cpack zc level) st) in *.
    set (fp := fixed_plan k mml segsize a fti) in *.
    set (gp := group_plan fin (groups_of gops)) in *.
    assert (Hrel : store_fed_by stored gops /\ addresses_from_store stored st /\ pieces_in_dom mml stored).
    { pose proof Hc as Hc'. unfold create in Hc'.
      destruct (register_all ecn [] (pushes_of samples)) as [coll0| |]; cbn [obnd] in Hc'; try discriminate.
      destruct (all_regs k spl segsize dec _ 0 (pushes_of samples)) as [regs| |] eqn:Ea; cbn [obnd] in Hc'; try discriminate.
      inversion Hc'; subst coll stored; clear Hc'.
      destruct (store_addr_consistent_proof k spl segsize dec grp _ _ _ (pushes_of samples) gops st regs
                  ltac:(lia) Hdec Hcarry Hrun Ea) as [Hf Ha].
      split; [exact Hf|]. split; [exact Ha|].
      apply (pieces_in_dom_from_inputs_proof k spl segsize dec (store_addr k spl segsize dec grp (pushes_of samples) st)
               (pushes_of samples) regs mml Hk Hmml Hdec Hdom); [exact Hlz|exact Ea]. }
    destruct Hrel as (Hfed & Haddr & Hpdom).
    pose proof (fed_in_dom mml stored gops Hfed Hpdom) as Hcops.
    pose proof (create_stored_len _ _ _ _ _ _ _ _ _ _ Hc) as Hslen.
    pose proof (stored_ok_from_groupstore_proof zc zd Hz mml level stored gops st Hslen Hpdom Hfed Hrun Haddr) as Hsok.
    set (get := store_get zc zd mml level st) in *.
    set (get' := guarded stored get).
    destruct (create_extract_roundtrip_proof ecn get' k spl segsize dec _ sched samples coll stored Hk Hin Hdec Hsched Hc
                (guarded_stored_ok stored get Hsok)) as [_ Hext].
    destruct (extract_all_agree get' k coll samples Hext (proj1 Hin)) as [Esamples Hfine].
    assert (Hback : all_descs (fun d => desc_backed st d /\ got get' d = s_data (seg_pick st d)) coll).
    { apply all_descs_intro. intros s c d Hs Hcin Hd.
      rewrite Forall_forall in Hfine. specialize (Hfine s Hs). rewrite Forall_forall in Hfine.
      destruct (Hfine c Hcin) as [Hr _]. rewrite Forall_forall in Hr.
      destruct (guarded_reads stored get d (Hr d Hd)) as [[b0 Hdb] Eg].
      destruct (Haddr d b0 Hdb) as (s0 & Hreg & Hdata & Hrc).
      assert (Hbk : desc_backed st d).
      { apply (seg_pick_ok st d s0 Hreg Hrc). rewrite Hdata. symmetry. exact (Hslen d b0 Hdb). }
      split; [exact Hbk|]. destruct Hbk as (Hreg' & Hrc' & Hlen').
      destruct (store_then_get_concrete_proof zc zd mml level Hz gops st (Pipeline.d_group d) (seg_pick st d) (Pipeline.d_id d)
                  Hcops Hrun Hreg') as [Hget _].
      assert (Ed : desc_of (Pipeline.d_group d) (seg_pick st d) (Pipeline.d_id d) = rdesc d).
      { unfold desc_of, rdesc. rewrite Hrc', Hlen'. reflexivity. }
      rewrite Ed in Hget. unfold got, get'. rewrite Eg. unfold get, store_get. rewrite Hget. reflexivity. }
    assert (Hback1 : all_descs (desc_backed st) coll).
    { apply all_descs_intro. intros s c d Hs Hcin Hd. exact (proj1 (all_descs_in _ _ Hback s c d Hs Hcin Hd)). }
    assert (Hgroups_nd : NoDup (groups_of gops)) by (exact (proj1 (dedupN_spec _ []))).
    assert (Hgroups_b : Forall (fun g => g < two32) (groups_of gops)).
    { apply Forall_forall. intros g Hg. apply groups_of_in in Hg. destruct Hg as (o & Ho & Eo & Hne).
      destruct (snd o) as [|sg rest] eqn:Es; [contradiction|].
      assert (Hsg : In sg (GroupStore.segs_of gops g)).
      { apply segs_of_in. exists o. rewrite Es. split; [exact Ho|]. split; [exact Eo|]. left. reflexivity. }
      apply (Permutation_in _ (Hcarry g)) in Hsg. apply in_map_iff in Hsg. destruct Hsg as ([g' sg'] & _ & Hf).
      apply filter_In in Hf. destruct Hf as [Hem Eg]. cbn [fst] in Eg. apply N.eqb_eq in Eg. subst g'.
      apply all_emit_in in Hem. destruct Hem as (i & s & c & pc & _ & E). inversion E. apply Hgrp. }
    assert (Hplaced_group : forall d, desc_backed st d -> In (Pipeline.d_group d) (groups_of gops) /\ st (Pipeline.d_group d) <> None).
    { intros d (Hreg & _ & _). split.
      - apply groups_of_in.
        assert (Hs : In (seg_pick st d) (GroupStore.segs_of gops (Pipeline.d_group d))).
        { apply (Permutation_in _ (GroupStore_rules.every_segment_registered_proof _ _ _ gops st (Pipeline.d_group d) Hrun)).
          apply in_map_iff. exists (seg_pick st d, Pipeline.d_id d). split; [reflexivity|exact Hreg]. }
        apply segs_of_in in Hs. destruct Hs as (o & Ho & Eo & Hs). exists o. split; [exact Ho|]. split; [exact Eo|].
        intro E. rewrite E in Hs. contradiction.
      - intro E. unfold regs_of, get_group in Hreg. rewrite E in Hreg. cbn in Hreg. contradiction. }
    assert (Hfpl : length fp = 7%nat) by reflexivity.
    assert (Hnd : NoDup (map fst (fp ++ gp))) by (exact (plan_names_nodup k mml segsize a fti fin (groups_of gops) Hgroups_nd Hgroups_b)).
    pose proof (model_stream_state fp gp Hfpl Hnd) as Hstate.
    set (L := layout_of st coll).
    assert (Hcat' : catalogue_in_dom zc segsize k (cat_of coll)) by exact Hcat.
    destruct Hcat' as (Hn & Hnames & Hbatches).
    pose proof (writer_wf_proof zc zd Hzd Hzc k mml segsize level Hmml ltac:(unfold two32; lia) Hm32 Hs32 Hssk
                  gops st Hrun (ops_ok_weaken mml gops Hcops) L (mc_coll segsize k coll) cw a
                  (eq_sym (layout_samples st coll Hback1)) eq_refl eq_refl Hn Hnames Hbatches Hst) as HW.
    apply HW; clear HW.
    - intros p Hp. destruct (layout_placed st coll p Hp) as (s & c & d & Hs & Hcin & Hd & ->).
      exact (proj1 (all_descs_in _ _ Hback1 s c d Hs Hcin Hd)).
    - intros sm ct Hsm Hct. unfold L, layout_of in Hsm. apply in_map_iff in Hsm. destruct Hsm as (s & <- & Hs).
      cbn [snd] in Hct. apply in_map_iff in Hct. destruct Hct as (c & <- & Hcin). cbn [snd].
      rewrite tl_map. rewrite Forall_forall in Hfine. specialize (Hfine s Hs). rewrite Forall_forall in Hfine.
      destruct (Hfine c Hcin) as [_ Hl]. apply Forall_forall. intros p Hp. apply in_map_iff in Hp. destruct Hp as (d & <- & Hd).
      cbn [placed_of pl_seg]. rewrite Forall_forall in Hl. specialize (Hl d Hd).
      assert (Hd' : In d (snd c)) by (destruct (snd c); [contradiction|right; exact Hd]).
      rewrite (proj2 (all_descs_in _ _ Hback s c d Hs Hcin Hd')) in Hl. exact Hl.
    - exact Hwf.
    - exact Hfile.
    - exact (Hstate (W_NAME_FIXED_1, [(w_params k mml segsize, W_PARAMS_METADATA)]) ltac:(apply in_or_app; left; cbn; tauto)).
    - exact (Hstate (W_NAME_COLL_0, a_samples a) ltac:(apply in_or_app; left; cbn; tauto)).
    - exact (Hstate (W_NAME_COLL_1, a_contigs a) ltac:(apply in_or_app; left; cbn; tauto)).
    - exact (Hstate (W_NAME_COLL_2, a_details a) ltac:(apply in_or_app; left; cbn; tauto)).
    - intros p Hp. destruct (layout_placed st coll p Hp) as (s & c & d & Hs & Hcin & Hd & ->). cbn [placed_of pl_group].
      destruct (Hplaced_group d (all_descs_in _ _ Hback1 s c d Hs Hcin Hd)) as [Hg Hsome].
      set (g := Pipeline.d_group d) in *.
      assert (Hview : exists r dl, view_of fin g = {| gv_ref := Some r; gv_delta := Some dl |}).
      { unfold view_of, fin, finalize. destruct (st g) as [gs|]; [|contradiction]. eauto. }
      destruct Hview as (r & dl & Ev). change (finalize (m_cpack zc level) st) with fin. rewrite Ev. cbn [gv_ref gv_delta option_map].
      assert (Hing : forall e, In e [ (w_delta_name g, opt_items (gv_delta (view_of fin g)));
                                     (w_ref_name g, opt_items (gv_ref (view_of fin g))) ] -> In e (fp ++ gp)).
      { intros e He. apply in_or_app. right. unfold gp, group_plan. apply in_flat_map. exists g. split; [exact Hg|exact He]. }
      split.
      + pose proof (Hstate _ (Hing _ (or_intror (or_introl eq_refl)))) as H1. cbn [fst snd] in H1. rewrite Ev in H1. exact H1.
      + pose proof (Hstate _ (Hing _ (or_introl eq_refl))) as H1. cbn [fst snd] in H1. rewrite Ev in H1. exact H1.
  Qed.

  (* contig lengths of the input are far below isize::MAX *)
  Lemma build_sizes : forall x y, In x samples -> In y (snd x) -> lenN (snd y) <= isize_max.
  Proof.
    intros x y Hx Hy.
    assert (Hp : In (fst x, fst y, snd y) (pushes_of samples)).
    { unfold pushes_of. apply in_flat_map. exists x. split; [exact Hx|]. apply in_map_iff. exists y. auto. }
    destruct (Hdom _ _ _ Hp) as [_ Hl]. unfold isize_max. clear - Hl. lia.
  Qed.

  Lemma build_decodes : decode zd (b_file b) = Ok samples.
  Proof.
    exact (grand_roundtrip_proof zc zd Hzd Hzc ecn k mml segsize level spl dec grp sched gops fti samples
             Hk Hmml Hm32 Hs32 Hssk Hin Hdom Hdec Hlz Hgrp Hsched Hcarry b Hb Hcat Hmeta Hfile).
  Qed.

  (* the archive of the written file: C08's W1, W2, A hold; every history gives the stateless answer; the stateless
     answer to a names / contig-list / whole-sample / single-contig query is the INPUT's *)
  Theorem build_view : exists ar rd p c, file_view zd (b_file b) samples ar rd p c /\
    (forall g pt, 16 <= g -> ReaderState.ar_ref ar g = Some pt ->
       ReaderState.ref_via_segment (file_dz zd) (ReaderState.get_part pt) =
       ReaderState.ref_via_query (file_dz zd) (ReaderState.get_part pt)).
  Proof.
    destruct (file_view_of_decode zd _ _ build_decodes) as (ar & rd & p & c & FV).
    exists ar, rd, p, c. split; [exact FV|].
    exact (build_agree rd ar (fv_open _ _ _ _ _ _ _ FV) (fv_ref _ _ _ _ _ _ _ FV)).
  Qed.
End Build.

(* (3)+(4): the headline *)
Theorem reader_history_grand_proof :
  forall (zc : N -> list N -> list N) (zd : list N -> option (list N)),
  (forall l x, zd (zc l x) = Some x) -> (forall l x, zc l x <> []) ->
  forall ecn k mml segsize level spl dec grp sched gops fti
         (samples : list (Pipeline.name * list (Pipeline.name * list N))),
  1 <= k <= 32 -> 4 <= mml -> mml < two32 -> segsize < two32 -> segsize + k <= 2147483648 ->
  inputs_ok samples -> inputs_in_dom mml (pushes_of samples) ->
  decisions_ok k spl segsize dec (pushes_of samples) ->
  lz_contigs_nonempty (pushes_of samples) grp ->
  (forall i part, grp i part < two32) ->
  (forall l, Permutation l (sched l)) ->
  ops_carry (all_emit k spl segsize dec grp 0 (pushes_of samples)) gops ->
  forall b : built,
  model_build zc ecn k mml segsize level spl dec grp sched gops fti samples = Ok b ->
  catalogue_in_dom zc segsize k (mc_cat_of (b_coll b)) ->
  parts_meta_u64 (b_wops b) ->
  lenN (b_file b) <= spec_max_off ->
  exists ar, archive_of_file zd (b_file b) = Ok ar /\
    Forall (fun ob : option ReaderState.batch => ob <> None) (ReaderState.ar_batches ar) /\
    (length (ReaderState.all_entries ar) <= length (ReaderState.ar_names ar))%nat /\
    (forall g p, 16 <= g -> ReaderState.ar_ref ar g = Some p ->
       ReaderState.ref_via_segment (file_dz zd) (ReaderState.get_part p) =
       ReaderState.ref_via_query (file_dz zd) (ReaderState.get_part p)) /\
    (forall h q, ReaderState.ask_after (file_dz zd) ar h q = ReaderState.answer (file_dz zd) ar q) /\
    (forall h q v, user_query q -> input_answer samples q = Some v ->
       ReaderState.ask_after (file_dz zd) ar h q = v /\ v <> Panic).
Proof.
  intros zc zd Hzd Hzc ecn k mml segsize level spl dec grp sched gops fti samples Hk Hmml Hm32 Hs32 Hssk Hin Hdom Hdec
    Hlz Hgrp Hsched Hcarry b Hb Hcat Hmeta Hfile.
  destruct (build_view zc zd Hzd Hzc ecn k mml segsize level spl dec grp sched gops fti samples Hk Hmml Hm32 Hs32 Hssk
              Hin Hdom Hdec Hlz Hgrp Hsched Hcarry b Hb Hcat Hmeta Hfile) as (ar & rd & p & c & FV & HA).
  destruct (fv_load _ _ _ _ _ _ _ FV) as (a' & Ea' & El').
  destruct (build_wf zc zd Hzd Hzc ecn k mml segsize level spl dec grp sched gops fti samples Hk Hmml Hm32 Hs32 Hssk
              Hin Hdom Hdec Hlz Hgrp Hsched Hcarry b Hb Hcat Hmeta Hfile rd p a' c
              (fv_open _ _ _ _ _ _ _ FV) (fv_params _ _ _ _ _ _ _ FV) Ea' El') as [Hk32 Hw].
  assert (Hsz : forall x y, In x samples -> In y (snd x) -> lenN (snd y) <= isize_max)
    by (intros x y Hx Hy; eapply build_sizes; eassumption).
  pose proof (fv_w1 _ _ _ _ _ _ _ FV) as W1. pose proof (fv_w2 _ _ _ _ _ _ _ FV) as W2.
  exists ar. split; [exact (fv_archive _ _ _ _ _ _ _ FV)|]. split; [exact W1|]. split; [exact W2|]. split; [exact HA|].
  assert (HI : forall h q, ReaderState.ask_after (file_dz zd) ar h q = ReaderState.answer (file_dz zd) ar q)
    by exact (ReaderState_proofs.history_independent_pin (file_dz zd) ar W1 W2 HA).
  split; [exact HI|]. intros h q v Hq Hv. split; [|exact (input_answer_quiet _ _ _ Hv)].
  rewrite HI. exact (answer_user zd _ _ ar rd p c FV Hk32 Hw Hsz q v Hq Hv).
Qed.

(* ------------------------------------------------------------------ never_panics on the written file, as far as it goes *)
Lemma Forall2_In_l : forall {A B} (R : A -> B -> Prop) l1 l2 x, Forall2 R l1 l2 -> In x l1 -> exists y, In y l2 /\ R x y.
Proof.
  induction 1 as [|a b0 l1 l2 Hab _ IH]; intro Hin; [contradiction|]. destruct Hin as [<-|Hin].
  - exists b0. split; [left; reflexivity|exact Hab].
  - destruct (IH Hin) as (y & Hy & Hr). exists y. split; [right; exact Hy|exact Hr].
Qed.

Lemma tail_lens : forall zd rd mml k xs rs, Forall2 (dseg_rel zd rd mml) xs rs ->
  Forall (fun s => rs_raw s = lenN (rs_data s)) rs -> Forall (fun s => k <= lenN (rs_data s)) rs ->
  Forall (fun d => k <= ReaderState.d_len d) (map conv_seg xs).
Proof.
  intros zd rd mml k xs rs H. induction H as [|x r xs rs (data & _ & ->) _ IH]; intros F1 F2; cbn [map]; [constructor|].
  inversion F1 as [|? ? H1 F1']; subst. inversion F2 as [|? ? H2 F2']; subst. cbn [rs_raw rs_data] in *.
  constructor; [|exact (IH F1' F2')]. cbn [conv_seg ReaderState.d_len]. rewrite H1. exact H2.
Qed.

Theorem written_file_never_panics_partial_proof :
  forall (zc : N -> list N -> list N) (zd : list N -> option (list N)),
  (forall l x, zd (zc l x) = Some x) -> (forall l x, zc l x <> []) ->
  forall ecn k mml segsize level spl dec grp sched gops fti
         (samples : list (Pipeline.name * list (Pipeline.name * list N))),
  1 <= k <= 32 -> 4 <= mml -> mml < two32 -> segsize < two32 -> segsize + k <= 2147483648 ->
  inputs_ok samples -> inputs_in_dom mml (pushes_of samples) ->
  decisions_ok k spl segsize dec (pushes_of samples) ->
  lz_contigs_nonempty (pushes_of samples) grp ->
  (forall i part, grp i part < two32) ->
  (forall l, Permutation l (sched l)) ->
  ops_carry (all_emit k spl segsize dec grp 0 (pushes_of samples)) gops ->
  forall b : built,
  model_build zc ecn k mml segsize level spl dec grp sched gops fti samples = Ok b ->
  catalogue_in_dom zc segsize k (mc_cat_of (b_coll b)) ->
  parts_meta_u64 (b_wops b) ->
  lenN (b_file b) <= spec_max_off ->
  exists ar, archive_of_file zd (b_file b) = Ok ar /\
    (* never_panics' hypothesis on the descriptors: discharged *)
    (forall cs c d r, In cs (ReaderState.catalogue ar) -> In c cs -> snd c = d :: r ->
       Forall (fun x => ReaderState.ar_k ar <= ReaderState.d_len x) r) /\
    (* what remains: the decoders themselves do not panic *)
    ((forall g i r, ReaderState.ar_lz ar g i r <> Panic) -> (forall g i, ReaderState.ar_raw ar g i <> Panic) ->
     (forall body m, file_dz zd body m <> Panic) ->
     forall (h : list ReaderState.query) (q : ReaderState.query), ReaderState.ask_after (file_dz zd) ar h q <> Panic).
Proof.
  intros zc zd Hzd Hzc ecn k mml segsize level spl dec grp sched gops fti samples Hk Hmml Hm32 Hs32 Hssk Hin Hdom Hdec
    Hlz Hgrp Hsched Hcarry b Hb Hcat Hmeta Hfile.
  destruct (build_view zc zd Hzd Hzc ecn k mml segsize level spl dec grp sched gops fti samples Hk Hmml Hm32 Hs32 Hssk
              Hin Hdom Hdec Hlz Hgrp Hsched Hcarry b Hb Hcat Hmeta Hfile) as (ar & rd & p & c & FV & HA).
  destruct (fv_load _ _ _ _ _ _ _ FV) as (a' & Ea' & El').
  destruct (build_wf zc zd Hzd Hzc ecn k mml segsize level spl dec grp sched gops fti samples Hk Hmml Hm32 Hs32 Hssk
              Hin Hdom Hdec Hlz Hgrp Hsched Hcarry b Hb Hcat Hmeta Hfile rd p a' c
              (fv_open _ _ _ _ _ _ _ FV) (fv_params _ _ _ _ _ _ _ FV) Ea' El') as [Hk32 Hw].
  pose proof (fv_w1 _ _ _ _ _ _ _ FV) as W1. pose proof (fv_w2 _ _ _ _ _ _ _ FV) as W2.
  assert (Hlens : forall cs c0 d r, In cs (ReaderState.catalogue ar) -> In c0 cs -> snd c0 = d :: r ->
                  Forall (fun x => ReaderState.ar_k ar <= ReaderState.d_len x) r).
  { intros cs c0 d r Hcs Hc Hsnd. rewrite (fv_table _ _ _ _ _ _ _ FV) in Hcs. unfold table_of in Hcs.
    apply in_map_iff in Hcs. destruct Hcs as (smp & <- & Hsmp). unfold conv_row in Hc. apply in_map_iff in Hc.
    destruct Hc as (ct & <- & Hct). cbn [conv_contig snd] in Hsnd.
    destruct (Forall2_In_l _ _ _ smp (fv_rel _ _ _ _ _ _ _ FV) Hsmp) as (x & _ & (_ & Hcr)).
    destruct (Forall2_In_l _ _ _ ct Hcr Hct) as (y & _ & (_ & _ & rs & Em & _)).
    destruct (Hw smp ct rs Hsmp Hct Em) as [F1 F2].
    pose proof (mapM_dseg _ _ _ _ _ Em) as HF.
    destruct (csegs ct) as [|x0 xs]; [discriminate|]. cbn [map] in Hsnd. inversion Hsnd; subst d r; clear Hsnd.
    inversion HF as [|? r0 ? rs' _ HF']; subst. cbn [tl] in F2. inversion F1 as [|? ? _ F1']; subst.
    rewrite (fv_k _ _ _ _ _ _ _ FV). exact (tail_lens zd rd (p_mml p) (p_k p) xs rs' HF' F1' F2). }
  exists ar. split; [exact (fv_archive _ _ _ _ _ _ _ FV)|]. split; [exact Hlens|].
  intros Hq1 Hq2 Hq3 h q.
  exact (ReaderState_proofs.never_panics_pin (file_dz zd) ar W1 W2 HA Hq1 Hq2 Hq3 Hlens h q).
Qed.
