(* Registry_proofs.v - C01R: invariants of the group registry (model/Registry.v) over every sequence of sync rounds,
   every oracle answer, every configuration, every iteration order of s_seg_part. *)
From Coq Require Import Lia ZifyBool ZifyN ZifyNat Permutation.
From Ragc Require Import Mach Consts_segment Consts_registry GroupStore Registry.
Open Scope N_scope.
Arguments N.add : simpl never.
Arguments N.sub : simpl never.
Arguments N.mul : simpl never.
Arguments N.modulo : simpl never.
Arguments N.div : simpl never.
Ltac Zify.zify_post_hook ::= Z.div_mod_to_equations.

Lemma NRAW_eq : NRAW = 16. Proof. reflexivity. Qed.
Lemma two32_eq : two32 = 4294967296. Proof. reflexivity. Qed.
Lemma MISS_eq : MISS = 18446744073709551615. Proof. reflexivity. Qed.
Global Opaque NRAW MISS.

(* ------------------------------------------------------------------ keys and association lists *)
Lemma key_eqb_eq a b : key_eqb a b = true <-> a = b.
Proof.
  unfold key_eqb. destruct a as [a1 a2], b as [b1 b2]. cbn [fst snd]. split.
  - intro H. apply andb_true_iff in H. destruct H as [H1 H2]. apply N.eqb_eq in H1, H2. subst. reflexivity.
  - intro H. inversion H; subst. rewrite !N.eqb_refl. reflexivity.
Qed.
Lemma key_eqb_refl a : key_eqb a a = true. Proof. apply key_eqb_eq. reflexivity. Qed.
Lemma key_eqb_neq a b : key_eqb a b = false <-> a <> b.
Proof. split; intro H. - intro E. apply key_eqb_eq in E. congruence. - destruct (key_eqb a b) eqn:E; [apply key_eqb_eq in E; contradiction|reflexivity]. Qed.
Lemma key_dec (a b : key) : {a = b} + {a <> b}.
Proof. destruct (key_eqb a b) eqn:E; [left; apply key_eqb_eq; exact E|right; apply key_eqb_neq; exact E]. Qed.

Section KV.
  Context {V : Type}.
  Implicit Types m : list (key * V).

  Lemma kget_In m k v : kget m k = Some v -> In (k, v) m.
  Proof.
    induction m as [|[k' v'] m IH]; cbn [kget]; [discriminate|].
    destruct (key_eqb k' k) eqn:E; intro H.
    - apply key_eqb_eq in E. inversion H; subst. left. reflexivity.
    - right. apply IH. exact H.
  Qed.
  Lemma kget_None m k : kget m k = None <-> ~ In k (map fst m).
  Proof.
    induction m as [|[k' v'] m IH]; cbn [kget map fst In]; [tauto|].
    destruct (key_eqb k' k) eqn:E.
    - apply key_eqb_eq in E. subst. split; [discriminate|]. intro H. exfalso. apply H. left. reflexivity.
    - apply key_eqb_neq in E. rewrite IH. tauto.
  Qed.
  Lemma In_kget m k v : NoDup (map fst m) -> In (k, v) m -> kget m k = Some v.
  Proof.
    induction m as [|[k' v'] m IH]; cbn [kget map fst In]; [tauto|]. intros ND [H|H].
    - inversion H; subst. rewrite key_eqb_refl. reflexivity.
    - inversion ND; subst. destruct (key_eqb k' k) eqn:E.
      + apply key_eqb_eq in E. subst. exfalso. apply H2. apply in_map_iff. exists (k, v). auto.
      + apply IH; assumption.
  Qed.
  Lemma kget_app m m2 k : kget (m ++ m2) k = match kget m k with Some v => Some v | None => kget m2 k end.
  Proof. induction m as [|[k' v'] m IH]; cbn [kget app]; [reflexivity|]. destruct (key_eqb k' k); [reflexivity|exact IH]. Qed.
  Lemma kget_app_mono m m2 k v : kget m k = Some v -> kget (m ++ m2) k = Some v.
  Proof. intro H. rewrite kget_app, H. reflexivity. Qed.
  Lemma kget_snoc_new m k v : kget m k = None -> kget (m ++ [(k, v)]) k = Some v.
  Proof. intro H. rewrite kget_app, H. cbn [kget]. rewrite key_eqb_refl. reflexivity. Qed.

  Lemma or_insert_mono m k v k' v' : kget m k' = Some v' -> kget (or_insert m k v) k' = Some v'.
  Proof. unfold or_insert. destruct (kget m k); [auto|]. apply kget_app_mono. Qed.
  Lemma or_insert_present m k v : kget (or_insert m k v) k <> None.
  Proof.
    unfold or_insert. destruct (kget m k) eqn:E; [congruence|]. rewrite kget_snoc_new by exact E. discriminate.
  Qed.
  Lemma or_insert_In m k v x : In x (or_insert m k v) -> In x m \/ (x = (k, v) /\ kget m k = None).
  Proof.
    unfold or_insert. destruct (kget m k) eqn:E; [auto|]. intro H. apply in_app_or in H. destruct H as [H|[H|[]]]; auto.
  Qed.
  Lemma or_insert_len m k v : (length m <= length (or_insert m k v))%nat.
  Proof. unfold or_insert. destruct (kget m k); [lia|]. rewrite app_length. cbn. lia. Qed.

  Lemma kset_In m k v x : In x (kset m k v) -> In x m \/ x = (k, v).
  Proof.
    induction m as [|[k' v'] m IH]; cbn [kset In]; [intros [H|[]]; auto|].
    destruct (key_eqb k' k) eqn:E; cbn [In].
    - apply key_eqb_eq in E. subst. intros [H|H]; auto.
    - intros [H|H]; [auto|]. destruct (IH H); auto.
  Qed.
  Lemma kset_has m k v : In k (map fst (kset m k v)).
  Proof.
    induction m as [|[k' v'] m IH]; cbn [kset]; [left; reflexivity|].
    destruct (key_eqb k' k) eqn:E; cbn [map fst In]; [apply key_eqb_eq in E; auto|auto].
  Qed.
  Lemma kset_keeps m k v k' : In k' (map fst m) -> In k' (map fst (kset m k v)).
  Proof.
    induction m as [|[k0 v0] m IH]; cbn [kset map fst In]; [tauto|].
    destruct (key_eqb k0 k) eqn:E; cbn [map fst In]; tauto.
  Qed.
End KV.

Lemma NoDup_app_snoc {A} (l : list A) x : NoDup l -> ~ In x l -> NoDup (l ++ [x]).
Proof.
  intros ND Hn. induction l as [|y l IH]; cbn [app]; [constructor; [intros []|constructor]|].
  inversion ND; subst. constructor.
  - intro H. apply in_app_or in H. destruct H as [H|[H|[]]]; [contradiction|]. subst. apply Hn. left. reflexivity.
  - apply IH; [assumption|]. intro H. apply Hn. right. exact H.
Qed.

(* ------------------------------------------------------------------ dense id sequences *)
Fixpoint seqN (a : N) (n : nat) : list N := match n with O => [] | S n' => a :: seqN (a + 1) n' end.
Lemma seqN_snoc a n : seqN a (S n) = seqN a n ++ [a + N.of_nat n].
Proof.
  revert a. induction n as [|n IH]; intro a.
  - cbn. f_equal. lia.
  - change (seqN a (S (S n))) with (a :: seqN (a + 1) (S n)). rewrite IH. cbn [seqN app]. do 3 f_equal. lia.
Qed.
Lemma seqN_In a n x : In x (seqN a n) <-> a <= x < a + N.of_nat n.
Proof.
  revert a. induction n as [|n IH]; intro a; cbn [seqN In]; [lia|]. rewrite IH. lia.
Qed.
Lemma seqN_NoDup a n : NoDup (seqN a n).
Proof.
  revert a. induction n as [|n IH]; intro a; cbn [seqN]; constructor; [|apply IH]. rewrite seqN_In. lia.
Qed.
Lemma seqN_length a n : length (seqN a n) = n.
Proof. revert a. induction n; intro a; cbn; [reflexivity|]. f_equal. auto. Qed.

Definition lz_gids (m : list (key * N)) : list N := map snd (filter (fun x => NRAW <=? snd x) m).
Lemma lz_gids_app m m2 : lz_gids (m ++ m2) = lz_gids m ++ lz_gids m2.
Proof. unfold lz_gids. rewrite filter_app, map_app. reflexivity. Qed.
Lemma lz_gids_In m g : In g (lz_gids m) <-> NRAW <= g /\ exists k, In (k, g) m.
Proof.
  unfold lz_gids. rewrite in_map_iff. split.
  - intros ([k g'] & E & H). cbn in E. subst. apply filter_In in H. destruct H as [H1 H2]. cbn in H2.
    split; [lia|]. exists k. exact H1.
  - intros [H (k & Hk)]. exists (k, g). split; [reflexivity|]. apply filter_In. split; [exact Hk|]. cbn. lia.
Qed.
Lemma NoDup_map_snd_inj {A} (l : list (A * N)) a b g : NoDup (map snd l) -> In (a, g) l -> In (b, g) l -> a = b.
Proof.
  induction l as [|[x y] l IH]; cbn [map snd In]; [tauto|]. intros ND Ha Hb. inversion ND; subst.
  destruct Ha as [Ha|Ha], Hb as [Hb|Hb].
  - congruence.
  - inversion Ha; subst. exfalso. apply H1. apply in_map_iff. exists (b, g). auto.
  - inversion Hb; subst. exfalso. apply H1. apply in_map_iff. exists (a, g). auto.
  - apply IH; assumption.
Qed.

(* ------------------------------------------------------------------ the invariant of map_segments and the counters
   [nowrap]: the u32 counters have not wrapped (fewer than 2^32 - 16 entries in map_segments) *)
Definition nowrap (r : reg) : Prop := lenN (r_map r) + NRAW < two32.

Record minv (m : list (key * N)) (gc : N) : Prop := {
  mi_orph : kget m orphan_key = Some 0;
  mi_keys : NoDup (map fst m);
  mi_lz : lz_gids m = seqN NRAW (length (lz_gids m));               (* 16, 17, .. in registration order *)
  mi_gc : gc = NRAW + lenN (lz_gids m);
  mi_raw : forall k g, In (k, g) m -> g < NRAW -> (k = orphan_key /\ g = 0) \/ k = (g, MISS)
}.

Lemma minv_init : minv (r_map reg_init) (r_gc reg_init).
Proof.
  constructor.
  - reflexivity.
  - cbn. constructor; [intros []|constructor].
  - reflexivity.
  - reflexivity.
  - intros k g [H|[]] _. inversion H; subst. left. split; reflexivity.
Qed.

Lemma minv_value_lt m gc k g : minv m gc -> In (k, g) m -> g < NRAW \/ (NRAW <= g < gc).
Proof.
  intros I H. destruct (N.ltb_spec g NRAW) as [L|L]; [left; exact L|right].
  assert (Hin : In g (lz_gids m)) by (apply lz_gids_In; split; [exact L|exists k; exact H]).
  rewrite (mi_lz _ _ I) in Hin. apply seqN_In in Hin. rewrite (mi_gc _ _ I). unfold lenN. lia.
Qed.

Lemma minv_inj m gc k1 k2 g : minv m gc -> NRAW <= g -> In (k1, g) m -> In (k2, g) m -> k1 = k2.
Proof.
  intros I L H1 H2.
  assert (ND : NoDup (map snd (filter (fun x => NRAW <=? snd x) m))).
  { change (NoDup (lz_gids m)). rewrite (mi_lz _ _ I). apply seqN_NoDup. }
  apply (NoDup_map_snd_inj (filter (fun x => NRAW <=? snd x) m) k1 k2 g ND); apply filter_In; (split; [assumption|cbn [snd]; lia]).
Qed.

(* registration of a new key with the next id *)
Lemma minv_register m gc k : minv m gc -> kget m k = None -> gc + 1 < two32 ->
  minv (m ++ [(k, gc)]) (wrap32 (gc + 1)).
Proof.
  intros I Hn Hw. pose proof (mi_gc _ _ I) as Egc. constructor.
  - apply kget_app_mono. exact (mi_orph _ _ I).
  - rewrite map_app. cbn [map fst]. apply NoDup_app_snoc.
    + exact (mi_keys _ _ I).
    + apply kget_None. exact Hn.
  - rewrite lz_gids_app. unfold lz_gids at 2 4. cbn [filter snd map].
    assert (E : (NRAW <=? gc) = true) by (rewrite Egc; lia). rewrite E. cbn [map snd].
    rewrite app_length. cbn [length]. rewrite Nat.add_1_r, seqN_snoc. rewrite <- (mi_lz _ _ I).
    f_equal. f_equal. rewrite Egc. unfold lenN. reflexivity.
  - rewrite lz_gids_app. unfold lz_gids at 2. cbn [filter snd map].
    assert (E : (NRAW <=? gc) = true) by (rewrite Egc; lia). rewrite E. cbn [map snd].
    unfold wrap32, lenN. rewrite app_length. cbn [length]. rewrite N.mod_small by exact Hw.
    rewrite Egc. unfold lenN. lia.
  - intros k' g H L. apply in_app_or in H. destruct H as [H|[H|[]]].
    + exact (mi_raw _ _ I k' g H L).
    + inversion H. subst k' g. rewrite Egc in L. lia.
Qed.

Lemma lz_gids_len m : (length (lz_gids m) <= length m)%nat.
Proof.
  unfold lz_gids. rewrite map_length. induction m as [|x m IH]; cbn [filter length]; [lia|].
  destruct (NRAW <=? snd x); cbn [length]; lia.
Qed.

(* ------------------------------------------------------------------ classification: the invariant of a round in progress *)
Definition gid_ok (m : list (key * N)) (g : N) : Prop := g < NRAW \/ exists k, In (k, g) m.
Definition gid_of (m : list (key * N)) (k : key) : N := match kget m k with Some g => g | None => 0 end.
Definition log_pair (e : placed * key * N) : N * placed := (snd e, fst (fst e)).
Definition entry_ok (m : list (key * N)) (e : placed * key * N) : Prop :=
  (snd (fst e) = orphan_key /\ snd e < NRAW) \/ kget m (snd (fst e)) = Some (snd e).
Definition news_pair (m : list (key * N)) (kp : key * placed) : N * placed := (gid_of m (fst kp), snd kp).

Record cinv (st : cstate) : Prop := {
  ci_m : minv (r_map (cs_reg st)) (r_gc (cs_reg st));
  ci_vlen : r_gc (cs_reg st) <= r_vlen (cs_reg st) /\ NRAW <= r_vlen (cs_reg st);
  ci_vl : forall g p, In (g, p) (cs_vl st) -> gid_ok (r_map (cs_reg st)) g;
  ci_news : forall k p, In (k, p) (cs_news st) -> kget (r_map (cs_reg st)) k <> None;
  ci_log : forall e, In e (cs_log st) -> entry_ok (r_map (cs_reg st)) e;
  ci_link : Permutation (map log_pair (cs_log st)) (cs_vl st ++ map (news_pair (r_map (cs_reg st))) (cs_news st))
}.

Lemma gid_ok_lt m gc vlen g : minv m gc -> gc <= vlen -> NRAW <= vlen -> gid_ok m g -> g < vlen.
Proof.
  intros I H1 H2 [L|(k & Hk)]; [lia|]. destruct (minv_value_lt _ _ _ _ I Hk); lia.
Qed.
Lemma add_known_ok vlen vl g p : g < vlen -> add_known vlen vl g p = (g, p) :: vl.
Proof. intro H. unfold add_known. destruct (N.ltb_spec g vlen); [reflexivity|lia]. Qed.
Lemma gid_ok_app m m2 g : gid_ok m g -> gid_ok (m ++ m2) g.
Proof. intros [L|(k & Hk)]; [left; exact L|right; exists k; apply in_or_app; left; exact Hk]. Qed.
Lemma entry_ok_app m m2 e : entry_ok m e -> entry_ok (m ++ m2) e.
Proof. intros [H|H]; [left; exact H|right; apply kget_app_mono; exact H]. Qed.
Lemma kget_ne_app {V} (m m2 : list (key * V)) k : kget m k <> None -> kget (m ++ m2) k <> None.
Proof. intro H. rewrite kget_app. destruct (kget m k); [discriminate|contradiction]. Qed.
Lemma news_pair_app m m2 (news : list (key * placed)) :
  (forall k p, In (k, p) news -> kget m k <> None) -> map (news_pair (m ++ m2)) news = map (news_pair m) news.
Proof.
  intro H. apply map_ext_in. intros [k p] Hin. unfold news_pair, gid_of. cbn [fst snd]. rewrite kget_app.
  specialize (H k p Hin). destruct (kget m k); [reflexivity|contradiction].
Qed.

(* what a successful split attempt hands to add_known: one or two segments, each with a key of map_segments *)
Lemma split_attempt_cases cf m s o kf kb sr sn cn part adds incr :
  split_attempt cf m s o kf kb sr sn cn part = Some (adds, incr) ->
  (exists g1 p1 k1 g2 p2 k2, adds = [(g1, p1, k1); (g2, p2, k2)] /\ kget m k1 = Some g1 /\ kget m k2 = Some g2 /\ incr = 2 /\
      p_sample p1 = sn /\ p_name p1 = cn /\ p_sample p2 = sn /\ p_name p2 = cn /\
      ((p_part p1 = part /\ p_part p2 = part + 1) \/ (p_part p1 = part + 1 /\ p_part p2 = part)) /\
      k1 <> orphan_key /\ k2 <> orphan_key) \/
  (exists g1 p1 k1, adds = [(g1, p1, k1)] /\ kget m k1 = Some g1 /\ incr = 1 /\ p_sample p1 = sn /\ p_name p1 = cn /\
      p_part p1 = part /\ k1 <> orphan_key).
Proof.
  unfold split_attempt.
  destruct (negb (cf_no_split cf) && negb (kf =? MISS) && negb (kb =? MISS) && negb (kf =? kb)) eqn:T; [|discriminate].
  assert (Hkf : kf <> MISS /\ kb <> MISS) by lia. destruct Hkf as [Hkf Hkb].
  destruct (o_mid o) as [middle|]; [|discriminate]. cbv zeta.
  match goal with |- match kget m ?a with _ => _ end = _ -> _ => set (lk := a) end.
  assert (Hl : lk <> orphan_key).
  { unfold lk, orphan_key. destruct (kf <=? middle); intro E; inversion E; congruence. }
  destruct (kget m lk) as [lg|] eqn:El; [|discriminate].
  match goal with |- match kget m ?a with _ => _ end = _ -> _ => set (rk := a) end.
  assert (Hr : rk <> orphan_key).
  { unfold rk, orphan_key. destruct (middle <=? kb); intro E; inversion E; congruence. }
  destruct (kget m rk) as [rg|] eqn:Er; [|discriminate].
  destruct (o_split o); intro H; inversion H; subst; clear H.
  - left. do 6 eexists. split; [reflexivity|]. split; [exact El|]. split; [exact Er|]. split; [reflexivity|].
    cbn [mk_placed p_sample p_name p_part]. repeat (split; [reflexivity|]). split; [|split; assumption].
    destruct sr; [right|left]; split; reflexivity.
  - right. do 3 eexists. split; [reflexivity|]. split; [exact El|]. cbn [mk_placed p_sample p_name p_part].
    repeat (split; [reflexivity|]). exact Hl.
  - right. do 3 eexists. split; [reflexivity|]. split; [exact Er|]. cbn [mk_placed p_sample p_name p_part].
    repeat (split; [reflexivity|]). exact Hr.
Qed.

Lemma cinv_nowrap_gc st : cinv st -> lenN (r_map (cs_reg st)) + 1 + NRAW < two32 -> r_gc (cs_reg st) + 1 < two32.
Proof.
  intros I H. rewrite (mi_gc _ _ (ci_m _ I)). pose proof (lz_gids_len (r_map (cs_reg st))). unfold lenN in *. lia.
Qed.

(* one raw segment *)
Lemma classify_step_inv cf sn cn x st part :
  cinv st -> nowrap (cs_reg (fst (classify_step cf sn cn x (st, part)))) ->
  cinv (fst (classify_step cf sn cn x (st, part))).
Proof.
  intros I. destruct x as [s o]. unfold classify_step.
  destruct (classify_key cf s o) as [[kf kb] sr].
  pose proof (ci_m _ I) as Im. destruct (ci_vlen _ I) as [Hv1 Hv2].
  destruct (kget (r_map (cs_reg st)) (kf, kb)) as [gid|] eqn:Eg.
  - (* KNOWN *)
    destruct ((kf =? MISS) && (kb =? MISS)) eqn:Eo; cbn [fst]; intros _.
    + assert (Ek : (kf, kb) = orphan_key) by (unfold orphan_key; f_equal; lia).
      assert (Hg : r_rgc (cs_reg st) mod NRAW < NRAW) by (rewrite NRAW_eq; lia).
      rewrite add_known_ok by lia.
      constructor; cbn [cs_reg cs_vl cs_news cs_log set_reg r_map r_gc r_vlen].
      * exact Im.
      * split; assumption.
      * intros g p [H|H]; [inversion H; subst; left; exact Hg|exact (ci_vl _ I g p H)].
      * exact (ci_news _ I).
      * intros e [H|H]; [subst e; left; cbn [fst snd]; split; [exact Ek|exact Hg]|exact (ci_log _ I e H)].
      * cbn [map log_pair fst snd app]. apply perm_skip. exact (ci_link _ I).
    + assert (Hok : gid_ok (r_map (cs_reg st)) gid) by (right; exists (kf, kb); apply kget_In; exact Eg).
      rewrite add_known_ok by (eapply gid_ok_lt; eauto).
      constructor; cbn [cs_reg cs_vl cs_news cs_log].
      * exact Im.
      * split; assumption.
      * intros g p [H|H]; [inversion H; subst; exact Hok|exact (ci_vl _ I g p H)].
      * exact (ci_news _ I).
      * intros e [H|H]; [subst e; right; cbn [fst snd]; exact Eg|exact (ci_log _ I e H)].
      * cbn [map log_pair fst snd app]. apply perm_skip. exact (ci_link _ I).
  - destruct (split_attempt cf (r_map (cs_reg st)) s o kf kb sr sn cn part) as [[adds incr]|] eqn:Es.
    + (* split / assign: group ids of map_segments *)
      cbn [fst]. intros _. apply split_attempt_cases in Es.
      destruct Es as [(g1 & p1 & k1 & g2 & p2 & k2 & -> & E1 & E2 & _)|(g1 & p1 & k1 & -> & E1 & _)].
      * assert (O1 : gid_ok (r_map (cs_reg st)) g1) by (right; exists k1; apply kget_In; exact E1).
        assert (O2 : gid_ok (r_map (cs_reg st)) g2) by (right; exists k2; apply kget_In; exact E2).
        cbn [fold_left fst snd map rev app].
        rewrite (add_known_ok _ _ g1) by (eapply gid_ok_lt; eauto).
        rewrite (add_known_ok _ _ g2) by (eapply gid_ok_lt; eauto).
        constructor; cbn [cs_reg cs_vl cs_news cs_log].
        -- exact Im.
        -- split; assumption.
        -- intros g p [H|[H|H]]; [inversion H; subst; exact O2|inversion H; subst; exact O1|exact (ci_vl _ I g p H)].
        -- exact (ci_news _ I).
        -- intros e [H|[H|H]]; [subst e; right; exact E2|subst e; right; exact E1|exact (ci_log _ I e H)].
        -- cbn [map log_pair fst snd app]. do 2 apply perm_skip. exact (ci_link _ I).
      * assert (O1 : gid_ok (r_map (cs_reg st)) g1) by (right; exists k1; apply kget_In; exact E1).
        cbn [fold_left fst snd map rev app].
        rewrite (add_known_ok _ _ g1) by (eapply gid_ok_lt; eauto).
        constructor; cbn [cs_reg cs_vl cs_news cs_log].
        -- exact Im.
        -- split; assumption.
        -- intros g p [H|H]; [inversion H; subst; exact O1|exact (ci_vl _ I g p H)].
        -- exact (ci_news _ I).
        -- intros e [H|H]; [subst e; right; exact E1|exact (ci_log _ I e H)].
        -- cbn [map log_pair fst snd app]. apply perm_skip. exact (ci_link _ I).
    + (* NEW: immediate registration *)
      unfold register_key. rewrite Eg. cbn [fst]. intro Hw.
      assert (Hgc : r_gc (cs_reg st) + 1 < two32).
      { apply cinv_nowrap_gc; [exact I|]. unfold nowrap in Hw. cbn [cs_reg set_reg r_map] in Hw.
        unfold lenN in *. rewrite app_length in Hw. cbn [length] in Hw. lia. }
      set (m := r_map (cs_reg st)) in *. set (gc := r_gc (cs_reg st)) in *.
      constructor; cbn [cs_reg cs_vl cs_news cs_log set_reg r_map r_gc r_vlen].
      * apply minv_register; assumption.
      * unfold ensure_capacity, wrap32. rewrite N.mod_small by exact Hgc.
        destruct (N.leb_spec (r_vlen (cs_reg st)) gc); lia.
      * intros g p H. apply gid_ok_app. exact (ci_vl _ I g p H).
      * intros k p [H|H]; [inversion H; subst; rewrite kget_snoc_new by exact Eg; discriminate|].
        apply kget_ne_app. exact (ci_news _ I k p H).
      * intros e [H|H]; [subst e; right; cbn [fst snd]; apply kget_snoc_new; exact Eg|].
        apply entry_ok_app. exact (ci_log _ I e H).
      * cbn [map log_pair fst snd]. rewrite news_pair_app by exact (ci_news _ I).
        unfold news_pair at 1. cbn [fst snd]. unfold gid_of. rewrite kget_snoc_new by exact Eg.
        apply Permutation_cons_app. exact (ci_link _ I).
Qed.

(* ------------------------------------------------------------------ folds: map_segments only grows *)
Section FoldInv.
  Context {A B : Type} (f : A -> B -> A) (len : A -> N) (I : A -> Prop) (K : N).
  Hypothesis mono : forall a b, len a <= len (f a b).
  Hypothesis step : forall a b, I a -> len (f a b) < K -> I (f a b).
  Lemma fold_mono l a : len a <= len (fold_left f l a).
  Proof. revert a. induction l as [|b l IH]; intro a; cbn [fold_left]; [lia|]. specialize (IH (f a b)). specialize (mono a b). lia. Qed.
  Lemma fold_inv l a : I a -> len (fold_left f l a) < K -> I (fold_left f l a).
  Proof.
    revert a. induction l as [|b l IH]; intros a Ia Hb; cbn [fold_left] in *; [exact Ia|].
    apply IH; [|exact Hb]. apply step; [exact Ia|]. pose proof (fold_mono l (f a b)). lia.
  Qed.
End FoldInv.

Definition mlen (st : cstate) : N := lenN (r_map (cs_reg st)).
Definition same_bufs (r r' : reg) : Prop := r_bufs r' = r_bufs r /\ r_streams r' = r_streams r.

Lemma classify_step_mono cf sn cn x st part :
  mlen st <= mlen (fst (classify_step cf sn cn x (st, part))) /\
  same_bufs (cs_reg st) (cs_reg (fst (classify_step cf sn cn x (st, part)))).
Proof.
  destruct x as [s o]. unfold classify_step, mlen, same_bufs.
  destruct (classify_key cf s o) as [[kf kb] sr].
  destruct (kget (r_map (cs_reg st)) (kf, kb)) as [gid|] eqn:Eg.
  - destruct ((kf =? MISS) && (kb =? MISS)); cbn [fst cs_reg set_reg r_map r_bufs r_streams]; (split; [lia|split; reflexivity]).
  - destruct (split_attempt cf (r_map (cs_reg st)) s o kf kb sr sn cn part) as [[adds incr]|].
    + cbn [fst cs_reg]. split; [lia|split; reflexivity].
    + unfold register_key. rewrite Eg. cbn [fst cs_reg set_reg r_map r_bufs r_streams]. unfold lenN. rewrite app_length. cbn [length].
      split; [lia|split; reflexivity].
Qed.

Definition nowrap_st (st : cstate) : Prop := nowrap (cs_reg st).
Lemma nowrap_st_eq st : nowrap_st st <-> mlen st < two32 - NRAW.
Proof. unfold nowrap_st, nowrap, mlen. rewrite NRAW_eq, two32_eq. lia. Qed.

Definition fold_steps (cf : config) (sn cn : list N) (l : list (rawseg * oracle)) (acc : cstate * N) : cstate * N :=
  fold_left (fun acc x => classify_step cf sn cn x acc) l acc.
Lemma classify_contig_eq cf st c : classify_contig cf st c = fst (fold_steps cf (c_sample c) (c_name c) (c_segs c) (st, 0)).
Proof. reflexivity. Qed.

Lemma fold_steps_mono cf sn cn l st part :
  mlen st <= mlen (fst (fold_steps cf sn cn l (st, part))) /\ same_bufs (cs_reg st) (cs_reg (fst (fold_steps cf sn cn l (st, part)))).
Proof.
  revert st part. induction l as [|x l IH]; intros st part; unfold fold_steps; cbn [fold_left fst].
  - split; [lia|split; reflexivity].
  - destruct (classify_step cf sn cn x (st, part)) as [st1 part1] eqn:E.
    pose proof (classify_step_mono cf sn cn x st part) as [M1 [B1 S1]]. rewrite E in M1, B1, S1. cbn [fst] in *.
    destruct (IH st1 part1) as [M2 [B2 S2]]. unfold fold_steps in *. split; [lia|]. split; congruence.
Qed.
Lemma fold_steps_inv cf sn cn l st part :
  cinv st -> nowrap_st (fst (fold_steps cf sn cn l (st, part))) -> cinv (fst (fold_steps cf sn cn l (st, part))).
Proof.
  revert st part. induction l as [|x l IH]; intros st part I Hw; unfold fold_steps in *; cbn [fold_left fst] in *; [exact I|].
  destruct (classify_step cf sn cn x (st, part)) as [st1 part1] eqn:E.
  apply IH; [|exact Hw].
  pose proof (classify_step_inv cf sn cn x st part I) as H. rewrite E in H. cbn [fst] in H. apply H.
  apply nowrap_st_eq. apply nowrap_st_eq in Hw.
  destruct (fold_steps_mono cf sn cn l st1 part1) as [M _]. unfold fold_steps in M. lia.
Qed.

Lemma classify_contig_mono cf st c :
  mlen st <= mlen (classify_contig cf st c) /\ same_bufs (cs_reg st) (cs_reg (classify_contig cf st c)).
Proof. rewrite classify_contig_eq. apply fold_steps_mono. Qed.
Lemma classify_contig_inv cf st c : cinv st -> nowrap_st (classify_contig cf st c) -> cinv (classify_contig cf st c).
Proof. rewrite classify_contig_eq. apply fold_steps_inv. Qed.

Lemma classify_all_mono cf l st :
  mlen st <= mlen (fold_left (classify_contig cf) l st) /\ same_bufs (cs_reg st) (cs_reg (fold_left (classify_contig cf) l st)).
Proof.
  revert st. induction l as [|c l IH]; intro st; cbn [fold_left]; [split; [lia|split; reflexivity]|].
  destruct (classify_contig_mono cf st c) as [M1 [B1 S1]]. destruct (IH (classify_contig cf st c)) as [M2 [B2 S2]].
  split; [lia|split; congruence].
Qed.
Lemma classify_all_inv cf l st : cinv st -> nowrap_st (fold_left (classify_contig cf) l st) -> cinv (fold_left (classify_contig cf) l st).
Proof.
  revert st. induction l as [|c l IH]; intros st I Hw; cbn [fold_left] in *; [exact I|].
  apply IH; [|exact Hw]. apply classify_contig_inv; [exact I|].
  apply nowrap_st_eq. apply nowrap_st_eq in Hw. destruct (classify_all_mono cf l (classify_contig cf st c)) as [M _]. lia.
Qed.

(* ------------------------------------------------------------------ process_new on the live path: every key is registered *)
Lemma pn_assign_present m mk next news :
  (forall k p, In (k, p) news -> kget m k <> None) -> pn_assign m mk next news = (mk, next).
Proof.
  induction news as [|[k p] news IH]; intro H; cbn [pn_assign]; [reflexivity|].
  assert (Hk : kget m k <> None) by (apply (H k p); left; reflexivity).
  destruct (kget mk k); [apply IH; intros; eapply H; right; eauto|].
  destruct (kget m k); [|contradiction]. apply IH. intros; eapply H; right; eauto.
Qed.
Lemma pn_move_present mk vlen m vl news :
  (forall k p, In (k, p) news -> exists g, kget m k = Some g /\ g < vlen) ->
  pn_move mk vlen m vl news = (m, rev (map (news_pair m) news) ++ vl).
Proof.
  revert vl. induction news as [|[k p] news IH]; intros vl H; cbn [pn_move map rev app]; [reflexivity|].
  destruct (H k p (or_introl eq_refl)) as (g & Eg & Lg). rewrite Eg, add_known_ok by exact Lg.
  rewrite IH by (intros; eapply H; right; eauto).
  replace (news_pair m (k, p)) with (g, p) by (unfold news_pair, gid_of; cbn [fst snd]; rewrite Eg; reflexivity).
  rewrite <- app_assoc. reflexivity.
Qed.
Lemma process_new_present m next vlen vl news :
  next <= vlen -> (forall k p, In (k, p) news -> exists g, kget m k = Some g /\ g < vlen) ->
  process_new m next vlen vl news = (m, next, vlen, rev (map (news_pair m) news) ++ vl).
Proof.
  intros Hv H. unfold process_new. rewrite pn_assign_present.
  - destruct (N.ltb_spec vlen next); [lia|]. rewrite pn_move_present by exact H. reflexivity.
  - intros k p Hin. destruct (H k p Hin) as (g & Eg & _). congruence.
Qed.

(* ------------------------------------------------------------------ a well-formed registry between rounds *)
Record wf (r : reg) : Prop := {
  wf_m : minv (r_map r) (r_gc r);
  wf_vlen : r_gc r <= r_vlen r /\ NRAW <= r_vlen r;
  wf_bkeys : NoDup (map fst (r_bufs r));
  wf_bufs : forall k b, In (k, b) (r_bufs r) ->
            (b_gid b < NRAW /\ k = (b_gid b, MISS)) \/ (NRAW <= b_gid b /\ In (k, b_gid b) (r_map r))
}.
Lemma wf_init : wf reg_init.
Proof.
  constructor; [exact minv_init|cbn; rewrite NRAW_eq; lia|constructor|intros k b []].
Qed.
Lemma cinv_of_wf r : wf r -> cinv (cstate_of r).
Proof.
  intro W. constructor; cbn [cstate_of cs_reg cs_vl cs_news cs_log].
  - exact (wf_m _ W).
  - exact (wf_vlen _ W).
  - intros g p [].
  - intros k p [].
  - intros e [].
  - constructor.
Qed.

Definition perm_ord (ord : list (key * placed) -> list (key * placed)) : Prop := forall l, Permutation l (ord l).

Lemma news_present_lt st : cinv st ->
  forall k p, In (k, p) (cs_news st) -> exists g, kget (r_map (cs_reg st)) k = Some g /\ g < r_vlen (cs_reg st).
Proof.
  intros I k p H. pose proof (ci_news _ I k p H) as Hk. destruct (kget (r_map (cs_reg st)) k) as [g|] eqn:E; [|contradiction].
  exists g. split; [reflexivity|]. destruct (ci_vlen _ I). eapply gid_ok_lt; [exact (ci_m _ I)| | |]; try eassumption.
  right. exists k. apply kget_In. exact E.
Qed.

(* classify_raw_segments_at_barrier *)
Lemma classify_round_spec cf ord r contigs :
  wf r -> perm_ord ord -> nowrap (cs_reg (classify_round cf ord r contigs)) ->
  let st := classify_round cf ord r contigs in
  cinv st /\ cs_news st = [] /\ same_bufs r (cs_reg st) /\ lenN (r_map r) <= mlen st.
Proof.
  intros W Po. unfold classify_round. destruct contigs as [|c0 cs].
  - intros _. cbn zeta. split; [apply cinv_of_wf; exact W|]. split; [reflexivity|]. split; [split; reflexivity|]. unfold mlen. cbn. lia.
  - set (st := fold_left (classify_contig cf) (sort_contigs (c0 :: cs)) (cstate_of r)).
    assert (Hpres : nowrap_st st -> cinv st) by (intro H; apply classify_all_inv; [apply cinv_of_wf; exact W|exact H]).
    destruct (classify_all_mono cf (sort_contigs (c0 :: cs)) (cstate_of r)) as [M [B S]]. fold st in M, B, S.
    destruct (process_new (r_map (cs_reg st)) (r_gc (cs_reg st)) (r_vlen (cs_reg st)) (cs_vl st) (ord (rev (cs_news st))))
      as [[[m' next'] vlen'] vl'] eqn:Ep.
    intro Hw. cbn zeta.
    (* process_new only ever appends to the map: first show the bound for st *)
    assert (Hlen : lenN (r_map (cs_reg st)) <= lenN m').
    { revert Ep. unfold process_new. destruct (pn_assign _ _ _ _) as [mk nx].
      generalize (if r_vlen (cs_reg st) <? nx then nx else r_vlen (cs_reg st)) as vl0.
      generalize (cs_vl st) as vl1. generalize (r_map (cs_reg st)) as m0.
      induction (ord (rev (cs_news st))) as [|[k p] news IH]; intros m0 vl1 vl0; cbn [pn_move].
      - intro E. inversion E; subst. lia.
      - destruct (kget m0 k).
        + apply IH.
        + destruct (kget mk k).
          * intro E. specialize (IH _ _ _ E). unfold lenN in *. rewrite app_length in IH. cbn [length] in IH. lia.
          * apply IH. }
    assert (Hst : nowrap_st st).
    { unfold nowrap_st, nowrap in *. cbn [cs_reg set_reg r_map] in Hw. lia. }
    specialize (Hpres Hst).
    assert (Hn : forall k p, In (k, p) (ord (rev (cs_news st))) -> exists g, kget (r_map (cs_reg st)) k = Some g /\ g < r_vlen (cs_reg st)).
    { intros k p Hin. apply (news_present_lt st Hpres k p). apply in_rev. eapply Permutation_in; [apply Permutation_sym; apply Po|exact Hin]. }
    rewrite process_new_present in Ep by (try exact Hn; destruct (ci_vlen _ Hpres); assumption).
    inversion Ep; subst m' next' vlen' vl'; clear Ep.
    split; [|split; [reflexivity|split; [split; assumption|]]].
    + constructor; cbn [cs_reg cs_vl cs_news cs_log set_reg r_map r_gc r_vlen].
      * exact (ci_m _ Hpres).
      * exact (ci_vlen _ Hpres).
      * intros g p H. apply in_app_or in H. destruct H as [H|H]; [|exact (ci_vl _ Hpres g p H)].
        apply in_rev in H. apply in_map_iff in H. destruct H as ([k p'] & E & Hin). unfold news_pair in E. cbn [fst snd] in E.
        inversion E; subst. destruct (Hn k p Hin) as (g & Eg & _). unfold gid_of. rewrite Eg. right. exists k. apply kget_In. exact Eg.
      * intros k p [].
      * exact (ci_log _ Hpres).
      * cbn [map]. rewrite app_nil_r. eapply Permutation_trans; [exact (ci_link _ Hpres)|].
        rewrite Permutation_app_comm. apply Permutation_app_tail.
        eapply Permutation_trans; [|apply Permutation_rev]. apply Permutation_map.
        eapply Permutation_trans; [apply Permutation_rev|]. apply Po.
    + unfold mlen in *. cbn [cs_reg set_reg r_map cstate_of] in *. lia.
Qed.

(* ------------------------------------------------------------------ prepare_batch_parallel *)
Lemma filter_disj_perm {A} (p q r : A -> bool) (l : list A) :
  (forall x, r x = p x || q x) -> (forall x, p x && q x = false) ->
  Permutation (filter p l ++ filter q l) (filter r l).
Proof.
  intros Hr Hd. induction l as [|x l IH]; cbn [filter app]; [constructor|].
  rewrite (Hr x). specialize (Hd x). destruct (p x) eqn:Ep, (q x) eqn:Eq; cbn [orb andb] in *; try discriminate.
  - cbn [app]. apply perm_skip. exact IH.
  - apply Permutation_sym. apply Permutation_cons_app. apply Permutation_sym. exact IH.
  - exact IH.
Qed.
Lemma filter_all {A} (p : A -> bool) (l : list A) : (forall x, In x l -> p x = true) -> filter p l = l.
Proof.
  induction l as [|x l IH]; intro H; cbn [filter]; [reflexivity|]. rewrite (H x (or_introl eq_refl)). f_equal. apply IH.
  intros y Hy. apply H. right. exact Hy.
Qed.
Lemma filter_none {A} (p : A -> bool) (l : list A) : (forall x, p x = false) -> filter p l = [].
Proof. intro H. induction l as [|x l IH]; cbn [filter]; [reflexivity|]. rewrite H. exact IH. Qed.

Lemma collect_range (vl : list (N * placed)) n from :
  Permutation (collect vl n from) (filter (fun x => (from <=? fst x) && (fst x <? from + N.of_nat n)) vl).
Proof.
  revert from. induction n as [|n IH]; intro from; cbn [collect].
  - rewrite filter_none; [constructor|]. intro x. lia.
  - eapply Permutation_trans; [apply Permutation_app_head; apply IH|].
    apply filter_disj_perm; intro x; lia.
Qed.
Lemma collect_perm (vl : list (N * placed)) vlen :
  (forall x, In x vl -> fst x < vlen) -> Permutation (collect vl (N.to_nat vlen) 0) vl.
Proof.
  intro H. eapply Permutation_trans; [apply collect_range|]. rewrite filter_all; [apply Permutation_refl|].
  intros x Hx. specialize (H x Hx). lia.
Qed.

Lemma rev_get_In m g best k : rev_get m g best = Some k -> best = Some k \/ In (k, g) m.
Proof.
  revert best. induction m as [|[k' g'] m IH]; intro best; cbn [rev_get]; [auto|].
  destruct (N.eqb_spec g' g) as [->|Hne].
  - intro H. apply IH in H. destruct H as [H|H]; [|right; right; exact H].
    destruct best as [b|].
    + destruct (key_ltb b k'); inversion H; subst; [right; left; reflexivity|left; reflexivity].
    + inversion H; subst. right. left. reflexivity.
  - intro H. apply IH in H. destruct H as [H|H]; [left; exact H|right; right; exact H].
Qed.
Lemma rev_get_some m g best : (best <> None \/ exists k, In (k, g) m) -> rev_get m g best <> None.
Proof.
  revert best. induction m as [|[k' g'] m IH]; intros best H; cbn [rev_get].
  - destruct H as [H|(k & [])]. exact H.
  - destruct (N.eqb_spec g' g) as [->|Hne].
    + apply IH. left. destruct best as [b|]; [destruct (key_ltb b k')|]; discriminate.
    + apply IH. destruct H as [H|(k & [Hk|Hk])]; [left; exact H| |right; exists k; exact Hk].
      inversion Hk; subst. contradiction.
Qed.

(* the key a group's segments are buffered under: the missing-key fallback is not taken for a registered id *)
Definition bkey (m : list (key * N)) (g : N) (k : key) : Prop :=
  (g < NRAW /\ k = (g, MISS)) \/ (NRAW <= g /\ In (k, g) m).
Lemma key_of_gid_bkey m g : gid_ok m g -> bkey m g (key_of_gid m g).
Proof.
  intro H. unfold key_of_gid, bkey. destruct (N.ltb_spec g NRAW) as [L|L]; [left; split; [exact L|reflexivity]|].
  right. split; [exact L|]. destruct H as [H|H]; [lia|].
  destruct (rev_get m g None) as [k|] eqn:E.
  - apply rev_get_In in E. destruct E as [E|E]; [discriminate|exact E].
  - exfalso. eapply rev_get_some; [|exact E]. right. exact H.
Qed.

Definition binv (m : list (key * N)) (bufs : list (key * buf)) : Prop :=
  NoDup (map fst bufs) /\ forall k b, In (k, b) bufs -> bkey m (b_gid b) k.

Lemma place_all_spec m bufs ss coll bufs' ss' out :
  (forall g p, In (g, p) coll -> gid_ok m g) -> binv m bufs ->
  place_all m bufs ss coll = (bufs', ss', out) ->
  binv m bufs' /\ (forall k b, kget bufs k = Some b -> kget bufs' k = Some b) /\
  Forall2 (fun c o => snd c = snd o /\ exists b, kget bufs' (key_of_gid m (fst c)) = Some b /\ b_gid b = fst o) coll out.
Proof.
  revert bufs ss bufs' ss' out. induction coll as [|[g p] coll IH]; intros bufs ss bufs' ss' out Hok Hb E; cbn [place_all] in E.
  - inversion E; subst. split; [exact Hb|]. split; [auto|constructor].
  - destruct (kget bufs (key_of_gid m g)) as [b|] eqn:Eb.
    + destruct (place_all m bufs ss coll) as [[bufs1 ss1] out1] eqn:E1. inversion E; subst; clear E.
      destruct (IH _ _ _ _ _ (fun g' p' H => Hok g' p' (or_intror H)) Hb E1) as (I1 & M1 & F1).
      split; [exact I1|]. split; [exact M1|]. constructor; [|exact F1]. cbn [fst snd]. split; [reflexivity|].
      exists b. split; [apply M1; exact Eb|reflexivity].
    + set (ss1 := register_group ss g) in *.
      set (b := {| b_gid := g; b_sid := stream_index ss1 g false 0; b_rsid := stream_index ss1 g true 0 |}) in *.
      destruct (place_all m (bufs ++ [(key_of_gid m g, b)]) ss1 coll) as [[bufs1 ss2] out1] eqn:E1. inversion E; subst; clear E.
      assert (Hb1 : binv m (bufs ++ [(key_of_gid m g, b)])).
      { destruct Hb as [ND Hb]. split.
        - rewrite map_app. cbn [map fst]. apply NoDup_app_snoc; [exact ND|]. apply kget_None. exact Eb.
        - intros k b0 H. apply in_app_or in H. destruct H as [H|[H|[]]]; [exact (Hb k b0 H)|].
          inversion H; subst. cbn [b_gid]. apply key_of_gid_bkey. apply (Hok g p). left. reflexivity. }
      destruct (IH _ _ _ _ _ (fun g' p' H => Hok g' p' (or_intror H)) Hb1 E1) as (I1 & M1 & F1).
      split; [exact I1|]. split.
      * intros k b0 H. apply M1. apply kget_app_mono. exact H.
      * constructor; [|exact F1]. cbn [fst snd]. split; [reflexivity|]. exists b. split; [|reflexivity].
        apply M1. apply kget_snoc_new. exact Eb.
Qed.

(* cleanup_batch_parallel: the batch-local keys that are written back *)
Definition batch_ok (m : list (key * N)) (kg : key * N) : Prop :=
  kget m (fst kg) <> None \/ (snd kg < NRAW /\ fst kg = (snd kg, MISS)).

Lemma minv_raw_copy m gc g : minv m gc -> g < NRAW -> kget m (g, MISS) = None -> minv (m ++ [((g, MISS), g)]) gc.
Proof.
  intros I L Hn. constructor.
  - apply kget_app_mono. exact (mi_orph _ _ I).
  - rewrite map_app. cbn [map fst]. apply NoDup_app_snoc; [exact (mi_keys _ _ I)|]. apply kget_None. exact Hn.
  - rewrite lz_gids_app. unfold lz_gids at 2 4. cbn [filter snd map].
    assert (E : (NRAW <=? g) = false) by lia. rewrite E. cbn [map]. rewrite app_nil_r. exact (mi_lz _ _ I).
  - rewrite lz_gids_app. unfold lz_gids at 2. cbn [filter snd map].
    assert (E : (NRAW <=? g) = false) by lia. rewrite E. cbn [map]. rewrite app_nil_r. exact (mi_gc _ _ I).
  - intros k' g' H L'. apply in_app_or in H. destruct H as [H|[H|[]]]; [exact (mi_raw _ _ I k' g' H L')|].
    inversion H; subst. right. reflexivity.
Qed.

Lemma cleanup_spec batch : forall m gc, minv m gc -> Forall (batch_ok m) batch ->
  let m3 := fold_left (fun m x => or_insert m (fst x) (snd x)) batch m in
  minv m3 gc /\ (forall k g, kget m k = Some g -> kget m3 k = Some g) /\ (forall x, In x m -> In x m3) /\
  lenN m <= lenN m3 /\ (forall k, In k (map fst batch) -> kget m3 k <> None).
Proof.
  induction batch as [|[k g] batch IH]; intros m gc I Hb; cbn [fold_left fst snd].
  - cbn zeta. split; [exact I|]. split; [auto|]. split; [auto|]. split; [lia|]. intros k [].
  - inversion Hb as [|x l Hk Hrest]; subst.
    assert (I1 : minv (or_insert m k g) gc).
    { unfold or_insert. destruct (kget m k) eqn:E; [exact I|]. destruct Hk as [Hk|[L Ek]]; cbn [fst snd] in *; [congruence|].
      subst k. apply minv_raw_copy; assumption. }
    assert (Hrest1 : Forall (batch_ok (or_insert m k g)) batch).
    { eapply Forall_impl; [|exact Hrest]. intros [k' g'] [H|H]; [left|right; exact H]. cbn [fst] in *.
      destruct (kget m k') eqn:E; [|contradiction]. erewrite or_insert_mono by exact E. discriminate. }
    destruct (IH _ _ I1 Hrest1) as (I3 & M3 & In3 & L3 & P3). cbn zeta in *.
    split; [exact I3|]. split; [intros k' g' H; apply M3; apply or_insert_mono; exact H|].
    split.
    { intros x Hx. apply In3. unfold or_insert. destruct (kget m k); [exact Hx|apply in_or_app; left; exact Hx]. }
    split.
    { pose proof (or_insert_len m k g). unfold lenN in *. lia. }
    intros k' [E|H]; [subst k'|apply P3; exact H].
    pose proof (or_insert_present m k g) as Hp. destruct (kget (or_insert m k g) k) eqn:E; [|contradiction].
    pose proof (M3 _ _ E) as H3. intro Hn. cbn [fst snd] in Hn, H3. rewrite Hn in H3. discriminate.
Qed.

Lemma batch_spec m (coll : list (N * placed)) : (forall g p, In (g, p) coll -> gid_ok m g) ->
  forall b0, Forall (batch_ok m) b0 ->
  let batch := fold_left (fun b x => kset b (key_of_gid m (fst x)) (fst x)) coll b0 in
  Forall (batch_ok m) batch /\ (forall k, In k (map fst b0) -> In k (map fst batch)) /\
  (forall g p, In (g, p) coll -> In (key_of_gid m g) (map fst batch)).
Proof.
  induction coll as [|[g p] coll IH]; intros Hok b0 Hb0; cbn [fold_left fst].
  - cbn zeta. split; [exact Hb0|]. split; [auto|]. intros g p [].
  - assert (H1 : Forall (batch_ok m) (kset b0 (key_of_gid m g) g)).
    { apply Forall_forall. intros x Hx. apply kset_In in Hx. destruct Hx as [Hx|Hx]; [eapply Forall_forall; eauto|]. subst x.
      assert (Hg : gid_ok m g) by (apply (Hok g p); left; reflexivity).
      destruct (key_of_gid_bkey m g Hg) as [[L E]|[L Hin]]; unfold batch_ok; cbn [fst snd].
      - right. split; [exact L|exact E].
      - left. intro Hn. apply kget_None in Hn. apply Hn. apply in_map_iff. exists (key_of_gid m g, g). split; [reflexivity|exact Hin]. }
    destruct (IH (fun g' p' H => Hok g' p' (or_intror H)) _ H1) as (F & K & C). cbn zeta in *.
    split; [exact F|]. split; [intros k Hk; apply K; apply kset_keeps; exact Hk|].
    intros g' p' [E|H]; [inversion E; subst; apply K; apply kset_has|exact (C g' p' H)].
Qed.
