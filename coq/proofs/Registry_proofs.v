(* Registry_proofs.v - C01R: invariants of the group registry (model/Registry.v) over every sequence of sync rounds,
   every oracle answer, every configuration, every iteration order of s_seg_part. *)
From Coq Require Import Lia ZifyBool ZifyN ZifyNat Permutation.
From Ragc Require Import Mach Consts_segment Consts_registry GroupStore Registry.
From Ragc Require Segment Pipeline.
Open Scope N_scope.
Arguments N.add : simpl never.
Arguments N.sub : simpl never.
Arguments N.mul : simpl never.
Arguments N.modulo : simpl never.
Arguments N.div : simpl never.
Ltac Zify.zify_post_hook ::= Z.div_mod_to_equations.

Lemma NRAW_eq : NRAW = 16. Proof. reflexivity. Qed.
Lemma two32_eq : two32 = 4294967296. Proof. reflexivity. Qed.
Lemma MISS_eq : MISS = 18446744073709551615. Proof. reflexivity. Qed.
Lemma MISS_def : MISS = MISSING_KMER. Proof. reflexivity. Qed.
Global Opaque NRAW MISS.

(* ------------------------------------------------------------------ keys and association lists *)
Lemma key_eqb_eq a b : key_eqb a b = true <-> a = b.
Proof.
  unfold key_eqb. destruct a as [a1 a2], b as [b1 b2]. cbn [fst snd]. split.
  - intro H. apply andb_true_iff in H. destruct H as [H1 H2]. apply N.eqb_eq in H1, H2. subst. reflexivity.
  - intro H. inversion H; subst. rewrite !N.eqb_refl. reflexivity.
Qed.
Lemma key_eqb_refl a : key_eqb a a = true. Proof. apply key_eqb_eq. reflexivity. Qed.
Lemma key_eqb_neq a b : key_eqb a b = false <-> a <> b.
Proof. split; intro H. - intro E. apply key_eqb_eq in E. congruence. - destruct (key_eqb a b) eqn:E; [apply key_eqb_eq in E; contradiction|reflexivity]. Qed.
Lemma key_dec (a b : key) : {a = b} + {a <> b}.
Proof. destruct (key_eqb a b) eqn:E; [left; apply key_eqb_eq; exact E|right; apply key_eqb_neq; exact E]. Qed.

Section KV.
  Context {V : Type}.
  Implicit Types m : list (key * V).

  Lemma kget_In m k v : kget m k = Some v -> In (k, v) m.
  Proof.
    induction m as [|[k' v'] m IH]; cbn [kget]; [discriminate|].
    destruct (key_eqb k' k) eqn:E; intro H.
    - apply key_eqb_eq in E. inversion H; subst. left. reflexivity.
    - right. apply IH. exact H.
  Qed.
  Lemma kget_None m k : kget m k = None <-> ~ In k (map fst m).
  Proof.
    induction m as [|[k' v'] m IH]; cbn [kget map fst In]; [tauto|].
    destruct (key_eqb k' k) eqn:E.
    - apply key_eqb_eq in E. subst. split; [discriminate|]. intro H. exfalso. apply H. left. reflexivity.
    - apply key_eqb_neq in E. rewrite IH. tauto.
  Qed.
  Lemma In_kget m k v : NoDup (map fst m) -> In (k, v) m -> kget m k = Some v.
  Proof.
    induction m as [|[k' v'] m IH]; cbn [kget map fst In]; [tauto|]. intros ND [H|H].
    - inversion H; subst. rewrite key_eqb_refl. reflexivity.
    - inversion ND; subst. destruct (key_eqb k' k) eqn:E.
      + apply key_eqb_eq in E. subst. exfalso. apply H2. apply in_map_iff. exists (k, v). auto.
      + apply IH; assumption.
  Qed.
  Lemma kget_app m m2 k : kget (m ++ m2) k = match kget m k with Some v => Some v | None => kget m2 k end.
  Proof. induction m as [|[k' v'] m IH]; cbn [kget app]; [reflexivity|]. destruct (key_eqb k' k); [reflexivity|exact IH]. Qed.
  Lemma kget_app_mono m m2 k v : kget m k = Some v -> kget (m ++ m2) k = Some v.
  Proof. intro H. rewrite kget_app, H. reflexivity. Qed.
  Lemma kget_snoc_new m k v : kget m k = None -> kget (m ++ [(k, v)]) k = Some v.
  Proof. intro H. rewrite kget_app, H. cbn [kget]. rewrite key_eqb_refl. reflexivity. Qed.

  Lemma or_insert_mono m k v k' v' : kget m k' = Some v' -> kget (or_insert m k v) k' = Some v'.
  Proof. unfold or_insert. destruct (kget m k); [auto|]. apply kget_app_mono. Qed.
  Lemma or_insert_present m k v : kget (or_insert m k v) k <> None.
  Proof.
    unfold or_insert. destruct (kget m k) eqn:E; [congruence|]. rewrite kget_snoc_new by exact E. discriminate.
  Qed.
  Lemma or_insert_In m k v x : In x (or_insert m k v) -> In x m \/ (x = (k, v) /\ kget m k = None).
  Proof.
    unfold or_insert. destruct (kget m k) eqn:E; [auto|]. intro H. apply in_app_or in H. destruct H as [H|[H|[]]]; auto.
  Qed.
  Lemma or_insert_len m k v : (length m <= length (or_insert m k v))%nat.
  Proof. unfold or_insert. destruct (kget m k); [lia|]. rewrite app_length. cbn. lia. Qed.

  Lemma kset_In m k v x : In x (kset m k v) -> In x m \/ x = (k, v).
  Proof.
    induction m as [|[k' v'] m IH]; cbn [kset In]; [intros [H|[]]; auto|].
    destruct (key_eqb k' k) eqn:E; cbn [In].
    - apply key_eqb_eq in E. subst. intros [H|H]; auto.
    - intros [H|H]; [auto|]. destruct (IH H); auto.
  Qed.
  Lemma kset_has m k v : In k (map fst (kset m k v)).
  Proof.
    induction m as [|[k' v'] m IH]; cbn [kset]; [left; reflexivity|].
    destruct (key_eqb k' k) eqn:E; cbn [map fst In]; [apply key_eqb_eq in E; auto|auto].
  Qed.
  Lemma kset_keeps m k v k' : In k' (map fst m) -> In k' (map fst (kset m k v)).
  Proof.
    induction m as [|[k0 v0] m IH]; cbn [kset map fst In]; [tauto|].
    destruct (key_eqb k0 k) eqn:E; cbn [map fst In]; tauto.
  Qed.
End KV.

Lemma NoDup_app_snoc {A} (l : list A) x : NoDup l -> ~ In x l -> NoDup (l ++ [x]).
Proof.
  intros ND Hn. induction l as [|y l IH]; cbn [app]; [constructor; [intros []|constructor]|].
  inversion ND; subst. constructor.
  - intro H. apply in_app_or in H. destruct H as [H|[H|[]]]; [contradiction|]. subst. apply Hn. left. reflexivity.
  - apply IH; [assumption|]. intro H. apply Hn. right. exact H.
Qed.

(* ------------------------------------------------------------------ dense id sequences *)
Fixpoint seqN (a : N) (n : nat) : list N := match n with O => [] | S n' => a :: seqN (a + 1) n' end.
Lemma seqN_snoc a n : seqN a (S n) = seqN a n ++ [a + N.of_nat n].
Proof.
  revert a. induction n as [|n IH]; intro a.
  - cbn. f_equal. lia.
  - change (seqN a (S (S n))) with (a :: seqN (a + 1) (S n)). rewrite IH. cbn [seqN app]. do 3 f_equal. lia.
Qed.
Lemma seqN_In a n x : In x (seqN a n) <-> a <= x < a + N.of_nat n.
Proof.
  revert a. induction n as [|n IH]; intro a; cbn [seqN In]; [lia|]. rewrite IH. lia.
Qed.
Lemma seqN_NoDup a n : NoDup (seqN a n).
Proof.
  revert a. induction n as [|n IH]; intro a; cbn [seqN]; constructor; [|apply IH]. rewrite seqN_In. lia.
Qed.
Lemma seqN_length a n : length (seqN a n) = n.
Proof. revert a. induction n; intro a; cbn; [reflexivity|]. f_equal. auto. Qed.

Definition lz_gids (m : list (key * N)) : list N := map snd (filter (fun x => NRAW <=? snd x) m).
Lemma lz_gids_app m m2 : lz_gids (m ++ m2) = lz_gids m ++ lz_gids m2.
Proof. unfold lz_gids. rewrite filter_app, map_app. reflexivity. Qed.
Lemma lz_gids_In m g : In g (lz_gids m) <-> NRAW <= g /\ exists k, In (k, g) m.
Proof.
  unfold lz_gids. rewrite in_map_iff. split.
  - intros ([k g'] & E & H). cbn in E. subst. apply filter_In in H. destruct H as [H1 H2]. cbn in H2.
    split; [lia|]. exists k. exact H1.
  - intros [H (k & Hk)]. exists (k, g). split; [reflexivity|]. apply filter_In. split; [exact Hk|]. cbn. lia.
Qed.
Lemma NoDup_map_snd_inj {A} (l : list (A * N)) a b g : NoDup (map snd l) -> In (a, g) l -> In (b, g) l -> a = b.
Proof.
  induction l as [|[x y] l IH]; cbn [map snd In]; [tauto|]. intros ND Ha Hb. inversion ND; subst.
  destruct Ha as [Ha|Ha], Hb as [Hb|Hb].
  - congruence.
  - inversion Ha; subst. exfalso. apply H1. apply in_map_iff. exists (b, g). auto.
  - inversion Hb; subst. exfalso. apply H1. apply in_map_iff. exists (a, g). auto.
  - apply IH; assumption.
Qed.

(* ------------------------------------------------------------------ the invariant of map_segments and the counters
   [nowrap]: the u32 counters have not wrapped (fewer than 2^32 - 16 entries in map_segments) *)
Definition nowrap (r : reg) : Prop := lenN (r_map r) + NRAW < two32.

Record minv (m : list (key * N)) (gc : N) : Prop := {
  mi_orph : kget m orphan_key = Some 0;
  mi_keys : NoDup (map fst m);
  mi_lz : lz_gids m = seqN NRAW (length (lz_gids m));               (* 16, 17, .. in registration order *)
  mi_gc : gc = NRAW + lenN (lz_gids m);
  mi_raw : forall k g, In (k, g) m -> g < NRAW -> (k = orphan_key /\ g = 0) \/ k = (g, MISS)
}.

Lemma minv_init : minv (r_map reg_init) (r_gc reg_init).
Proof.
  constructor.
  - reflexivity.
  - cbn. constructor; [intros []|constructor].
  - reflexivity.
  - reflexivity.
  - intros k g [H|[]] _. inversion H; subst. left. split; reflexivity.
Qed.

Lemma minv_value_lt m gc k g : minv m gc -> In (k, g) m -> g < NRAW \/ (NRAW <= g < gc).
Proof.
  intros I H. destruct (N.ltb_spec g NRAW) as [L|L]; [left; exact L|right].
  assert (Hin : In g (lz_gids m)) by (apply lz_gids_In; split; [exact L|exists k; exact H]).
  rewrite (mi_lz _ _ I) in Hin. apply seqN_In in Hin. rewrite (mi_gc _ _ I). unfold lenN. lia.
Qed.

Lemma minv_inj m gc k1 k2 g : minv m gc -> NRAW <= g -> In (k1, g) m -> In (k2, g) m -> k1 = k2.
Proof.
  intros I L H1 H2.
  assert (ND : NoDup (map snd (filter (fun x => NRAW <=? snd x) m))).
  { change (NoDup (lz_gids m)). rewrite (mi_lz _ _ I). apply seqN_NoDup. }
  apply (NoDup_map_snd_inj (filter (fun x => NRAW <=? snd x) m) k1 k2 g ND); apply filter_In; (split; [assumption|cbn [snd]; lia]).
Qed.

(* registration of a new key with the next id *)
Lemma minv_register m gc k : minv m gc -> kget m k = None -> gc + 1 < two32 ->
  minv (m ++ [(k, gc)]) (wrap32 (gc + 1)).
Proof.
  intros I Hn Hw. pose proof (mi_gc _ _ I) as Egc. constructor.
  - apply kget_app_mono. exact (mi_orph _ _ I).
  - rewrite map_app. cbn [map fst]. apply NoDup_app_snoc.
    + exact (mi_keys _ _ I).
    + apply kget_None. exact Hn.
  - rewrite lz_gids_app. unfold lz_gids at 2 4. cbn [filter snd map].
    assert (E : (NRAW <=? gc) = true) by (rewrite Egc; lia). rewrite E. cbn [map snd].
    rewrite app_length. cbn [length]. rewrite Nat.add_1_r, seqN_snoc. rewrite <- (mi_lz _ _ I).
    f_equal. f_equal. rewrite Egc. unfold lenN. reflexivity.
  - rewrite lz_gids_app. unfold lz_gids at 2. cbn [filter snd map].
    assert (E : (NRAW <=? gc) = true) by (rewrite Egc; lia). rewrite E. cbn [map snd].
    unfold wrap32, lenN. rewrite app_length. cbn [length]. rewrite N.mod_small by exact Hw.
    rewrite Egc. unfold lenN. lia.
  - intros k' g H L. apply in_app_or in H. destruct H as [H|[H|[]]].
    + exact (mi_raw _ _ I k' g H L).
    + inversion H. subst k' g. rewrite Egc in L. lia.
Qed.

Lemma lz_gids_len m : (length (lz_gids m) <= length m)%nat.
Proof.
  unfold lz_gids. rewrite map_length. induction m as [|x m IH]; cbn [filter length]; [lia|].
  destruct (NRAW <=? snd x); cbn [length]; lia.
Qed.

(* ------------------------------------------------------------------ classification: the invariant of a round in progress *)
Definition gid_ok (m : list (key * N)) (g : N) : Prop := g < NRAW \/ exists k, In (k, g) m.
Definition gid_of (m : list (key * N)) (k : key) : N := match kget m k with Some g => g | None => 0 end.
Definition log_pair (e : placed * key * N) : N * placed := (snd e, fst (fst e)).
Definition entry_ok (m : list (key * N)) (e : placed * key * N) : Prop :=
  (snd (fst e) = orphan_key /\ snd e < NRAW) \/ kget m (snd (fst e)) = Some (snd e).
Definition news_pair (m : list (key * N)) (kp : key * placed) : N * placed := (gid_of m (fst kp), snd kp).

Record cinv (st : cstate) : Prop := {
  ci_m : minv (r_map (cs_reg st)) (r_gc (cs_reg st));
  ci_vlen : r_gc (cs_reg st) <= r_vlen (cs_reg st) /\ NRAW <= r_vlen (cs_reg st);
  ci_vl : forall g p, In (g, p) (cs_vl st) -> gid_ok (r_map (cs_reg st)) g;
  ci_news : forall k p, In (k, p) (cs_news st) -> kget (r_map (cs_reg st)) k <> None;
  ci_log : forall e, In e (cs_log st) -> entry_ok (r_map (cs_reg st)) e;
  ci_link : Permutation (map log_pair (cs_log st)) (cs_vl st ++ map (news_pair (r_map (cs_reg st))) (cs_news st))
}.

Lemma gid_ok_lt m gc vlen g : minv m gc -> gc <= vlen -> NRAW <= vlen -> gid_ok m g -> g < vlen.
Proof.
  intros I H1 H2 [L|(k & Hk)]; [lia|]. destruct (minv_value_lt _ _ _ _ I Hk); lia.
Qed.
Lemma add_known_ok vlen vl g p : g < vlen -> add_known vlen vl g p = (g, p) :: vl.
Proof. intro H. unfold add_known. destruct (N.ltb_spec g vlen); [reflexivity|lia]. Qed.
Lemma gid_ok_app m m2 g : gid_ok m g -> gid_ok (m ++ m2) g.
Proof. intros [L|(k & Hk)]; [left; exact L|right; exists k; apply in_or_app; left; exact Hk]. Qed.
Lemma entry_ok_app m m2 e : entry_ok m e -> entry_ok (m ++ m2) e.
Proof. intros [H|H]; [left; exact H|right; apply kget_app_mono; exact H]. Qed.
Lemma kget_ne_app {V} (m m2 : list (key * V)) k : kget m k <> None -> kget (m ++ m2) k <> None.
Proof. intro H. rewrite kget_app. destruct (kget m k); [discriminate|contradiction]. Qed.
Lemma news_pair_app m m2 (news : list (key * placed)) :
  (forall k p, In (k, p) news -> kget m k <> None) -> map (news_pair (m ++ m2)) news = map (news_pair m) news.
Proof.
  intro H. apply map_ext_in. intros [k p] Hin. unfold news_pair, gid_of. cbn [fst snd]. rewrite kget_app.
  specialize (H k p Hin). destruct (kget m k); [reflexivity|contradiction].
Qed.

(* what a successful split attempt hands to add_known: one or two segments, each with a key of map_segments *)
Lemma split_attempt_cases cf m s o kf kb sr sn cn part adds incr :
  split_attempt cf m s o kf kb sr sn cn part = Some (adds, incr) ->
  (exists g1 p1 k1 g2 p2 k2, adds = [(g1, p1, k1); (g2, p2, k2)] /\ kget m k1 = Some g1 /\ kget m k2 = Some g2 /\ incr = 2 /\
      p_sample p1 = sn /\ p_name p1 = cn /\ p_sample p2 = sn /\ p_name p2 = cn /\
      ((p_part p1 = part /\ p_part p2 = part + 1) \/ (p_part p1 = part + 1 /\ p_part p2 = part)) /\
      k1 <> orphan_key /\ k2 <> orphan_key) \/
  (exists g1 p1 k1, adds = [(g1, p1, k1)] /\ kget m k1 = Some g1 /\ incr = 1 /\ p_sample p1 = sn /\ p_name p1 = cn /\
      p_part p1 = part /\ k1 <> orphan_key).
Proof.
  unfold split_attempt.
  destruct (negb (cf_no_split cf) && negb (kf =? MISS) && negb (kb =? MISS) && negb (kf =? kb)) eqn:T; [|discriminate].
  assert (Hkf : kf <> MISS /\ kb <> MISS) by lia. destruct Hkf as [Hkf Hkb].
  destruct (o_mid o) as [middle|]; [|discriminate]. cbv zeta.
  match goal with |- match kget m ?a with _ => _ end = _ -> _ => set (lk := a) end.
  assert (Hl : lk <> orphan_key).
  { unfold lk, orphan_key. destruct (kf <=? middle); intro E; inversion E; congruence. }
  destruct (kget m lk) as [lg|] eqn:El; [|discriminate].
  match goal with |- match kget m ?a with _ => _ end = _ -> _ => set (rk := a) end.
  assert (Hr : rk <> orphan_key).
  { unfold rk, orphan_key. destruct (middle <=? kb); intro E; inversion E; congruence. }
  destruct (kget m rk) as [rg|] eqn:Er; [|discriminate].
  destruct (o_split o); intro H; inversion H; subst; clear H.
  - left. do 6 eexists. split; [reflexivity|]. split; [exact El|]. split; [exact Er|]. split; [reflexivity|].
    cbn [mk_placed p_sample p_name p_part]. repeat (split; [reflexivity|]). split; [|split; assumption].
    destruct sr; [right|left]; split; reflexivity.
  - right. do 3 eexists. split; [reflexivity|]. split; [exact El|]. cbn [mk_placed p_sample p_name p_part].
    repeat (split; [reflexivity|]). exact Hl.
  - right. do 3 eexists. split; [reflexivity|]. split; [exact Er|]. cbn [mk_placed p_sample p_name p_part].
    repeat (split; [reflexivity|]). exact Hr.
Qed.

Lemma cinv_nowrap_gc st : cinv st -> lenN (r_map (cs_reg st)) + 1 + NRAW < two32 -> r_gc (cs_reg st) + 1 < two32.
Proof.
  intros I H. rewrite (mi_gc _ _ (ci_m _ I)). pose proof (lz_gids_len (r_map (cs_reg st))). unfold lenN in *. lia.
Qed.

(* one raw segment *)
Lemma classify_step_inv cf sn cn x st part :
  cinv st -> nowrap (cs_reg (fst (classify_step cf sn cn x (st, part)))) ->
  cinv (fst (classify_step cf sn cn x (st, part))).
Proof.
  intros I. destruct x as [s o]. unfold classify_step.
  destruct (classify_key cf s o) as [[kf kb] sr].
  pose proof (ci_m _ I) as Im. destruct (ci_vlen _ I) as [Hv1 Hv2].
  destruct (kget (r_map (cs_reg st)) (kf, kb)) as [gid|] eqn:Eg.
  - (* KNOWN *)
    destruct ((kf =? MISS) && (kb =? MISS)) eqn:Eo; cbn [fst]; intros _.
    + assert (Ek : (kf, kb) = orphan_key) by (unfold orphan_key; f_equal; lia).
      assert (Hg : r_rgc (cs_reg st) mod NRAW < NRAW) by (rewrite NRAW_eq; lia).
      rewrite add_known_ok by lia.
      constructor; cbn [cs_reg cs_vl cs_news cs_log set_reg r_map r_gc r_vlen].
      * exact Im.
      * split; assumption.
      * intros g p [H|H]; [inversion H; subst; left; exact Hg|exact (ci_vl _ I g p H)].
      * exact (ci_news _ I).
      * intros e [H|H]; [subst e; left; cbn [fst snd]; split; [exact Ek|exact Hg]|exact (ci_log _ I e H)].
      * cbn [map log_pair fst snd app]. apply perm_skip. exact (ci_link _ I).
    + assert (Hok : gid_ok (r_map (cs_reg st)) gid) by (right; exists (kf, kb); apply kget_In; exact Eg).
      rewrite add_known_ok by (eapply gid_ok_lt; eauto).
      constructor; cbn [cs_reg cs_vl cs_news cs_log].
      * exact Im.
      * split; assumption.
      * intros g p [H|H]; [inversion H; subst; exact Hok|exact (ci_vl _ I g p H)].
      * exact (ci_news _ I).
      * intros e [H|H]; [subst e; right; cbn [fst snd]; exact Eg|exact (ci_log _ I e H)].
      * cbn [map log_pair fst snd app]. apply perm_skip. exact (ci_link _ I).
  - destruct (split_attempt cf (r_map (cs_reg st)) s o kf kb sr sn cn part) as [[adds incr]|] eqn:Es.
    + (* split / assign: group ids of map_segments *)
      cbn [fst]. intros _. apply split_attempt_cases in Es.
      destruct Es as [(g1 & p1 & k1 & g2 & p2 & k2 & -> & E1 & E2 & _)|(g1 & p1 & k1 & -> & E1 & _)].
      * assert (O1 : gid_ok (r_map (cs_reg st)) g1) by (right; exists k1; apply kget_In; exact E1).
        assert (O2 : gid_ok (r_map (cs_reg st)) g2) by (right; exists k2; apply kget_In; exact E2).
        cbn [fold_left fst snd map rev app].
        rewrite (add_known_ok _ _ g1) by (eapply gid_ok_lt; eauto).
        rewrite (add_known_ok _ _ g2) by (eapply gid_ok_lt; eauto).
        constructor; cbn [cs_reg cs_vl cs_news cs_log].
        -- exact Im.
        -- split; assumption.
        -- intros g p [H|[H|H]]; [inversion H; subst; exact O2|inversion H; subst; exact O1|exact (ci_vl _ I g p H)].
        -- exact (ci_news _ I).
        -- intros e [H|[H|H]]; [subst e; right; exact E2|subst e; right; exact E1|exact (ci_log _ I e H)].
        -- cbn [map log_pair fst snd app]. do 2 apply perm_skip. exact (ci_link _ I).
      * assert (O1 : gid_ok (r_map (cs_reg st)) g1) by (right; exists k1; apply kget_In; exact E1).
        cbn [fold_left fst snd map rev app].
        rewrite (add_known_ok _ _ g1) by (eapply gid_ok_lt; eauto).
        constructor; cbn [cs_reg cs_vl cs_news cs_log].
        -- exact Im.
        -- split; assumption.
        -- intros g p [H|H]; [inversion H; subst; exact O1|exact (ci_vl _ I g p H)].
        -- exact (ci_news _ I).
        -- intros e [H|H]; [subst e; right; exact E1|exact (ci_log _ I e H)].
        -- cbn [map log_pair fst snd app]. apply perm_skip. exact (ci_link _ I).
    + (* NEW: immediate registration *)
      unfold register_key. rewrite Eg. cbn [fst]. intro Hw.
      assert (Hgc : r_gc (cs_reg st) + 1 < two32).
      { apply cinv_nowrap_gc; [exact I|]. unfold nowrap in Hw. cbn [cs_reg set_reg r_map] in Hw.
        unfold lenN in *. rewrite app_length in Hw. cbn [length] in Hw. lia. }
      set (m := r_map (cs_reg st)) in *. set (gc := r_gc (cs_reg st)) in *.
      constructor; cbn [cs_reg cs_vl cs_news cs_log set_reg r_map r_gc r_vlen].
      * apply minv_register; assumption.
      * unfold ensure_capacity, wrap32. rewrite N.mod_small by exact Hgc.
        destruct (N.leb_spec (r_vlen (cs_reg st)) gc); lia.
      * intros g p H. apply gid_ok_app. exact (ci_vl _ I g p H).
      * intros k p [H|H]; [inversion H; subst; rewrite kget_snoc_new by exact Eg; discriminate|].
        apply kget_ne_app. exact (ci_news _ I k p H).
      * intros e [H|H]; [subst e; right; cbn [fst snd]; apply kget_snoc_new; exact Eg|].
        apply entry_ok_app. exact (ci_log _ I e H).
      * cbn [map log_pair fst snd]. rewrite news_pair_app by exact (ci_news _ I).
        unfold news_pair at 1. cbn [fst snd]. unfold gid_of. rewrite kget_snoc_new by exact Eg.
        apply Permutation_cons_app. exact (ci_link _ I).
Qed.

(* ------------------------------------------------------------------ folds: map_segments only grows *)
Section FoldInv.
  Context {A B : Type} (f : A -> B -> A) (len : A -> N) (I : A -> Prop) (K : N).
  Hypothesis mono : forall a b, len a <= len (f a b).
  Hypothesis step : forall a b, I a -> len (f a b) < K -> I (f a b).
  Lemma fold_mono l a : len a <= len (fold_left f l a).
  Proof. revert a. induction l as [|b l IH]; intro a; cbn [fold_left]; [lia|]. specialize (IH (f a b)). specialize (mono a b). lia. Qed.
  Lemma fold_inv l a : I a -> len (fold_left f l a) < K -> I (fold_left f l a).
  Proof.
    revert a. induction l as [|b l IH]; intros a Ia Hb; cbn [fold_left] in *; [exact Ia|].
    apply IH; [|exact Hb]. apply step; [exact Ia|]. pose proof (fold_mono l (f a b)). lia.
  Qed.
End FoldInv.

Definition mlen (st : cstate) : N := lenN (r_map (cs_reg st)).
Definition same_bufs (r r' : reg) : Prop := r_bufs r' = r_bufs r /\ r_streams r' = r_streams r.

Lemma classify_step_mono cf sn cn x st part :
  mlen st <= mlen (fst (classify_step cf sn cn x (st, part))) /\
  same_bufs (cs_reg st) (cs_reg (fst (classify_step cf sn cn x (st, part)))).
Proof.
  destruct x as [s o]. unfold classify_step, mlen, same_bufs.
  destruct (classify_key cf s o) as [[kf kb] sr].
  destruct (kget (r_map (cs_reg st)) (kf, kb)) as [gid|] eqn:Eg.
  - destruct ((kf =? MISS) && (kb =? MISS)); cbn [fst cs_reg set_reg r_map r_bufs r_streams]; (split; [lia|split; reflexivity]).
  - destruct (split_attempt cf (r_map (cs_reg st)) s o kf kb sr sn cn part) as [[adds incr]|].
    + cbn [fst cs_reg]. split; [lia|split; reflexivity].
    + unfold register_key. rewrite Eg. cbn [fst cs_reg set_reg r_map r_bufs r_streams]. unfold lenN. rewrite app_length. cbn [length].
      split; [lia|split; reflexivity].
Qed.

Definition nowrap_st (st : cstate) : Prop := nowrap (cs_reg st).
Lemma nowrap_st_eq st : nowrap_st st <-> mlen st < two32 - NRAW.
Proof. unfold nowrap_st, nowrap, mlen. rewrite NRAW_eq, two32_eq. lia. Qed.

Definition fold_steps (cf : config) (sn cn : list N) (l : list (rawseg * oracle)) (acc : cstate * N) : cstate * N :=
  fold_left (fun acc x => classify_step cf sn cn x acc) l acc.
Lemma classify_contig_eq cf st c : classify_contig cf st c = fst (fold_steps cf (c_sample c) (c_name c) (c_segs c) (st, 0)).
Proof. reflexivity. Qed.

Lemma fold_steps_mono cf sn cn l st part :
  mlen st <= mlen (fst (fold_steps cf sn cn l (st, part))) /\ same_bufs (cs_reg st) (cs_reg (fst (fold_steps cf sn cn l (st, part)))).
Proof.
  revert st part. induction l as [|x l IH]; intros st part; unfold fold_steps; cbn [fold_left fst].
  - split; [lia|split; reflexivity].
  - destruct (classify_step cf sn cn x (st, part)) as [st1 part1] eqn:E.
    pose proof (classify_step_mono cf sn cn x st part) as [M1 [B1 S1]]. rewrite E in M1, B1, S1. cbn [fst] in *.
    destruct (IH st1 part1) as [M2 [B2 S2]]. unfold fold_steps in *. split; [lia|]. split; congruence.
Qed.
Lemma fold_steps_inv cf sn cn l st part :
  cinv st -> nowrap_st (fst (fold_steps cf sn cn l (st, part))) -> cinv (fst (fold_steps cf sn cn l (st, part))).
Proof.
  revert st part. induction l as [|x l IH]; intros st part I Hw; unfold fold_steps in *; cbn [fold_left fst] in *; [exact I|].
  destruct (classify_step cf sn cn x (st, part)) as [st1 part1] eqn:E.
  apply IH; [|exact Hw].
  pose proof (classify_step_inv cf sn cn x st part I) as H. rewrite E in H. cbn [fst] in H. apply H.
  apply nowrap_st_eq. apply nowrap_st_eq in Hw.
  destruct (fold_steps_mono cf sn cn l st1 part1) as [M _]. unfold fold_steps in M. lia.
Qed.

Lemma classify_contig_mono cf st c :
  mlen st <= mlen (classify_contig cf st c) /\ same_bufs (cs_reg st) (cs_reg (classify_contig cf st c)).
Proof. rewrite classify_contig_eq. apply fold_steps_mono. Qed.
Lemma classify_contig_inv cf st c : cinv st -> nowrap_st (classify_contig cf st c) -> cinv (classify_contig cf st c).
Proof. rewrite classify_contig_eq. apply fold_steps_inv. Qed.

Lemma classify_all_mono cf l st :
  mlen st <= mlen (fold_left (classify_contig cf) l st) /\ same_bufs (cs_reg st) (cs_reg (fold_left (classify_contig cf) l st)).
Proof.
  revert st. induction l as [|c l IH]; intro st; cbn [fold_left]; [split; [lia|split; reflexivity]|].
  destruct (classify_contig_mono cf st c) as [M1 [B1 S1]]. destruct (IH (classify_contig cf st c)) as [M2 [B2 S2]].
  split; [lia|split; congruence].
Qed.
Lemma classify_all_inv cf l st : cinv st -> nowrap_st (fold_left (classify_contig cf) l st) -> cinv (fold_left (classify_contig cf) l st).
Proof.
  revert st. induction l as [|c l IH]; intros st I Hw; cbn [fold_left] in *; [exact I|].
  apply IH; [|exact Hw]. apply classify_contig_inv; [exact I|].
  apply nowrap_st_eq. apply nowrap_st_eq in Hw. destruct (classify_all_mono cf l (classify_contig cf st c)) as [M _]. lia.
Qed.

(* ------------------------------------------------------------------ process_new on the live path: every key is registered *)
Lemma pn_assign_present m mk next news :
  (forall k p, In (k, p) news -> kget m k <> None) -> pn_assign m mk next news = (mk, next).
Proof.
  induction news as [|[k p] news IH]; intro H; cbn [pn_assign]; [reflexivity|].
  assert (Hk : kget m k <> None) by (apply (H k p); left; reflexivity).
  destruct (kget mk k); [apply IH; intros; eapply H; right; eauto|].
  destruct (kget m k); [|contradiction]. apply IH. intros; eapply H; right; eauto.
Qed.
Lemma pn_move_present mk vlen m vl news :
  (forall k p, In (k, p) news -> exists g, kget m k = Some g /\ g < vlen) ->
  pn_move mk vlen m vl news = (m, rev (map (news_pair m) news) ++ vl).
Proof.
  revert vl. induction news as [|[k p] news IH]; intros vl H; cbn [pn_move map rev app]; [reflexivity|].
  destruct (H k p (or_introl eq_refl)) as (g & Eg & Lg). rewrite Eg, add_known_ok by exact Lg.
  rewrite IH by (intros; eapply H; right; eauto).
  replace (news_pair m (k, p)) with (g, p) by (unfold news_pair, gid_of; cbn [fst snd]; rewrite Eg; reflexivity).
  rewrite <- app_assoc. reflexivity.
Qed.
Lemma process_new_present m next vlen vl news :
  next <= vlen -> (forall k p, In (k, p) news -> exists g, kget m k = Some g /\ g < vlen) ->
  process_new m next vlen vl news = (m, next, vlen, rev (map (news_pair m) news) ++ vl).
Proof.
  intros Hv H. unfold process_new. rewrite pn_assign_present.
  - destruct (N.ltb_spec vlen next); [lia|]. rewrite pn_move_present by exact H. reflexivity.
  - intros k p Hin. destruct (H k p Hin) as (g & Eg & _). congruence.
Qed.

(* ------------------------------------------------------------------ a well-formed registry between rounds *)
Record wf (r : reg) : Prop := {
  wf_m : minv (r_map r) (r_gc r);
  wf_vlen : r_gc r <= r_vlen r /\ NRAW <= r_vlen r;
  wf_bkeys : NoDup (map fst (r_bufs r));
  wf_bufs : forall k b, In (k, b) (r_bufs r) ->
            (b_gid b < NRAW /\ k = (b_gid b, MISS)) \/ (NRAW <= b_gid b /\ In (k, b_gid b) (r_map r))
}.
Lemma wf_init : wf reg_init.
Proof.
  constructor; [exact minv_init|cbn; rewrite NRAW_eq; lia|constructor|intros k b []].
Qed.
Lemma cinv_of_wf r : wf r -> cinv (cstate_of r).
Proof.
  intro W. constructor; cbn [cstate_of cs_reg cs_vl cs_news cs_log].
  - exact (wf_m _ W).
  - exact (wf_vlen _ W).
  - intros g p [].
  - intros k p [].
  - intros e [].
  - constructor.
Qed.

Definition perm_ord (ord : list (key * placed) -> list (key * placed)) : Prop := forall l, Permutation l (ord l).

Lemma news_present_lt st : cinv st ->
  forall k p, In (k, p) (cs_news st) -> exists g, kget (r_map (cs_reg st)) k = Some g /\ g < r_vlen (cs_reg st).
Proof.
  intros I k p H. pose proof (ci_news _ I k p H) as Hk. destruct (kget (r_map (cs_reg st)) k) as [g|] eqn:E; [|contradiction].
  exists g. split; [reflexivity|]. destruct (ci_vlen _ I). eapply gid_ok_lt; [exact (ci_m _ I)| | |]; try eassumption.
  right. exists k. apply kget_In. exact E.
Qed.

(* classify_raw_segments_at_barrier *)
Lemma classify_round_spec cf ord r contigs :
  wf r -> perm_ord ord -> nowrap (cs_reg (classify_round cf ord r contigs)) ->
  let st := classify_round cf ord r contigs in
  cinv st /\ cs_news st = [] /\ same_bufs r (cs_reg st) /\ lenN (r_map r) <= mlen st.
Proof.
  intros W Po. unfold classify_round. destruct contigs as [|c0 cs].
  - intros _. cbn zeta. split; [apply cinv_of_wf; exact W|]. split; [reflexivity|]. split; [split; reflexivity|]. unfold mlen. cbn. lia.
  - set (st := fold_left (classify_contig cf) (sort_contigs (c0 :: cs)) (cstate_of r)).
    assert (Hpres : nowrap_st st -> cinv st) by (intro H; apply classify_all_inv; [apply cinv_of_wf; exact W|exact H]).
    destruct (classify_all_mono cf (sort_contigs (c0 :: cs)) (cstate_of r)) as [M [B S]]. fold st in M, B, S.
    destruct (process_new (r_map (cs_reg st)) (r_gc (cs_reg st)) (r_vlen (cs_reg st)) (cs_vl st) (ord (rev (cs_news st))))
      as [[[m' next'] vlen'] vl'] eqn:Ep.
    intro Hw. cbn zeta.
    (* process_new only ever appends to the map: first show the bound for st *)
    assert (Hlen : lenN (r_map (cs_reg st)) <= lenN m').
    { revert Ep. unfold process_new. destruct (pn_assign _ _ _ _) as [mk nx].
      generalize (if r_vlen (cs_reg st) <? nx then nx else r_vlen (cs_reg st)) as vl0.
      generalize (cs_vl st) as vl1. generalize (r_map (cs_reg st)) as m0.
      induction (ord (rev (cs_news st))) as [|[k p] news IH]; intros m0 vl1 vl0; cbn [pn_move].
      - intro E. inversion E; subst. lia.
      - destruct (kget m0 k).
        + apply IH.
        + destruct (kget mk k).
          * intro E. specialize (IH _ _ _ E). unfold lenN in *. rewrite app_length in IH. cbn [length] in IH. lia.
          * apply IH. }
    assert (Hst : nowrap_st st).
    { unfold nowrap_st, nowrap in *. cbn [cs_reg set_reg r_map] in Hw. lia. }
    specialize (Hpres Hst).
    assert (Hn : forall k p, In (k, p) (ord (rev (cs_news st))) -> exists g, kget (r_map (cs_reg st)) k = Some g /\ g < r_vlen (cs_reg st)).
    { intros k p Hin. apply (news_present_lt st Hpres k p). apply in_rev. eapply Permutation_in; [apply Permutation_sym; apply Po|exact Hin]. }
    rewrite process_new_present in Ep by (try exact Hn; destruct (ci_vlen _ Hpres); assumption).
    inversion Ep; subst m' next' vlen' vl'; clear Ep.
    split; [|split; [reflexivity|split; [split; assumption|]]].
    + constructor; cbn [cs_reg cs_vl cs_news cs_log set_reg r_map r_gc r_vlen].
      * exact (ci_m _ Hpres).
      * exact (ci_vlen _ Hpres).
      * intros g p H. apply in_app_or in H. destruct H as [H|H]; [|exact (ci_vl _ Hpres g p H)].
        apply in_rev in H. apply in_map_iff in H. destruct H as ([k p'] & E & Hin). unfold news_pair in E. cbn [fst snd] in E.
        inversion E; subst. destruct (Hn k p Hin) as (g & Eg & _). unfold gid_of. rewrite Eg. right. exists k. apply kget_In. exact Eg.
      * intros k p [].
      * exact (ci_log _ Hpres).
      * cbn [map]. rewrite app_nil_r. eapply Permutation_trans; [exact (ci_link _ Hpres)|].
        rewrite Permutation_app_comm. apply Permutation_app_tail.
        eapply Permutation_trans; [|apply Permutation_rev]. apply Permutation_map.
        eapply Permutation_trans; [apply Permutation_rev|]. apply Po.
    + unfold mlen in *. cbn [cs_reg set_reg r_map cstate_of] in *. lia.
Qed.

(* ------------------------------------------------------------------ prepare_batch_parallel *)
Lemma filter_disj_perm {A} (p q r : A -> bool) (l : list A) :
  (forall x, r x = p x || q x) -> (forall x, p x && q x = false) ->
  Permutation (filter p l ++ filter q l) (filter r l).
Proof.
  intros Hr Hd. induction l as [|x l IH]; cbn [filter app]; [constructor|].
  rewrite (Hr x). specialize (Hd x). destruct (p x) eqn:Ep, (q x) eqn:Eq; cbn [orb andb] in *; try discriminate.
  - cbn [app]. apply perm_skip. exact IH.
  - apply Permutation_sym. apply Permutation_cons_app. apply Permutation_sym. exact IH.
  - exact IH.
Qed.
Lemma filter_all {A} (p : A -> bool) (l : list A) : (forall x, In x l -> p x = true) -> filter p l = l.
Proof.
  induction l as [|x l IH]; intro H; cbn [filter]; [reflexivity|]. rewrite (H x (or_introl eq_refl)). f_equal. apply IH.
  intros y Hy. apply H. right. exact Hy.
Qed.
Lemma filter_none {A} (p : A -> bool) (l : list A) : (forall x, p x = false) -> filter p l = [].
Proof. intro H. induction l as [|x l IH]; cbn [filter]; [reflexivity|]. rewrite H. exact IH. Qed.

Lemma collect_range (vl : list (N * placed)) n from :
  Permutation (collect vl n from) (filter (fun x => (from <=? fst x) && (fst x <? from + N.of_nat n)) vl).
Proof.
  revert from. induction n as [|n IH]; intro from; cbn [collect].
  - rewrite filter_none; [constructor|]. intro x. lia.
  - eapply Permutation_trans; [apply Permutation_app_head; apply IH|].
    apply filter_disj_perm; intro x; lia.
Qed.
Lemma collect_perm (vl : list (N * placed)) vlen :
  (forall x, In x vl -> fst x < vlen) -> Permutation (collect vl (N.to_nat vlen) 0) vl.
Proof.
  intro H. eapply Permutation_trans; [apply collect_range|]. rewrite filter_all; [apply Permutation_refl|].
  intros x Hx. specialize (H x Hx). lia.
Qed.

Lemma rev_get_In m g best k : rev_get m g best = Some k -> best = Some k \/ In (k, g) m.
Proof.
  revert best. induction m as [|[k' g'] m IH]; intro best; cbn [rev_get]; [auto|].
  destruct (N.eqb_spec g' g) as [->|Hne].
  - intro H. apply IH in H. destruct H as [H|H]; [|right; right; exact H].
    destruct best as [b|].
    + destruct (key_ltb b k'); inversion H; subst; [right; left; reflexivity|left; reflexivity].
    + inversion H; subst. right. left. reflexivity.
  - intro H. apply IH in H. destruct H as [H|H]; [left; exact H|right; right; exact H].
Qed.
Lemma rev_get_some m g best : (best <> None \/ exists k, In (k, g) m) -> rev_get m g best <> None.
Proof.
  revert best. induction m as [|[k' g'] m IH]; intros best H; cbn [rev_get].
  - destruct H as [H|(k & [])]. exact H.
  - destruct (N.eqb_spec g' g) as [->|Hne].
    + apply IH. left. destruct best as [b|]; [destruct (key_ltb b k')|]; discriminate.
    + apply IH. destruct H as [H|(k & [Hk|Hk])]; [left; exact H| |right; exists k; exact Hk].
      inversion Hk; subst. contradiction.
Qed.

(* the key a group's segments are buffered under: the missing-key fallback is not taken for a registered id *)
Definition bkey (m : list (key * N)) (g : N) (k : key) : Prop :=
  (g < NRAW /\ k = (g, MISS)) \/ (NRAW <= g /\ In (k, g) m).
Lemma key_of_gid_bkey m g : gid_ok m g -> bkey m g (key_of_gid m g).
Proof.
  intro H. unfold key_of_gid, bkey. destruct (N.ltb_spec g NRAW) as [L|L]; [left; split; [exact L|reflexivity]|].
  right. split; [exact L|]. destruct H as [H|H]; [lia|].
  destruct (rev_get m g None) as [k|] eqn:E.
  - apply rev_get_In in E. destruct E as [E|E]; [discriminate|exact E].
  - exfalso. eapply rev_get_some; [|exact E]. right. exact H.
Qed.

Definition binv (m : list (key * N)) (bufs : list (key * buf)) : Prop :=
  NoDup (map fst bufs) /\ forall k b, In (k, b) bufs -> bkey m (b_gid b) k.

Lemma place_all_spec m bufs ss coll bufs' ss' out :
  (forall g p, In (g, p) coll -> gid_ok m g) -> binv m bufs ->
  place_all m bufs ss coll = (bufs', ss', out) ->
  binv m bufs' /\ (forall k b, kget bufs k = Some b -> kget bufs' k = Some b) /\
  Forall2 (fun c o => snd c = snd o /\ exists b, kget bufs' (key_of_gid m (fst c)) = Some b /\ b_gid b = fst o) coll out.
Proof.
  revert bufs ss bufs' ss' out. induction coll as [|[g p] coll IH]; intros bufs ss bufs' ss' out Hok Hb E; cbn [place_all] in E.
  - inversion E; subst. split; [exact Hb|]. split; [auto|constructor].
  - destruct (kget bufs (key_of_gid m g)) as [b|] eqn:Eb.
    + destruct (place_all m bufs ss coll) as [[bufs1 ss1] out1] eqn:E1. inversion E; subst; clear E.
      destruct (IH _ _ _ _ _ (fun g' p' H => Hok g' p' (or_intror H)) Hb E1) as (I1 & M1 & F1).
      split; [exact I1|]. split; [exact M1|]. constructor; [|exact F1]. cbn [fst snd]. split; [reflexivity|].
      exists b. split; [apply M1; exact Eb|reflexivity].
    + set (ss1 := register_group ss g) in *.
      set (b := {| b_gid := g; b_sid := stream_index ss1 g false 0; b_rsid := stream_index ss1 g true 0 |}) in *.
      destruct (place_all m (bufs ++ [(key_of_gid m g, b)]) ss1 coll) as [[bufs1 ss2] out1] eqn:E1. inversion E; subst; clear E.
      assert (Hb1 : binv m (bufs ++ [(key_of_gid m g, b)])).
      { destruct Hb as [ND Hb]. split.
        - rewrite map_app. cbn [map fst]. apply NoDup_app_snoc; [exact ND|]. apply kget_None. exact Eb.
        - intros k b0 H. apply in_app_or in H. destruct H as [H|[H|[]]]; [exact (Hb k b0 H)|].
          inversion H; subst. cbn [b_gid]. apply key_of_gid_bkey. apply (Hok g p). left. reflexivity. }
      destruct (IH _ _ _ _ _ (fun g' p' H => Hok g' p' (or_intror H)) Hb1 E1) as (I1 & M1 & F1).
      split; [exact I1|]. split.
      * intros k b0 H. apply M1. apply kget_app_mono. exact H.
      * constructor; [|exact F1]. cbn [fst snd]. split; [reflexivity|]. exists b. split; [|reflexivity].
        apply M1. apply kget_snoc_new. exact Eb.
Qed.

(* cleanup_batch_parallel: the batch-local keys that are written back *)
Definition batch_ok (m : list (key * N)) (kg : key * N) : Prop :=
  kget m (fst kg) <> None \/ (snd kg < NRAW /\ fst kg = (snd kg, MISS)).

Lemma minv_raw_copy m gc g : minv m gc -> g < NRAW -> kget m (g, MISS) = None -> minv (m ++ [((g, MISS), g)]) gc.
Proof.
  intros I L Hn. constructor.
  - apply kget_app_mono. exact (mi_orph _ _ I).
  - rewrite map_app. cbn [map fst]. apply NoDup_app_snoc; [exact (mi_keys _ _ I)|]. apply kget_None. exact Hn.
  - rewrite lz_gids_app. unfold lz_gids at 2 4. cbn [filter snd map].
    assert (E : (NRAW <=? g) = false) by lia. rewrite E. cbn [map]. rewrite app_nil_r. exact (mi_lz _ _ I).
  - rewrite lz_gids_app. unfold lz_gids at 2. cbn [filter snd map].
    assert (E : (NRAW <=? g) = false) by lia. rewrite E. cbn [map]. rewrite app_nil_r. exact (mi_gc _ _ I).
  - intros k' g' H L'. apply in_app_or in H. destruct H as [H|[H|[]]]; [exact (mi_raw _ _ I k' g' H L')|].
    inversion H; subst. right. reflexivity.
Qed.

Lemma cleanup_spec batch : forall m gc, minv m gc -> Forall (batch_ok m) batch ->
  let m3 := fold_left (fun m x => or_insert m (fst x) (snd x)) batch m in
  minv m3 gc /\ (forall k g, kget m k = Some g -> kget m3 k = Some g) /\ (forall x, In x m -> In x m3) /\
  lenN m <= lenN m3 /\ (forall k, In k (map fst batch) -> kget m3 k <> None).
Proof.
  induction batch as [|[k g] batch IH]; intros m gc I Hb; cbn [fold_left fst snd].
  - cbn zeta. split; [exact I|]. split; [auto|]. split; [auto|]. split; [lia|]. intros k [].
  - inversion Hb as [|x l Hk Hrest]; subst.
    assert (I1 : minv (or_insert m k g) gc).
    { unfold or_insert. destruct (kget m k) eqn:E; [exact I|]. destruct Hk as [Hk|[L Ek]]; cbn [fst snd] in *; [congruence|].
      subst k. apply minv_raw_copy; assumption. }
    assert (Hrest1 : Forall (batch_ok (or_insert m k g)) batch).
    { eapply Forall_impl; [|exact Hrest]. intros [k' g'] [H|H]; [left|right; exact H]. cbn [fst] in *.
      destruct (kget m k') eqn:E; [|contradiction]. erewrite or_insert_mono by exact E. discriminate. }
    destruct (IH _ _ I1 Hrest1) as (I3 & M3 & In3 & L3 & P3). cbn zeta in *.
    split; [exact I3|]. split; [intros k' g' H; apply M3; apply or_insert_mono; exact H|].
    split.
    { intros x Hx. apply In3. unfold or_insert. destruct (kget m k); [exact Hx|apply in_or_app; left; exact Hx]. }
    split.
    { pose proof (or_insert_len m k g). unfold lenN in *. lia. }
    intros k' [E|H]; [subst k'|apply P3; exact H].
    pose proof (or_insert_present m k g) as Hp. destruct (kget (or_insert m k g) k) eqn:E; [|contradiction].
    pose proof (M3 _ _ E) as H3. intro Hn. cbn [fst snd] in Hn, H3. rewrite Hn in H3. discriminate.
Qed.

Lemma batch_spec m (coll : list (N * placed)) : (forall g p, In (g, p) coll -> gid_ok m g) ->
  forall b0, Forall (batch_ok m) b0 ->
  let batch := fold_left (fun b x => kset b (key_of_gid m (fst x)) (fst x)) coll b0 in
  Forall (batch_ok m) batch /\ (forall k, In k (map fst b0) -> In k (map fst batch)) /\
  (forall g p, In (g, p) coll -> In (key_of_gid m g) (map fst batch)).
Proof.
  induction coll as [|[g p] coll IH]; intros Hok b0 Hb0; cbn [fold_left fst].
  - cbn zeta. split; [exact Hb0|]. split; [auto|]. intros g p [].
  - assert (H1 : Forall (batch_ok m) (kset b0 (key_of_gid m g) g)).
    { apply Forall_forall. intros x Hx. apply kset_In in Hx. destruct Hx as [Hx|Hx]; [eapply Forall_forall; eauto|]. subst x.
      assert (Hg : gid_ok m g) by (apply (Hok g p); left; reflexivity).
      destruct (key_of_gid_bkey m g Hg) as [[L E]|[L Hin]]; unfold batch_ok; cbn [fst snd].
      - right. split; [exact L|exact E].
      - left. intro Hn. apply kget_None in Hn. apply Hn. apply in_map_iff. exists (key_of_gid m g, g). split; [reflexivity|exact Hin]. }
    destruct (IH (fun g' p' H => Hok g' p' (or_intror H)) _ H1) as (F & K & C). cbn zeta in *.
    split; [exact F|]. split; [intros k Hk; apply K; apply kset_keeps; exact Hk|].
    intros g' p' [E|H]; [inversion E; subst; apply K; apply kset_has|exact (C g' p' H)].
Qed.

(* ------------------------------------------------------------------ map_segments is append-only *)
Definition extends (m m' : list (key * N)) : Prop := exists ext, m' = m ++ ext.
Lemma extends_refl m : extends m m. Proof. exists []. rewrite app_nil_r. reflexivity. Qed.
Lemma extends_trans m1 m2 m3 : extends m1 m2 -> extends m2 m3 -> extends m1 m3.
Proof. intros [e1 ->] [e2 ->]. exists (e1 ++ e2). rewrite app_assoc. reflexivity. Qed.
Lemma extends_In m m' x : extends m m' -> In x m -> In x m'.
Proof. intros [e ->] H. apply in_or_app. left. exact H. Qed.
Lemma extends_kget m m' k g : extends m m' -> kget m k = Some g -> kget m' k = Some g.
Proof. intros [e ->] H. apply kget_app_mono. exact H. Qed.
Lemma extends_len m m' : extends m m' -> lenN m <= lenN m'.
Proof. intros [e ->]. unfold lenN. rewrite app_length. lia. Qed.
Lemma entry_ok_ext m m' e : extends m m' -> entry_ok m e -> entry_ok m' e.
Proof. intros [x ->]. apply entry_ok_app. Qed.

Lemma classify_step_ext cf sn cn x st part :
  extends (r_map (cs_reg st)) (r_map (cs_reg (fst (classify_step cf sn cn x (st, part))))).
Proof.
  destruct x as [s o]. unfold classify_step.
  destruct (classify_key cf s o) as [[kf kb] sr].
  destruct (kget (r_map (cs_reg st)) (kf, kb)) as [gid|] eqn:Eg.
  - destruct ((kf =? MISS) && (kb =? MISS)); cbn [fst cs_reg set_reg r_map]; apply extends_refl.
  - destruct (split_attempt cf (r_map (cs_reg st)) s o kf kb sr sn cn part) as [[adds incr]|].
    + cbn [fst cs_reg]. apply extends_refl.
    + unfold register_key. rewrite Eg. cbn [fst cs_reg set_reg r_map]. eexists. reflexivity.
Qed.
Lemma fold_steps_ext cf sn cn l st part : extends (r_map (cs_reg st)) (r_map (cs_reg (fst (fold_steps cf sn cn l (st, part))))).
Proof.
  revert st part. induction l as [|x l IH]; intros st part; unfold fold_steps; cbn [fold_left fst]; [apply extends_refl|].
  destruct (classify_step cf sn cn x (st, part)) as [st1 part1] eqn:E.
  pose proof (classify_step_ext cf sn cn x st part) as H. rewrite E in H. cbn [fst] in H.
  eapply extends_trans; [exact H|]. apply IH.
Qed.
Lemma classify_all_ext cf l st : extends (r_map (cs_reg st)) (r_map (cs_reg (fold_left (classify_contig cf) l st))).
Proof.
  revert st. induction l as [|c l IH]; intro st; cbn [fold_left]; [apply extends_refl|].
  eapply extends_trans; [|apply IH]. rewrite classify_contig_eq. apply fold_steps_ext.
Qed.
Lemma fold_or_insert_ext batch : forall m, extends m (fold_left (fun m x => or_insert m (fst x) (snd x)) batch m).
Proof.
  induction batch as [|[k g] batch IH]; intro m; cbn [fold_left fst snd]; [apply extends_refl|].
  eapply extends_trans; [|apply IH]. unfold or_insert. destruct (kget m k); [apply extends_refl|eexists; reflexivity].
Qed.

Lemma classify_round_ext cf ord r contigs :
  wf r -> perm_ord ord -> nowrap (cs_reg (classify_round cf ord r contigs)) ->
  extends (r_map r) (r_map (cs_reg (classify_round cf ord r contigs))).
Proof.
  intros W Po Hw. pose proof (classify_round_spec cf ord r contigs W Po Hw) as (I & _).
  revert Hw I. unfold classify_round. destruct contigs as [|c0 cs]; [intros; apply extends_refl|].
  set (st := fold_left (classify_contig cf) (sort_contigs (c0 :: cs)) (cstate_of r)).
  destruct (process_new (r_map (cs_reg st)) (r_gc (cs_reg st)) (r_vlen (cs_reg st)) (cs_vl st) (ord (rev (cs_news st))))
    as [[[m' next'] vlen'] vl'] eqn:Ep. cbn [cs_reg set_reg r_map]. intros Hw _.
  eapply extends_trans; [exact (classify_all_ext cf (sort_contigs (c0 :: cs)) (cstate_of r))|]. fold st.
  (* process_new appends *)
  revert Ep. unfold process_new. destruct (pn_assign _ _ _ _) as [mk nx].
  generalize (if r_vlen (cs_reg st) <? nx then nx else r_vlen (cs_reg st)) as vl0.
  generalize (cs_vl st) as vl1. generalize (r_map (cs_reg st)) as m0.
  induction (ord (rev (cs_news st))) as [|[k p] news IH]; intros m0 vl1 vl0; cbn [pn_move].
  - intro E. inversion E; subst. apply extends_refl.
  - destruct (kget m0 k).
    + apply IH.
    + destruct (kget mk k).
      * intro E. specialize (IH _ _ _ E). eapply extends_trans; [|exact IH]. eexists. reflexivity.
      * apply IH.
Qed.

(* ------------------------------------------------------------------ one sync round *)
Lemma round_spec cf ord r contigs r' out lg :
  wf r -> perm_ord ord -> round cf ord r contigs = (r', out, lg) -> nowrap r' ->
  wf r' /\ extends (r_map r) (r_map r') /\
  (forall k b, kget (r_bufs r) k = Some b -> kget (r_bufs r') k = Some b) /\
  (forall e, In e lg -> entry_ok (r_map r') e) /\
  Permutation (map snd out) (map (fun e => fst (fst e)) lg) /\
  (forall lbl p, In (lbl, p) out ->
     exists g k b, In (g, p) (map log_pair lg) /\ bkey (r_map r') g k /\ kget (r_bufs r') k = Some b /\ b_gid b = lbl) /\
  (forall p g, In (p, orphan_key, g) lg -> kget (r_map r') (g, MISS) <> None).
Proof.
  intros W Po E Hw. unfold round in E.
  set (st := classify_round cf ord r contigs) in *.
  assert (Hst : nowrap (cs_reg st)).
  { revert E. destruct (cs_vl st) as [|v vl]; [intro E; inversion E; subst; exact Hw|].
    cbn [process_new pn_assign pn_move]. destruct (place_all _ _ _ _) as [[bufs' ss'] out'].
    intro E. inversion E; subst; clear E. unfold nowrap in *. cbn [r_map] in Hw.
    match type of Hw with lenN (fold_left ?f ?b ?m) + _ < _ => pose proof (extends_len _ _ (fold_or_insert_ext b m)) end. lia. }
  destruct (classify_round_spec cf ord r contigs W Po Hst) as (I & Hnews & [Bb Bs] & _). fold st in I, Hnews, Bb, Bs.
  pose proof (classify_round_ext cf ord r contigs W Po Hst) as Ext. fold st in Ext.
  pose proof (ci_link _ I) as Link. rewrite Hnews in Link. cbn [map] in Link. rewrite app_nil_r in Link.
  assert (Wb : binv (r_map (cs_reg st)) (r_bufs (cs_reg st))).
  { rewrite Bb. split; [exact (wf_bkeys _ W)|]. intros k b H. destruct (wf_bufs _ W k b H) as [H1|[H1 H2]]; [left; exact H1|right].
    split; [exact H1|]. eapply extends_In; eassumption. }
  destruct (cs_vl st) as [|v vl] eqn:Evl.
  - (* nothing buffered *)
    inversion E; subst r' out lg; clear E.
    assert (Hlog : cs_log st = []).
    { destruct (cs_log st); [reflexivity|]. apply Permutation_sym, Permutation_nil in Link. discriminate. }
    split.
    { constructor; [exact (ci_m _ I)|exact (ci_vlen _ I)|rewrite Bb; exact (wf_bkeys _ W)|exact (proj2 Wb)]. }
    split; [exact Ext|]. split; [rewrite Bb; auto|]. rewrite Hlog. cbn [rev map].
    split; [intros e []|]. split; [constructor|]. split; [intros lbl p []|intros p g []].
  - rewrite <- Evl in *. clear Evl v vl.
    cbn [process_new pn_assign pn_move] in E.
    set (m2 := r_map (cs_reg st)) in *. set (gc := r_gc (cs_reg st)) in *.
    set (vlen2 := if r_vlen (cs_reg st) <? gc then gc else r_vlen (cs_reg st)) in *.
    set (coll := collect (cs_vl st) (N.to_nat vlen2) 0) in *.
    destruct (ci_vlen _ I) as [Hv1 Hv2]. fold gc in Hv1.
    assert (Evlen : vlen2 = r_vlen (cs_reg st)) by (unfold vlen2; destruct (N.ltb_spec (r_vlen (cs_reg st)) gc); [lia|reflexivity]).
    assert (Hcoll : Permutation coll (cs_vl st)).
    { apply collect_perm. intros [g p] H. cbn [fst]. rewrite Evlen. eapply gid_ok_lt; [exact (ci_m _ I)|exact Hv1|exact Hv2|].
      exact (ci_vl _ I g p H). }
    assert (Hok : forall g p, In (g, p) coll -> gid_ok m2 g).
    { intros g p H. apply (ci_vl _ I g p). eapply Permutation_in; [exact Hcoll|exact H]. }
    destruct (place_all m2 (r_bufs (cs_reg st)) _ coll) as [[bufs' ss'] out'] eqn:Ep.
    inversion E; subst r' out lg; clear E. cbn [r_map r_gc r_vlen r_bufs] in *.
    destruct (place_all_spec _ _ _ _ _ _ _ Hok Wb Ep) as (Ib & Mb & F).
    destruct (batch_spec m2 coll Hok [] (Forall_nil _)) as (Fb & _ & Cb). cbn zeta in Fb, Cb.
    set (batch := fold_left (fun b x => kset b (key_of_gid m2 (fst x)) (fst x)) coll []) in *.
    destruct (cleanup_spec batch m2 gc (ci_m _ I) Fb) as (I3 & M3 & In3 & _ & P3). cbn zeta in I3, M3, In3, P3.
    set (m3 := fold_left (fun m x => or_insert m (fst x) (snd x)) batch m2) in *.
    assert (Ext3 : extends m2 m3) by apply fold_or_insert_ext.
    split.
    { constructor; cbn [r_map r_gc r_vlen r_bufs].
      - exact I3.
      - rewrite Evlen. split; assumption.
      - exact (proj1 Ib).
      - intros k b H. destruct (proj2 Ib k b H) as [H1|[H1 H2]]; [left; exact H1|right; split; [exact H1|apply In3; exact H2]]. }
    split; [eapply extends_trans; eassumption|].
    split; [intros k b H; apply Mb; rewrite Bb; exact H|].
    split.
    { intros e He. apply in_rev in He. eapply entry_ok_ext; [exact Ext3|]. exact (ci_log _ I e He). }
    assert (Hsnd : map snd out' = map snd coll).
    { clear -F. induction F as [|c o l l' [H _] _ IH]; cbn [map]; [reflexivity|]. rewrite IH, H. reflexivity. }
    split.
    { rewrite Hsnd. eapply Permutation_trans; [apply Permutation_map; exact Hcoll|].
      eapply Permutation_trans; [apply Permutation_map; apply Permutation_sym; exact Link|].
      rewrite map_map. unfold log_pair. cbn [snd]. rewrite map_rev. apply Permutation_rev. }
    split.
    { intros lbl p Hin.
      assert (Hx : exists c, In c coll /\ snd c = p /\ exists b, kget bufs' (key_of_gid m2 (fst c)) = Some b /\ b_gid b = lbl).
      { clear -F Hin. induction F as [|c o l l' [H1 H2] _ IH]; [destruct Hin|]. destruct Hin as [Hin|Hin].
        - subst o. cbn [fst snd] in *. exists c. split; [left; reflexivity|]. split; [exact H1|exact H2].
        - destruct (IH Hin) as (c' & Hc & Hr). exists c'. split; [right; exact Hc|exact Hr]. }
      destruct Hx as ([g p'] & Hc & Ep' & b & Eb & Lb). cbn [fst snd] in *. subst p'.
      exists g, (key_of_gid m2 g), b. split.
      { rewrite map_rev. apply in_rev. rewrite rev_involutive. eapply Permutation_in; [apply Permutation_sym; exact Link|].
        eapply Permutation_in; [exact Hcoll|exact Hc]. }
      split; [|split; [exact Eb|exact Lb]].
      destruct (key_of_gid_bkey m2 g (Hok g p Hc)) as [H|[H1 H2]]; [left; exact H|right; split; [exact H1|apply In3; exact H2]]. }
    intros p g Hin. apply in_rev in Hin.
    assert (Hg : g < NRAW).
    { destruct (ci_log _ I _ Hin) as [[_ H]|H]; cbn [fst snd] in *; [exact H|].
      rewrite (mi_orph _ _ (ci_m _ I)) in H. inversion H. rewrite NRAW_eq. lia. }
    assert (Hc : In (g, p) coll).
    { eapply Permutation_in; [apply Permutation_sym; exact Hcoll|]. eapply Permutation_in; [exact Link|].
      apply in_map_iff. exists (p, orphan_key, g). split; [reflexivity|exact Hin]. }
    apply P3. specialize (Cb g p Hc). unfold key_of_gid in Cb. destruct (N.ltb_spec g NRAW); [exact Cb|lia].
Qed.

(* ------------------------------------------------------------------ unconditional: the map only ever grows *)
Lemma process_new_ext m next vlen vl news m' next' vlen' vl' :
  process_new m next vlen vl news = (m', next', vlen', vl') -> extends m m'.
Proof.
  unfold process_new. destruct (pn_assign _ _ _ _) as [mk nx].
  generalize (if vlen <? nx then nx else vlen) as vl0. revert m vl.
  induction news as [|[k p] news IH]; intros m0 vl1 vl0; cbn [pn_move].
  - intro E. inversion E; subst. apply extends_refl.
  - destruct (kget m0 k).
    + apply IH.
    + destruct (kget mk k).
      * intro E. specialize (IH _ _ _ E). eapply extends_trans; [|exact IH]. eexists. reflexivity.
      * apply IH.
Qed.
Lemma classify_round_ext0 cf ord r contigs : extends (r_map r) (r_map (cs_reg (classify_round cf ord r contigs))).
Proof.
  unfold classify_round. destruct contigs as [|c0 cs]; [apply extends_refl|].
  set (st := fold_left (classify_contig cf) (sort_contigs (c0 :: cs)) (cstate_of r)).
  destruct (process_new (r_map (cs_reg st)) (r_gc (cs_reg st)) (r_vlen (cs_reg st)) (cs_vl st) (ord (rev (cs_news st))))
    as [[[m' next'] vlen'] vl'] eqn:Ep. cbn [cs_reg set_reg r_map].
  eapply extends_trans; [exact (classify_all_ext cf (sort_contigs (c0 :: cs)) (cstate_of r))|]. fold st.
  eapply process_new_ext. exact Ep.
Qed.
Lemma round_ext0 cf ord r contigs : extends (r_map r) (r_map (fst (fst (round cf ord r contigs)))).
Proof.
  unfold round. set (st := classify_round cf ord r contigs).
  pose proof (classify_round_ext0 cf ord r contigs) as H. fold st in H.
  destruct (cs_vl st); [cbn [fst]; exact H|].
  cbn [process_new pn_assign pn_move]. destruct (place_all _ _ _ _) as [[bufs' ss'] out']. cbn [fst r_map].
  eapply extends_trans; [exact H|]. apply fold_or_insert_ext.
Qed.
Lemma run_ext0 cf ord rounds : forall r, extends (r_map r) (r_map (fst (fst (run_rounds cf ord r rounds)))).
Proof.
  induction rounds as [|c tl IH]; intro r; cbn [run_rounds]; [apply extends_refl|].
  pose proof (round_ext0 cf ord r c) as H. destruct (round cf ord r c) as [[r1 out] lg]. cbn [fst] in H.
  specialize (IH r1). destruct (run_rounds cf ord r1 tl) as [[r2 outs] lgs]. cbn [fst] in *.
  eapply extends_trans; eassumption.
Qed.
Lemma nowrap_ext r r' : extends (r_map r) (r_map r') -> nowrap r' -> nowrap r.
Proof. intros H Hw. apply extends_len in H. unfold nowrap in *. lia. Qed.

Lemma bkey_ext m m' g k : extends m m' -> bkey m g k -> bkey m' g k.
Proof. intros X [H|[H1 H2]]; [left; exact H|right; split; [exact H1|eapply extends_In; eassumption]]. Qed.

(* ------------------------------------------------------------------ any number of rounds *)
Definition stored_rel (m : list (key * N)) (bufs : list (key * buf)) (out : list (N * placed)) (lg : list (placed * key * N)) : Prop :=
  forall lbl p, In (lbl, p) out ->
    exists g k b, In (g, p) (map log_pair lg) /\ bkey m g k /\ kget bufs k = Some b /\ b_gid b = lbl.

Lemma run_spec cf ord : perm_ord ord -> forall rounds r r' outs lgs,
  wf r -> run_rounds cf ord r rounds = (r', outs, lgs) -> nowrap r' ->
  wf r' /\ extends (r_map r) (r_map r') /\
  (forall k b, kget (r_bufs r) k = Some b -> kget (r_bufs r') k = Some b) /\
  (forall e, In e (concat lgs) -> entry_ok (r_map r') e) /\
  Forall2 (fun out lg => Permutation (map snd out) (map (fun e => fst (fst e)) lg)) outs lgs /\
  Forall2 (stored_rel (r_map r') (r_bufs r')) outs lgs /\
  (forall p g, In (p, orphan_key, g) (concat lgs) -> kget (r_map r') (g, MISS) <> None).
Proof.
  intros Po. induction rounds as [|c tl IH]; intros r r' outs lgs W E Hw; cbn [run_rounds] in E.
  - inversion E; subst. split; [exact W|]. split; [apply extends_refl|]. split; [auto|]. cbn [concat].
    split; [intros e []|]. split; [constructor|]. split; [constructor|intros p g []].
  - destruct (round cf ord r c) as [[r1 out] lg] eqn:E1.
    destruct (run_rounds cf ord r1 tl) as [[r2 outs2] lgs2] eqn:E2. inversion E; subst r' outs lgs; clear E.
    assert (X12 : extends (r_map r1) (r_map r2)).
    { pose proof (run_ext0 cf ord tl r1) as H. rewrite E2 in H. exact H. }
    assert (Hw1 : nowrap r1) by (eapply nowrap_ext; eassumption).
    destruct (round_spec cf ord r c r1 out lg W Po E1 Hw1) as (W1 & X1 & B1 & L1 & P1 & S1 & C1).
    destruct (IH r1 r2 outs2 lgs2 W1 E2 Hw) as (W2 & X2 & B2 & L2 & P2 & S2 & C2).
    split; [exact W2|]. split; [eapply extends_trans; eassumption|]. split; [auto|]. cbn [concat].
    split.
    { intros e He. apply in_app_or in He. destruct He as [He|He]; [|exact (L2 e He)]. eapply entry_ok_ext; [exact X2|exact (L1 e He)]. }
    split; [constructor; assumption|]. split.
    { constructor; [|exact S2]. intros lbl p Hin. destruct (S1 lbl p Hin) as (g & k & b & H1 & H2 & H3 & H4).
      exists g, k, b. split; [exact H1|]. split; [eapply bkey_ext; eassumption|]. split; [apply B2; exact H3|exact H4]. }
    intros p g Hin. apply in_app_or in Hin. destruct Hin as [Hin|Hin]; [|exact (C2 p g Hin)].
    pose proof (C1 p g Hin) as H. destruct (kget (r_map r1) (g, MISS)) eqn:Eg; [|contradiction].
    rewrite (extends_kget _ _ _ _ X2 Eg). discriminate.
Qed.

(* ------------------------------------------------------------------ orphans: round robin over the raw groups *)
Definition is_orph (e : placed * key * N) : bool := key_eqb (snd (fst e)) orphan_key.
Definition orph_count (l : list (placed * key * N)) : nat := length (filter is_orph l).
Lemma orph_count_app l1 l2 : orph_count (l1 ++ l2) = (orph_count l1 + orph_count l2)%nat.
Proof. unfold orph_count. rewrite filter_app, app_length. reflexivity. Qed.
Lemma orph_count_rev l : orph_count (rev l) = orph_count l.
Proof.
  induction l as [|e l IH]; [reflexivity|]. cbn [rev]. rewrite orph_count_app, IH. unfold orph_count. cbn [filter].
  destruct (is_orph e); cbn [length]; lia.
Qed.

(* newest-first log of a round in progress; [s] = raw_group_counter at the start of the round *)
Definition rr_inv (s : N) (st : cstate) : Prop :=
  r_rgc (cs_reg st) mod NRAW = (s + N.of_nat (orph_count (cs_log st))) mod NRAW /\
  forall l1 e l2, cs_log st = l1 ++ e :: l2 -> is_orph e = true -> snd e = (s + N.of_nat (orph_count l2)) mod NRAW.

Lemma rr_cons_other s (log : list (placed * key * N)) e rgc :
  is_orph e = false ->
  (rgc mod NRAW = (s + N.of_nat (orph_count log)) mod NRAW /\
   forall l1 e' l2, log = l1 ++ e' :: l2 -> is_orph e' = true -> snd e' = (s + N.of_nat (orph_count l2)) mod NRAW) ->
  (rgc mod NRAW = (s + N.of_nat (orph_count (e :: log))) mod NRAW /\
   forall l1 e' l2, e :: log = l1 ++ e' :: l2 -> is_orph e' = true -> snd e' = (s + N.of_nat (orph_count l2)) mod NRAW).
Proof.
  intros He [H1 H2]. split.
  - unfold orph_count in *. cbn [filter]. rewrite He. exact H1.
  - intros l1 e' l2 E Ho. destruct l1 as [|x l1]; cbn [app] in E; inversion E; subst.
    + congruence.
    + eapply H2; [reflexivity|exact Ho].
Qed.

Lemma classify_step_rr cf sn cn x st part s :
  cinv st -> rr_inv s st -> rr_inv s (fst (classify_step cf sn cn x (st, part))).
Proof.
  intros I [R1 R2]. destruct x as [sg o]. unfold classify_step, rr_inv.
  destruct (classify_key cf sg o) as [[kf kb] sr].
  destruct (kget (r_map (cs_reg st)) (kf, kb)) as [gid|] eqn:Eg.
  - destruct ((kf =? MISS) && (kb =? MISS)) eqn:Eo; cbn [fst cs_reg cs_log set_reg r_rgc].
    + assert (Ek : (kf, kb) = orphan_key) by (unfold orphan_key; f_equal; lia). rewrite Ek.
      split.
      * unfold orph_count in *. cbn [filter]. unfold is_orph at 1. cbn [fst snd]. rewrite key_eqb_refl. cbn [length].
        unfold wrap32. rewrite NRAW_eq, two32_eq in *. lia.
      * intros l1 e l2 E Ho. destruct l1 as [|y l1]; cbn [app] in E; inversion E; subst.
        -- cbn [snd]. exact R1.
        -- match goal with H : cs_log st = _ |- _ => exact (R2 _ _ _ H Ho) end.
    + apply rr_cons_other; [|split; assumption]. unfold is_orph. cbn [fst snd]. apply key_eqb_neq. unfold orphan_key. intro E. inversion E. lia.
  - destruct (split_attempt cf (r_map (cs_reg st)) sg o kf kb sr sn cn part) as [[adds incr]|] eqn:Es.
    + cbn [fst cs_reg cs_log]. apply split_attempt_cases in Es.
      destruct Es as [(g1 & p1 & k1 & g2 & p2 & k2 & -> & _ & _ & _ & _ & _ & _ & _ & _ & N1 & N2)|(g1 & p1 & k1 & -> & _ & _ & _ & _ & _ & N1)];
        cbn [map rev app fst snd].
      * apply rr_cons_other; [unfold is_orph; cbn [fst snd]; apply key_eqb_neq; exact N2|].
        apply rr_cons_other; [unfold is_orph; cbn [fst snd]; apply key_eqb_neq; exact N1|]. split; assumption.
      * apply rr_cons_other; [unfold is_orph; cbn [fst snd]; apply key_eqb_neq; exact N1|]. split; assumption.
    + unfold register_key. rewrite Eg. cbn [fst cs_reg cs_log set_reg r_rgc].
      apply rr_cons_other; [|split; assumption]. unfold is_orph. cbn [fst snd]. apply key_eqb_neq. intro E.
      rewrite E, (mi_orph _ _ (ci_m _ I)) in Eg. discriminate.
Qed.

Lemma fold_steps_rr cf sn cn l st part s :
  cinv st -> nowrap_st (fst (fold_steps cf sn cn l (st, part))) -> rr_inv s st -> rr_inv s (fst (fold_steps cf sn cn l (st, part))).
Proof.
  revert st part. induction l as [|x l IH]; intros st part I Hw R; unfold fold_steps in *; cbn [fold_left fst] in *; [exact R|].
  destruct (classify_step cf sn cn x (st, part)) as [st1 part1] eqn:E.
  assert (Hw1 : nowrap_st st1).
  { apply nowrap_st_eq. apply nowrap_st_eq in Hw. destruct (fold_steps_mono cf sn cn l st1 part1) as [M _]. unfold fold_steps in M. lia. }
  apply IH; [| exact Hw |].
  - pose proof (classify_step_inv cf sn cn x st part I) as H. rewrite E in H. apply H. exact Hw1.
  - pose proof (classify_step_rr cf sn cn x st part s I R) as H. rewrite E in H. exact H.
Qed.
Lemma classify_all_rr cf l st s :
  cinv st -> nowrap_st (fold_left (classify_contig cf) l st) -> rr_inv s st -> rr_inv s (fold_left (classify_contig cf) l st).
Proof.
  revert st. induction l as [|c l IH]; intros st I Hw R; cbn [fold_left] in *; [exact R|].
  assert (Hw1 : nowrap_st (classify_contig cf st c)).
  { apply nowrap_st_eq. apply nowrap_st_eq in Hw. destruct (classify_all_mono cf l (classify_contig cf st c)) as [M _]. lia. }
  apply IH; [apply classify_contig_inv; assumption|exact Hw|].
  rewrite classify_contig_eq in *. apply fold_steps_rr; assumption.
Qed.

(* in classification order *)
Definition rr_list (s : N) (lg : list (placed * key * N)) : Prop :=
  forall l1 e l2, lg = l1 ++ e :: l2 -> is_orph e = true -> snd e = (s + N.of_nat (orph_count l1)) mod NRAW.

Lemma round_rr cf ord r contigs r' out lg :
  wf r -> perm_ord ord -> round cf ord r contigs = (r', out, lg) -> nowrap r' ->
  rr_list (r_rgc r) lg /\ r_rgc r' mod NRAW = (r_rgc r + N.of_nat (orph_count lg)) mod NRAW.
Proof.
  intros W Po E Hw.
  assert (Hst : nowrap (cs_reg (classify_round cf ord r contigs))).
  { eapply nowrap_ext; [|exact Hw]. pose proof (round_ext0 cf ord r contigs) as X. rewrite E in X. cbn [fst] in X.
    (* the map after the round extends the map after classification *)
    revert E. unfold round. set (st := classify_round cf ord r contigs).
    destruct (cs_vl st); [intro E; inversion E; subst; apply extends_refl|].
    cbn [process_new pn_assign pn_move]. destruct (place_all _ _ _ _) as [[bufs' ss'] out']. intro E. inversion E; subst. cbn [r_map].
    apply fold_or_insert_ext. }
  assert (R : rr_inv (r_rgc r) (classify_round cf ord r contigs) /\ r_rgc r' = r_rgc (cs_reg (classify_round cf ord r contigs))
              /\ lg = rev (cs_log (classify_round cf ord r contigs))).
  { split; [|revert E; unfold round; destruct (cs_vl (classify_round cf ord r contigs));
             [intro E; inversion E; subst; split; reflexivity|];
             cbn [process_new pn_assign pn_move]; destruct (place_all _ _ _ _) as [[bufs' ss'] out']; intro E; inversion E; subst;
             cbn [r_rgc]; split; reflexivity].
    revert Hst. unfold classify_round. destruct contigs as [|c0 cs].
    - intros _. unfold rr_inv, cstate_of. cbn [cs_reg cs_log]. split; [unfold orph_count; cbn; f_equal; lia|].
      intros l1 e l2 E0. destruct l1; discriminate.
    - set (st := fold_left (classify_contig cf) (sort_contigs (c0 :: cs)) (cstate_of r)).
      destruct (process_new (r_map (cs_reg st)) (r_gc (cs_reg st)) (r_vlen (cs_reg st)) (cs_vl st) (ord (rev (cs_news st))))
        as [[[m' next'] vlen'] vl'] eqn:Ep. cbn [cs_reg set_reg r_map]. intro Hm.
      assert (Hst : nowrap_st st).
      { unfold nowrap_st. eapply nowrap_ext; [|exact Hm]. cbn [r_map]. eapply process_new_ext. exact Ep. }
      pose proof (classify_all_rr cf (sort_contigs (c0 :: cs)) (cstate_of r) (r_rgc r) (cinv_of_wf r W) Hst) as H.
      fold st in H. unfold rr_inv in *. cbn [cs_reg cs_log set_reg r_rgc]. apply H.
      unfold cstate_of. cbn [cs_reg cs_log]. split; [unfold orph_count; cbn; f_equal; lia|].
      intros l1 e l2 E0. destruct l1; discriminate. }
  destruct R as ([R1 R2] & Er & El). subst lg. rewrite Er. split.
  - intros l1 e l2 E0 Ho.
    assert (E1 : cs_log (classify_round cf ord r contigs) = rev l2 ++ e :: rev l1).
    { rewrite <- (rev_involutive (cs_log _)), E0, rev_app_distr. cbn [rev]. rewrite <- app_assoc. reflexivity. }
    rewrite (R2 _ _ _ E1 Ho), orph_count_rev. reflexivity.
  - rewrite orph_count_rev. exact R1.
Qed.

Lemma app_split_later {A} (lg rest l1 l2 : list A) e :
  lg ++ rest = l1 ++ e :: l2 -> (length lg <= length l1)%nat -> exists l1', l1 = lg ++ l1' /\ rest = l1' ++ e :: l2.
Proof.
  revert l1. induction lg as [|a lg IH]; intros l1 E L; cbn [app length] in *.
  - exists l1. split; [reflexivity|exact E].
  - destruct l1 as [|a' l1]; cbn [length app] in *; [lia|]. inversion E; subst.
    destruct (IH l1 H1 ltac:(lia)) as (l1' & -> & E2). exists l1'. split; [reflexivity|exact E2].
Qed.
Lemma app_split_here {A} (lg rest l1 l2 : list A) e :
  lg ++ rest = l1 ++ e :: l2 -> (length l1 < length lg)%nat -> exists l2', lg = l1 ++ e :: l2'.
Proof.
  revert l1. induction lg as [|a lg IH]; intros l1 E L; cbn [app length] in *; [lia|].
  destruct l1 as [|a' l1]; cbn [length app] in *.
  - inversion E; subst. exists lg. reflexivity.
  - inversion E; subst. destruct (IH l1 H1 ltac:(lia)) as (l2' & ->). exists l2'. reflexivity.
Qed.

Lemma mod16_shift x y a b : x mod 16 = (y + a) mod 16 -> (x + b) mod 16 = (y + (a + b)) mod 16.
Proof. intro H. lia. Qed.

Lemma run_rr cf ord : perm_ord ord -> forall rounds r r' outs lgs,
  wf r -> run_rounds cf ord r rounds = (r', outs, lgs) -> nowrap r' ->
  rr_list (r_rgc r) (concat lgs) /\ r_rgc r' mod NRAW = (r_rgc r + N.of_nat (orph_count (concat lgs))) mod NRAW.
Proof.
  intros Po. induction rounds as [|c tl IH]; intros r r' outs lgs W E Hw; cbn [run_rounds] in E.
  - inversion E; subst. cbn [concat]. split; [intros l1 e l2 E0; destruct l1; discriminate|]. unfold orph_count. cbn. f_equal. lia.
  - destruct (round cf ord r c) as [[r1 out] lg] eqn:E1.
    destruct (run_rounds cf ord r1 tl) as [[r2 outs2] lgs2] eqn:E2. inversion E; subst r' outs lgs; clear E.
    assert (X12 : extends (r_map r1) (r_map r2)) by (pose proof (run_ext0 cf ord tl r1) as H; rewrite E2 in H; exact H).
    assert (Hw1 : nowrap r1) by (eapply nowrap_ext; eassumption).
    destruct (round_spec cf ord r c r1 out lg W Po E1 Hw1) as (W1 & _).
    destruct (round_rr cf ord r c r1 out lg W Po E1 Hw1) as (A1 & A2).
    destruct (IH r1 r2 outs2 lgs2 W1 E2 Hw) as (B1 & B2). cbn [concat]. split.
    + intros l1 e l2 E0 Ho.
      (* the entry is in this round's log or in a later one *)
      destruct (Nat.le_gt_cases (length lg) (length l1)) as [Hl|Hl].
      * destruct (app_split_later _ _ _ _ _ E0 Hl) as (l1' & -> & E3).
        rewrite (B1 _ _ _ E3 Ho), orph_count_app, Nat2N.inj_add.
        rewrite NRAW_eq in A2 |- *. apply mod16_shift. exact A2.
      * destruct (app_split_here _ _ _ _ _ E0 Hl) as (l2' & E3). exact (A1 _ _ _ E3 Ho).
    + rewrite orph_count_app, Nat2N.inj_add. rewrite NRAW_eq in A2, B2 |- *. rewrite B2. apply mod16_shift. exact A2.
Qed.

(* =====================================================================================================
   The pinned statements (props/C01R.v) *)
Definition run_ok (cf : config) (ord : list (key * placed) -> list (key * placed)) (rounds : list (list contig))
           (r : reg) (outs : list (list (N * placed))) (lgs : list (list (placed * key * N))) : Prop :=
  perm_ord ord /\ run_rounds cf ord reg_init rounds = (r, outs, lgs) /\ nowrap r.

Lemma run_ok_spec cf ord rounds r outs lgs : run_ok cf ord rounds r outs lgs ->
  wf r /\
  (forall e, In e (concat lgs) -> entry_ok (r_map r) e) /\
  Forall2 (fun out lg => Permutation (map snd out) (map (fun e => fst (fst e)) lg)) outs lgs /\
  Forall2 (stored_rel (r_map r) (r_bufs r)) outs lgs /\
  (forall p g, In (p, orphan_key, g) (concat lgs) -> kget (r_map r) (g, MISS) <> None).
Proof.
  intros (Po & E & Hw). destruct (run_spec cf ord Po rounds reg_init r outs lgs wf_init E Hw) as (W & _ & _ & L & P & S & C).
  split; [exact W|]. split; [exact L|]. split; [exact P|]. split; [exact S|exact C].
Qed.

Theorem registry_injective_proof : forall cf ord rounds r outs lgs, run_ok cf ord rounds r outs lgs ->
  forall k1 k2 g, NRAW <= g -> In (k1, g) (r_map r) -> In (k2, g) (r_map r) -> k1 = k2.
Proof.
  intros cf ord rounds r outs lgs H k1 k2 g L H1 H2. destruct (run_ok_spec _ _ _ _ _ _ H) as (W & _).
  exact (minv_inj _ _ _ _ _ (wf_m _ W) L H1 H2).
Qed.

Theorem registry_dense_proof : forall cf ord rounds r outs lgs, run_ok cf ord rounds r outs lgs ->
  lz_gids (r_map r) = seqN NRAW (length (lz_gids (r_map r))) /\
  r_gc r = NRAW + lenN (lz_gids (r_map r)) /\
  NoDup (map fst (r_map r)) /\
  (forall g, NRAW <= g < r_gc r -> exists k, kget (r_map r) k = Some g) /\
  (forall k g, kget (r_map r) k = Some g -> g < r_gc r).
Proof.
  intros cf ord rounds r outs lgs H. destruct (run_ok_spec _ _ _ _ _ _ H) as (W & _). pose proof (wf_m _ W) as I.
  split; [exact (mi_lz _ _ I)|]. split; [exact (mi_gc _ _ I)|]. split; [exact (mi_keys _ _ I)|]. split.
  - intros g Hg. assert (Hin : In g (lz_gids (r_map r))).
    { rewrite (mi_lz _ _ I). apply seqN_In. rewrite (mi_gc _ _ I) in Hg. unfold lenN in Hg. lia. }
    apply lz_gids_In in Hin. destruct Hin as (_ & k & Hk). exists k. apply In_kget; [exact (mi_keys _ _ I)|exact Hk].
  - intros k g Hk. apply kget_In in Hk. destruct (minv_value_lt _ _ _ _ I Hk) as [L|L]; [|lia].
    rewrite (mi_gc _ _ I). lia.
Qed.

Theorem map_monotone_proof : forall cf ord rounds r k g,
  kget (r_map r) k = Some g -> kget (r_map (fst (fst (run_rounds cf ord r rounds)))) k = Some g.
Proof. intros cf ord rounds r k g H. eapply extends_kget; [apply run_ext0|exact H]. Qed.

Theorem add_known_never_drops_proof : forall cf ord rounds r outs lgs, run_ok cf ord rounds r outs lgs ->
  Forall2 (fun out lg => Permutation (map snd out) (map (fun e => fst (fst e)) lg)) outs lgs.
Proof. intros cf ord rounds r outs lgs H. destruct (run_ok_spec _ _ _ _ _ _ H) as (_ & _ & P & _). exact P. Qed.

(* reachable registries *)
Definition reach (cf : config) (ord : list (key * placed) -> list (key * placed)) (r : reg) : Prop :=
  exists rounds outs lgs, run_rounds cf ord reg_init rounds = (r, outs, lgs).
Lemma reach_wf cf ord r : perm_ord ord -> reach cf ord r -> nowrap r -> wf r.
Proof.
  intros Po (rounds & outs & lgs & E) Hw. destruct (run_spec cf ord Po rounds reg_init r outs lgs wf_init E Hw) as (W & _). exact W.
Qed.

Theorem process_new_allocates_nothing_proof : forall cf ord r contigs, perm_ord ord -> reach cf ord r ->
  let st := fold_left (classify_contig cf) (sort_contigs contigs) (cstate_of r) in
  nowrap (cs_reg st) ->
  exists vl', process_new (r_map (cs_reg st)) (r_gc (cs_reg st)) (r_vlen (cs_reg st)) (cs_vl st) (ord (rev (cs_news st)))
              = (r_map (cs_reg st), r_gc (cs_reg st), r_vlen (cs_reg st), vl').
Proof.
  intros cf ord r contigs Po Hr st Hw.
  assert (W : wf r).
  { apply (reach_wf cf ord r Po Hr). eapply nowrap_ext; [|exact Hw]. exact (classify_all_ext cf (sort_contigs contigs) (cstate_of r)). }
  assert (I : cinv st) by (apply classify_all_inv; [apply cinv_of_wf; exact W|exact Hw]).
  eexists. apply process_new_present; [exact (proj1 (ci_vlen _ I))|].
  intros k p Hin. apply (news_present_lt st I k p). apply in_rev. eapply Permutation_in; [apply Permutation_sym; apply Po|exact Hin].
Qed.

Theorem missing_fallback_unreachable_proof : forall cf ord r contigs, perm_ord ord -> reach cf ord r ->
  let st := classify_round cf ord r contigs in
  nowrap (cs_reg st) ->
  forall g p, In (g, p) (cs_vl st) ->
    g < r_vlen (cs_reg st) /\
    (NRAW <= g -> exists k, rev_get (r_map (cs_reg st)) g None = Some k /\ In (k, g) (r_map (cs_reg st))).
Proof.
  intros cf ord r contigs Po Hr st Hw g p Hin.
  assert (W : wf r) by (apply (reach_wf cf ord r Po Hr); eapply nowrap_ext; [apply classify_round_ext0|exact Hw]).
  destruct (classify_round_spec cf ord r contigs W Po Hw) as (I & _). fold st in I.
  pose proof (ci_vl _ I g p Hin) as Hok. destruct (ci_vlen _ I) as [V1 V2].
  split; [eapply gid_ok_lt; [exact (ci_m _ I)|exact V1|exact V2|exact Hok]|].
  intro L. destruct (key_of_gid_bkey _ _ Hok) as [[L' _]|[_ Hk]]; [lia|].
  unfold key_of_gid in Hk. destruct (N.ltb_spec g NRAW); [lia|].
  destruct (rev_get (r_map (cs_reg st)) g None) as [k|] eqn:E.
  - exists k. split; [reflexivity|exact Hk].
  - exfalso. eapply rev_get_some; [|exact E]. right. destruct Hok as [Hok|Hok]; [lia|exact Hok].
Qed.

Lemma wf_buf_gids r : wf r -> NoDup (map (fun kb => b_gid (snd kb)) (r_bufs r)).
Proof.
  intro W. pose proof (wf_bkeys _ W) as ND. pose proof (wf_bufs _ W) as HB. pose proof (wf_m _ W) as I.
  induction (r_bufs r) as [|[k b] l IH]; cbn [map fst snd] in *; [constructor|].
  inversion ND as [|x0 l0 Hnk NDl]; subst. constructor.
  - intro Hin. apply in_map_iff in Hin. destruct Hin as ([k' b'] & E & Hin). cbn [snd] in E.
    assert (k' = k).
    { destruct (HB k b (or_introl eq_refl)) as [[L1 E1]|[L1 G1]], (HB k' b' (or_intror Hin)) as [[L2 E2]|[L2 G2]].
      - congruence.
      - lia.
      - lia.
      - rewrite E in G2. exact (minv_inj _ _ _ _ _ I L1 G2 G1). }
    subst k'. apply Hnk. apply in_map_iff. exists (k, b'). split; [reflexivity|exact Hin].
  - apply IH; [exact NDl|]. intros k' b' H. apply HB. right. exact H.
Qed.

Theorem buffer_per_group_proof : forall cf ord rounds r outs lgs, run_ok cf ord rounds r outs lgs ->
  NoDup (map fst (r_bufs r)) /\ NoDup (map (fun kb => b_gid (snd kb)) (r_bufs r)) /\
  (forall k b, In (k, b) (r_bufs r) -> (b_gid b < NRAW /\ k = (b_gid b, MISS)) \/ (NRAW <= b_gid b /\ kget (r_map r) k = Some (b_gid b))).
Proof.
  intros cf ord rounds r outs lgs H. destruct (run_ok_spec _ _ _ _ _ _ H) as (W & _).
  split; [exact (wf_bkeys _ W)|]. split; [exact (wf_buf_gids r W)|].
  intros k b Hin. destruct (wf_bufs _ W k b Hin) as [H1|[H1 H2]]; [left; exact H1|right; split; [exact H1|]].
  apply In_kget; [exact (mi_keys _ _ (wf_m _ W))|exact H2].
Qed.

Theorem buffers_persist_proof : forall cf ord r rounds r' outs lgs, perm_ord ord -> reach cf ord r ->
  run_rounds cf ord r rounds = (r', outs, lgs) -> nowrap r' ->
  forall k b, kget (r_bufs r) k = Some b -> kget (r_bufs r') k = Some b.
Proof.
  intros cf ord r rounds r' outs lgs Po Hr E Hw.
  assert (W : wf r).
  { apply (reach_wf cf ord r Po Hr). eapply nowrap_ext; [|exact Hw]. pose proof (run_ext0 cf ord rounds r) as X. rewrite E in X. exact X. }
  destruct (run_spec cf ord Po rounds r r' outs lgs W E Hw) as (_ & _ & B & _). exact B.
Qed.

(* where a classified segment is stored: under the buffer of its group's key; the buffer's group id is the classified
   one except for the colliding pair (raw group x, the LZ group registered under the key (x, MISSING)) *)
Definition label_rel (m : list (key * N)) (g lbl : N) : Prop :=
  lbl = g \/ (g < NRAW /\ NRAW <= lbl /\ kget m (g, MISS) = Some lbl) \/ (NRAW <= g /\ lbl < NRAW /\ kget m (lbl, MISS) = Some g).

Theorem stored_label_proof : forall cf ord rounds r outs lgs, run_ok cf ord rounds r outs lgs ->
  Forall2 (fun out lg => forall lbl p, In (lbl, p) out ->
             exists k g kb b, In (p, k, g) lg /\ kget (r_bufs r) kb = Some b /\ b_gid b = lbl /\
                              label_rel (r_map r) g lbl /\ (snd k <> MISS -> lbl = g)) outs lgs.
Proof.
  intros cf ord rounds r outs lgs H. destruct (run_ok_spec _ _ _ _ _ _ H) as (W & L & _ & S & _).
  pose proof (wf_m _ W) as I.
  assert (Hl : forall lg, In lg lgs -> forall e, In e lg -> entry_ok (r_map r) e).
  { intros lg Hlg e He. apply L. apply in_concat. exists lg. split; assumption. }
  revert Hl. clear L H. induction S as [|out lg outs lgs S1 S IH]; intro Hl; constructor.
  - intros lbl p Hin. destruct (S1 lbl p Hin) as (g & kb & b & Hp & Hk & Hb & Hg).
    apply in_map_iff in Hp. destruct Hp as ([[p' k] g'] & Ep & He). unfold log_pair in Ep. cbn [fst snd] in Ep. inversion Ep; subst p' g'.
    exists k, g, kb, b. split; [exact He|]. split; [exact Hb|]. split; [exact Hg|].
    pose proof (Hl lg (or_introl eq_refl) _ He) as Hent.
    pose proof (wf_bufs _ W kb b (kget_In _ _ _ Hb)) as Hbuf. rewrite Hg in Hbuf.
    assert (Hrel : label_rel (r_map r) g lbl).
    { destruct Hk as [[L1 E1]|[L1 H1]], Hbuf as [[L2 E2]|[L2 H2]].
      - left. rewrite E1 in E2. inversion E2. reflexivity.
      - right. left. split; [exact L1|]. split; [exact L2|]. subst kb. apply In_kget; [exact (mi_keys _ _ I)|exact H2].
      - right. right. split; [exact L1|]. split; [exact L2|]. subst kb. apply In_kget; [exact (mi_keys _ _ I)|exact H1].
      - left. pose proof (In_kget _ _ _ (mi_keys _ _ I) H1) as A. pose proof (In_kget _ _ _ (mi_keys _ _ I) H2) as B. congruence. }
    split; [exact Hrel|]. intro Hs.
    (* a key with a back k-mer is neither the orphan key nor a raw buffer key *)
    assert (Hkg : kget (r_map r) k = Some g).
    { destruct Hent as [[Eo _]|Hent]; cbn [fst snd] in *; [subst k; exfalso; apply Hs; reflexivity|exact Hent]. }
    destruct Hrel as [E|[(L1 & L2 & E)|(L1 & L2 & E)]]; [exact E| |].
    + exfalso. destruct (mi_raw _ _ I k g (kget_In _ _ _ Hkg) L1) as [[E1 _]|E1]; subst k; apply Hs; reflexivity.
    + exfalso. pose proof (minv_inj _ _ _ _ _ I L1 (kget_In _ _ _ Hkg) (kget_In _ _ _ E)) as E1. subst k. apply Hs. reflexivity.
  - apply IH. intros lg' Hlg'. apply Hl. right. exact Hlg'.
Qed.

Theorem case2_key_rule_proof : forall cf s o, rs_front s <> MISS -> rs_back s <> MISS ->
  classify_key cf s o = (N.min (rs_front s) (rs_back s), N.max (rs_front s) (rs_back s), negb (rs_front s <? rs_back s)).
Proof.
  intros cf s o Hf Hb. unfold classify_key.
  assert (E : negb (rs_front s =? MISS) && negb (rs_back s =? MISS) = true) by lia. rewrite E.
  destruct (N.ltb_spec (rs_front s) (rs_back s)); cbn [negb]; f_equal; try f_equal; lia.
Qed.

Theorem same_key_same_group_proof : forall cf ord rounds r outs lgs, run_ok cf ord rounds r outs lgs ->
  forall p1 p2 k g1 g2, In (p1, k, g1) (concat lgs) -> In (p2, k, g2) (concat lgs) -> k <> orphan_key ->
  g1 = g2 /\ kget (r_map r) k = Some g1.
Proof.
  intros cf ord rounds r outs lgs H p1 p2 k g1 g2 H1 H2 Hk. destruct (run_ok_spec _ _ _ _ _ _ H) as (_ & L & _).
  destruct (L _ H1) as [[E _]|E1]; cbn [fst snd] in *; [contradiction|].
  destruct (L _ H2) as [[E _]|E2]; cbn [fst snd] in *; [contradiction|]. split; [congruence|exact E1].
Qed.

Theorem orphans_round_robin_proof : forall cf ord rounds r outs lgs, run_ok cf ord rounds r outs lgs ->
  (forall l1 p g l2, concat lgs = l1 ++ (p, orphan_key, g) :: l2 -> g = N.of_nat (orph_count l1) mod NRAW) /\
  r_rgc r mod NRAW = N.of_nat (orph_count (concat lgs)) mod NRAW.
Proof.
  intros cf ord rounds r outs lgs (Po & E & Hw). destruct (run_rr cf ord Po rounds reg_init r outs lgs wf_init E Hw) as (A & B).
  cbn [reg_init r_rgc] in A, B. split.
  - intros l1 p g l2 E0.
    assert (Ho : is_orph (p, orphan_key, g) = true) by (unfold is_orph; cbn [fst snd]; apply key_eqb_refl).
    pose proof (A _ _ _ E0 Ho) as Hs. cbn [snd] in Hs. rewrite Hs. f_equal.
  - rewrite B. f_equal.
Qed.

Theorem raw_groups_only_orphans_proof : forall cf ord rounds r outs lgs, run_ok cf ord rounds r outs lgs ->
  forall p k g, In (p, k, g) (concat lgs) -> g < NRAW -> k = orphan_key \/ (k = (g, MISS) /\ kget (r_map r) (g, MISS) = Some g).
Proof.
  intros cf ord rounds r outs lgs H p k g Hin L. destruct (run_ok_spec _ _ _ _ _ _ H) as (W & Le & _).
  destruct (Le _ Hin) as [[E _]|E]; cbn [fst snd] in *; [left; exact E|].
  destruct (mi_raw _ _ (wf_m _ W) k g (kget_In _ _ _ E) L) as [[E1 _]|E1]; [left; exact E1|right]. subst k. split; [reflexivity|exact E].
Qed.

Theorem raw_key_copied_proof : forall cf ord rounds r outs lgs, run_ok cf ord rounds r outs lgs ->
  forall p g, In (p, orphan_key, g) (concat lgs) ->
  kget (r_map r) (g, MISS) = Some g \/ exists G, NRAW <= G /\ kget (r_map r) (g, MISS) = Some G.
Proof.
  intros cf ord rounds r outs lgs H p g Hin. destruct (run_ok_spec _ _ _ _ _ _ H) as (W & Le & _ & _ & C).
  pose proof (C p g Hin) as Hc. destruct (kget (r_map r) (g, MISS)) as [G|] eqn:E; [|contradiction].
  destruct (N.ltb_spec G NRAW) as [L|L]; [left|right; exists G; split; [exact L|reflexivity]].
  destruct (mi_raw _ _ (wf_m _ W) _ _ (kget_In _ _ _ E) L) as [[E1 _]|E1].
  - unfold orphan_key in E1. inversion E1. f_equal.
    destruct (Le _ Hin) as [[_ Lg]|Eg]; cbn [fst snd] in *.
    + rewrite MISS_eq, NRAW_eq in *. lia.
    + rewrite (mi_orph _ _ (wf_m _ W)) in Eg. inversion Eg. rewrite MISS_eq in *. lia.
  - inversion E1. congruence.
Qed.

(* ------------------------------------------------------------------ the ops a round hands to the group store *)
Lemma existsb_eqb_In g (l : list N) : existsb (N.eqb g) l = true <-> In g l.
Proof.
  rewrite existsb_exists. split.
  - intros (x & Hx & E). apply N.eqb_eq in E. subst. exact Hx.
  - intro H. exists g. split; [exact H|apply N.eqb_refl].
Qed.
Lemma gids_of_spec (out : list (N * placed)) : forall seen,
  NoDup (gids_of out seen) /\ (forall g, In g (gids_of out seen) <-> (In g (map fst out) /\ ~ In g seen)).
Proof.
  induction out as [|[g0 p] out IH]; intro seen; cbn [gids_of map fst].
  - split; [constructor|]. intro g. cbn [In]. tauto.
  - destruct (existsb (N.eqb g0) seen) eqn:E.
    + apply existsb_eqb_In in E. destruct (IH seen) as [ND Hin]. split; [exact ND|]. intro g. rewrite Hin. cbn [In].
      split; [tauto|]. intros [[H|H] Hn]; [subst; contradiction|tauto].
    + assert (Hn0 : ~ In g0 seen) by (intro H; apply existsb_eqb_In in H; congruence).
      destruct (IH (g0 :: seen)) as [ND Hin]. split.
      * constructor; [|exact ND]. rewrite Hin. cbn [In]. tauto.
      * intro g. cbn [In]. rewrite Hin. cbn [In]. destruct (N.eq_dec g0 g) as [->|Hne]; [tauto|]. tauto.
Qed.
Lemma flat_map_pick {B} (F : N -> list B) (l : list N) g : NoDup l ->
  flat_map (fun g' => if g' =? g then F g' else []) l = if existsb (N.eqb g) l then F g else [].
Proof.
  induction l as [|x l IH]; intro ND; cbn [flat_map existsb]; [reflexivity|]. inversion ND; subst. rewrite (IH H2).
  destruct (N.eqb_spec x g) as [->|Hne].
  - rewrite N.eqb_refl. cbn [orb]. assert (E : existsb (N.eqb g) l = false).
    { destruct (existsb (N.eqb g) l) eqn:E; [apply existsb_eqb_In in E; contradiction|reflexivity]. }
    rewrite E, app_nil_r. reflexivity.
  - assert (E : (g =? x) = false) by (apply N.eqb_neq; congruence). rewrite E. reflexivity.
Qed.

Lemma filter_none_in {A} (p : A -> bool) (l : list A) : (forall x, In x l -> p x = false) -> filter p l = [].
Proof.
  induction l as [|x l IH]; intro H; cbn [filter]; [reflexivity|]. rewrite (H x (or_introl eq_refl)). apply IH.
  intros y Hy. apply H. right. exact Hy.
Qed.

Theorem ops_carry_placements_proof : forall (out : list (N * placed)),
  NoDup (map fst (ops_of_round out)) /\
  forall g, flat_map (fun o : N * list placed => if fst o =? g then snd o else []) (ops_of_round out)
            = map snd (filter (fun x => fst x =? g) out).
Proof.
  intro out. unfold ops_of_round. destruct (gids_of_spec out []) as [ND Hin]. split.
  - rewrite map_map. cbn [fst]. rewrite map_id. exact ND.
  - intro g. rewrite flat_map_concat_map, map_map. cbn [fst snd]. rewrite <- flat_map_concat_map.
    rewrite (flat_map_pick (fun g' => map snd (filter (fun x => fst x =? g') out)) _ g ND).
    destruct (existsb (N.eqb g) (gids_of out [])) eqn:E; [reflexivity|].
    assert (Hn : ~ In g (map fst out)).
    { intro H. assert (In g (gids_of out [])) by (apply Hin; split; [exact H|intros []]). apply existsb_eqb_In in H0. congruence. }
    rewrite filter_none_in; [reflexivity|]. intros [g' p] Hx. cbn [fst]. apply N.eqb_neq. intro E2. subst g'.
    apply Hn. apply in_map_iff. exists (g, p). split; [reflexivity|exact Hx].
Qed.

(* ------------------------------------------------------------------ the stored assignment is a function *)
Definition placed_eqb (a b : placed) : bool :=
  list_eqb N.eqb (p_sample a) (p_sample b) && list_eqb N.eqb (p_name a) (p_name b) && (p_part a =? p_part b) &&
  Bool.eqb (p_rc a) (p_rc b).
Lemma list_eqb_N_eq (a b : list N) : list_eqb N.eqb a b = true <-> a = b.
Proof.
  revert b. induction a as [|x a IH]; intros [|y b]; cbn [list_eqb]; try (split; [discriminate|discriminate]); [tauto|].
  rewrite andb_true_iff, N.eqb_eq, IH. split; [intros [-> ->]; reflexivity|intro H; inversion H; auto].
Qed.
Lemma placed_eqb_eq a b : placed_eqb a b = true <-> a = b.
Proof.
  unfold placed_eqb. rewrite !andb_true_iff, !list_eqb_N_eq, N.eqb_eq, Bool.eqb_true_iff.
  destruct a as [a1 a2 a3 a4], b as [b1 b2 b3 b4]; cbn. split; [intros [[[-> ->] ->] ->]; reflexivity|intro H; inversion H; auto].
Qed.
Definition grp_of (stored : list (N * placed)) (p : placed) : N :=
  match find (fun x => placed_eqb (snd x) p) stored with Some x => fst x | None => 0 end.

Theorem group_of_is_a_function_proof : forall stored : list (N * placed), NoDup (map snd stored) ->
  forall lbl p, In (lbl, p) stored -> grp_of stored p = lbl.
Proof.
  intros stored ND lbl p Hin. unfold grp_of. induction stored as [|[g q] l IH]; [destruct Hin|]. cbn [find snd map] in *.
  inversion ND; subst. destruct (placed_eqb q p) eqn:E.
  - apply placed_eqb_eq in E. subst q. destruct Hin as [H|H]; [inversion H; reflexivity|].
    exfalso. apply H1. apply in_map_iff. exists (lbl, p). split; [reflexivity|exact H].
  - destruct Hin as [H|H]; [inversion H; subst; rewrite (proj2 (placed_eqb_eq p p) eq_refl) in E; discriminate|].
    apply IH; assumption.
Qed.

(* ------------------------------------------------------------------ segment identities are stored once
   (distinct contig names: push rejects a repeated name) *)
Definition pid (p : placed) : list N * list N * N := (p_sample p, p_name p, p_part p).
Definition epid (e : placed * key * N) : list N * list N * N := pid (fst (fst e)).
Definition cname (c : contig) : list N * list N := (c_sample c, c_name c).

(* the entries one contig adds: its names, part numbers in [lo, hi), pairwise distinct *)
Definition fresh_block (sn cn : list N) (lo hi : N) (new : list (placed * key * N)) : Prop :=
  (forall e, In e new -> p_sample (fst (fst e)) = sn /\ p_name (fst (fst e)) = cn /\ lo <= p_part (fst (fst e)) < hi) /\
  NoDup (map (fun e => p_part (fst (fst e))) new).

Lemma classify_step_block cf sn cn x st part :
  exists new, cs_log (fst (classify_step cf sn cn x (st, part))) = new ++ cs_log st /\
              fresh_block sn cn part (snd (classify_step cf sn cn x (st, part))) new /\
              part <= snd (classify_step cf sn cn x (st, part)).
Proof.
  destruct x as [s o]. unfold classify_step.
  destruct (classify_key cf s o) as [[kf kb] sr].
  assert (One : forall k g, fresh_block sn cn part (part + 1) [(mk_placed sn cn part sr, k, g)]).
  { intros k g. split; [|cbn; constructor; [intros []|constructor]].
    intros e [<-|[]]. cbn [fst mk_placed p_sample p_name p_part]. repeat split; lia. }
  destruct (kget (r_map (cs_reg st)) (kf, kb)) as [gid|] eqn:Eg.
  - destruct ((kf =? MISS) && (kb =? MISS)); cbn [fst snd cs_log]; eexists [_]; (split; [reflexivity|split; [apply One|lia]]).
  - destruct (split_attempt cf (r_map (cs_reg st)) s o kf kb sr sn cn part) as [[adds incr]|] eqn:Es.
    + cbn [fst snd cs_log]. apply split_attempt_cases in Es.
      destruct Es as [(g1 & p1 & k1 & g2 & p2 & k2 & -> & _ & _ & -> & S1 & N1 & S2 & N2 & HP & _)|(g1 & p1 & k1 & -> & _ & -> & S1 & N1 & P1 & _)];
        cbn [map rev app fst snd]; [exists [(p2, k2, g2); (p1, k1, g1)]|exists [(p1, k1, g1)]]; (split; [reflexivity|]).
      * split; [|lia]. split.
        -- intros e [<-|[<-|[]]]; cbn [fst]; (split; [assumption|split; [assumption|lia]]).
        -- cbn [map fst]. constructor; [intros [H|[]]; lia|constructor; [intros []|constructor]].
      * split; [|lia]. split.
        -- intros e [<-|[]]; cbn [fst]. split; [assumption|split; [assumption|lia]].
        -- cbn. constructor; [intros []|constructor].
    + unfold register_key. rewrite Eg. cbn [fst snd cs_log]. eexists [_]. split; [reflexivity|split; [apply One|lia]].
Qed.

Lemma NoDup_app_disj {A} (l1 l2 : list A) : NoDup l1 -> NoDup l2 -> (forall x, In x l1 -> In x l2 -> False) -> NoDup (l1 ++ l2).
Proof.
  intros N1 N2 D. induction l1 as [|a l1 IH]; cbn [app]; [exact N2|]. inversion N1; subst. constructor.
  - intro H. apply in_app_or in H. destruct H as [H|H]; [contradiction|]. apply (D a); [left; reflexivity|exact H].
  - apply IH; [assumption|]. intros x Hx Hy. apply (D x); [right; exact Hx|exact Hy].
Qed.

Lemma fresh_block_app sn cn a b c new1 new2 : a <= b -> b <= c ->
  fresh_block sn cn a b new1 -> fresh_block sn cn b c new2 -> fresh_block sn cn a c (new2 ++ new1).
Proof.
  intros Hab Hbc [A1 A2] [B1 B2]. split.
  - intros e He. apply in_app_or in He. destruct He as [He|He]; [destruct (B1 e He) as (H1 & H2 & H3)|destruct (A1 e He) as (H1 & H2 & H3)];
      (split; [exact H1|split; [exact H2|lia]]).
  - rewrite map_app. apply NoDup_app_disj; [exact B2|exact A2|].
    intros x Hx Hy. apply in_map_iff in Hx, Hy. destruct Hx as (e1 & <- & H1), Hy as (e2 & E & H2).
    destruct (B1 e1 H1) as (_ & _ & ?), (A1 e2 H2) as (_ & _ & ?). lia.
Qed.

Lemma fold_steps_block cf sn cn l : forall st part,
  exists new, cs_log (fst (fold_steps cf sn cn l (st, part))) = new ++ cs_log st /\
              fresh_block sn cn part (snd (fold_steps cf sn cn l (st, part))) new /\
              part <= snd (fold_steps cf sn cn l (st, part)).
Proof.
  induction l as [|x l IH]; intros st part; unfold fold_steps; cbn [fold_left fst snd].
  - exists []. split; [reflexivity|]. split; [split; [intros e []|constructor]|lia].
  - destruct (classify_step_block cf sn cn x st part) as (new1 & E1 & F1 & L1).
    destruct (classify_step cf sn cn x (st, part)) as [st1 part1]. cbn [fst snd] in *.
    destruct (IH st1 part1) as (new2 & E2 & F2 & L2). unfold fold_steps in *.
    exists (new2 ++ new1). split; [rewrite E2, E1, app_assoc; reflexivity|]. split; [|lia].
    eapply fresh_block_app; eassumption.
Qed.

Lemma sort_contigs_perm l : Permutation (sort_contigs l) l.
Proof.
  unfold sort_contigs.
  assert (Hins : forall x acc, Permutation (insert_contig x acc) (x :: acc)).
  { intros x acc. induction acc as [|y acc IH]; cbn [insert_contig]; [apply Permutation_refl|].
    destruct (contig_ltb x y); [apply Permutation_refl|]. eapply Permutation_trans; [apply perm_skip; exact IH|apply perm_swap]. }
  assert (G : forall l acc, Permutation (fold_left (fun acc x => insert_contig x acc) l acc) (l ++ acc)).
  { clear l. induction l as [|x l IH]; intro acc; cbn [fold_left app]; [apply Permutation_refl|].
    eapply Permutation_trans; [apply IH|]. eapply Permutation_trans; [apply Permutation_app_head; apply Hins|].
    apply Permutation_sym. apply Permutation_middle. }
  specialize (G l []). rewrite app_nil_r in G. exact G.
Qed.

(* all contigs of a round *)
Lemma classify_all_ids cf : forall l st,
  NoDup (map cname l) ->
  NoDup (map epid (cs_log st)) ->
  (forall e, In e (cs_log st) -> ~ In (p_sample (fst (fst e)), p_name (fst (fst e))) (map cname l)) ->
  let st' := fold_left (classify_contig cf) l st in
  NoDup (map epid (cs_log st')) /\
  (forall e, In e (cs_log st') -> In e (cs_log st) \/ In (p_sample (fst (fst e)), p_name (fst (fst e))) (map cname l)).
Proof.
  induction l as [|c l IH]; intros st NDn NDl Hold; cbn [fold_left map] in *.
  - cbn zeta. split; [exact NDl|]. intros e He. left. exact He.
  - inversion NDn as [|x0 l0 Hnc NDn']; subst.
    destruct (fold_steps_block cf (c_sample c) (c_name c) (c_segs c) st 0) as (new & E & [F1 F2] & _).
    rewrite <- classify_contig_eq in E.
    assert (NDnew : NoDup (map epid (cs_log (classify_contig cf st c)))).
    { rewrite E, map_app. apply NoDup_app_disj.
      - (* within the block: same names, distinct parts *)
        clear -F1 F2. induction new as [|e new IHn]; cbn [map]; [constructor|]. cbn [map] in F2. inversion F2; subst. constructor.
        + intro Hin. apply in_map_iff in Hin. destruct Hin as (e' & Ee & He'). apply H1. apply in_map_iff. exists e'. split; [|exact He'].
          unfold epid, pid in Ee. inversion Ee. reflexivity.
        + apply IHn; [intros e' He'; apply F1; right; exact He'|exact H2].
      - exact NDl.
      - intros x Hx Hy. apply in_map_iff in Hx, Hy. destruct Hx as (e1 & <- & H1), Hy as (e2 & E2 & H2).
        destruct (F1 e1 H1) as (S1 & N1 & _). apply (Hold e2 H2). left. unfold cname.
        unfold epid, pid in E2. inversion E2. congruence. }
    destruct (IH (classify_contig cf st c) NDn' NDnew) as (A & B).
    { intros e He Hin. rewrite E in He. apply in_app_or in He. destruct He as [He|He].
      - destruct (F1 e He) as (S1 & N1 & _). apply Hnc. rewrite S1, N1 in Hin. exact Hin.
      - apply (Hold e He). right. exact Hin. }
    cbn zeta in *. split; [exact A|]. intros e He. destruct (B e He) as [H|H]; [|right; right; exact H].
    rewrite E in H. apply in_app_or in H. destruct H as [H|H]; [|left; exact H].
    right. left. destruct (F1 e H) as (S1 & N1 & _). unfold cname. congruence.
Qed.

Lemma NoDup_app_l {A} (l1 l2 : list A) : NoDup (l1 ++ l2) -> NoDup l1.
Proof.
  induction l1 as [|a l1 IH]; cbn [app]; intro H; [constructor|]. inversion H; subst. constructor.
  - intro Hin. apply H2. apply in_or_app. left. exact Hin.
  - apply IH. exact H3.
Qed.
Lemma NoDup_app_r {A} (l1 l2 : list A) : NoDup (l1 ++ l2) -> NoDup l2.
Proof. induction l1 as [|a l1 IH]; cbn [app]; intro H; [exact H|]. inversion H; subst. apply IH. assumption. Qed.

Lemma round_log_eq cf ord r contigs :
  snd (round cf ord r contigs) = rev (cs_log (fold_left (classify_contig cf) (sort_contigs contigs) (cstate_of r))).
Proof.
  unfold round.
  assert (E : cs_log (classify_round cf ord r contigs) = cs_log (fold_left (classify_contig cf) (sort_contigs contigs) (cstate_of r))).
  { unfold classify_round. destruct contigs as [|c0 cs]; [reflexivity|].
    destruct (process_new _ _ _ _ _) as [[[m' next'] vlen'] vl']. reflexivity. }
  destruct (cs_vl (classify_round cf ord r contigs)); [cbn [snd]; rewrite E; reflexivity|].
  cbn [process_new pn_assign pn_move]. destruct (place_all _ _ _ _) as [[bufs' ss'] out']. cbn [snd]. rewrite E. reflexivity.
Qed.

Lemma round_ids cf ord r contigs : NoDup (map cname contigs) ->
  NoDup (map epid (snd (round cf ord r contigs))) /\
  (forall e, In e (snd (round cf ord r contigs)) -> In (p_sample (fst (fst e)), p_name (fst (fst e))) (map cname contigs)).
Proof.
  intro ND. rewrite round_log_eq.
  assert (NDs : NoDup (map cname (sort_contigs contigs))).
  { eapply Permutation_NoDup; [apply Permutation_map; apply Permutation_sym; apply sort_contigs_perm|exact ND]. }
  destruct (classify_all_ids cf (sort_contigs contigs) (cstate_of r) NDs) as (A & B); [constructor|intros e []|]. cbn zeta in *.
  split.
  - rewrite map_rev. eapply Permutation_NoDup; [apply Permutation_rev|exact A].
  - intros e He. apply in_rev in He. destruct (B e He) as [[]|H].
    eapply Permutation_in; [apply Permutation_map; apply sort_contigs_perm|exact H].
Qed.

Lemma run_ids cf ord : forall rounds r, NoDup (map cname (concat rounds)) ->
  NoDup (map epid (concat (snd (run_rounds cf ord r rounds)))) /\
  (forall e, In e (concat (snd (run_rounds cf ord r rounds))) ->
     In (p_sample (fst (fst e)), p_name (fst (fst e))) (map cname (concat rounds))).
Proof.
  induction rounds as [|c tl IH]; intros r ND; cbn [run_rounds concat snd].
  - split; [constructor|intros e []].
  - cbn [concat] in ND. rewrite map_app in ND.
    assert (ND1 : NoDup (map cname c)) by (eapply NoDup_app_l; exact ND).
    assert (ND2 : NoDup (map cname (concat tl))) by (eapply NoDup_app_r; exact ND).
    destruct (round_ids cf ord r c ND1) as (A1 & B1).
    destruct (round cf ord r c) as [[r1 out] lg]. cbn [snd] in A1, B1.
    destruct (IH r1 ND2) as (A2 & B2). destruct (run_rounds cf ord r1 tl) as [[r2 outs] lgs]. cbn [snd concat] in *.
    split.
    + rewrite map_app. apply NoDup_app_disj; [exact A1|exact A2|].
      intros x Hx Hy. apply in_map_iff in Hx, Hy. destruct Hx as (e1 & <- & H1), Hy as (e2 & E2 & H2).
      specialize (B1 e1 H1). specialize (B2 e2 H2). unfold epid, pid in E2. inversion E2 as [[Ea Eb Ec]]. rewrite Ea, Eb in B2.
      (* the name is in this round and in a later one *)
      clear -ND B1 B2. induction (map cname c) as [|n l IHl]; [destruct B1|]. cbn [app] in ND. inversion ND; subst.
      destruct B1 as [->|B1]; [apply H1; apply in_or_app; right; exact B2|exact (IHl H2 B1)].
    + intros e He. rewrite map_app. apply in_or_app. apply in_app_or in He. destruct He as [He|He]; [left; exact (B1 e He)|right; exact (B2 e He)].
Qed.

Lemma concat_perm_map {A B C} (f : A -> C) (g : B -> C) (la : list (list A)) (lb : list (list B)) :
  Forall2 (fun a b => Permutation (map f a) (map g b)) la lb -> Permutation (map f (concat la)) (map g (concat lb)).
Proof.
  induction 1 as [|a b la lb H _ IH]; cbn [concat map]; [constructor|]. rewrite !map_app. apply Permutation_app; assumption.
Qed.

Theorem stored_ids_distinct_proof : forall cf ord rounds r outs lgs, run_ok cf ord rounds r outs lgs ->
  NoDup (map (fun c => (c_sample c, c_name c)) (concat rounds)) ->
  NoDup (map (fun x => (p_sample (snd x), p_name (snd x), p_part (snd x))) (concat outs)) /\
  forall lbl p, In (lbl, p) (concat outs) -> grp_of (concat outs) p = lbl.
Proof.
  intros cf ord rounds r outs lgs H ND. pose proof (add_known_never_drops_proof _ _ _ _ _ _ H) as P.
  destruct H as (Po & E & Hw). destruct (run_ids cf ord rounds reg_init ND) as (A & _). rewrite E in A. cbn [snd] in A.
  pose proof (concat_perm_map _ _ _ _ P) as PP.
  assert (N1 : NoDup (map pid (map snd (concat outs)))).
  { eapply Permutation_NoDup; [apply Permutation_map; apply Permutation_sym; exact PP|]. rewrite map_map. exact A. }
  split; [rewrite map_map in N1; exact N1|].
  apply group_of_is_a_function_proof. exact (NoDup_map_inv _ _ N1).
Qed.

(* ------------------------------------------------------------------ the registry and Pipeline.v (C01's contig level) number and
   orient the pieces of a raw segment alike: with the decision the registry's step amounts to, Pipeline.seg_pieces yields
   the same seg_part_no and is_rev_comp per piece, in the same order, and the same seg_part_no increment *)
Definition seg_raw (s : Segment.segment) : rawseg :=
  {| rs_front := Segment.sfront s; rs_back := Segment.sback s; rs_fdir := Segment.sfdir s; rs_bdir := Segment.sbdir s |}.

Lemma should_reverse_case2 cf s o kf kb sr :
  classify_key cf (seg_raw s) o = (kf, kb, sr) -> Pipeline.both_kmers s = true -> Pipeline.should_reverse s sr = sr.
Proof.
  unfold classify_key, Pipeline.should_reverse, Pipeline.both_kmers, seg_raw. cbn [rs_front rs_back]. rewrite <- MISS_def.
  intros E B. rewrite B in *. destruct (Segment.sfront s <? Segment.sback s); inversion E; reflexivity.
Qed.
Lemma should_reverse_other s sr : Pipeline.both_kmers s = false -> Pipeline.should_reverse s sr = sr.
Proof. unfold Pipeline.should_reverse. intros ->. reflexivity. Qed.

Theorem parts_agree_with_pipeline_proof : forall cf sn cn (s : Segment.segment) o st (part k : nat),
  let res := classify_step cf sn cn (seg_raw s, o) (st, N.of_nat part) in
  exists new, cs_log (fst res) = new ++ cs_log st /\
  forall pos : nat, exists d : Pipeline.decision,
    match d with Pipeline.Split _ p _ _ => p = pos | _ => True end /\
    snd res = N.of_nat (part + Pipeline.part_incr d) /\
    match Pipeline.seg_pieces k s d part with
    | Ok ps => map (fun pc => (N.of_nat (Pipeline.p_part pc), Pipeline.p_rc pc)) ps
               = map (fun e : placed * key * N => (p_part (fst (fst e)), p_rc (fst (fst e)))) (rev new)
    | _ => True
    end.
Proof.
  intros cf sn cn s o st part k. cbv zeta. unfold classify_step.
  destruct (classify_key cf (seg_raw s) o) as [[kf kb] sr] eqn:Ek.
  assert (Hsr : Pipeline.should_reverse s sr = sr).
  { destruct (Pipeline.both_kmers s) eqn:B; [eapply should_reverse_case2; eassumption|apply should_reverse_other; exact B]. }
  assert (Plain : forall k0 g, forall pos : nat, exists d : Pipeline.decision,
            match d with Pipeline.Split _ p _ _ => p = pos | _ => True end /\
            N.of_nat part + 1 = N.of_nat (part + Pipeline.part_incr d) /\
            match Pipeline.seg_pieces k s d part with
            | Ok ps => map (fun pc => (N.of_nat (Pipeline.p_part pc), Pipeline.p_rc pc)) ps
                       = map (fun e : placed * key * N => (p_part (fst (fst e)), p_rc (fst (fst e))))
                             (rev [(mk_placed sn cn (N.of_nat part) sr, k0, g)])
            | _ => True end).
  { intros k0 g pos. exists (Pipeline.Plain sr). split; [exact I|]. split; [cbn [Pipeline.part_incr]; lia|].
    cbn [Pipeline.seg_pieces Pipeline.dec_o]. rewrite Hsr. reflexivity. }
  destruct (kget (r_map (cs_reg st)) (kf, kb)) as [gid|] eqn:Eg.
  - destruct ((kf =? MISS) && (kb =? MISS)); cbn [fst snd cs_log]; eexists [_]; (split; [reflexivity|apply Plain]).
  - destruct (split_attempt cf (r_map (cs_reg st)) (seg_raw s) o kf kb sr sn cn (N.of_nat part)) as [[adds incr]|] eqn:Es.
    + cbn [fst snd cs_log]. revert Es. unfold split_attempt.
      destruct (negb (cf_no_split cf) && negb (kf =? MISS) && negb (kb =? MISS) && negb (kf =? kb)); [|discriminate].
      destruct (o_mid o) as [middle|]; [|discriminate]. cbv zeta.
      match goal with |- match kget ?m ?a with _ => _ end = _ -> _ => destruct (kget m a) as [lg|]; [|discriminate] end.
      match goal with |- match kget ?m ?a with _ => _ end = _ -> _ => destruct (kget m a) as [rg|]; [|discriminate] end.
      destruct (o_split o); intro E; inversion E; subst; clear E; cbn [map rev app fst snd seg_raw rs_front rs_back].
      * eexists [_; _]. split; [reflexivity|]. intro pos.
        exists (Pipeline.Split sr pos (if sr then Segment.sback s <=? middle else middle <=? Segment.sfront s)
                                      (if sr then middle <=? Segment.sfront s else Segment.sback s <=? middle)).
        split; [reflexivity|]. split; [cbn [Pipeline.part_incr]; lia|]. cbn [Pipeline.seg_pieces Pipeline.dec_o]. rewrite Hsr.
        destruct (Pipeline.split_segment_at_position _ _ _) as [[ld rd]| |]; [|exact I|exact I].
        destruct sr; cbn [map rev app fst snd mk_placed p_part p_rc Pipeline.p_part Pipeline.p_rc]; repeat f_equal; lia.
      * eexists [_]. split; [reflexivity|]. intro pos.
        exists (Pipeline.AssignL sr (if sr then Segment.sback s <=? middle else middle <=? Segment.sfront s)).
        split; [exact I|]. split; [cbn [Pipeline.part_incr]; lia|]. cbn [Pipeline.seg_pieces Pipeline.dec_o]. reflexivity.
      * eexists [_]. split; [reflexivity|]. intro pos.
        exists (Pipeline.AssignR sr (if sr then middle <=? Segment.sfront s else Segment.sback s <=? middle)).
        split; [exact I|]. split; [cbn [Pipeline.part_incr]; lia|]. cbn [Pipeline.seg_pieces Pipeline.dec_o]. reflexivity.
    + destruct (register_key _ _ _) as [[m' gc'] gid]. cbn [fst snd cs_log]. eexists [_]. split; [reflexivity|apply Plain].
Qed.
