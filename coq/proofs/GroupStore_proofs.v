(* GroupStore_proofs.v - store_then_get and the AGC-v3 addressing rules (C01 group-store half, C02 addressing) *)
From Coq Require Import Lia ZifyBool ZifyN ZifyNat Permutation.
From Ragc Require Import Mach Consts_groupstore SegReader GroupStore GroupStore_base GroupStore_inv.
Open Scope N_scope.
Arguments N.add : simpl never.
Arguments N.sub : simpl never.
Arguments N.mul : simpl never.
Arguments N.div : simpl never.
Arguments N.modulo : simpl never.
Arguments N.max : simpl never.
Arguments N.of_nat : simpl never.
Arguments N.to_nat : simpl never.

(* ---- the hypotheses, as predicates (props/C02.v repeats them verbatim; `exact` checks they are the same) *)
Definition codecs_ok (lz_enc : list N -> list N -> list N) (lz_dec : list N -> list N -> outcome (list N))
    (compress_ref : list N -> list N * N) (compress_pack : list N -> list N)
    (dwm : list N -> N -> outcome (list N))
    (ref_dom : list N -> Prop) (lz_dom : list N -> list N -> Prop) : Prop :=
  (forall x, ref_dom x ->
     dwm (fst (compress_ref x)) (snd (compress_ref x)) = Ok x /\ fst (compress_ref x) <> []) /\
  (forall x, x <> [] -> dwm (compress_pack x) W_PACK_MARKER_STEP = Ok x) /\
  (forall r t, lz_dom r t ->
     (lz_enc r t = [] -> t = r) /\
     (lz_enc r t <> [] -> lz_dec r (lz_enc r t) = Ok t) /\
     ~ In CONTIG_SEPARATOR (lz_enc r t)).

Definition ops_ok (ref_dom : list N -> Prop) (lz_dom : list N -> list N -> Prop) (ops : list op) : Prop :=
  forall g s, In s (segs_of ops g) ->
    lenN (s_data s) < two32 /\
    (g < 16 -> ~ In CONTIG_SEPARATOR (s_data s)) /\
    (16 <= g -> ref_dom (s_data s) /\ forall s', In s' (segs_of ops g) -> lz_dom (s_data s') (s_data s)).

Definition is_lz (g : N) : bool := W_NO_RAW_GROUPS <=? g.

Section Main.
  Variable lz_enc : list N -> list N -> list N.
  Variable lz_dec : list N -> list N -> outcome (list N).
  Variable compress_ref : list N -> list N * N.
  Variable compress_pack : list N -> list N.
  Variable dwm : list N -> N -> outcome (list N).

  Notation Inv' := (Inv lz_enc compress_ref compress_pack).
  Notation mkpart' := (mkpart compress_pack).
  Notation ref_part' := (ref_part compress_ref).
  Notation run' := (run lz_enc compress_ref compress_pack).
  Notation run_from' := (run_from lz_enc compress_ref compress_pack).
  Notation gstep' := (gstep lz_enc compress_ref compress_pack).
  Notation gprocess' := (gprocess lz_enc compress_ref compress_pack).
  Notation finalize_group' := (finalize_group compress_pack).
  Notation finalize' := (finalize compress_pack).

  Definition GInvOf (g : N) (gs : gstate) : Prop :=
    exists packs ents, Inv' (is_lz g) (g_buf gs) (g_ref gs) (g_delta gs) (g_regs gs) packs ents.
  Definition GInv (st : store) : Prop := forall g gs, st g = Some gs -> GInvOf g gs.

  Lemma ginv_new : forall g, GInvOf g gstate_new.
  Proof. intro g. exists [], []. apply inv_new. Qed.

  Lemma ginv_get : forall st g, GInv st -> GInvOf g (get_group st g).
  Proof.
    intros st g H. unfold get_group. destruct (st g) as [gs|] eqn:E; [apply H; exact E|apply ginv_new].
  Qed.

  Lemma gprocess_inv : forall g gs sorted gs',
    GInvOf g gs -> gprocess' g gs sorted = Ok gs' ->
    GInvOf g gs' /\ map fst (g_regs gs') = map fst (g_regs gs) ++ sorted.
  Proof.
    intros g gs sorted gs' [packs [ents HI]] H. unfold gprocess in H.
    destruct (process lz_enc compress_ref compress_pack g (g_buf gs) sorted) as [o| |] eqn:E; cbn [obnd] in H; try discriminate.
    inversion H; subst gs'. clear H.
    destruct (process_inv _ _ _ _ _ _ _ _ _ _ _ _ HI E) as [Hm [packs' [ents' HI']]].
    split.
    - exists packs', ents'. exact HI'.
    - cbn [apply_out g_regs]. rewrite map_app. rewrite Hm. reflexivity.
  Qed.

  Lemma gstep_inv : forall g gs segs gs',
    GInvOf g gs -> gstep' g gs segs = Ok gs' ->
    GInvOf g gs' /\ Permutation (map fst (g_regs gs')) (map fst (g_regs gs) ++ segs).
  Proof.
    intros g gs segs gs' HI H.
    assert (H' : gprocess' g gs (sort_segs segs) = Ok gs') by exact H.
    destruct (gprocess_inv _ _ _ _ HI H') as [HI' Hm]. split; [exact HI'|].
    rewrite Hm. apply Permutation_app_head. apply sort_segs_perm.
  Qed.

  Lemma upd_same : forall st g gs, upd st g gs g = Some gs.
  Proof. intros. unfold upd. rewrite N.eqb_refl. reflexivity. Qed.
  Lemma upd_other : forall st g gs x, x <> g -> upd st g gs x = st x.
  Proof. intros st g gs x H. unfold upd. apply N.eqb_neq in H. rewrite H. reflexivity. Qed.

  Lemma run_from_inv : forall ops st st',
    GInv st -> run_from' st ops = Ok st' ->
    GInv st' /\ forall g, Permutation (map fst (regs_of st' g)) (map fst (regs_of st g) ++ segs_of ops g).
  Proof.
    induction ops as [|[g segs] tl IH]; intros st st' HG H.
    - cbn in H. inversion H; subst. split; [exact HG|]. intro g. cbn. rewrite app_nil_r. apply Permutation_refl.
    - cbn [run_from] in H.
      destruct (gstep' g (get_group st g) segs) as [gs1| |] eqn:E; cbn [obnd] in H; try discriminate.
      destruct (gstep_inv _ _ _ _ (ginv_get st g HG) E) as [HI1 HP1].
      assert (HG1 : GInv (upd st g gs1)).
      { intros x gsx Hx. destruct (N.eq_dec x g) as [->|Hne].
        - rewrite upd_same in Hx. inversion Hx; subst. exact HI1.
        - rewrite upd_other in Hx by exact Hne. apply HG. exact Hx. }
      destruct (IH _ _ HG1 H) as [HG' HP']. split; [exact HG'|].
      intro x. eapply Permutation_trans; [apply HP'|].
      unfold segs_of. cbn [flat_map fst snd]. fold (segs_of tl x).
      unfold regs_of, get_group. destruct (N.eq_dec x g) as [->|Hne].
      + rewrite upd_same. rewrite N.eqb_refl. rewrite app_assoc. apply Permutation_app_tail. exact HP1.
      + rewrite upd_other by exact Hne. replace (g =? x) with false by (symmetry; apply N.eqb_neq; congruence).
        cbn [app]. apply Permutation_refl.
  Qed.

  Lemma run_inv : forall ops st,
    run' ops = Ok st ->
    GInv st /\ forall g, Permutation (map fst (regs_of st g)) (segs_of ops g).
  Proof.
    intros ops st H. unfold run in H.
    assert (HG0 : GInv store_empty) by (intros g gs Hc; discriminate).
    destruct (run_from_inv _ _ _ HG0 H) as [HG HP]. split; [exact HG|]. intro g. apply HP.
  Qed.

  (* ---- the final layout of a group's delta stream *)
  Definition final_chunks (lz : bool) (buf : gbuf) (packs : list (list (list N))) : list (list (list N)) :=
    if is_nil (b_pending buf) then packs else packs ++ [open_of lz buf].

  Lemma fin_delta : forall g gs packs ents,
    Inv' (is_lz g) (g_buf gs) (g_ref gs) (g_delta gs) (g_regs gs) packs ents ->
    g_delta (finalize_group' g gs) = map mkpart' (final_chunks (is_lz g) (g_buf gs) packs) /\
    g_ref (finalize_group' g gs) = g_ref gs /\ g_regs (finalize_group' g gs) = g_regs gs.
  Proof.
    intros g gs packs ents HI. unfold finalize_group, final_chunks. fold (is_lz g).
    destruct (is_nil (b_pending (g_buf gs))) eqn:E.
    - repeat split. apply HI.
    - cbn [g_delta g_ref g_regs]. repeat split. rewrite map_app. cbn [map].
      rewrite (inv_delta _ _ _ _ _ _ _ _ _ _ HI). f_equal. f_equal.
      unfold mkpart. rewrite pack_bytes_flat. rewrite ph_sites_agree, marker_sites_agree. reflexivity.
  Qed.

  Lemma final_chunks_shape : forall lz buf rp dp regs packs ents,
    Inv' lz buf rp dp regs packs ents ->
    forall c, In c (final_chunks lz buf packs) ->
      c <> [] /\ (length c <= 50)%nat /\ forall e, In e c -> In e (slots_of lz ents).
  Proof.
    intros lz buf rp dp regs packs ents HI c Hc.
    assert (Hpk : forall c, In c packs -> c <> [] /\ (length c <= 50)%nat /\ forall e, In e c -> In e (slots_of lz ents)).
    { intros c0 H0. pose proof (inv_full _ _ _ _ _ _ _ _ _ _ HI) as Hf. rewrite Forall_forall in Hf.
      specialize (Hf c0 H0). split; [intro Hn; subst; discriminate|]. split; [lia|].
      intros e He. rewrite (inv_slots _ _ _ _ _ _ _ _ _ _ HI). apply in_or_app. left.
      apply in_concat. exists c0. split; assumption. }
    unfold final_chunks in Hc. destruct (is_nil (b_pending buf)) eqn:E; [apply Hpk; exact Hc|].
    apply in_app_or in Hc. destruct Hc as [Hc|[Hc|[]]]; [apply Hpk; exact Hc|]. subst c.
    apply is_nil_false in E. split.
    - unfold open_of. intro Hn. apply app_eq_nil in Hn. destruct Hn as [_ Hn]. contradiction.
    - split; [pose proof (inv_open _ _ _ _ _ _ _ _ _ _ HI); lia|].
      intros e He. rewrite (inv_slots _ _ _ _ _ _ _ _ _ _ HI). apply in_or_app. right. exact He.
  Qed.

  Lemma slot_lookup : forall lz buf rp dp regs packs ents k e,
    Inv' lz buf rp dp regs packs ents -> ents <> [] ->
    nth_error (slots_of lz ents) k = Some e ->
    exists c, nth_error (final_chunks lz buf packs) (k / 50) = Some c /\ nth_error c (k mod 50) = Some e.
  Proof.
    intros lz buf rp dp regs packs ents k e HI Hne Hk.
    pose proof (inv_slots _ _ _ _ _ _ _ _ _ _ HI) as Hs. rewrite Hs in Hk.
    pose proof (inv_full _ _ _ _ _ _ _ _ _ _ HI) as Hf.
    pose proof (inv_open _ _ _ _ _ _ _ _ _ _ HI) as Ho.
    unfold final_chunks. destruct (is_nil (b_pending buf)) eqn:E.
    - apply is_nil_true in E.
      assert (Hop : open_of lz buf = []).
      { unfold open_of in *. rewrite E in *. rewrite app_nil_r in *.
        destruct (negb lz && negb (b_placeholder buf)) eqn:Efr; [|reflexivity].
        exfalso. apply andb_true_iff in Efr. destruct Efr as [H1 H2].
        apply negb_true_iff in H1. apply negb_true_iff in H2.
        pose proof (inv_ph _ _ _ _ _ _ _ _ _ _ HI H1 H2) as Hp. subst packs. subst lz.
        unfold slots_of in Hs. cbn in Hs. inversion Hs. contradiction. }
      rewrite Hop in Hk. rewrite app_nil_r in Hk.
      apply (chunk_lookup_closed 50 packs k e); [lia|exact Hf|exact Hk].
    - apply (chunk_lookup 50 packs (open_of lz buf) k e); [lia|exact Hf|lia|exact Hk].
  Qed.

  Section WithCodecs.
    Variable ref_dom : list N -> Prop.
    Variable lz_dom : list N -> list N -> Prop.
    Hypothesis HC : codecs_ok lz_enc lz_dec compress_ref compress_pack dwm ref_dom lz_dom.

    Lemma load_mkpart : forall c, c <> [] -> load_part dwm (mkpart' c) = Ok (flat c).
    Proof.
      intros c Hc. unfold mkpart. apply load_store_part. destruct HC as [_ [Hp _]]. apply Hp.
      apply flat_nonempty. exact Hc.
    Qed.

    Lemma load_ref_part : forall r, ref_dom r -> load_part dwm (ref_part' r) = Ok r.
    Proof.
      intros r Hr. unfold ref_part. apply load_store_part. destruct HC as [Hrf _]. apply Hrf. exact Hr.
    Qed.

    (* the is_packed heuristic cannot fire on a part written by the group store *)
    Lemma load_reference_ok : forall r gd, ref_dom r ->
      load_reference dwm {| gv_ref := Some [ref_part' r]; gv_delta := gd |} = Ok r.
    Proof.
      intros r gd Hr. unfold load_reference. cbn [gv_ref]. rewrite r_ref_part_0.
      unfold get_part, nthN. cbn [N.to_nat nth_error obnd].
      change (nth_error [ref_part' r] (N.to_nat 0)) with (Some (ref_part' r)). cbn [obnd].
      rewrite (load_ref_part r Hr). cbn [obnd]. f_equal.
      destruct packed_consts as [E1 [E2 E3]]. rewrite E1, E2, E3.
      unfold ref_part.
      destruct (store_part_meta (fst (compress_ref r) ++ [snd (compress_ref r)]) r) as [[Hm _]|[Hm [Hnz [_ Hlt]]]].
      - rewrite Hm. cbn. reflexivity.
      - rewrite Hm. replace (lenN r =? 0) with false by (symmetry; apply N.eqb_neq; exact Hnz).
        cbn [negb andb].
        destruct HC as [Hrf _]. destruct (Hrf r Hr) as [_ Hne].
        rewrite lenN_app in Hlt.
        assert (1 <= lenN (fst (compress_ref r))).
        { destruct (fst (compress_ref r)); [congruence|]. rewrite lenN_cons. lia. }
        unfold lenN at 2 in Hlt. cbn [length] in Hlt.
        replace (lenN r * 4 <? lenN r + 8) with false by (symmetry; apply N.ltb_ge; lia).
        rewrite andb_false_r. reflexivity.
    Qed.

    Lemma read_slot : forall g gs packs ents k e,
      Inv' (is_lz g) (g_buf gs) (g_ref gs) (g_delta gs) (g_regs gs) packs ents ->
      (forall e, In e ents -> nosep e) -> ents <> [] ->
      nth_error (slots_of (is_lz g) ents) k = Some e ->
      exists p pack,
        nth_error (g_delta (finalize_group' g gs)) (k / 50) = Some p /\
        load_part dwm p = Ok pack /\ unpack_contig pack (N.of_nat (k mod 50)) = Ok e.
    Proof.
      intros g gs packs ents k e HI Hns Hne Hk.
      destruct (fin_delta g gs packs ents HI) as [Hd _].
      destruct (slot_lookup _ _ _ _ _ _ _ _ _ HI Hne Hk) as [c [Hc He]].
      pose proof (final_chunks_shape _ _ _ _ _ _ _ HI c (nth_error_In _ _ Hc)) as [Hcn [_ Hin]].
      exists (mkpart' c), (flat c). split; [|split].
      - rewrite Hd. apply map_nth_error. exact Hc.
      - apply load_mkpart. exact Hcn.
      - apply unpack_flat; [|exact He]. apply Forall_forall. intros x Hx. specialize (Hin x Hx).
        unfold slots_of in Hin. apply in_app_or in Hin. destruct Hin as [Hin|Hin]; [|apply Hns; exact Hin].
        destruct (is_lz g); [destruct Hin|]. destruct Hin as [<-|[]].
        intros [Hc1|[]]. apply ph_not_sep. exact Hc1.
    Qed.

    (* ---- store_then_get *)
    Theorem store_then_get_proof : forall ops st g s id,
      ops_ok ref_dom lz_dom ops ->
      run' ops = Ok st ->
      In (s, id) (regs_of st g) ->
      get_segment dwm lz_dec (view_of (finalize' st)) (desc_of g s id) = Ok (s_data s) /\
      d_len (desc_of g s id) = lenN (s_data s).
    Proof.
      intros ops st g s id Hops Hrun Hin.
      destruct (run_inv _ _ Hrun) as [HG HP].
      assert (Hseg : forall s1 id1, In (s1, id1) (regs_of st g) -> In s1 (segs_of ops g)).
      { intros s1 id1 H1. eapply Permutation_in; [apply HP|]. apply (in_map fst) in H1. exact H1. }
      destruct (Hops g s (Hseg s id Hin)) as [Hlen [Hraw Hlzd]].
      split; [|cbn [desc_of d_len]; unfold wrap32; apply N.mod_small; exact Hlen].
      unfold regs_of, get_group in *. destruct (st g) as [gs|] eqn:Eg; [|destruct Hin].
      destruct (HG g gs Eg) as [packs [ents HI]].
      destruct (fin_delta g gs packs ents HI) as [Hfd [Hfr _]].
      unfold get_segment. cbn [desc_of d_group d_id]. unfold view_of, finalize. rewrite Eg.
      rewrite r_raw_16. rewrite r_pack_50. rewrite r_off_1.
      pose proof (inv_regs _ _ _ _ _ _ _ _ _ _ HI) as Hregs. rewrite Forall_forall in Hregs.
      pose proof (Hregs (s, id) Hin) as Hreg. unfold reg_ok in Hreg.
      pose proof (inv_ref _ _ _ _ _ _ _ _ _ _ HI) as Href.
      assert (Hnosep : forall e, In e ents -> nosep e).
      { intros e He. destruct (inv_ents _ _ _ _ _ _ _ _ _ _ HI e He) as [s1 [id1 [Hin1 Heq]]].
        destruct (Hops g s1 (Hseg s1 id1 Hin1)) as [_ [Hraw1 Hlz1]]. subst e. unfold entry_of, is_lz in *.
        rewrite w_raw_16 in *. destruct (16 <=? g) eqn:E16.
        - apply N.leb_le in E16. destruct (b_reference (g_buf gs)) as [r|] eqn:Er; [|destruct Href as [_ [_ [Hc _]]]; rewrite Hc in Hin1; destruct Hin1].
          destruct Href as [_ [_ [s0 [Hs0 Hd0]]]]. destruct (Hlz1 E16) as [_ Hd]. specialize (Hd s0 (Hseg s0 0 Hs0)).
          rewrite Hd0 in Hd. destruct HC as [_ [_ Hlz]]. destruct (Hlz _ _ Hd) as [_ [_ Hn]]. exact Hn.
        - apply N.leb_gt in E16. destruct (b_reference (g_buf gs)); apply Hraw1; exact E16. }
      unfold is_lz in *. rewrite w_raw_16 in *.
      destruct (16 <=? g) eqn:E16.
      - (* LZ group *)
        assert (Hisl : is_lz g = true) by exact E16.
        rewrite <- Hisl in HI.
        apply N.leb_le in E16.
        destruct (b_reference (g_buf gs)) as [r|] eqn:Er; [|destruct Hreg].
        destruct Href as [_ [Hrp [s0 [Hs0 Hd0]]]].
        destruct (Hops g s0 (Hseg s0 0 Hs0)) as [_ [_ Hlz0]]. destruct (Hlz0 E16) as [Hrd0 _]. rewrite Hd0 in Hrd0.
        destruct (Hlzd E16) as [_ Hd]. specialize (Hd s0 (Hseg s0 0 Hs0)). rewrite Hd0 in Hd.
        destruct HC as [_ [_ Hlz]]. destruct (Hlz _ _ Hd) as [Hlz1 [Hlz2 _]].
        cbn [gv_ref gv_delta]. rewrite Hfr, Hrp. rewrite (load_reference_ok r _ Hrd0). cbn [obnd].
        destruct Hreg as [[Hid0 Hsame]|[Hid1 [Hnth Hne]]].
        + subst id. cbn. f_equal. destruct Hsame as [Hsame|Hsame]; [symmetry; exact Hsame|]. symmetry. apply Hlz1. exact Hsame.
        + replace (id =? 0) with false by (symmetry; apply N.eqb_neq; lia).
          assert (Hents : ents <> []) by (intro Hc; subst ents; destruct (N.to_nat (id - 1)); discriminate).
          assert (Hk : nth_error (slots_of (is_lz g) ents) (N.to_nat (id - 1)) = Some (lz_enc r (s_data s))).
          { rewrite Hisl. exact Hnth. }
          destruct (read_slot g gs packs ents _ _ HI Hnosep Hents Hk) as [p [pack [Hp [Hload Hunp]]]].
          assert (Hlt : (N.to_nat (id - 1) / 50 < length (g_delta (finalize_group' g gs)))%nat)
            by (apply nth_error_Some; congruence).
          replace (lenN (g_delta (finalize_group' g gs)) <=? (id - 1) / 50) with false.
          2:{ symmetry. apply N.leb_gt. unfold lenN.
              assert (N.to_nat ((id - 1) / 50) = (N.to_nat (id - 1) / 50)%nat) by (rewrite N2Nat.inj_div; reflexivity). lia. }
          unfold get_part, nthN. rewrite N2Nat.inj_div. change (N.to_nat 50) with 50%nat. rewrite Hp. cbn [obnd].
          rewrite Hload. cbn [obnd].
          replace ((id - 1) mod 50) with (N.of_nat (N.to_nat (id - 1) mod 50)).
          2:{ rewrite <- (N2Nat.id ((id - 1) mod 50)). rewrite N2Nat.inj_mod. reflexivity. }
          rewrite Hunp. cbn [obnd].
          replace (is_nil (lz_enc r (s_data s))) with false by (symmetry; apply is_nil_false; exact Hne).
          apply Hlz2. exact Hne.
      - (* raw group *)
        assert (Hisl : is_lz g = false) by exact E16.
        rewrite <- Hisl in HI.
        apply N.leb_gt in E16. destruct Hreg as [Hid1 Hnth].
        cbn [gv_delta].
        assert (Hents : ents <> []) by (intro Hc; subst ents; destruct (N.to_nat (id - 1)); discriminate).
        assert (Hk : nth_error (slots_of (is_lz g) ents) (N.to_nat id) = Some (s_data s)).
        { rewrite Hisl. unfold slots_of.
          replace (N.to_nat id) with (S (N.to_nat (id - 1))) by lia. cbn [app nth_error]. exact Hnth. }
        destruct (read_slot g gs packs ents _ _ HI Hnosep Hents Hk) as [p [pack [Hp [Hload Hunp]]]].
        unfold get_part, nthN. rewrite N2Nat.inj_div. change (N.to_nat 50) with 50%nat. rewrite Hp. cbn [obnd].
        rewrite Hload. cbn [obnd].
        replace (id mod 50) with (N.of_nat (N.to_nat id mod 50)).
        2:{ rewrite <- (N2Nat.id (id mod 50)). rewrite N2Nat.inj_mod. reflexivity. }
        exact Hunp.
    Qed.
  End WithCodecs.
End Main.
