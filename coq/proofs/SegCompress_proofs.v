(* SegCompress_proofs.v - lemmas for C12: the repetitiveness decision and the compression round trips *)
From Coq Require Import Lia ZifyBool ZifyN ZifyNat.
From Ragc Require Import Mach Consts_tuple Tuple SegCompress Tuple_proofs.
Open Scope N_scope.
Arguments N.add : simpl never.
Arguments N.sub : simpl never.
Arguments N.mul : simpl never.
Arguments N.modulo : simpl never.
Arguments N.div : simpl never.
Arguments N.pow : simpl never.

(* ------------------------------------------------------------------ constants *)
Lemma thr_pos : 0 < rep_thr_num /\ 0 < rep_thr_den.
Proof. vm_compute. split; reflexivity. Qed.
Lemma markers_ok : sc_marker_plain = sc_reader_plain_marker /\ sc_marker_tuples <> sc_reader_plain_marker /\
                   w_pack_marker = sc_reader_plain_marker /\ w_raw_metadata = r_raw_metadata /\ r_raw_metadata = 0.
Proof. vm_compute. repeat split; try reflexivity. discriminate. Qed.

(* ------------------------------------------------------------------ rep_count never traps below 2^31 symbols *)
Lemma rep_count_some : forall s l cnt cur, cnt + lenN s < i32_lim -> cur + lenN s < i32_lim ->
  exists p, rep_count l s cnt cur = Some p.
Proof.
  induction s as [|b s IH]; intros l cnt cur H1 H2.
  - eexists. destruct l; reflexivity.
  - destruct l as [|a l]; [eexists; reflexivity|]. cbn [rep_count].
    unfold lenN in *. cbn [length] in H1, H2.
    set (cnt' := if a =? b then cnt + 1 else cnt). set (cur' := if a <? rep_base_limit then cur + 1 else cur).
    assert (cnt' <= cnt + 1) by (subst cnt'; destruct (a =? b); lia).
    assert (cur' <= cur + 1) by (subst cur'; destruct (a <? rep_base_limit); lia).
    replace ((cnt' <? i32_lim) && (cur' <? i32_lim)) with true by lia.
    apply IH; lia.
Qed.

Lemma skipnN_len : forall {A} off (l : list A), lenN (skipnN off l) <= lenN l.
Proof. intros. unfold lenN, skipnN. rewrite skipn_length. lia. Qed.

Lemma rep_loop_some : forall data n off best, lenN data < i32_lim -> exists rep, rep_loop data off n best = Some rep.
Proof.
  intros data. induction n as [|n IH]; intros off best H; [eexists; reflexivity|].
  cbn [rep_loop]. pose proof (skipnN_len off data).
  destruct (rep_count_some (skipnN off data) data 0 0 ltac:(lia) ltac:(lia)) as ([cnt cur] & ->).
  destruct (frac_gt _ best); [destruct (frac_ge_thr _); [eexists; reflexivity|]|]; apply IH; exact H.
Qed.

Lemma rep_total_proof : forall data, lenN data < i32_lim -> exists rep, check_repetitiveness data = Some rep.
Proof. intros. apply rep_loop_some. assumption. Qed.

(* ------------------------------------------------------------------ the decision depends only on whether some offset
   reaches the threshold: the running maximum stays below it until the first such offset, where the loop stops *)
Lemma offsets_from_S : forall lo n, offsets_from lo (S n) = lo :: offsets_from (lo + 1) n.
Proof.
  intros. unfold offsets_from. cbn [seq map]. f_equal; [lia|].
  rewrite <- seq_shift, map_map. apply map_ext. intros. lia.
Qed.

Lemma rep_loop_decision : forall data n off best rep,
  frac_lt_thr best = true -> 0 < snd best ->
  rep_loop data off n best = Some rep ->
  frac_lt_thr rep = negb (existsb (offset_reaches data) (offsets_from off n)).
Proof.
  intros data. destruct thr_pos as [Hn Hd].
  induction n as [|n IH]; intros off best rep Hb Hs H.
  - cbn in H. injection H as <-. rewrite Hb. reflexivity.
  - rewrite offsets_from_S. cbn [existsb]. cbn [rep_loop] in H. unfold offset_reaches at 1.
    destruct (rep_count data (skipnN off data) 0 0) as [[cnt cur]|]; [|discriminate].
    destruct best as [bn bd]. unfold frac_lt_thr, frac_gt, frac_ge_thr in *. cbn [fst snd] in *.
    destruct (0 <? cur) eqn:Ec; try rewrite Ec in H; cbn [fst snd andb orb] in *.
    + destruct (rep_thr_num * cur <=? cnt * rep_thr_den) eqn:Et.
      * (* this offset reaches the threshold: it beats every maximum below the threshold, and the loop stops *)
        assert (Hlt : bn * cur < cnt * bd).
        { apply N.mul_lt_mono_pos_r with rep_thr_den; [lia|].
          assert (bn * rep_thr_den * cur < rep_thr_num * bd * cur) by (apply N.mul_lt_mono_pos_r; lia).
          assert (rep_thr_num * cur * bd <= cnt * rep_thr_den * bd) by (apply N.mul_le_mono_r; lia).
          lia. }
        apply N.ltb_lt in Hlt. rewrite Hlt in H.
        injection H as <-. cbn [fst snd orb negb]. lia.
      * cbn [orb]. destruct (bn * cur <? cnt * bd).
        -- eapply IH; [| |exact H]; cbn [fst snd]; lia.
        -- eapply IH; [| |exact H]; cbn [fst snd]; lia.
    + cbn [orb]. replace (bn * 1 <? 0 * bd) with false in H by lia.
      eapply IH; [| |exact H]; cbn [fst snd]; lia.
Qed.

Lemma rep_decision_exact_proof : forall data rep, check_repetitiveness data = Some rep ->
  frac_lt_thr rep = negb (existsb (offset_reaches data) rep_offsets).
Proof.
  intros data rep H. unfold check_repetitiveness in H. unfold rep_offsets.
  destruct thr_pos. eapply rep_loop_decision; [| |exact H]; unfold frac_lt_thr; cbn [fst snd]; lia.
Qed.

(* ------------------------------------------------------------------ round trips under the zstd oracle *)
Section Zstd.
  Variable zc : N -> list N -> list N.
  Variable zd : list N -> option (list N).
  Hypothesis zstd_roundtrip : forall level x, zd (zc level x) = Some x.
  Hypothesis zstd_nonempty : forall level x, x <> [] -> zc level x <> [].

  Lemma plain_roundtrip : forall level x m, m = sc_reader_plain_marker ->
    decompress_segment_with_marker zd (zc level x) m = Ok x.
  Proof.
    intros level x m ->. unfold decompress_segment_with_marker.
    destruct (zc level x) as [|c0 c] eqn:E.
    - destruct x as [|x0 x]; [reflexivity|]. exfalso. apply (zstd_nonempty level (x0 :: x)); [discriminate|exact E].
    - rewrite <- E, N.eqb_refl. unfold zdo. rewrite zstd_roundtrip. reflexivity.
  Qed.

  Lemma tuples_marker_roundtrip : forall level x m, m <> sc_reader_plain_marker ->
    decompress_segment_with_marker zd (zc level (bytes_to_tuples x)) m = Ok x.
  Proof.
    intros level x m Hm. unfold decompress_segment_with_marker.
    destruct (zc level (bytes_to_tuples x)) as [|c0 c] eqn:E.
    - exfalso. apply (zstd_nonempty level (bytes_to_tuples x)); [apply bytes_to_tuples_nonempty|exact E].
    - rewrite <- E. replace (m =? sc_reader_plain_marker) with false by lia.
      unfold zdo. rewrite zstd_roundtrip. cbn [obnd]. apply tuples_roundtrip_proof.
  Qed.

  Lemma delta_segment_roundtrip_proof : forall level x,
    decompress_segment_with_marker zd (compress_segment_configured zc x level) w_pack_marker = Ok x /\
    decompress_segment_with_marker zd (compress_segment zc x) w_pack_marker = Ok x /\
    decompress_segment zd (compress_segment_configured zc x level) = Ok x.
  Proof.
    intros. destruct markers_ok as (_ & _ & H & _).
    unfold compress_segment, compress_segment_configured, compress_segment_plain.
    split; [|split]; try (apply plain_roundtrip; exact H).
    unfold decompress_segment, zdo. rewrite zstd_roundtrip. reflexivity.
  Qed.

  Lemma ref_segment_roundtrip_proof : forall x c m,
    compress_reference_segment zc x = Ok (c, m) -> decompress_segment_with_marker zd c m = Ok x.
  Proof.
    intros x c m H. destruct markers_ok as (H1 & H2 & _). unfold compress_reference_segment in H.
    destruct (check_repetitiveness x) as [rep|]; [|discriminate].
    destruct (frac_lt_thr rep); injection H as <- <-.
    - apply tuples_marker_roundtrip. exact H2.
    - apply plain_roundtrip. exact H1.
  Qed.

  Lemma load_compressed : forall c m meta, meta <> 0 ->
    load_part zd (c ++ [m], meta) = decompress_segment_with_marker zd c m.
  Proof.
    intros c m meta Hm. destruct markers_ok as (_ & _ & _ & _ & Hr). unfold load_part. rewrite Hr.
    replace (meta =? 0) with false by lia.
    destruct (c ++ [m]) eqn:E; [destruct c; discriminate|]. rewrite <- E, removelast_last, last_last. reflexivity.
  Qed.

  Lemma choose_part_roundtrip : forall c m x,
    decompress_segment_with_marker zd c m = Ok x -> load_part zd (choose_part (c ++ [m]) x) = Ok x.
  Proof.
    intros c m x H. destruct markers_ok as (_ & _ & _ & Hw & Hr). unfold choose_part.
    destruct (lenN (c ++ [m]) <? lenN x) eqn:E.
    - rewrite load_compressed; [exact H|]. unfold lenN in *. lia.
    - unfold load_part. rewrite Hw, N.eqb_refl. reflexivity.
  Qed.

  Lemma ref_part_roundtrip_proof : forall x part, store_ref_part zc x = Ok part -> load_part zd part = Ok x.
  Proof.
    intros x part H. unfold store_ref_part in H.
    destruct (compress_reference_segment zc x) as [[c m]| |] eqn:E; try discriminate.
    cbn [obnd fst snd] in H. injection H as <-. apply choose_part_roundtrip. apply ref_segment_roundtrip_proof. exact E.
  Qed.

  Lemma pack_part_roundtrip_proof : forall level x, load_part zd (store_pack_part zc level x) = Ok x.
  Proof.
    intros. unfold store_pack_part. apply choose_part_roundtrip. apply delta_segment_roundtrip_proof.
  Qed.

  Lemma ref_part_total_proof : forall x, lenN x < i32_lim ->
    exists c m, compress_reference_segment zc x = Ok (c, m) /\
                store_ref_part zc x = Ok (choose_part (c ++ [m]) x).
  Proof.
    intros x H. destruct (rep_total_proof x H) as (rep & Hrep).
    unfold store_ref_part, compress_reference_segment. rewrite Hrep.
    destruct (frac_lt_thr rep); do 2 eexists; split; reflexivity.
  Qed.
End Zstd.

(* ------------------------------------------------------------------ a toy instance of the zstd oracle, used only for the
   non-vacuity examples of props/C12.v: it meets both hypotheses and shrinks two particular inputs, so that both
   outcomes of the size comparison can be exhibited by computation *)
Lemma list_eqb_eq : forall a b : list N, list_eqb N.eqb a b = true -> a = b.
Proof.
  induction a as [|x a IH]; intros [|y b] H; try discriminate; [reflexivity|].
  cbn [list_eqb] in H. apply andb_prop in H. destruct H as [H1 H2].
  apply N.eqb_eq in H1. subst. f_equal. apply IH, H2.
Qed.

Definition toy_low : list N := [0;2;3;1;1;2;0;2;2;0;2;0;2;2;2;3;2;1;3;3].
Definition toy_s1 : list N := repeat 0 12.
Definition toy_s2 : list N := bytes_to_tuples toy_low.
Definition toy_zc (level : N) (x : list N) : list N :=
  if list_eqb N.eqb x toy_s1 then [7] else if list_eqb N.eqb x toy_s2 then [8] else 0 :: 1 :: x.
Definition toy_zd (c : list N) : option (list N) :=
  match c with
  | [7] => Some toy_s1
  | [8] => Some toy_s2
  | _ :: _ :: x => Some x
  | _ => None
  end.

Lemma toy_ok : (forall level x, toy_zd (toy_zc level x) = Some x) /\
               (forall level x, x <> [] -> toy_zc level x <> []).
Proof.
  split; intros level x; unfold toy_zc.
  - destruct (list_eqb N.eqb x toy_s1) eqn:E1; [apply list_eqb_eq in E1; subst; reflexivity|].
    destruct (list_eqb N.eqb x toy_s2) eqn:E2; [apply list_eqb_eq in E2; subst; reflexivity|]. reflexivity.
  - intros _. destruct (list_eqb N.eqb x toy_s1); [discriminate|]. destruct (list_eqb N.eqb x toy_s2); discriminate.
Qed.
